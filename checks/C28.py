"""C28  The zone allocator is a correct best-fit allocator.

spec/Zone/BestFit.tla    abstract zone: live blocks over N units, malloc = beginning of a best-fitting free run
spec/Zone/ZoneTrace.tla  validates every real operation: result (inside, aligned, no overlap, best fit, NULL iff no
                         room), zone_in_use, the segment table (= abstract state, free runs merged) and the
                         allocator's red-black tree (valid, holds exactly the free runs by size)
Behaviours: TLC breadth-first = every malloc/free sequence up to a bound on small zones; TLC -simulate = long random
walks on larger zones; each replayed on the real zone_malloc/zone_free (harness/zone/zone_replay.c).
"""
import json
import os

from lib import mcgen, tlc, tracecheck

META = {
    "level": "model_checking",
    "text": "TLC enumerates every malloc/free sequence of BestFit.tla up to a bound on 8- and 16-unit zones (and "
            "simulates long walks on 48-64 unit zones); each is replayed on the real zone_malloc/zone_free, which log the "
            "returned address, zone_in_use, the whole segment table and the red-black tree of free-run sizes after every "
            "operation; TLC validates each step (inside the zone, unit aligned, no overlap, best fit, NULL iff no run is "
            "large enough, in-use = sum of live blocks, free neighbours merged, tree valid and consistent).",
    "note": "Exhaustive for all sequences of <= 6 operations (8 units) and <= 5 operations (16 units) in quick, 7 / 6 in "
            "thorough, with request sizes that exercise rounding up to the unit; random walks of 60-150 operations on "
            "larger zones beyond that. Single caller (the allocator serialises callers with one lock). The harness reads "
            "the private chunk-list node layout (checked against the tree's key offset). Trusted: TLC, the harness' bounded walks.",
    "technique": "TLA+ spec behaviours (TLC BFS + simulate) replayed on real code + trace validation with structural invariants",
}

UNIT = 4


def to_line(h):
    return ";".join(("m %d" % o["b"]) if o["op"] == "m" else ("f %d" % o["h"]) for o in h)


def run(ctx):
    d = ctx.stage("Zone")
    exe = ctx.harness("zone_replay", ["harness/zone/zone_replay.c"])
    groups = {}          # N -> list of behaviours

    def add(n, h):
        groups.setdefault(n, {})[to_line(h)] = h

    if ctx.quick:
        bfs = [(8, {1, 5, 9}, 6), (16, {4, 8, 20}, 5)]
        sims = [(48, set(range(0, 41, 3)), 60, 300)]
    else:
        bfs = [(8, {1, 5, 9}, 7), (16, {4, 8, 20}, 6)]
        sims = [(48, set(range(0, 41, 3)), 80, 1000), (64, set(range(0, 61, 5)) | {1, 2}, 150, 500)]
    for n, by, ml in bfs:
        mod, cfg = mcgen.write_mc(d, "bfs%d" % n, "BestFit", {"N": n, "Unit": UNIT, "Bytes": by, "MaxLen": ml},
                                  invariants=("TypeOK", "Emit"))
        r = ctx.tlc_check(d, mod, cfg, must_cover=("Malloc", "Free"), workers=4, timeout=1500)
        for l in r.printed:
            h = tlc._parse_tla_string_list(l)
            if h:
                add(n, h)
    n_bfs = sum(len(g) for g in groups.values())
    ctx.exhaustive = True
    for n, by, depth, num in sims:
        mod, cfg = mcgen.write_mc(d, "sim%d" % n, "BestFit", {"N": n, "Unit": UNIT, "Bytes": by, "MaxLen": depth},
                                  invariants=("TypeOK", "Emit"))
        for h in ctx.tlc_histories(d, mod, cfg, num, depth + 1, workers=4):
            add(n, h)
    total = sum(len(g) for g in groups.values())
    ctx.extra["behaviours_bfs"] = n_bfs
    ctx.extra["behaviours_sim"] = total - n_bfs
    ctx.evaluations = total
    for n in sorted(groups):
        lines = sorted(groups[n])
        hp = os.path.join(ctx.scratch, "hist%d.txt" % n)
        with open(hp, "w") as f:
            for ln in lines:
                f.write(ln + "\n")
        tr = os.path.join(ctx.scratch, "trace%d.ndjson" % n)
        rc, out, err = ctx.run_cmd([exe, hp, tr, str(n), str(UNIT)], timeout=900)
        exs = tracecheck.split_executions(tracecheck.read_ndjson(tr)) if os.path.exists(tr) else []
        if rc != 0:
            k = max(0, len(exs) - 1)
            crash = {"e": "Crash", "rc": str(rc), "behaviour": lines[k] if k < len(lines) else "", "stderr": err[-200:]}
            if exs:
                exs[k] = exs[k] + [crash]
            else:
                exs = [[crash]]
        if exs and exs[0]:
            ctx.sample({"zone_units": n, "behaviour": lines[0], "last_logged_event": exs[0][-1]})
        cfgname = "ZoneTrace_%d.cfg" % n
        with open(os.path.join(d, cfgname), "w") as f:
            f.write("SPECIFICATION TSpec\nCONSTANTS N = %d\n Unit = %d\n Bytes = {}\n MaxLen = 0\nINVARIANT AcceptExit\n"
                    "CHECK_DEADLOCK FALSE\n" % (n, UNIT))
        fails = ctx.validate(d, "ZoneTrace", cfgname, exs, batch=1500 if n <= 16 else 100, timeout=1500)
        for f in fails:
            ctx.violation("real zone allocator (zone of %d units) diverges from BestFit.tla / breaks a structural invariant: %s"
                          % (n, json.dumps(f.describe())[:1500]),
                          {"units": n, "events": f.execution, "detail": f.describe()})
    ctx.assume("blocks are freed once, by the address zone_malloc returned")


def replay(ctx, obj):
    d = ctx.stage("Zone")
    cfgname = "ZoneTrace_r.cfg"
    with open(os.path.join(d, cfgname), "w") as f:
        f.write("SPECIFICATION TSpec\nCONSTANTS N = %d\n Unit = %d\n Bytes = {}\n MaxLen = 0\nINVARIANT AcceptExit\n"
                "CHECK_DEADLOCK FALSE\n" % (obj["units"], UNIT))
    for f in ctx.validate(d, "ZoneTrace", cfgname, [obj["events"]]):
        ctx.violation("recorded trace still rejected: %s" % json.dumps(f.describe())[:1000], obj)
