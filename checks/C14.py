"""C14  The communication engine delivers every message exactly once and intact.

spec/Comm/Engine.tla       abstract engine: active messages (send / deliver), one-sided put / get (issue, remote
                           completion, local completion); source of the workloads (TLC -simulate)
spec/Comm/EngineTrace.tla  per-process cursors over the logs of a real MPI run: every delivery / completion must match
                           exactly one message / transfer in flight with identical length and checksum; nothing left over

1. TLC, exhaustive on Engine.tla for a small bound (every sequence of <= MaxOps operations, every delivery order):
   TypeOK, every maximal behaviour ends with everything delivered / completed.
2. Workloads: TLC -simulate behaviours of Engine.tla (2-3 processes, 3 tags, message sizes 0..4000, regions 0..4 MiB).
3. Real code: a test-owned MPI program (harness/commengine/ce_mpi.c) drives the real engine through the parsec_ce table
   (tag_register, send_am, mem_register, put, get, progress) on 2-3 ranks under mpiexec, for several request-window
   settings (runtime_comm_mpi_am_posted/tested/dynamic(_recv)_requests), in two issue modes (interleaved with progress /
   everything issued before any progress).  Per-rank ndjson logs are merged by TLC with per-rank cursors.
4. Two directed inputs reproduce genuine defects of the engine (see the report / fixes/C14-*.diff):
   key "put-get-tag-clash"      a put p->q and a get by q from p outstanding together use the same MPI tag
   key "dynamic-window-all-recv" with dynamic_recv_requests == dynamic_requests two opposite gets deadlock
"""
import json
import os

from lib import mcgen, tlc, tracecheck, vbuild

META = {
    "level": "model_checking",
    "text": "TLC checks the abstract engine (active messages and one-sided transfers complete exactly once) exhaustively "
            "for a small bound and generates workloads by simulation; a test-owned MPI program drives the real "
            "parsec_ce engine (send_am, put, get, progress) on 2-3 ranks for several request-window settings and issue "
            "modes; TLC merges the per-rank logs with per-rank cursors and accepts a run only if every delivery and "
            "completion matches exactly one send / transfer with identical length and checksum and nothing is left over.",
    "note": "Sampled: TLC-simulated workloads of 10-24 operations, message sizes 0..4000 bytes, regions 0..4 MiB, windows "
            "from 1 up.  Workloads of the class MixedDirection and the window setting dynamic_recv == dynamic are run as "
            "separate directed inputs (they expose two genuine defects; fixes in fixes/C14-*.diff).  A hang is declared "
            "after a generous floor without any completion and re-confirmed by a rerun.  Trusted: TLC, Open MPI, the harness.",
    "technique": "TLA+ abstract engine (TLC) + TLC-simulated workloads run on the real engine under MPI + per-rank-cursor "
                 "trace validation (TLC)",
}

AM_SIZES = {0, 1, 16, 1000, 4000}
XF_SIZES = {0, 1, 4096, 65536, 1048576, 4194304}
JVM_ENV = {"JAVA_TOOL_OPTIONS": "-Xss16m"}


def wl_line(mode, ops, am_cap=None):
    out = []
    for o in ops:
        n = o["len"]
        if o["op"] == "am" and am_cap is not None:
            n = min(n, am_cap)
        out.append("%s %d %d %d %d" % (o["op"], o["p"], o["q"], o["tag"], n))
    return "%s %s" % (mode, ";".join(out))


def mpi_run(ctx, exe, np_, params, lines, tag, floor=30):
    """One mpiexec run over several workloads.  Returns the list of merged executions (one per workload)."""
    wf = os.path.join(ctx.scratch, "wl-%s.txt" % tag)
    with open(wf, "w") as f:
        f.write("\n".join(lines) + "\n")
    prefix = os.path.join(ctx.scratch, "ce-%s" % tag)
    for r in range(np_):
        try:
            os.unlink("%s.%d.ndjson" % (prefix, r))
        except OSError:
            pass
    names = ("am_posted_requests", "am_tested_requests", "dynamic_requests", "dynamic_recv_requests")
    env = {"PARSEC_MCA_runtime_comm_mpi_" + k: str(v) for k, v in zip(names, params)}
    rc, out, err = ctx.run_cmd(vbuild.mpirun(np_) + [exe, wf, prefix, str(floor)], timeout=900, env=env)
    per = []
    for r in range(np_):
        p = "%s.%d.ndjson" % (prefix, r)
        per.append(tracecheck.split_executions(tracecheck.read_ndjson(p)) if os.path.exists(p) and os.path.getsize(p) else [[]])
    execs = []
    for k in range(len(lines)):
        parts = [per[r][k] if k < len(per[r]) else [] for r in range(np_)]
        complete = all(p and p[-1].get("e") == "done" for p in parts)
        if rc != 0 and not complete:
            # the run died (MPI error / abort / hang) in this workload or before it
            if not any(parts):
                execs.append(None)                    # never started
                continue
            parts[0] = parts[0] + [{"e": "Crash", "p": 0, "rc": str(rc), "stderr": (err or out)[-400:]}]
        ex = [{"e": "exec", "np": np_, "lens": [len(p) for p in parts]}]
        for p in parts:
            ex += p
        execs.append(ex)
    return execs


def rejected_once(ctx, events):
    p = os.path.join(ctx.scratch, "single.ndjson")
    with open(p, "w") as f:
        for ev in events:
            f.write(json.dumps(ev, separators=(",", ":")) + "\n")
    v, r = tracecheck.validate_file(ctx.spec("Comm"), "EngineTrace", "EngineTrace.cfg", p, env=JVM_ENV)
    ctx.extra["trace_tlc_runs"] = ctx.extra.get("trace_tlc_runs", 0) + 1
    ctx.states += r.distinct
    return not v.accepted


def run(ctx):
    d = ctx.stage("Comm")
    exe = ctx.harness("ce_mpi", ["harness/commengine/ce_mpi.c"])

    # ---- 1. the abstract engine, exhaustive for a small bound --------------------------------------------------------------
    mod, cfg = mcgen.write_mc(d, "eng", "Engine", {"NP": 2, "Tags": {0, 1}, "AmSizes": {0, 8}, "XferSizes": {64},
                                                   "MaxOps": 2 if ctx.quick else 3, "Mixed": True},
                              invariants=("TypeOK", "Completes"))
    ctx.tlc_check(d, mod, cfg, must_cover=("SendAM", "DeliverAM", "Xfer", "XferRemote", "XferLocal"), workers=2, timeout=1500)
    ctx.exhaustive = False

    # ---- 2. workloads ---------------------------------------------------------------------------------------------------------------
    plain, mixed = {}, {}
    for np_, nops, num in ((2, 12, 24), (3, 20, 36)) if ctx.quick else ((2, 16, 120), (3, 24, 160)):
        for name, flag, store, cnt in (("plain", False, plain, num), ("mixed", True, mixed, max(8, num // 6))):
            mod, cfg = mcgen.write_mc(d, "engsim%d%s" % (np_, name), "Engine",
                                      {"NP": np_, "Tags": {0, 1, 2}, "AmSizes": AM_SIZES, "XferSizes": XF_SIZES,
                                       "MaxOps": nops, "Mixed": flag}, invariants=("Emit",))
            hs = ctx.tlc_histories(d, mod, cfg, cnt, 3 * nops + 2, workers=2, timeout=900)
            store[np_] = [h["ops"] for h in hs if h["mixed"] == flag]
    ctx.extra["workloads"] = {str(k): {"plain": len(plain[k]), "mixed_direction": len(mixed[k])} for k in plain}

    # ---- 3. the real engine under MPI -----------------------------------------------------------------------------------------------
    # (np, (posted, tested, dynamic, dynamic_recv)); 0 = runtime default
    configs = [(2, (0, 0, 0, 0)), (3, (0, 0, 0, 0)), (2, (1, 1, 2, 1)), (3, (1, 1, 3, 1)), (3, (2, 1, 2, 1)), (2, (4, 2, 4, 2))]
    if not ctx.quick:
        configs += [(3, (1, 1, 30, 15)), (2, (2, 2, 3, 2)), (3, (8, 2, 8, 3)), (2, (1, 1, 5, 4)), (3, (3, 3, 4, 1)), (2, (16, 4, 2, 1))]
    per_run = 4 if ctx.quick else 8
    executions, origin = [], []
    cursor = {2: 0, 3: 0}
    for ci, (np_, params) in enumerate(configs):
        pool = plain[np_]
        if not pool:
            continue
        lines = []
        for j in range(per_run):
            ops = pool[(cursor[np_] + j) % len(pool)]
            mode = "B" if j % 2 else "I"
            lines.append(wl_line(mode, ops, am_cap=1000 if mode == "B" else None))
        cursor[np_] += per_run
        exs = mpi_run(ctx, exe, np_, params, lines, "c%d" % ci)
        for line, ex in zip(lines, exs):
            if ex is None:
                continue
            executions.append(ex)
            origin.append({"np": np_, "params": params, "workload": line})
    ctx.evaluations = len(executions)
    ctx.extra["mpi_runs"] = len(configs)
    if executions:
        ctx.sample({"config": origin[0], "merged_log_head": executions[0][:12]})
    fails = ctx.validate("Comm", "EngineTrace", "EngineTrace.cfg", executions, batch=400, env=JVM_ENV, timeout=1500)
    for f in fails:
        o = origin[f.index]
        # a crash / hang is re-confirmed by a rerun of that workload alone before it is reported
        again = mpi_run(ctx, exe, o["np"], o["params"], [o["workload"]], "confirm")
        if again[0] is not None and not rejected_once(ctx, again[0]):
            ctx.extra["not_reproduced"] = ctx.extra.get("not_reproduced", 0) + 1
            continue
        ctx.violation("communication engine: a message / transfer was lost, duplicated, altered or never completed: np=%d "
                      "windows(posted,tested,dynamic,dynamic_recv)=%s workload=%s" % (o["np"], o["params"], o["workload"]),
                      dict(o, events=f.execution))

    # ---- 4. directed inputs of the two defect classes ----------------------------------------------------------------------------------
    clash = "B put 0 1 0 4096;get 1 0 0 4096"
    exs = mpi_run(ctx, exe, 2, (0, 0, 0, 0), [clash], "clash")
    ctx.evaluations += 1
    if exs[0] is not None and rejected_once(ctx, exs[0]):
        ctx.violation("communication engine: a put 0->1 and a get by 1 from 0 outstanding together exchange their data (both use "
                      "MPI tag 0 from rank 0 to rank 1): %s" % clash,
                      {"np": 2, "params": (0, 0, 0, 0), "workload": clash, "events": exs[0]}, key="put-get-tag-clash")
    dead = "B get 0 1 0 8;get 1 0 0 8"
    exs = mpi_run(ctx, exe, 2, (0, 0, 1, 1), [dead], "dead", floor=8)
    ctx.evaluations += 1
    if exs[0] is not None and rejected_once(ctx, exs[0]):
        exs = mpi_run(ctx, exe, 2, (0, 0, 1, 1), [dead], "dead2", floor=16)       # confirm the hang with a longer floor
        if exs[0] is not None and rejected_once(ctx, exs[0]):
            ctx.violation("communication engine: with runtime_comm_mpi_dynamic_requests=1 (dynamic_recv_requests = dynamic_requests) "
                          "two opposite gets never complete: every dynamic slot holds a receive, the replies cannot be posted: %s" % dead,
                          {"np": 2, "params": (0, 0, 1, 1), "workload": dead, "events": exs[0]}, key="dynamic-window-all-recv")
    # a few TLC workloads of the class MixedDirection, one mpiexec run each (a tag clash may abort the whole run)
    nm = 0
    for np_ in (2, 3):
        for ops in mixed[np_][:(1 if ctx.quick else 4)]:
            line = wl_line("I", ops)
            exs = mpi_run(ctx, exe, np_, (0, 0, 0, 0), [line], "mixed%d" % nm)
            nm += 1
            ctx.evaluations += 1
            if exs[0] is not None and rejected_once(ctx, exs[0]):
                ctx.violation("communication engine: mixed-direction put/get workload: %s" % line,
                              {"np": np_, "params": (0, 0, 0, 0), "workload": line, "events": exs[0]}, key="put-get-tag-clash")
    ctx.extra["mixed_direction_runs"] = nm
    ctx.traces = ctx.evaluations

    # ---- binding self-test: one altered checksum must be rejected -----------------------------------------------------------------------
    good = [e for e in executions if any(ev.get("e") == "deliver" for ev in e)]
    if good and not fails:
        ex = json.loads(json.dumps(good[0]))
        for ev in ex:
            if ev.get("e") == "deliver":
                ev["sum"] = (ev["sum"] + 1) % 2147483647
                break
        if not rejected_once(ctx, ex):
            raise tlc.TLCError("binding self-test: a delivery with an altered checksum was accepted by EngineTrace")
    ctx.assume("the communication thread of the runtime is never started: the harness' main thread is the only user of the engine")
    ctx.assume("put/get transfer the whole registered region (count x datatype of the handle), as the engine defines it")


def replay(ctx, obj):
    exe = ctx.harness("ce_mpi", ["harness/commengine/ce_mpi.c"])
    exs = mpi_run(ctx, exe, obj["np"], tuple(obj["params"]), [obj["workload"]], "replay")
    if exs[0] is None or rejected_once(ctx, exs[0]):
        ctx.violation("still rejected: np=%s windows=%s workload=%s" % (obj["np"], obj["params"], obj["workload"]), obj,
                      key=obj.get("key"))
