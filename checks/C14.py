"""C14  The communication engine delivers every message exactly once and intact.

spec/Comm/Engine.tla       abstract engine (= the property): active messages (send / deliver), one-sided put / get (issue,
                           remote completion, local completion); source of general workloads (TLC -simulate)
spec/Comm/EngineImpl.tla   implementation-shaped model of the dynamic request window of parsec_mpi_funnelled.c: D slots, at
                           most R receives (as mpi_funnelled_normalize_params computes them from the two runtime parameters),
                           dynamic_recvreq_fifo / dynamic_sendreq_fifo, the 3-message handshake of put / get, a slot freed on
                           completion and refilled by mpi_no_thread_push_posted_req; refines Engine.tla
spec/Comm/EngineTrace.tla  per-process cursors over the logs of a real MPI run: every delivery / completion must match
                           exactly one message / transfer in flight with identical length and checksum; nothing left over

1. TLC, exhaustive: Engine.tla for a small bound; EngineImpl.tla: TypeOK, WindowOK, NoDeadlock (while a transfer is incomplete the
   engine can move: no workload of the bound, however interleaved, blocks the window when R < D) and the refinement of
   Engine.tla.  Sensitivity: the weakened models "nocap" (R = D, the old defect fixed by 8b92ffd) and "pushge" (a parked receive
   admitted while R >= installed receives) MUST violate NoDeadlock.
2. Workloads: (a) TLC -simulate behaviours of Engine.tla (2-3 processes, 3 tags, sizes 0..4 MiB); (b) TLC -simulate behaviours of
   EngineImpl.tla for D in {2, 3, 5}: the behaviours of the weakened model that end stuck, and the behaviours of the real
   model in which the queues of two processes are deepest at the same time (history variable peak); (c) a fixed family:
   K opposite gets per process, K in {2, 4, 8, 16}, 8 B / 1 KiB / 64 KiB.
3. Real code: a test-owned MPI program (harness/commengine/ce_mpi.c) drives the real engine through the parsec_ce table
   (tag_register, send_am, mem_register, put, get, progress) on 2-3 ranks under mpiexec; the window workloads run with
   runtime_comm_mpi_dynamic_requests = the D they were generated for (receive share = D-1 and other shares in the
   thorough tier), am_posted / am_tested requests from default down to 1, in two issue modes (interleaved with progress /
   everything issued before any progress).  Per-rank ndjson logs are merged by TLC with per-rank cursors.
   A hang (no completion on a rank for the floor of 30 s) is reported only when a rerun of that workload alone hangs again.
4. Regression inputs of the two defects found earlier (fixed in /repo: 5017463, 8b92ffd).
"""
import json
import os

from lib import mcgen, tlc, tracecheck, vbuild

META = {
    "level": "model_checking",
    "text": "TLC checks the abstract engine (active messages and one-sided transfers complete exactly once) and an "
            "implementation-shaped model of the dynamic request window (slots, receive share, the two queues, the put/get "
            "handshake) exhaustively for a small bound: the window never blocks, the model refines the abstract engine, and "
            "the weakened window models do deadlock.  TLC-simulated workloads of both models (general ones, and the ones "
            "that overflow the window on two processes at once) plus a fixed family of opposite gets are run by a "
            "test-owned MPI program on the real parsec_ce engine (send_am, put, get, progress) on 2-3 ranks, for window "
            "sizes 2, 3, 5 and default and two issue modes; TLC merges the per-rank logs with per-rank cursors and accepts a run "
            "only if every delivery and completion matches exactly one send / transfer with identical length and checksum and "
            "nothing is left over.",
    "note": "Exhaustive: window model for 2 processes, 4 operations (2 per process), D = 2 (quick) / 5 operations (3 per process), "
            "D = 2 and 3 (thorough), every order of handshake arrival and completion.  Sampled: "
            "TLC-simulated workloads of 10-24 operations, message sizes 0..4000 bytes, regions 0..4 MiB, windows from 1 up.  A "
            "hang is declared after a generous floor without any completion and re-confirmed by a rerun.  Trusted: TLC, Open MPI, "
            "the harness; the timing of MPI completions is not controlled.",
    "technique": "TLA+ abstract engine + refined request-window model (TLC, with weakened-model sensitivity) + TLC-generated "
                 "workloads run on the real engine under MPI + per-rank-cursor trace validation (TLC)",
}

AM_SIZES = {0, 1, 16, 1000, 4000}
XF_SIZES = {0, 1, 4096, 65536, 1048576, 4194304}
JVM_ENV = {"JAVA_TOOL_OPTIONS": "-Xss16m"}
AM_WINDOWS = [(0, 0), (1, 1), (2, 1), (2, 2)]           # (am_posted, am_tested) requests; 0 = runtime default
CLASS_LEN = {"s": (8, 1024), "l": (65536, 200000)}      # payload classes of EngineImpl.tla (eager / rendezvous)
WINDOWS = (2, 3, 5)
PARAM_NAMES = ("am_posted_requests", "am_tested_requests", "dynamic_requests", "dynamic_recv_requests")


def wl_line(mode, ops, am_cap=None):
    out = []
    for o in ops:
        n = o["len"]
        if o["op"] == "am" and am_cap is not None:
            n = min(n, am_cap)
        out.append("%s %d %d %d %d" % (o["op"], o["p"], o["q"], o["tag"], n))
    return "%s %s" % (mode, ";".join(out))


def concrete(ops, rng):
    """Operations of EngineImpl.tla (payload class) -> operations of the harness (payload length)."""
    out = []
    for o in ops:
        n = rng.choice(CLASS_LEN[o["cls"]])
        if o["op"] == "am":
            n = min(n, 1000)
        out.append({"op": o["op"], "p": o["p"], "q": o["q"], "tag": 0, "len": n})
    return out


def family(np_, ks, sizes):
    """K gets per process from its neighbour (2 processes: opposite gets), all of one size."""
    out = []
    for k in ks:
        for n in sizes:
            ops = []
            for _ in range(k):
                for p in range(np_):
                    ops.append({"op": "get", "p": p, "q": (p + 1) % np_, "tag": 0, "len": n})
            out.append(ops)
    return out


def mpi_run(ctx, exe, np_, params, lines, tag, floor=30):
    """One mpiexec run over several workloads.  Returns the list of merged executions (one per workload).
    params = (am_posted, am_tested, dynamic, dynamic_recv) requests; None = parameter not set at all."""
    wf = os.path.join(ctx.scratch, "wl-%s.txt" % tag)
    with open(wf, "w") as f:
        f.write("\n".join(lines) + "\n")
    prefix = os.path.join(ctx.scratch, "ce-%s" % tag)
    for r in range(np_):
        try:
            os.unlink("%s.%d.ndjson" % (prefix, r))
        except OSError:
            pass
    env = {"PARSEC_MCA_runtime_comm_mpi_" + k: str(v) for k, v in zip(PARAM_NAMES, params) if v is not None}
    rc, out, err = ctx.run_cmd(vbuild.mpirun(np_) + [exe, wf, prefix, str(floor)], timeout=900 + 12 * floor, env=env)
    ctx.extra["mpi_runs"] = ctx.extra.get("mpi_runs", 0) + 1
    per = []
    for r in range(np_):
        p = "%s.%d.ndjson" % (prefix, r)
        per.append(tracecheck.split_executions(tracecheck.read_ndjson(p)) if os.path.exists(p) and os.path.getsize(p) else [[]])
    execs = []
    for k in range(len(lines)):
        parts = [per[r][k] if k < len(per[r]) else [] for r in range(np_)]
        complete = all(p and p[-1].get("e") == "done" for p in parts)
        if rc != 0 and not complete:
            # the run died (MPI error / abort / hang) in this workload or before it
            if not any(parts):
                execs.append(None)                    # never started
                continue
            parts[0] = parts[0] + [{"e": "Crash", "p": 0, "rc": str(rc), "stderr": (err or out)[-400:]}]
        ex = [{"e": "exec", "np": np_, "lens": [len(p) for p in parts]}]
        for p in parts:
            ex += p
        execs.append(ex)
    return execs


def rejected_once(ctx, events):
    p = os.path.join(ctx.scratch, "single.ndjson")
    with open(p, "w") as f:
        for ev in events:
            f.write(json.dumps(ev, separators=(",", ":")) + "\n")
    v, r = tracecheck.validate_file(ctx.spec("Comm"), "EngineTrace", "EngineTrace.cfg", p, env=JVM_ENV)
    ctx.extra["trace_tlc_runs"] = ctx.extra.get("trace_tlc_runs", 0) + 1
    ctx.states += r.distinct
    return not v.accepted


def suspicious(ex):
    return any(ev.get("e") in ("Crash", "timeout", "garbage") for ev in ex)


class Campaign(object):
    """The MPI runs of one check: executions are validated in one batch at the end, except the ones of a run that died,
    which are validated (and re-confirmed) at once; after a confirmed violation no further run is started."""

    def __init__(self, ctx, exe):
        self.ctx, self.exe = ctx, exe
        self.executions, self.origin, self.done = [], [], 0
        self.stopped = False
        self.nlaunch = 0

    def launch(self, np_, params, lines, what):
        if self.stopped or not lines:
            if self.stopped:
                self.ctx.extra["runs_skipped_after_violation"] = self.ctx.extra.get("runs_skipped_after_violation", 0) + 1
            return
        self.nlaunch += 1
        exs = mpi_run(self.ctx, self.exe, np_, params, lines, "r%d" % self.nlaunch)
        first = len(self.executions)
        for line, ex in zip(lines, exs):
            if ex is None:
                continue
            self.executions.append(ex)
            self.origin.append({"np": np_, "params": list(params), "workload": line, "family": what})
        if any(suspicious(ex) for ex in self.executions[first:]):
            self.validate()

    def validate(self):
        """Validate everything not validated yet; failures are re-confirmed by a rerun of that workload alone."""
        ctx = self.ctx
        todo = list(range(self.done, len(self.executions)))
        self.done = len(self.executions)
        if not todo:
            return
        fails = ctx.validate("Comm", "EngineTrace", "EngineTrace.cfg", [self.executions[i] for i in todo], batch=400,
                             env=JVM_ENV, timeout=1500)
        for f in fails:
            o = self.origin[todo[f.index]]
            again = mpi_run(ctx, self.exe, o["np"], tuple(o["params"]), [o["workload"]], "confirm")
            if again[0] is not None and not rejected_once(ctx, again[0]):
                ctx.extra["not_reproduced"] = ctx.extra.get("not_reproduced", 0) + 1
                continue
            self.stopped = True
            ctx.violation("communication engine: a message / transfer was lost, duplicated, altered or never completed (%s): np=%d "
                          "requests(am_posted,am_tested,dynamic,dynamic_recv)=%s workload=%s"
                          % (o["family"], o["np"], o["params"], o["workload"]), dict(o, events=f.execution))


def run(ctx):
    d = ctx.stage("Comm")
    exe = ctx.harness("ce_mpi", ["harness/commengine/ce_mpi.c"])
    rng = ctx.rng

    # ---- 1. the abstract engine and the request-window model, exhaustive for a small bound -------------------------------------
    mod, cfg = mcgen.write_mc(d, "eng", "Engine", {"NP": 2, "Tags": {0, 1}, "AmSizes": {0, 8}, "XferSizes": {64},
                                                   "MaxOps": 2 if ctx.quick else 3, "Mixed": True},
                              invariants=("TypeOK", "Completes"))
    ctx.tlc_check(d, mod, cfg, must_cover=("SendAM", "DeliverAM", "Xfer", "XferRemote", "XferLocal"), workers=2, timeout=1500)
    # quick: 14k states; thorough: 470k states (a 6th operation or a third setting costs > 10 min of CPU).  One payload class is
    # enough here: a send of class "s" only has MORE completions enabled, and a send waiting for its receive to exist implies a
    # handshake message that can still arrive, so the stuck states are the same; simulation (below) uses both classes.
    win = {"NP": 2, "Settings": {(2, 15)} if ctx.quick else {(2, 15), (3, 15)}, "MaxOps": 4 if ctx.quick else 5,
           "MaxPer": 2 if ctx.quick else 3, "Kinds": {"get", "put"}, "Classes": {"l"}, "Variants": {"ok"}}
    mod, cfg = mcgen.write_mc(d, "win", "EngineImpl", win, invariants=("TypeOK", "WindowOK", "NoDeadlock"),
                              properties=("Refines",), view="NoHist")
    ctx.tlc_check(d, mod, cfg, must_cover=("Issue", "AmArrive", "SendDone", "RecvDone"), workers=4, timeout=3000)
    # sensitivity: the weakened window models must deadlock (shortest counter-example of the BFS)
    for variant, settings in (("nocap", {(1, 15), (2, 2)}), ("pushge", {(2, 15)})):
        mod, cfg = mcgen.write_mc(d, "win_" + variant, "EngineImpl",
                                  dict(win, Settings=settings, MaxOps=4, MaxPer=2, Kinds={"get"}, Classes={"l"}, Variants={variant}),
                                  invariants=("TypeOK", "NoDeadlock"), view="NoHist")
        r = ctx.tlc_check(d, mod, cfg, expect_ok=False, workers=1, timeout=1500)
        if r.violated != "NoDeadlock":
            raise tlc.TLCError("sensitivity self-test: the weakened window model '%s' (receives may fill every dynamic slot) "
                               "does not deadlock in EngineImpl.tla (%s)" % (variant, r.violated))
        ctx.extra.setdefault("weakened_models_deadlock", []).append(variant)
    ctx.exhaustive = False

    # ---- 2. workloads ---------------------------------------------------------------------------------------------------------------
    general = {}
    for np_, nops, num in ((2, 12, 24), (3, 20, 24)) if ctx.quick else ((2, 16, 120), (3, 24, 160)):
        mod, cfg = mcgen.write_mc(d, "engsim%d" % np_, "Engine",
                                  {"NP": np_, "Tags": {0, 1, 2}, "AmSizes": AM_SIZES, "XferSizes": XF_SIZES,
                                   "MaxOps": nops, "Mixed": True}, invariants=("Emit",))
        hs = ctx.tlc_histories(d, mod, cfg, num, 3 * nops + 2, workers=2, timeout=900)
        general[np_] = [h["ops"] for h in hs]
    # behaviours of the window model: stuck[np][D] (weakened model, ended stuck), deep[np][D] (real model, by peak)
    stuck, deep = {}, {}
    for np_, nops, per, num in ((2, 16, 8, 64), (3, 18, 6, 64)) if ctx.quick else ((2, 20, 10, 400), (3, 24, 8, 400)):
        mod, cfg = mcgen.write_mc(d, "winsim%d" % np_, "EngineImpl",
                                  {"NP": np_, "Settings": {(w, 15) for w in WINDOWS}, "MaxOps": nops, "MaxPer": per,
                                   "Kinds": {"get", "put"}, "Classes": {"s", "l"}, "Variants": {"ok", "pushge"}},
                                  invariants=("Emit",))
        hs = ctx.tlc_histories(d, mod, cfg, num, 4 * nops + 4, workers=2, timeout=900)
        stuck[np_] = {w: [h for h in hs if h["pd"] == w and h["variant"] == "pushge" and h["stuck"]] for w in WINDOWS}
        deep[np_] = {w: sorted([h for h in hs if h["pd"] == w and h["variant"] == "ok" and h["peak"] >= 1],
                               key=lambda h: -h["peak"]) for w in WINDOWS}
    ctx.extra["workloads"] = {"general": {str(k): len(v) for k, v in general.items()},
                              "window_stuck_in_weakened_model": {"%d ranks D=%d" % (k, w): len(v[w]) for k, v in stuck.items() for w in v},
                              "window_deepest": {"%d ranks D=%d" % (k, w): [h["peak"] for h in v[w][:3]] for k, v in deep.items() for w in v}}

    # ---- 3. the real engine under MPI -----------------------------------------------------------------------------------------------
    camp = Campaign(ctx, exe)
    rot = ctx.seed
    # 3a. the window workloads of TLC, with the window they were generated for; receive share D-1 (parameter left at its
    #     default 15, capped by normalize_params) and, thorough, other shares
    nw = 0
    for np_ in (2, 3):
        for w in WINDOWS:
            pick = stuck[np_][w][:2 if ctx.quick else 6] + deep[np_][w][:1 if ctx.quick else 4]
            if not pick:
                continue
            lines = []
            for h in pick:
                ops = concrete(h["ops"], rng)
                lines += [wl_line("B", ops), wl_line("I", ops)]
            nw += len(pick)
            if len(ctx.samples) < 1:
                ctx.sample({"window_workload_from_TLC": pick[0], "as_run": lines[0]})
            shares = [None] if ctx.quick else [None, w - 1, 0, 1, w]
            for share in shares:
                rot += 1
                posted, tested = AM_WINDOWS[rot % len(AM_WINDOWS)]
                camp.launch(np_, (posted, tested, w, share), lines, "window workload of EngineImpl.tla")
    ctx.extra["window_workloads_run"] = nw
    # 3b. the fixed family: K opposite gets per process
    sizes = (8, 1024, 65536)
    fam2 = family(2, (2, 4, 8, 16), sizes)
    fam3 = family(3, (2, 4, 8), sizes)
    lines2 = [wl_line(m, ops) for ops in fam2 for m in ("B", "I")]
    lines3 = [wl_line(m, ops) for ops in fam3 for m in ("B", "I")]
    for w in WINDOWS if ctx.quick else (1, 2, 3, 4, 5, 8, 0):
        rot += 1
        posted, tested = AM_WINDOWS[rot % len(AM_WINDOWS)]
        camp.launch(2, (posted, tested, w, None), lines2, "K opposite gets per process")
    for w in (2,) if ctx.quick else WINDOWS:
        rot += 1
        posted, tested = AM_WINDOWS[rot % len(AM_WINDOWS)]
        camp.launch(3, (posted, tested, w, None), lines3, "K gets per process around a ring")
    # 3c. general workloads of Engine.tla; (np, (posted, tested, dynamic, dynamic_recv)); 0 = runtime default
    configs = [(2, (0, 0, 0, 0)), (3, (0, 0, 0, 0)), (2, (1, 1, 2, 1)), (3, (1, 1, 3, 1))]
    if not ctx.quick:
        configs += [(3, (2, 1, 2, 1)), (2, (4, 2, 4, 2)), (3, (1, 1, 30, 15)), (2, (2, 2, 3, 2)), (3, (8, 2, 8, 3)), (2, (1, 1, 5, 4)), (3, (3, 3, 4, 1)), (2, (16, 4, 2, 1))]
    per_run = 4 if ctx.quick else 8
    cursor = {2: 0, 3: 0}
    for np_, params in configs:
        pool = general[np_]
        if not pool:
            continue
        lines = []
        for j in range(per_run):
            ops = pool[(cursor[np_] + j) % len(pool)]
            mode = "B" if j % 2 else "I"
            lines.append(wl_line(mode, ops, am_cap=1000 if mode == "B" else None))
        cursor[np_] += per_run
        camp.launch(np_, params, lines, "workload of Engine.tla")
    # 3d. regression inputs of the two defects found by this check earlier (fixed: 5017463 tag ranges, 8b92ffd send slot)
    camp.launch(2, (0, 0, 1, 1), ["B get 0 1 0 8;get 1 0 0 8", "B put 0 1 0 4096;get 1 0 0 4096",
                                  "I put 0 1 0 4096;get 1 0 0 4096"], "regression input")
    camp.validate()
    executions = camp.executions
    ctx.evaluations = len(executions)
    ctx.traces = ctx.evaluations
    if executions:
        ctx.sample({"config": camp.origin[0], "merged_log_head": executions[0][:12]})

    # ---- binding self-test: one altered checksum must be rejected -----------------------------------------------------------------------
    good = [e for e in executions if any(ev.get("e") == "getlocal" for ev in e) and not suspicious(e)]
    if good and not ctx.violations:
        ex = json.loads(json.dumps(min(good, key=len)))
        for ev in ex:
            if ev.get("e") == "getlocal":
                ev["sum"] = (ev["sum"] + 1) % 2147483647
                break
        if not rejected_once(ctx, ex):
            raise tlc.TLCError("binding self-test: a get completion with an altered checksum was accepted by EngineTrace")
    ctx.assume("the communication thread of the runtime is never started: the harness' main thread is the only user of the engine")
    ctx.assume("put/get transfer the whole registered region (count x datatype of the handle), as the engine defines it")
    ctx.assume("the order in which MPI completes requests is not controlled: EngineImpl.tla covers every order in the model, "
               "the real runs sample the orders that the two issue modes and the window settings produce")


def replay(ctx, obj):
    exe = ctx.harness("ce_mpi", ["harness/commengine/ce_mpi.c"])
    exs = mpi_run(ctx, exe, obj["np"], tuple(obj["params"]), [obj["workload"]], "replay")
    if exs[0] is None or rejected_once(ctx, exs[0]):
        ctx.violation("still rejected: np=%s windows=%s workload=%s" % (obj["np"], obj["params"], obj["workload"]), obj,
                      key=obj.get("key"))
