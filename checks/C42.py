"""C42  Profiling traces read back exactly as written.

spec/Prof/Log.tla       model of the buffered writer (per-stream events buffers of Avail bytes, switch_event_buffer when an
                        event does not fit, dbp_dump) with the invariant Read(s) = written[s]; TLC exhaustive on a small box;
                        TLC -simulate produces long behaviours (Trace steps over several streams, info sizes that straddle the
                        buffer boundaries) handed to the harness.
spec/Prof/LogTrace.tla  what the real reader returns per stream must be exactly what was traced (key, dictionary name, flags,
                        event id, taskpool id, info length, info checksum), in order, nothing lost, nothing invented.
harness/prof/prof_rw.c  writes each behaviour through the real parsec_profiling_* API (one pthread per stream) in the
                        -DPARSEC_PROF_TRACE=ON build, reads the .prof file back with tools/profiling/dbpreader.c.
"""
import json
import os

from lib import mcgen, tracecheck, vbuild

META = {
    "level": "model_checking",
    "text": "TLC checks the buffered-writer model of Log.tla (Read = written for every stream, no buffer overflow) "
            "exhaustively on a small box and simulates long multi-stream behaviours whose event sizes straddle the events "
            "buffer boundary; each behaviour is written through the real parsec_profiling_trace_flags API (one thread per "
            "stream, profiling-enabled build), the binary file is read back with the real dbpreader and TLC validates per "
            "stream that the events read are exactly the events written (key, flags, ids, info length and checksum, order).",
    "note": "Exhaustive model box: 2 streams, 2 dictionary entries, 3 events, buffer of 100 bytes. Real runs: quick 6 "
            "behaviours x 400 events, thorough 40 x 1200; 1-4 streams, 6 dictionary entries with info lengths 0..2000 bytes, "
            "4 KiB buffers, one process (rank 0). Info payloads are compared through a 31-bit checksum computed by the "
            "harness. Trusted: TLC, the harness' checksum.",
    "technique": "TLA+ writer model (TLC exhaustive + simulate) replayed on the real profiling API + read-back trace validation",
}

INFOLEN = [0, 8, 40, 333, 1000, 2000]
AVAIL = 4096 - 25        # event_avail_space for 4 KiB pages (offset of parsec_profiling_buffer_t.buffer)


def run(ctx):
    d = ctx.stage("Prof")
    prof = vbuild.ensure_prof_build()
    exe = vbuild.compile_harness("prof_rw", ["harness/prof/prof_rw.c", os.path.join(vbuild.REPO, "tools/profiling/dbpreader.c")],
                                 tree=prof, extra_cflags=["-I" + os.path.join(vbuild.REPO, "tools/profiling")])
    # ---- exhaustive small box ----------------------------------------------------------------------------
    mod, cfg = mcgen.write_mc(d, "small", "Log", {"Streams": {1, 2}, "InfoLen": [8, 40], "Avail": 100, "MaxLen": 3,
                                                  "FlagSet": {0} if ctx.quick else {0, 2}},
                              invariants=("TypeOK", "ReadIsWritten", "NoOverflow"))
    ctx.tlc_check(d, mod, cfg, must_cover=("TraceFits", "TraceSwitch", "Dump"), workers=2, timeout=1500)
    ctx.exhaustive = True
    # ---- behaviours ---------------------------------------------------------------------------------------
    behs = []
    plan = [(1, 300, 1), (2, 400, 2), (4, 400, 3)] if ctx.quick else [(1, 800, 8), (2, 1200, 12), (3, 1200, 8), (4, 1200, 12)]
    for ns, depth, num in plan:
        mod, cfg = mcgen.write_mc(d, "sim%d" % ns, "Log", {"Streams": set(range(1, ns + 1)), "InfoLen": INFOLEN, "Avail": AVAIL,
                                                            "MaxLen": depth, "FlagSet": {0, 2, 4}},
                                  invariants=("ReadIsWritten", "NoOverflow", "Emit"))
        hs = ctx.tlc_histories(d, mod, cfg, num, depth + 2, workers=min(2, num), timeout=1500)
        behs.extend((ns, h) for h in hs)
    if not behs:
        raise RuntimeError("TLC simulation produced no behaviour")
    ctx.evaluations = len(behs)
    ctx.extra["behaviours"] = len(behs)
    ctx.extra["events_written"] = sum(len(h) for _, h in behs)
    exs = []
    for k, (ns, h) in enumerate(behs):
        bp = os.path.join(ctx.scratch, "beh%d.txt" % k)
        with open(bp, "w") as f:
            f.write("%d %s\n" % (ns, " ".join(str(x) for x in INFOLEN)))
            for e in h:
                f.write("%d %d %d %d %d %d\n" % (e["s"], e["key"], e["info"], e["flags"], e["id"], e["tp"]))
        tr = os.path.join(ctx.scratch, "prof%d.ndjson" % k)
        base = os.path.join(ctx.scratch, "dbp%d" % k)
        rc, out, err = ctx.run_cmd([exe, bp, base, tr], timeout=300)
        ex = tracecheck.read_ndjson(tr) if os.path.exists(tr) else []
        if rc != 0:
            ex.append({"e": "Timeout" if rc == "timeout" else "Crash", "rc": str(rc), "stderr": err[-300:]})
        exs.append(ex)
        try:
            sz = os.path.getsize(base + "-0.prof")
            ctx.extra["max_prof_file_bytes"] = max(ctx.extra.get("max_prof_file_bytes", 0), sz)
            os.unlink(base + "-0.prof")
        except OSError:
            pass
    # ---- concurrent creation of the streams: NS threads call parsec_profiling_stream_init at the same instant (barrier),
    #      trace a few events each; repeated (a lost or duplicated stream shows in the read-back)
    ns_race = 32
    rounds = 40 if ctx.quick else 600
    bp = os.path.join(ctx.scratch, "race.txt")
    with open(bp, "w") as f:
        f.write("%d %s\n" % (ns_race, " ".join(str(x) for x in INFOLEN)))
        for i in range(3):
            for st in range(1, ns_race + 1):
                f.write("%d %d %d %d %d %d\n" % (st, 2 + (st + i) % 12, 1 if (st + i) % 3 else 0, 0, 100 * i + st, 1))
    race_exs = []
    for k in range(rounds):
        tr = os.path.join(ctx.scratch, "race%d.ndjson" % k)
        base = os.path.join(ctx.scratch, "rdbp%d" % k)
        rc, out, err = ctx.run_cmd([exe, bp, base, tr], timeout=300, env={"VERIF_PROF_RACE": "1"})
        ex = tracecheck.read_ndjson(tr) if os.path.exists(tr) else []
        if rc != 0:
            ex.append({"e": "Timeout" if rc == "timeout" else "Crash", "rc": str(rc), "stderr": err[-300:]})
        race_exs.append(ex)
        for p in (base + "-0.prof", tr):
            try:
                os.unlink(p)
            except OSError:
                pass
    ctx.extra["creation_race_runs"] = rounds
    ctx.evaluations += rounds
    dist, mult = tracecheck.dedupe(race_exs, strip=())
    ctx.extra["creation_race_distinct_traces"] = len(dist)
    exs.extend(dist)
    ctx.sample({"streams": behs[0][0], "first_steps": behs[0][1][:3], "steps": len(behs[0][1]),
                "first_logged": exs[0][:2], "last_logged": exs[0][-2:]})
    for f in ctx.validate("Prof", "LogTrace", "LogTrace.cfg", exs, batch=4, timeout=1500):
        ctx.violation("events read back by dbpreader differ from the events written: %s" % json.dumps(f.describe())[:1500],
                      {"events": f.execution, "detail": f.describe()})
    ctx.assume("info payloads are compared by length and a 31-bit checksum")


def replay(ctx, obj):
    for f in ctx.validate("Prof", "LogTrace", "LogTrace.cfg", [obj["events"]]):
        ctx.violation("recorded trace still rejected: %s" % json.dumps(f.describe())[:1000], obj)
