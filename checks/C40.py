"""C40  Virtual-process maps match their specification (parsec/vpmap.c through parsec_init).

spec/Util/Vpmap.tla       the box of cases (flat-like forms incl. malformed ones, rr:n:p:c, map files of 1..3 lines with
                          all/this/other-rank/malformed lines, list/range/mask/no/out-of-range bindings; 4 or 6 visible
                          cores; nb_cores argument) and Expected(case) = the requested virtual processes / thread counts
spec/Util/VpmapTrace.tla  compares what parsec_init created (virtual processes, threads per VP, binding of every stream)
                          with Expected; a crash or hang of the process is never explainable

1. TLC enumerates the box and checks Expected is well formed.
2. one process per case (harness/vpmap/vpmap_probe.c): PARSEC_MCA_runtime_vpmap=<rendered specification>,
   HWLOC_SYNTHETIC="pack:1 core:<n> pu:1", parsec_init(req); reports nb_vp, threads per VP, core of every stream.
3. TLC validates every report (Level report = one pass over all cases of a class, then every reported case alone with
   Level prop = the verdict).
Known on the pinned commit (DESIGN.md section 6, D2): every rr: specification crashes (unimplemented, known finding
vpmap-rr-unimplemented); every file: map crashes or hangs (repair: fixes/vpmap-file.diff).
"""
import json
import os
from concurrent.futures import ThreadPoolExecutor

from lib import mcgen, tlc, tracecheck

META = {
    "level": "model_checking",
    "text": "TLC enumerates the box of virtual-process-map specifications of Vpmap.tla (flat forms and malformed strings, "
            "rr:n:p:c, map files with lines for all / this / another process and malformed lines, every binding syntax "
            "including cores outside the machine) together with the expected virtual processes and thread counts; each "
            "case is run in its own process through parsec_init with a synthetic topology of 4 or 6 cores and TLC "
            "validates the created context (number of VPs, threads per VP, every stream's binding inside the visible "
            "cores or unbound) against the specification; a crash or hang is a rejection.",
    "note": "quick: all flat/rr cases and a seeded sample of the file cases (about 120 processes); thorough: the whole box (642 "
            "cases, files of <= 2 lines) plus files of 3 lines sampled. The hwloc map is outside the property (noted: it "
            "segfaults on a synthetic topology without package level). One MPI rank (rank 0).",
    "technique": "TLA+ oracle enumerated by TLC + one real parsec_init per case + trace validation (TLC)",
}

KEY_RR = "vpmap-rr-unimplemented"
CONSTS = {"CoreCounts": {4, 6}, "Reqs": {-1, 3, 9},
          "FlatForms": {"unset", "flat", "display:flat", "empty", "garbage", "nofile", "rrbad"},
          "RRn": {1, 2}, "RRp": {1, 2}, "RRc": {4},
          "Whos": {"all", "me", "other", "junk"}, "Nbths": {1, 2},
          "Binds1": {"list", "range", "mask", "none", "bad"}, "BindsN": {"list", "none"}, "MaxLines": 2}


def render_line(ln, k, ncores):
    if ln["who"] == "junk":
        return "this line has no colon"
    head = {"all": "", "me": "0", "other": "1"}[ln["who"]]
    n = ln["nbth"]
    first = (2 * k) % ncores
    b = {"list": ",".join(str((first + i) % ncores) for i in range(n)),
         "range": "%d;%d;1" % (first, ncores - 1),
         "mask": "0x%x" % (((1 << n) - 1) << first),
         "bad": ",".join(str(ncores + 3 + i) for i in range(n)),
         "none": None}[ln["bind"]]
    return "%s:%d" % (head, n) + ("" if b is None else ":" + b)


def render(c, scratch, cid):
    """-> value of runtime_vpmap (None = unset)"""
    if c["kind"] == "flat":
        return {"unset": None, "flat": "flat", "display:flat": "display:flat", "empty": "", "garbage": "squirrel:3",
                "nofile": "file:" + os.path.join(scratch, "no-such-map-%d" % cid), "rrbad": "rr:two"}[c["form"]]
    if c["kind"] == "rr":
        return "rr:%d:%d:%d" % (c["n"], c["p"], c["c"])
    path = os.path.join(scratch, "map-%d.txt" % cid)
    with open(path, "w") as f:
        for k, ln in enumerate(c["lines"]):
            f.write(render_line(ln, k, c["ncores"]) + "\n")
    return "file:" + path


def probe(ctx, exe, cid, c):
    spec = render(c, ctx.scratch, cid)
    out = os.path.join(ctx.scratch, "map-%d.ndjson" % cid)
    env = {"HWLOC_SYNTHETIC": "pack:1 core:%d pu:1" % c["ncores"]}
    if spec is not None:
        env["PARSEC_MCA_runtime_vpmap"] = spec
    rc, so, se = ctx.run_cmd([exe, str(c["req"]), out], timeout=90, env=env)
    evs = tracecheck.read_ndjson(out) if os.path.exists(out) else []
    if rc == 0 and len(evs) == 1 and evs[0].get("e") == "map":
        ev = evs[0]
    else:
        ev = {"e": "Crash", "rc": str(rc), "stderr": se[-200:]}
    ev.update({"id": cid, "c": c, "spec": "(unset)" if spec is None else spec})
    return ev


def quick_report(ctx, d, mod, cfg, executions, tag):
    p = os.path.join(ctx.scratch, "q-%s.ndjson" % tag)
    evs = []
    for k, e in enumerate(executions):
        if k:
            evs.append(tracecheck.RESET)
        evs.extend(e)
    tracecheck._write(evs, p)
    v, r = tracecheck.validate_file(d, mod, cfg, p, timeout=900)
    ctx.states += r.distinct
    ctx.transitions += r.generated
    rej, nrej = None, 0
    for l in v.out.splitlines():
        if l.startswith('"VERIF-REJECTS '):
            o = json.loads(l[len('"VERIF-REJECTS '):-1].replace('\\"', '"'))
            rej, nrej = sorted(o["first"]), o["n"]
    if not v.accepted or rej is None:
        raise tlc.TLCError("report pass over the %s cases did not complete: %s" % (tag, v.reason))
    return rej, nrej


def run(ctx):
    d = ctx.stage("Util")
    exe = ctx.harness("vpmap_probe", ["harness/vpmap/vpmap_probe.c"], extra_ldflags=["-lhwloc"])
    mod, cfg = mcgen.write_mc(d, "vbox", "Vpmap", CONSTS, invariants=("WellFormed", "Emit"))
    r = ctx.tlc_check(d, mod, cfg, must_cover=("Resolve",), workers=2, timeout=900)
    box = [c for c in (tlc._parse_tla_string_list(l) for l in r.printed) if c]
    box.sort(key=lambda c: json.dumps(c, sort_keys=True))
    if len(box) < 600:
        raise tlc.TLCError("the case box was not enumerated (%d cases)" % len(box))
    ctx.extra["box"] = len(box)
    files = [c for c in box if c["kind"] == "file"]
    rest = [c for c in box if c["kind"] != "file"]
    if ctx.quick:
        one = [c for c in files if len(c["lines"]) == 1]
        two = [c for c in files if len(c["lines"]) == 2]
        files = ctx.rng.sample(one, 30) + ctx.rng.sample(two, 40)
    else:
        # files of three lines, sampled (the box enumerated by TLC stops at two)
        for _ in range(150):
            ls = [{"who": ctx.rng.choice(sorted(CONSTS["Whos"])), "nbth": ctx.rng.choice([1, 2]),
                   "bind": ctx.rng.choice(sorted(CONSTS["Binds1"]))} for _ in range(3)]
            files.append({"kind": "file", "form": "file", "n": 0, "p": 0, "c": 0, "lines": ls,
                          "ncores": ctx.rng.choice([4, 6]), "req": -1})
    ctx.exhaustive = not ctx.quick
    cases = list(enumerate(rest + files, start=1))
    with ThreadPoolExecutor(max_workers=8) as pool:
        events = list(pool.map(lambda ic: probe(ctx, exe, ic[0], ic[1]), cases))
    ctx.evaluations = len(events)
    ctx.extra["cases_run"] = {k: sum(1 for _, c in cases if c["kind"] == k) for k in ("flat", "rr", "file")}
    ctx.extra["crashed"] = {k: sum(1 for e in events if e["e"] == "Crash" and e["c"]["kind"] == k) for k in ("flat", "rr", "file")}
    ctx.sample(next(e for e in events if e["c"]["kind"] == "flat" and e["c"]["form"] == "garbage"))
    ctx.sample(next(e for e in events if e["c"]["kind"] == "file"))

    rmod, rcfg = mcgen.write_mc(d, "vtr_report", "VpmapTrace", dict(CONSTS, Level_="report"), spec="TSpec", invariants=("AcceptExit",))
    pmod, pcfg = mcgen.write_mc(d, "vtr_prop", "VpmapTrace", dict(CONSTS, Level_="prop"), spec="TSpec", invariants=("AcceptExit",))
    for kind in ("flat", "rr", "file"):
        grp = [e for e in events if e["c"]["kind"] == kind]
        if not grp:
            continue
        rej, nrej = quick_report(ctx, d, rmod, rcfg, [[e] for e in grp], kind)
        ctx.traces += len(grp)
        ctx.extra.setdefault("rejected", {})[kind] = nrej
        # every reported case of the open classes is validated alone; of the rr class (all of them crash: unimplemented)
        # two representatives
        pick = rej[:2] if kind == "rr" else rej[:6]
        bad = [grp[i - 1] for i in pick]
        fails = ctx.validate(d, pmod, pcfg, [[e] for e in bad], batch=1, timeout=600, max_failures=len(bad) + 1) if bad else []
        for f in fails:
            ev = f.execution[0]
            crashed = ev["e"] == "Crash"
            what = ("runtime_vpmap=%r with %d visible cores, nb_cores=%d: %s" % (
                ev.get("spec"), ev["c"]["ncores"], ev["c"]["req"],
                ("parsec_init crashed or hung (rc %s)" % ev.get("rc")) if crashed else
                ("created %s VPs with threads %s bound to %s, specification asks for %s"
                 % (ev.get("nbvp"), ev.get("threads"), ev.get("bind"), json.dumps(ev["c"])[:300]))))
            key = KEY_RR if (kind == "rr" and crashed) else None
            if ctx.violation(what, {"event": ev, "detail": f.describe()}, key=key) is False:
                ctx.sample({"known_finding": KEY_RR, "spec": ev.get("spec"), "rc": ev.get("rc")}, limit=6)
    ctx.assume("one process, MPI rank 0; visible cores through HWLOC_SYNTHETIC pack:1 core:n pu:1")
    ctx.assume("a file with no line for this process requests nothing: any valid map is accepted")
    ctx.assume("a thread whose requested cores do not exist may be left unbound (-1); the thread counts must still match")


def replay(ctx, obj):
    d = ctx.stage("Util")
    exe = ctx.harness("vpmap_probe", ["harness/vpmap/vpmap_probe.c"], extra_ldflags=["-lhwloc"])
    ev0 = obj["event"]
    ev = probe(ctx, exe, ev0.get("id", 1), ev0["c"])
    pmod, pcfg = mcgen.write_mc(d, "vtr_prop", "VpmapTrace", dict(CONSTS, Level_="prop"), spec="TSpec", invariants=("AcceptExit",))
    for f in ctx.validate(d, pmod, pcfg, [[ev]]):
        ctx.violation("case still rejected on the current tree: %s" % json.dumps(ev)[:800], {"event": ev})
