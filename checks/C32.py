"""C32  The concurrent hash table is a linearizable map across resizes.

spec/HashTable/Map.tla       abstract map with unique keys (the property)
spec/HashTable/HTImpl.tla    implementation-shaped model of parsec_hash_table.c: chained tables, bucket locks, ticket
                             rwlock, resize, migration from / unlinking of old tables; one action per yield-point segment
spec/HashTable/MapTrace.tla  linearizability trace validation of recorded inv/res histories + for_all visit sequence

1. TLC proves HTImpl refines Map (invariants NoBad, Placement, ChainOK, UsedOK, RWExcl, LockOK) for every scenario and
   shows the model is sensitive (NoReinsert=TRUE, find_in_old_tables forgetting the migration, must break it).
2. TLC dumps the state graph of HTImpl; one schedule per transition of the graph (shortest path to it, extended to a
   complete run) plus random complete paths are replayed on the real functions under the cooperative scheduler; the
   real step sequence, the results and the for_all visit order are compared with the model's (divergences).
3. The harness explores by itself every interleaving of small scenarios on the real code (fences not yield points),
   and runs seeded random schedules of the larger ones.
4. Free-running multi-thread stress histories (up to 16 threads, hint 1..3, colliding keys).
5. All recorded histories are validated by TLC against MapTrace (the verdict).
"""
import json
import os
import re
import time

from lib import mcgen, tlc, tracecheck

META = {
    "level": "model_checking",
    "text": "TLC proves that an implementation-shaped model of the hash table (chained tables, bucket locks under the "
            "ticket read-write lock, resize, migration and unlinking of old tables) refines a sequential map for bounded "
            "scenarios; schedules covering every transition of the model's state graph, random complete paths, exhaustive "
            "and random interleavings are executed on the real parsec_hash_table_* functions with max_collisions_hint=1 "
            "and colliding keys (two to three resizes), and every recorded history, including the for_all visit sequence "
            "on the quiescent table, is checked for linearizability by TLC against MapTrace.tla; plus free-running stress.",
    "note": "Bounded: 2-3 threads x <= 3 operations x <= 6 colliding keys, <= 4 tables for the model-driven part "
            "(every transition of the replayed models executed on the code, paths sampled; the two largest models are "
            "checked for refinement only, thorough tier); exhaustive interleavings on the code for 2-thread "
            "scenarios with fences merged into the following step; 4-16 threads x 6-10 operations sampled by stress. "
            "Callers respect the unique-key contract. x86-64 TSO; trusted: TLC, vsched cooperative scheduler, ndjson recorder.",
    "technique": "TLA+ refinement (TLC) + schedule replay on real code + linearizability trace validation (TLC)",
}

INVS = ("NoBad", "NoOverflow", "Placement", "ChainOK", "UsedOK", "RWExcl", "LockOK")
ACTIONS_ALL = ("Begin", "RdIn", "RdRmb", "BLock", "OLock", "ODec", "OCas", "OUnl", "BUnl", "RdWmb", "RdOut",
               "WWin", "WRin", "WRmb", "WWmb", "WAnd")


def rehash(k, nb):
    """parsec_hash_table_universal_rehash of parsec_hash_table.c (generic 64-bit keys: hash64 = key)."""
    a, b, m = 0xaa88564915a, 0x165e44f1fc94, (1 << 64) - 1
    k32 = ((k >> 32) ^ k) & m
    return (((a * k32 + b) & m) % (1 << (32 + nb))) >> 32


# keys 4,5,19,20,35 share bucket 0 at 1,2,3 bits; 12,11,27,28 leave them at 3 bits; 1,8,9 share bucket 0 at 1 bit only
SCENARIOS = [
    # grows from empty: two resizes, finds and removes racing with them
    {"name": "grow", "keys": [1, 4, 5], "init": [], "maxtables": 3,
     "threads": [["ins:4", "ins:5", "find:4"], ["ins:1", "find:5", "rem:4"]]},
    # items 4,5 sit in the old table: both migrations race, the second one unlinks the old table
    {"name": "migrate", "keys": [1, 4, 5, 12], "init": [4, 5, 1], "maxtables": 3,
     "threads": [["find:4"], ["find:5"], ["getput:12", "rem:1"]]},
    # two old tables emptied concurrently: adjacent unlink CASes; key 2 keeps a second bucket of table 1 in use
    {"name": "unlink", "keys": [2, 4, 5, 12, 19], "init": [2, 4, 5, 12, 19], "maxtables": 3,
     "threads": [["find:4"], ["rem:5"], ["find:12", "rem:19"]]},
]
SCENARIOS_THOROUGH = [
    {"name": "getput3", "keys": [4, 5, 12, 19], "init": [4], "maxtables": 4,
     "threads": [["getput:5", "rem:4"], ["getput:5", "getput:19"], ["getput:12", "find:4"]]},
    {"name": "reins", "keys": [1, 4, 5, 8], "init": [4, 1], "maxtables": 4,
     "threads": [["rem:4", "reins:1", "find:1"], ["ins:5", "find:4", "rem:1"], ["ins:8", "find:5"]]},
]
# explored exhaustively on the real code (coarse = fences merged), no model involved
PAIRS = [
    {"name": "p_insfind", "keys": [4, 5], "init": [4], "threads": [["ins:5"], ["find:4", "find:5"]]},
    {"name": "p_migrate", "keys": [1, 4, 5], "init": [4, 5, 1], "threads": [["find:4"], ["rem:5"]]},
    {"name": "p_getput", "keys": [4, 5], "init": [4], "threads": [["getput:5"], ["getput:5"]]},
]
FINE = {"name": "f_findrem", "keys": [4, 5], "init": [4], "threads": [["rem:4"], ["find:4"]]}


def op_tla(o):
    if o.startswith("reins:"):
        return {"op": "reins", "j": int(o[6:])}
    n, k = o.split(":")
    return {"op": n, "k": int(k)}


def scenario_file(sc, path):
    with open(path, "w") as f:
        f.write("keys %s\n" % " ".join(str(k) for k in sc["keys"]))
        f.write("bits %d\nhint %d\n" % (sc.get("bits", 1), sc.get("hint", 1)))
        if sc["init"]:
            f.write("init %s\n" % " ".join(str(i) for i in sc["init"]))
        f.write("threads %d\n" % len(sc["threads"]))
        for t, ops in enumerate(sc["threads"]):
            f.write("t %d %s\n" % (t, " ".join(ops)))


def mc(d, sc, noreins=False, tag=""):
    n = len(sc["threads"])
    keys = sorted(sc["keys"])
    mt, ib = sc.get("maxtables", 4), sc.get("bits", 1)
    consts = {"Keys": set(keys), "Thr": set(range(1, n + 1)),
              "Prog": {t + 1: [op_tla(o) for o in ops] for t, ops in enumerate(sc["threads"])},
              "InitKeys": sc["init"],
              "Bkt": {k: [rehash(k, ib + h - 1) + 1 for h in range(1, mt + 1)] for k in keys},
              "InitBits": ib, "Hint": sc.get("hint", 1), "MaxTables": mt, "NoReinsert": noreins}
    return mcgen.write_mc(d, sc["name"] + tag, "HTImpl", consts, invariants=INVS)


def tla_seq(txt):
    return json.loads(txt.replace("<<", "[").replace(">>", "]"))


def model_forall(st):
    """Visit order of parsec_hash_table_for_all predicted from a model state (rw_hash, then ->next; buckets in order)."""
    top, nxt, bkt = int(st["top"]), tla_seq(st["nxt"]), tla_seq(st["bkt"])
    out, h, n = [], top, 0
    while h != 0 and n < 10:
        for b in bkt[h - 1]:
            out.extend(b)
        h = nxt[h - 1]
        n += 1
    return out


def tid_of(label):
    return int(re.search(r"\((\d+)\)", label).group(1)) - 1


def covering_paths(g, rng, nrandom):
    """Complete paths of the graph such that every transition lies on at least one of them (shortest path to a not yet
    covered transition, the transition, then a random continuation to a terminal state), plus nrandom random complete
    paths.  Returns [(labels, end_node)]."""
    from collections import deque
    pred, dq = {}, deque()
    for i in g.init:
        pred[i] = None
        dq.append(i)
    while dq:
        u = dq.popleft()
        for lab, v in g.edges.get(u, ()):
            if v not in pred and v != u:
                pred[v] = (u, lab)
                dq.append(v)

    def prefix(u):
        p = []
        while pred[u] is not None:
            w, lab = pred[u]
            p.append((w, lab, u))
            u = w
        p.reverse()
        return p

    def finish(u, acc):
        while True:
            es = [e for e in g.edges.get(u, ()) if e[1] != u]
            if not es:
                return acc, u
            fresh = [e for e in es if (u, e[0], e[1]) not in covered]
            lab, v = rng.choice(fresh or es)
            acc.append((u, lab, v))
            u = v

    out, seen, covered = [], set(), set()

    def add(acc, end):
        covered.update(acc)
        key = "".join(str(tid_of(l)) for _, l, _ in acc)
        if key not in seen:
            seen.add(key)
            out.append(([l for _, l, _ in acc], end))

    for u in sorted(g.edges):
        if u not in pred:
            continue
        for lab, v in g.edges[u]:
            if v == u or (u, lab, v) in covered:
                continue
            add(*finish(v, prefix(u) + [(u, lab, v)]))
    ncover = len(out)
    for _ in range(nrandom):
        add(*finish(rng.choice(g.init), []))
    return out, ncover


def run_harness(ctx, exe, args, tr, meta, timeout=900):
    rc, out, err = ctx.run_cmd([exe] + args, timeout=timeout)
    exs = tracecheck.split_executions(tracecheck.read_ndjson(tr)) if os.path.exists(tr) else []
    if rc == 3:         # the harness refused its own input (scenario / usage error): a tool failure, never a verdict
        raise tlc.TLCError("harness error: %s" % err[-500:])
    if rc != 0:
        exs.append([{"e": "Crash", "rc": str(rc), "stderr": err[-300:]}])
    metas = []
    if os.path.exists(meta):
        for l in open(meta):
            try:
                metas.append(json.loads(l))
            except ValueError:
                pass
    return exs, metas


def random_scenario(rng, nthreads, nops, hint):
    """Random history generator for the free-running part.  Keys come from colliding families; each key is either
    'owned' (inserted by one thread exactly once, removed by anybody, re-inserted only by its remover) or 'shared'
    (getput / find / rem by anybody), so that the unique-key contract of the table is respected."""
    fam = [4, 5, 19, 20, 35, 12, 11, 27, 28, 1, 8, 9, 16, 2, 3, 6, 7]
    keys = fam[:rng.randint(6, len(fam))]
    rng.shuffle(keys)
    nshared = max(1, len(keys) // 3)
    shared, owned = keys[:nshared], keys[nshared:]
    init = [k for k in owned if rng.random() < 0.4]
    free = [k for k in owned if k not in init]
    rng.shuffle(free)
    threads = []
    for t in range(nthreads):
        ops, removed = [], []
        for i in range(nops):
            x = rng.random()
            if x < 0.22 and free:
                ops.append("ins:%d" % free.pop())
            elif x < 0.40:
                ops.append("getput:%d" % rng.choice(shared))
            elif x < 0.62:
                ops.append("find:%d" % rng.choice(keys))
            elif x < 0.90 or not removed:
                k = rng.choice(keys)
                ops.append("rem:%d" % k)
                if k in owned:
                    removed.append(len(ops))
            else:
                ops.append("reins:%d" % removed.pop(rng.randrange(len(removed))))
        threads.append(ops)
    return {"name": "stress", "keys": sorted(keys), "init": init, "hint": hint, "threads": threads}


def run(ctx):
    d = ctx.stage("HashTable")
    exe = ctx.harness("ht_replay", ["harness/hashtable/ht_replay.c"])
    # quick: "migrate" is model-checked (with the coverage guard) but not replayed, its behaviours are close to "unlink"
    scen = [SCENARIOS[0], SCENARIOS[2]] if ctx.quick else SCENARIOS
    nrandom = 150 if ctx.quick else 500
    executions = []
    t0 = [time.time()]

    def phase(name):
        ctx.extra.setdefault("phase_wall_s", {})[name] = round(time.time() - t0[0], 1)
        t0[0] = time.time()

    # ---- 1. model level -------------------------------------------------------------------------------
    ctx.tlc_check("HashTable", "Map", "Map.cfg")
    mod, cfg = mc(d, SCENARIOS[1], tag="_cov")
    ctx.tlc_check(d, mod, cfg, must_cover=("BLock", "OLock", "ODec", "OCas", "OUnl", "WRmb", "RdSpin"), workers=2)
    mod, cfg = mc(d, SCENARIOS[1], noreins=True, tag="_noreins")
    r = ctx.tlc_check(d, mod, cfg, expect_ok=False, workers=2)
    if r.violated not in ("Placement", "NoBad"):
        raise tlc.TLCError("sensitivity self-test: the variant of the model that does not migrate found items must "
                           "violate Placement/NoBad, got %r" % r.violated)

    if not ctx.quick:
        # larger scenarios (getput races, re-insertion; 10^5 states): refinement only, their graphs are too big to replay
        for sc in SCENARIOS_THOROUGH:
            mod, cfg = mc(d, sc)
            ctx.tlc_check(d, mod, cfg, workers=2, timeout=3000)
    phase("model")
    # ---- 2. replay of model schedules on the real code ---------------------------------------------------
    total_sched = 0
    taken = set()
    for sc in scen:
        mod, cfg = mc(d, sc)
        g = ctx.tlc_graph(d, mod, cfg, timeout=1500)          # also checks the invariants on the whole graph
        for u in g.edges:
            for lab, v in g.edges[u]:
                taken.add(lab.split("(")[0])
        paths, ncover = covering_paths(g, ctx.rng, nrandom)
        scf = os.path.join(ctx.scratch, sc["name"] + ".scn")
        scenario_file(sc, scf)
        schedf = os.path.join(ctx.scratch, sc["name"] + ".sched")
        with open(schedf, "w") as f:
            for labels, end in paths:
                f.write("".join(str(tid_of(l)) for l in labels) + "\n")
        tr = os.path.join(ctx.scratch, sc["name"] + ".trace")
        meta = os.path.join(ctx.scratch, sc["name"] + ".meta")
        exs, metas = run_harness(ctx, exe, ["replay", scf, schedf, tr, meta], tr, meta)
        ndiv = 0
        for (labels, end), m in zip(paths, metas):
            st = tlc.parse_state_label(g.nodes[end])
            want = {"sched": "".join(str(tid_of(l)) for l in labels), "ret": tla_seq(st["ret"]), "forall": model_forall(st)}
            got = {"sched": m["sched"], "ret": m["ret"], "forall": m["forall"]}
            # a skipped reins leaves no result slot in the model's ret sequence but a 0 in the harness' array
            if got != want:
                ndiv += 1
                ctx.divergences += 1
                ctx.sample({"divergence": {"scenario": sc["name"], "model": want, "real": got}}, limit=6)
        total_sched += len(paths)
        ctx.extra.setdefault("scenarios", []).append(
            {"name": sc["name"], "model_states": len(g.nodes), "model_transitions": sum(len(v) for v in g.edges.values()),
             "schedules_covering_every_transition": ncover, "schedules_replayed": len(paths), "divergences": ndiv})
        if paths and metas:
            ctx.sample({"schedule": metas[0]["sched"], "scenario": sc["name"], "results": metas[0]["ret"],
                        "for_all": metas[0]["forall"]})
        for e in exs:
            executions.append((sc["name"], "replay", e))
    missing = [a for a in ACTIONS_ALL if a not in taken]
    if missing:
        raise tlc.TLCError("vacuity guard: actions never taken in any replay scenario: %s" % missing)

    phase("replay")
    # ---- 3. interleavings explored on the code itself ------------------------------------------------------
    all_exh = True
    for sc, mode, limit in [(FINE, "fine", 20000)] + [(p, "coarse", 20000) for p in PAIRS]:
        scf = os.path.join(ctx.scratch, sc["name"] + ".scn")
        scenario_file(sc, scf)
        tr = os.path.join(ctx.scratch, sc["name"] + ".xtrace")
        meta = os.path.join(ctx.scratch, sc["name"] + ".xmeta")
        args = ["explore", scf, str(limit), tr, meta] + (["coarse"] if mode == "coarse" else [])
        exs, metas = run_harness(ctx, exe, args, tr, meta, timeout=1500)
        last = metas[-1] if metas else {}
        all_exh = all_exh and bool(last.get("exhaustive"))
        ctx.extra.setdefault("explored_on_code", []).append(
            {"name": sc["name"], "granularity": mode, "interleavings": last.get("explored"), "exhaustive": last.get("exhaustive")})
        for e in exs:
            executions.append((sc["name"], "explore", e))
    for sc in scen:
        scf = os.path.join(ctx.scratch, sc["name"] + ".scn")
        tr = os.path.join(ctx.scratch, sc["name"] + ".rtrace")
        meta = os.path.join(ctx.scratch, sc["name"] + ".rmeta")
        exs, metas = run_harness(ctx, exe, ["random", scf, str(1500 if ctx.quick else 4000), tr, meta, str(ctx.seed)], tr, meta)
        for e in exs:
            executions.append((sc["name"], "random", e))
    ctx.exhaustive = all_exh

    phase("explore")
    # ---- 4. free-running stress -----------------------------------------------------------------------------
    nstress = 0
    for i, (nt, nops) in enumerate([(4, 8), (8, 6), (16, 6)] if ctx.quick else [(2, 10), (4, 10), (8, 8), (16, 6), (16, 10), (12, 8)]):
        sc = random_scenario(ctx.rng, nt, nops, hint=1 + (i % 3))
        scf = os.path.join(ctx.scratch, "stress%d.scn" % i)
        scenario_file(sc, scf)
        tr = os.path.join(ctx.scratch, "stress%d.trace" % i)
        meta = os.path.join(ctx.scratch, "stress%d.meta" % i)
        exs, metas = run_harness(ctx, exe, ["stress", scf, str(60 if ctx.quick else 250), tr, meta], tr, meta, timeout=600)
        nstress += len(exs)
        if i == 0:
            ctx.sample({"stress_scenario": sc})
        for e in exs:
            executions.append(("stress%d" % i, "stress", e))
    ctx.extra["stress_histories"] = nstress

    phase("stress")
    # ---- 5. verdict: trace validation --------------------------------------------------------------------------
    ctx.evaluations = len(executions)
    distinct, mult = tracecheck.dedupe([e for _, _, e in executions])
    ctx.extra["executions_run"] = len(executions)
    ctx.extra["distinct_histories"] = len(distinct)
    ctx.extra["schedules_from_tlc"] = total_sched
    if distinct:
        ctx.sample({"history": distinct[len(distinct) // 2]})
    fails = ctx.validate("HashTable", "MapTrace", "MapTrace.cfg", distinct, batch=600, timeout=1500)
    ctx.traces = len(executions)
    phase("validate")
    for f in fails:
        ctx.violation("history of the real hash table is not linearizable w.r.t. Map.tla (or for_all did not visit each "
                      "stored item exactly once): %s" % json.dumps(f.describe()),
                      {"history": f.execution, "detail": f.describe()})
    ctx.assume("x86-64 TSO; yield points = every parsec_atomic_* op, fence and rwlock spin-wait (hooks H1, H2)")
    ctx.assume("callers never insert a key that is present (contract of the table); generic 64-bit keys")


def replay(ctx, obj):
    fails = ctx.validate("HashTable", "MapTrace", "MapTrace.cfg", [obj["history"]])
    for f in fails:
        ctx.violation("recorded history still rejected: %s" % json.dumps(f.describe()), obj)
