"""C22  Matrix operators visit each tile once and reduce correctly.

spec/Dist/Operators.tla       abstract machine (Start / Visit(t) enabled iff t in Region(uplo) and not visited / Finish only
                              when the whole region was visited) + the execution spaces of the three task classes of
                              apply.jdf transcribed; TLC: the classes partition the region and pass the right tile-level uplo.
spec/Dist/OperatorsTrace.tla  validates the operator invocations logged by the real taskpools.
harness/operators/op_run.c    runs parsec_apply (full/upper/lower), parsec_map_operator_New, parsec_reduce_col_New /
                              parsec_reduce_row_New on block-cyclic matrices, 1 process and mpiexec 2-4 processes, 1-8 threads.
"""
import json
import os
import threading

from lib import mcgen, tracecheck, vbuild

META = {
    "level": "model_checking",
    "text": "TLC explores the abstract operator machine of Operators.tla for every region and shape of a box and proves that "
            "the execution spaces of apply.jdf's three task classes partition the region; the real parsec_apply / "
            "map_operator / reduce_row / reduce_col taskpools are run on block-cyclic matrices (1 process and 2-4 MPI "
            "processes, 1-8 threads), the operator logs every invocation with the tile's data, and TLC validates that each "
            "tile of the region is visited exactly once with the right data before the taskpool completes, and that "
            "reductions equal the sequential fold.",
    "note": "Model box 3x3 tiles (quick) / 4x4 (thorough), all uplo. Real runs: seeded random shapes <= 6x6 (quick) / 8x8 "
            "tiles, grids 1x1, 2x1, 1x2, 2x2, k-cyclic factors 1-2, 1/2/4/8 threads; plus map_operator on a 1 x N tile row "
            "(N ~ 4000 quick / 20000 thorough, 4 threads on 1 process and 3 threads on each of 2 processes, a few "
            "rounds) where the per-tile invocation counts are accumulated in memory and logged as count arrays. "
            "Interleavings of the scheduler are sampled, not enumerated (races in the column hand-out of map_operator "
            "are caught with high probability, not certainty). Trusted: TLC, the ndjson recorder.",
    "technique": "TLA+ abstract machine + transcribed execution spaces (TLC) + trace validation of real taskpool runs",
}


def scn_line(s):
    return " ".join("%s=%s" % (k, v) for k, v in s.items())


def run_group(ctx, exe, scns, nranks, cores, tag, timeout=300, env=None, mpi_extra=()):
    """Run one process group on a scenario list; returns one execution (event list) per scenario."""
    sp = os.path.join(ctx.scratch, "scn-%s.txt" % tag)
    with open(sp, "w") as f:
        for s in scns:
            f.write(scn_line(s) + "\n")
    pref = os.path.join(ctx.scratch, "op-%s" % tag)
    mpi = [] if nranks == 1 else vbuild.mpirun(nranks)
    cmd = mpi[:1] + list(mpi_extra if mpi else ()) + mpi[1:] + [exe, sp, pref, str(cores)]
    rc, out, err = ctx.run_cmd(cmd, timeout=timeout, env=env)
    per_rank = []
    for r in range(nranks):
        p = "%s.%d.ndjson" % (pref, r)
        evs = tracecheck.read_ndjson(p) if os.path.exists(p) else []
        by = {}
        cur = None
        for ev in evs:
            if ev.get("e") == "scn":
                cur = ev["k"]
                by[cur] = []
            elif cur is not None:
                by[cur].append(ev)
        per_rank.append(by)
    exs = []
    for k, s in enumerate(scns):
        ex = [{"e": "run", "op": s["op"], "uplo": s["uplo"], "mt": s["mt"], "nt": s["nt"], "ranks": nranks, "cores": cores,
               "scn": scn_line(s)}]
        done = 0
        for by in per_rank:
            evs = by.get(k, [])
            ex.extend(ev for ev in evs if ev.get("e") in ("visit", "counts", "result"))
            done += sum(1 for ev in evs if ev.get("e") == "done")
        if done == nranks:
            ex.append({"e": "finish"})
        else:
            # the group died or hung in (or before) this scenario
            started = any(k in by for by in per_rank)
            if not started:
                if rc in (3, 4, 5):
                    raise RuntimeError("op_run input / initialisation error rc=%s: %s" % (rc, err[-300:]))
                if k == 0 and rc != 0:
                    # nothing of the code under test was reached (mpiexec / MPI_Init / parsec_init did not get to the
                    # first scenario, seen on the overloaded machine): no evidence about the property either way
                    raise RuntimeError("process group %s never reached its first scenario (rc=%s): %s" % (tag, rc, err[-300:]))
                if rc != 0:
                    # every earlier scenario completed on every rank, then the group hung / died before this one was
                    # announced (between the `done` record and the next `scn` record: matrix and taskpool release, barrier)
                    ex.append({"e": "Timeout" if rc == "timeout" else "Crash", "rc": str(rc), "ranks_done": 0,
                               "where": "after scenario %d completed, before this one started" % (k - 1),
                               "stderr": err[-300:]})
                    exs.append(ex)
                break
            ex.append({"e": "Timeout" if rc == "timeout" else "Crash", "rc": str(rc), "ranks_done": done,
                       "stderr": err[-300:]})
            exs.append(ex)
            break
        exs.append(ex)
    return exs


def shapes(rng, n, mx, grids, ops=("apply", "map")):
    out = []
    for _ in range(n):
        P, Q = rng.choice(grids)
        op = rng.choice(ops)
        kp, kq = rng.choice([(1, 1), (1, 1), (2, 1), (1, 2)])
        while True:
            mt, nt = rng.randint(1, mx), rng.randint(1, mx)
            # map_operator on a rank without any local tile never completes (known finding, isolated below)
            if op != "map" or (mt >= P * kp and nt >= Q * kq):
                break
        out.append({"op": op, "uplo": rng.choice(["full", "upper", "lower"]) if op == "apply" else "full", "mt": mt, "nt": nt,
                    "mb": rng.randint(1, 3), "P": P, "Q": Q, "kp": kp, "kq": kq})
    return out


def miscounted(ex):
    """For the violation message only (the verdict is OperatorsTrace's): tiles of a mapcount run whose count is not 1."""
    run = ex[0]
    if run.get("op") != "mapcount":
        return None
    tot = {}
    for ev in ex:
        if ev.get("e") == "counts":
            for j, c in enumerate(ev["c"]):
                tot[(ev["m"], ev["n0"] + j)] = tot.get((ev["m"], ev["n0"] + j), 0) + c
    bad = [[m, n, tot.get((m, n), 0)] for m in range(run["mt"]) for n in range(run["nt"]) if tot.get((m, n), 0) != 1]
    return {"tiles_with_count_not_1": len(bad), "first [m,n,count]": bad[:8]}


def run(ctx):
    d = ctx.stage("Dist")
    exe = ctx.harness("op_run", ["harness/operators/op_run.c"])
    rng = ctx.rng
    mx = 3 if ctx.quick else 4
    mod, cfg = mcgen.write_mc(d, "opbox", "Operators", {"MaxMT": mx, "MaxNT": mx},
                              invariants=("TypeOK", "CanFinish", "ApplyCoversRegionOnce"))
    ctx.tlc_check(d, mod, cfg, must_cover=("Start", "Visit", "Finish"), workers=2, timeout=1500)
    ctx.exhaustive = True
    # ---- real runs ----------------------------------------------------------------------------------------
    big = 6 if ctx.quick else 8
    n1, nm = (14, 8) if ctx.quick else (60, 40)
    edge = [{"op": "apply", "uplo": u, "mt": a, "nt": b, "mb": 2, "P": 1, "Q": 1, "kp": 1, "kq": 1}
            for u in ("full", "upper", "lower") for (a, b) in ((1, 1), (1, 4), (4, 1), (3, 5), (5, 3))]
    groups = [("r1c1", 1, 1, edge + shapes(rng, n1, big, [(1, 1)])),
              ("r1c4", 1, 4, shapes(rng, n1, big, [(1, 1)])),
              ("r2c2", 2, 2, shapes(rng, nm, big, [(2, 1), (1, 2)])),
              ("r4c1", 4, 1, shapes(rng, nm, big, [(2, 2)]))]
    # many SHORT columns (a 1 x N tile row): the threads claim the next column of map_operator.c (next_n) thousands of
    # times per run, several of them at the same moment; visits are counted in memory, one summary per run
    nwide, rounds = (4000, 6) if ctx.quick else (20000, 12)
    wide = {"op": "mapcount", "uplo": "full", "mt": 1, "nt": nwide, "mb": 1, "P": 1, "Q": 1, "kp": 1, "kq": 1}
    groups += [("r1c4w", 1, 4, [dict(wide, nt=nwide + 37 * k) for k in range(rounds)]),
               ("r2c3w", 2, 3, [dict(wide, nt=nwide + 37 * k, Q=2, kq=1 + k % 2) for k in range(rounds - 2)])]
    if not ctx.quick:
        groups += [("r1c8", 1, 8, shapes(rng, n1, big, [(1, 1)])),
                   ("r3c2", 3, 2, shapes(rng, nm, big, [(3, 1), (1, 3)])),
                   ("r4c4", 4, 4, shapes(rng, nm, big, [(4, 1), (1, 4), (2, 2)]))]
    # known-defect input classes, each in its own process group (they crash / hang), run in the background
    known = [("reduce-not-implemented", 1, 1, {"op": "reduce_col", "uplo": "full", "mt": 4, "nt": 3, "mb": 1, "P": 1, "Q": 1}, None),
             ("reduce-not-implemented", 1, 1, {"op": "reduce_row", "uplo": "full", "mt": 4, "nt": 4, "mb": 1, "P": 1, "Q": 1}, None),
             ("map-no-local-tile", 2, 1, {"op": "map", "uplo": "full", "mt": 1, "nt": 3, "mb": 2, "P": 2, "Q": 1}, None)]
    if not ctx.quick:
        known.append(("map-multi-vp", 1, 8, {"op": "map", "uplo": "full", "mt": 5, "nt": 4, "mb": 2, "P": 1, "Q": 1},
                      {"HWLOC_SYNTHETIC": "pack:4 core:2 pu:1", "PARSEC_MCA_runtime_vpmap": "hwloc"}))
    kres, kerr = {}, []

    def bg(i, rep):
        key, nr, cores, s, env = known[i]
        try:
            kres[(i, rep)] = run_group(ctx, exe, [s], nr, cores, "known%d%s" % (i, rep), timeout=90, env=env)
        except RuntimeError as e:
            kerr.append(str(e))
    th = [threading.Thread(target=bg, args=(i, rep)) for i in range(len(known)) for rep in ("a", "b")]
    for t in th:
        t.start()
    exs = []
    for tag, nr, cores, scns in groups:
        # Open MPI pins each of 2 ranks to one core by default: the threads of the wide runs must really run in parallel
        wd = tag.endswith("w")
        got = run_group(ctx, exe, scns, nr, cores, tag, timeout=150 if wd else 600, mpi_extra=("--bind-to", "none") if wd else ())
        exs.extend(got)
        ctx.extra["runs_" + tag] = len(got)
    for t in th:
        t.join()
    ctx.evaluations = len(exs) + len(known)
    ctx.extra["operator_invocations"] = (sum(1 for e in exs for ev in e if ev.get("e") == "visit")
                                         + sum(sum(ev["c"]) for e in exs for ev in e if ev.get("e") == "counts"))
    ctx.extra["wide_map_runs"] = sum(1 for e in exs if e[0].get("op") == "mapcount")
    if exs:
        small = min((e for e in exs if len(e) > 3 and e[0].get("op") != "mapcount"), key=len)
        ctx.sample({"run": small[0], "events": small[1:4], "n_events": len(small)})
        wides = [e for e in exs if e[0].get("op") == "mapcount" and e[0].get("ranks", 1) > 1]
        if wides:
            w = wides[0]
            ctx.sample({"run": w[0], "count_records": sum(1 for ev in w if ev.get("e") == "counts"),
                        "invocations": sum(sum(ev["c"]) for ev in w if ev.get("e") == "counts"),
                        "first_record": {k: (v[:12] if k == "c" else v) for k, v in
                                         next(ev for ev in w if ev.get("e") == "counts").items()}})
        multi = [e for e in exs if e[0].get("ranks", 1) > 1]
        if multi:
            ctx.sample({"run": multi[0][0], "n_events": len(multi[0])})
    for f in ctx.validate("Dist", "OperatorsTrace", "OperatorsTrace.cfg", exs, batch=60, timeout=1500):
        mis = miscounted(f.execution)
        ctx.violation("operator taskpool run not explained by Operators.tla (tile missed / visited twice / wrong data / "
                      "did not complete): %s%s" % (json.dumps(mis) + " " if mis else "", json.dumps(f.describe())[:1500]),
                      {"events": f.execution, "detail": f.describe()})
    if kerr:
        raise RuntimeError("; ".join(kerr))
    for i, (key, nr, cores, s, env) in enumerate(known):
        bad = []
        for rep in ("a", "b"):
            ex = kres.get((i, rep)) or [[{"e": "Crash", "rc": "no trace"}]]
            bad.append(bool(ctx.validate("Dist", "OperatorsTrace", "OperatorsTrace.cfg", ex, confirm=False)))
        if all(bad):
            ex = (kres.get((i, "a")) or [[{}]])[0]
            ctx.violation("%s on %d rank(s): %s -> %s" % (s["op"], nr, scn_line(s), json.dumps(ex[-1])[:300]),
                          {"events": ex, "scenario": s}, key=key)
    ctx.assume("the orders in which different ranks log their visits are not compared (visits of distinct tiles commute)")


def replay(ctx, obj):
    for f in ctx.validate("Dist", "OperatorsTrace", "OperatorsTrace.cfg", [obj["events"]]):
        ctx.violation("recorded trace still rejected: %s" % json.dumps(f.describe())[:1000], obj)
