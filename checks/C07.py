"""C07  A task becomes ready exactly once, when its last input arrives.

spec/Dep/Ready.tla       abstract object: Release(i) answers "ready" iff i completes the set of required inputs
spec/Dep/DepImpl.tla     implementation-shaped model of parsec_update_deps_with_counter / _with_mask (parsec.c), one
                         action per code segment between two yield points of the hooked build
spec/Dep/ReadyTrace.tla  property-level validation of recorded inv/res histories of the real functions

1. TLC: Ready satisfies ExactlyOnce; DepImpl refines Ready (PROPERTY Refines + invariants) for every scenario (task
   classes with data / collection / conditional / control / control-gather flows and flows with an ORDERED LIST of
   guarded input deps whose guards overlap, both modes); three seeded model defects must be detected (sensitivity
   self-test).
2. The TLC state graph of every scenario gives all schedules at yield-point granularity; each is replayed on the
   real functions under the cooperative scheduler, real return values are compared with the model's (divergences).
3. The harness' own explorer runs every interleaving of the real code (<= 3 threads), random schedules for 8
   threads, free-running stress for 16 threads (rounds over 32 task instances each); every release ORDER of larger
   task classes (<= 5 inputs, instances k = 0 and k > 0) is run sequentially (mode perms).
4. Verdict: every recorded history is validated by TLC against ReadyTrace.
"""
import concurrent.futures
import json
import math
import os
import re

from lib import mcgen, tlc, tracecheck

META = {
    "level": "model_checking",
    "text": "TLC proves that the implementation-shaped model of the counter (read, CAS 0->goal-1, fetch_dec) and mask "
            "(read IN_DONE, fetch_or) dependency updates refines the abstract 'ready exactly when the last input is "
            "released' object for bounded task classes (data, data-collection, conditional, control and control-gather "
            "flows, flows with an ordered list of guarded input deps - task / collection / NEW / NULL - whose guards "
            "overlap: the first dep whose guard holds decides; the model walks dep_in[] like "
            "parsec_check_IN_dependencies_with_mask/_with_counter); every interleaving of those scenarios at yield-point granularity is replayed on the real "
            "parsec_update_deps_with_counter/_with_mask driving a test-owned parsec_task_class_t, plus random schedules "
            "and free-running stress up to 16 releasers, and every sequential release order of classes with up to 5 "
            "inputs; each recorded history is validated by TLC against ReadyTrace.tla.",
    "note": "Exhaustive interleavings for 2-4 concurrent releasers (goal 2-4, and 2 releases per thread), sampled for 8 "
            "and 16. Guards are constants or k > 0 / k == 0 of a one-parameter instance (k = 0 and k > 0 both run). "
            "One dependency word per execution; find_deps (array / hash lookup) is not part of this check. "
            "x86-64 TSO; trusted: TLC, vsched, ndjson recorder.",
    "technique": "TLA+ refinement (TLC) + schedule replay on real code + trace validation (TLC)",
}

# flows: JDF-level description of the input side of the task class (see DepImpl.tla), one token per flow:
#   D:<dep>,<dep>,...   data flow      K:<dep>,...   control flow         the `<-` lines of the flow, IN ORDER
#   dep = <guard><source>[gather count]    guard  - absent | 1 true | 0 false | p (k > 0) | z (k == 0), k = "k" of the
#   scenario (default 1);  source  t predecessor task | c data collection | n NEW | u NULL
#   one-word kinds: T = D:-t   C = D:-c   Q1 = D:1t,0c   Q0 = D:0t,1c   K = K:-t   K1 = K:1t   X = K:0t   G<n> = K:-t<n>
#   W = D: (WRITE flow typed by <- NEW)
# threads: list of op lists, op = (flow, input id)
LEGACY = {"T": "D:-t", "C": "D:-c", "Q1": "D:1t,0c", "Q0": "D:0t,1c", "K": "K:-t", "K1": "K:1t", "X": "K:0t", "W": "D:"}
# task classes whose flows have several input deps with OVERLAPPING guards (the first one whose guard holds decides):
#   1  task selected (k > 0), then an unguarded collection dep          `A <- (k>0) ? A T(k-1)` / `<- dataA(k)`
#   2  first guard false, second (task) selected, third = collection with a true guard (three deps)
#   3  k > 0: first false, collection selected, unguarded task dep after it;  k = 0: the first (task) selected
#   4  NEW / NULL selected, task dep after it           5  control: false, (k > 0), [two more in OVC]
#   6  WRITE flow typed by <- NEW (mask) / second control flow
OVM = ["D:pt,-c", "D:0t,1t,1c", "D:zt,pc,-t", "D:1n,-t", "K:0t,pt", "W"]
OVC = ["D:pt,-c", "D:0t,1t,1c", "D:zt,pc,-t", "D:1u,-t", "K:0t,pt"]
C2 = {"name": "c2", "mode": "counter", "flows": ["T", "T"], "threads": [[(1, 1)], [(2, 2)]]}
SCENARIOS = [
    {"name": "cg3", "mode": "counter", "flows": ["G3"], "threads": [[(1, 1)], [(1, 2)], [(1, 3)]]},
    {"name": "cin3", "mode": "counter", "flows": ["T", "C", "Q0", "Q1", "X", "K1"], "threads": [[(1, 1)], [(4, 2)], [(6, 3)]]},
    {"name": "cseq", "mode": "counter", "flows": ["T", "K", "T", "G1"], "threads": [[(1, 1), (2, 2)], [(3, 3), (4, 4)]]},
    {"name": "cpart", "mode": "counter", "flows": ["T", "G2"], "threads": [[(1, 1)], [(2, 2)]]},
    {"name": "c4", "mode": "counter", "flows": ["T", "K", "T", "K"], "threads": [[(1, 1)], [(2, 2)], [(3, 3)], [(4, 4)]], "fuse": True},
    {"name": "cov3", "mode": "counter", "k": 1, "flows": OVC, "threads": [[(1, 1)], [(2, 2), (5, 3)]]},
    {"name": "min3", "mode": "mask", "flows": ["T", "C", "Q1", "X", "K1", "Q0"], "threads": [[(1, 1)], [(3, 2)], [(5, 3)]]},
    {"name": "mseq", "mode": "mask", "flows": ["T", "C", "T", "K"], "threads": [[(1, 1), (3, 2)], [(4, 3)]]},
    {"name": "mpart", "mode": "mask", "flows": ["T", "T", "X", "K"], "threads": [[(1, 1)], [(4, 3)]]},
    {"name": "m4", "mode": "mask", "flows": ["T", "Q0", "K", "T", "K1"], "threads": [[(1, 1)], [(3, 2)], [(4, 3)], [(5, 4)]], "fuse": True},
    {"name": "mov3", "mode": "mask", "k": 1, "flows": OVM, "threads": [[(1, 1)], [(2, 2)], [(5, 3)]]},
    {"name": "mov2", "mode": "mask", "k": 0, "flows": OVM, "threads": [[(2, 1)], [(3, 2)]]},
]
SCENARIOS_THOROUGH = [
    {"name": "cg4", "mode": "counter", "flows": ["G2", "T", "Q1", "C"], "threads": [[(1, 1)], [(1, 2)], [(2, 3)], [(3, 4)]]},
    {"name": "cseq3", "mode": "counter", "flows": ["G3", "T", "T", "X"], "threads": [[(1, 1), (2, 4)], [(1, 2), (3, 5)], [(1, 3)]]},
    {"name": "mseq3", "mode": "mask", "flows": ["T", "K", "Q1", "C", "T"], "threads": [[(1, 1), (2, 2)], [(3, 3)], [(5, 4)]]},
    {"name": "m4u", "mode": "mask", "flows": ["T", "K", "T", "K"], "threads": [[(1, 1)], [(2, 2)], [(3, 3)], [(4, 4)]]},
    {"name": "mov4", "mode": "mask", "k": 3, "flows": OVM + ["D:pt,zt,1c"], "threads": [[(1, 1)], [(2, 2)], [(5, 3)], [(7, 4)]], "fuse": True},
    {"name": "cov4", "mode": "counter", "k": 3, "flows": OVC + ["K:pt,0t,zt2"], "threads": [[(1, 1)], [(2, 2)], [(5, 3)], [(6, 4)]], "fuse": True},
    {"name": "cov2", "mode": "counter", "k": 0, "flows": OVC, "threads": [[(2, 1)], [(3, 2)]]},
    {"name": "cov3t", "mode": "counter", "k": 2, "flows": OVC, "threads": [[(1, 1)], [(2, 2)], [(5, 3)]]},
    {"name": "cov3g", "mode": "counter", "k": 1, "flows": ["D:pt,-c", "K:pt,1t,zt2"], "threads": [[(1, 1)], [(2, 2)], [(2, 3)]]},
    {"name": "cov3z", "mode": "counter", "k": 0, "flows": ["D:pt,-c", "K:pt,1t,zt2"], "threads": [[(2, 1)], [(2, 2)], [(2, 3)]]},
]
RANDOM = [
    {"name": "c8r", "mode": "counter", "flows": ["G4", "T", "Q1", "C", "K", "K1", "X"],
     "threads": [[(1, 1)], [(1, 2)], [(1, 3)], [(1, 4)], [(2, 5)], [(3, 6)], [(5, 7)], [(6, 8)]]},
    {"name": "m8r", "mode": "mask", "flows": ["T", "T", "Q1", "C", "K", "K1", "X", "T", "K", "D:pt,-c"],
     "threads": [[(1, 1)], [(2, 2)], [(3, 3)], [(5, 4)], [(6, 5)], [(8, 6)], [(9, 7)], [(10, 8)]]},
]
STRESS = [
    {"name": "c16", "mode": "counter", "flows": ["G8", "T", "T", "Q1", "C", "K", "K", "K1", "X", "T", "Q0"],
     "threads": [[(1, i)] for i in range(1, 9)] + [[(2, 9)], [(3, 10)], [(4, 11)], [(6, 12)], [(7, 13)], [(8, 14)], [(10, 15)]]},
    {"name": "m16", "mode": "mask", "flows": ["T"] * 6 + ["C", "Q0", "X"] + ["K"] * 5 + ["Q1", "K1", "T", "T", "D:1t,-c"],
     "threads": [[(f, i + 1)] for i, f in enumerate([1, 2, 3, 4, 5, 6, 10, 11, 12, 13, 14, 15, 16, 17, 18, 19])]},
    {"name": "cpart8", "mode": "counter", "flows": ["G8", "T"], "threads": [[(1, i)] for i in range(1, 9)]},
]
# every release order, sequentially (one thread; "ops" = the inputs, the harness permutes them)
PERMS = [
    {"name": "pm1", "mode": "mask", "k": 1, "flows": OVM + ["D:pt,zt,1c", "T"], "ops": [(1, 1), (2, 2), (5, 3), (7, 4), (8, 5)]},
    {"name": "pm0", "mode": "mask", "k": 0, "flows": OVM + ["D:pt,zt,1c", "T"], "ops": [(2, 1), (3, 2), (7, 3), (8, 4)]},
    {"name": "pmd", "mode": "mask", "k": 5, "flows": ["D:pt,-c", "T", "T"], "ops": [(1, 1), (2, 2), (3, 3)]},        # seeded/C07/2/demo.c
    {"name": "pmd0", "mode": "mask", "k": 0, "flows": ["D:pt,-c", "T", "T"], "ops": [(2, 1), (3, 2)]},
    {"name": "pc1", "mode": "counter", "k": 1, "flows": OVC + ["K:pt,1t,zt2"], "ops": [(1, 1), (2, 2), (5, 3), (6, 4), (6, 5)]},
    {"name": "pc0", "mode": "counter", "k": 0, "flows": OVC + ["K:pt,1t,zt2"], "ops": [(2, 1), (3, 2), (6, 3), (6, 4), (6, 5)]},
    {"name": "pcd", "mode": "counter", "k": 5, "flows": ["D:pt,-c", "T", "T"], "ops": [(1, 1), (2, 2), (3, 3)]},
    {"name": "pcp", "mode": "counter", "k": 1, "flows": OVC, "ops": [(1, 1), (5, 3)]},                             # partial
]


def parse_flow(tok):
    """flow token -> {"ctl": bool, "deps": [{"g", "src", "n"}]} (the record DepImpl.tla and the harness work on)"""
    if tok[0] == "G" and tok[1:].isdigit():
        tok = "K:-t" + tok[1:]
    tok = LEGACY.get(tok, tok)
    m = re.fullmatch(r"([DK]):((?:[-10pz][tcnu]\d*)(?:,[-10pz][tcnu]\d*)*)?", tok)
    if not m:
        raise ValueError("bad flow %r" % tok)
    deps = []
    for d in (m.group(2) or "").split(","):
        if d:
            deps.append({"g": d[0], "src": d[1], "n": int(d[2:] or 0)})
    ctl = m.group(1) == "K"
    if ctl and (not deps or any(d["src"] != "t" for d in deps)) or not ctl and any(d["n"] for d in deps):
        raise ValueError("bad flow %r" % tok)
    return {"ctl": ctl, "deps": deps}


def flow_token(fl):
    return ("K:" if fl["ctl"] else "D:") + ",".join("%s%s%s" % (d["g"], d["src"], d["n"] or "") for d in fl["deps"])


def holds(g, k):
    return {"-": True, "1": True, "0": False, "p": k > 0, "z": k == 0}[g]


def need_of(kind, k=1):
    """Required inputs of a flow, JDF meaning: data flow = the first dep whose guard holds decides (1 iff it names a
    task); control flow = one control per dep whose guard holds (the gather count if it has one)."""
    fl = parse_flow(kind)
    live = [d for d in fl["deps"] if holds(d["g"], k)]
    if fl["ctl"]:
        return sum(d["n"] or 1 for d in live)
    return 1 if live and live[0]["src"] == "t" else 0


def need(sc):
    return sum(need_of(f, sc.get("k", 1)) for f in sc["flows"])


def flows_tla(sc):
    return [parse_flow(f) for f in sc["flows"]]


def threads_of(sc):
    return sc["threads"] if "threads" in sc else [list(sc["ops"])]


def scenario_file(sc, path):
    thr = threads_of(sc)
    with open(path, "w") as f:
        f.write("mode %s\nk %d\nflows %s\nneed %d\nthreads %d\n" % (sc["mode"], sc.get("k", 1), " ".join(flow_token(fl) for fl in flows_tla(sc)),
                                                                  need(sc), len(thr)))
        for t, ops in enumerate(thr):
            f.write("t %d %s\n" % (t, " ".join("%d:%d" % o for o in ops)))


def mc(ctx, d, sc, mut="none", fuse=False, tag=""):
    n = len(sc["threads"])
    prog = {t + 1: [{"f": f, "i": i} for f, i in ops] for t, ops in enumerate(sc["threads"])}
    consts = {"Mode": sc["mode"], "Flows": flows_tla(sc), "K": sc.get("k", 1), "NeedExpected": need(sc),
              "Thr": set(range(1, n + 1)), "Prog": prog, "Mut": mut, "FuseBegin": fuse}
    return mcgen.write_mc(d, sc["name"] + tag, "DepImpl", consts, invariants=("TypeOK", "ExactlyOnce", "NonNeg", "ReadyAfterAllBegun"),
                          properties=("Refines",))


def parse_ret(txt):
    return json.loads(txt.replace("<<", "[").replace(">>", "]"))


READ_ACTIONS = ("CtrReadDeps", "MaskReadInDone")


def schedule_of(labels, fuse):
    out = []
    for l in labels:
        m = re.match(r"(\w+)\((\d+)\)", l)
        t = str(int(m.group(2)) - 1)
        out.append(t)
        if fuse and m.group(1) in READ_ACTIONS:
            out.append(t)          # the purely local Begin segment runs right before the read
    return "".join(out)


def project_instances(round_events):
    """A stress round works on several task instances (dependency words) at once, events carry the instance
    number k: the history of one instance = the events of that instance, in the recorded order."""
    head = [ev for ev in round_events if "k" not in ev and ev.get("e") == "init"]
    tail = [ev for ev in round_events if "k" not in ev and ev.get("e") != "init"]
    inst = {}
    for ev in round_events:
        if "k" in ev:
            inst.setdefault(ev["k"], []).append({a: b for a, b in ev.items() if a != "k"})
    return [head + inst[k] + tail for k in sorted(inst)] or [round_events]


def suspicious(ex):
    """Cheap pre-screen (NOT a verdict): would ReadyTrace get stuck on this history?  Used only to choose which
    histories are handed to TLC one by one (cheap localisation) instead of in a large batch."""
    n, started, finished, ready, pend = 0, set(), set(), 0, {}
    for ev in ex:
        e = ev.get("e")
        if e == "init":
            n = ev.get("n", 0)
        elif e == "inv":
            if ev["i"] in started or pend.get(ev["t"]):
                return True
            started.add(ev["i"])
            pend[ev["t"]] = ev["i"]
        elif e == "res":
            if pend.get(ev["t"]) != ev["i"] or ev["r"] not in (0, 1):
                return True
            if ev["r"] == 1 and (len(started) != n or ready):
                return True
            ready += ev["r"]
            finished.add(ev["i"])
            pend[ev["t"]] = 0
        elif e == "end":
            if ready != (1 if len(finished) == n else 0):
                return True
        else:
            return True
    return False


def load_meta(path):
    """Per-execution records written by the harness; a harness that died leaves a truncated last line."""
    out = []
    if os.path.exists(path):
        for l in open(path):
            try:
                out.append(json.loads(l))
            except ValueError:
                pass
    return out


def collect(ctx, exe, mode, sc, arg, kind, executions, extra=(), timeout=900):
    """Run the harness; returns the per-execution meta records; appends (scenario, kind, history) to executions."""
    base = os.path.join(ctx.scratch, "%s.%s" % (sc["name"], kind))
    scf = base + ".scn"
    scenario_file(sc, scf)
    tr, meta = base + ".trace", base + ".meta"
    rc, out, err = ctx.run_cmd([exe, mode, scf, arg, tr, meta] + list(extra), timeout=timeout)
    if rc == 3:                # the harness refused its input: an error of this check, not a behaviour of the code
        raise tlc.TLCError("dep_replay %s %s: %s" % (mode, sc["name"], err[-300:]))
    exs = tracecheck.split_executions(tracecheck.read_ndjson(tr)) if os.path.exists(tr) else []
    if mode == "stress":
        exs = [p for e in exs for p in project_instances(e)]
    if rc != 0:
        exs.append([{"e": "Crash", "rc": str(rc), "stderr": err[-300:]}])
    for e in exs:
        executions.append((sc["name"], kind, e))
    return load_meta(meta)


def run(ctx):
    d = ctx.stage("Dep")
    exe = ctx.harness("dep_replay", ["harness/dep/dep_replay.c"])
    scen = SCENARIOS + ([] if ctx.quick else SCENARIOS_THOROUGH)
    path_limit = 4000 if ctx.quick else 100000          # 3-thread scenarios have <= 3516 paths: exhaustive in both tiers
    path_limit4 = 1500 if ctx.quick else 60000         # 4-thread scenarios (2520 / 17640 paths): sampled in quick
    explore_limit = 60000 if ctx.quick else 200000
    byname = {sc["name"]: sc for sc in scen}

    # ---- 1. model level (tiny models, the cost is the JVM: three single-worker TLC processes at a time) ----------
    def account(mod, cfg, r, **kw):
        ctx.states += r.distinct
        ctx.transitions += r.generated
        m = {"module": mod, "cfg": cfg, "distinct": r.distinct, "generated": r.generated, "depth": r.depth, "wall_s": round(r.wall, 1)}
        m.update(kw)
        if r.coverage:
            m["coverage"] = {k: v[0] for k, v in r.coverage.items()}
        ctx.models.append(m)

    def job_check(sc, cover):            # exhaustive check of the unfused model, per-action vacuity guard
        mod, cfg = mc(ctx, d, sc, tag="_full")
        return ("check", sc, mod, cfg, tlc.check(d, mod, cfg, must_cover=cover, workers=1))

    def job_mut(sc, mut):                # seeded model defect: TLC must find it
        mod, cfg = mc(ctx, d, sc, mut=mut, tag="_" + mut)
        return ("mut", mut, mod, cfg, tlc.check(d, mod, cfg, workers=1))

    def job_graph(sc):
        mod, cfg = mc(ctx, d, sc, fuse=bool(sc.get("fuse")))
        g, r = tlc.dump_graph(d, mod, cfg)
        return ("graph", sc, mod, cfg, r, g)

    jobs = [lambda: ("check", None, "Ready", "Ready.cfg", tlc.check(ctx.spec("Dep"), "Ready", "Ready.cfg", workers=1)),
            lambda: job_check(byname["c4"], ("Begin", "CtrReadDeps", "CtrCas", "CtrDec")),
            lambda: job_check(byname["m4"], ("Begin", "MaskReadInDone", "MaskFetchOr")),
            lambda: job_mut(C2, "store"), lambda: job_mut(byname["min3"], "noin"), lambda: job_mut(byname["mov2"], "scanon")]
    jobs += [(lambda sc=sc: job_graph(sc)) for sc in scen]
    with concurrent.futures.ThreadPoolExecutor(max_workers=3) as pool:
        results = list(pool.map(lambda j: j(), jobs))
    graphs = []
    for res in results:
        kind, what, mod, cfg, r = res[:5]
        account(mod, cfg, r, **({"graph": True} if kind == "graph" else {}))
        if kind == "mut":
            if r.ok:
                raise tlc.TLCError("sensitivity self-test: model defect %r of DepImpl must be detected by TLC" % what)
        elif not r.ok:
            raise tlc.TLCError("specification Dep/%s (%s) does not satisfy its own properties (%s); this is a model failure, "
                               "not a verdict about the code\n%s" % (mod, cfg, r.violated, r.out[-2500:]))
        if kind == "graph":
            graphs.append((mod, cfg, res[5], r))

    # ---- 2./3. replay on the real code --------------------------------------------------------------------
    executions = []
    total_sched = 0
    all_exhaustive = True
    for sc, (mod, cfg, g, r) in zip(scen, graphs):
        fuse = bool(sc.get("fuse"))
        names = set(re.match(r"\w+", lab).group(0) for es in g.edges.values() for lab, _ in es)
        want = {"CtrReadDeps", "CtrCas", "CtrDec"} if sc["mode"] == "counter" else {"MaskReadInDone", "MaskFetchOr"}
        if not want <= names:
            raise tlc.TLCError("vacuity guard: scenario %s never takes %s" % (sc["name"], sorted(want - names)))
        paths, total, exhaustive = tlc.maximal_paths(g, limit=path_limit if len(sc["threads"]) <= 3 else path_limit4, rng=ctx.rng)
        all_exhaustive = all_exhaustive and exhaustive
        schedf = os.path.join(ctx.scratch, sc["name"] + ".sched")
        scheds = [schedule_of(labels, fuse) for labels, end in paths]
        with open(schedf, "w") as f:
            f.write("\n".join(scheds) + "\n")
        metas = collect(ctx, exe, "replay", sc, schedf, "replay", executions)
        for (labels, end), s, m in zip(paths, scheds, metas):
            want_ret = parse_ret(tlc.parse_state_label(g.nodes[end])["ret"])
            if m["ret"] != want_ret or m["sched"] != s:
                ctx.divergences += 1
                ctx.sample({"divergence": {"scenario": sc["name"], "schedule": s, "real_schedule": m["sched"],
                                           "model_ret": want_ret, "real_ret": m["ret"]}}, limit=6)
        if len(metas) != len(paths):
            ctx.divergences += 1
            ctx.sample({"divergence": {"scenario": sc["name"], "schedules": len(paths), "executed": len(metas)}}, limit=6)
        total_sched += len(paths)
        info = {"name": sc["name"], "mode": sc["mode"], "k": sc.get("k", 1), "flows": sc["flows"], "need": need(sc),
                "model_paths_total": total, "replayed": len(paths), "exhaustive": exhaustive}
        if len(sc["threads"]) <= 3:
            # exhaustive exploration on the code itself, every interleaving at yield-point granularity
            metas = collect(ctx, exe, "explore", sc, str(explore_limit), "explore", executions, timeout=1500)
            last = metas[-1] if metas else {}
            info.update({"code_interleavings": last.get("explored"), "code_exhaustive": last.get("exhaustive")})
            if not fuse and last.get("exhaustive") and exhaustive and last.get("explored") != total:
                ctx.divergences += 1
                ctx.sample({"divergence": {"scenario": sc["name"], "model_paths": total, "code_interleavings": last.get("explored")}}, limit=6)
        ctx.extra.setdefault("scenarios", []).append(info)

    # ---- random schedules (8 controlled threads) and free-running stress (16 threads) ----------------------
    nrand = 300 if ctx.quick else 4000
    for sc in RANDOM:
        schedf = os.path.join(ctx.scratch, sc["name"] + ".sched")
        n = len(sc["threads"])
        with open(schedf, "w") as f:
            for _ in range(nrand):
                f.write("".join(str(ctx.rng.randrange(n)) for _ in range(5 * n)) + "\n")
        collect(ctx, exe, "replay", sc, schedf, "random", executions)
    for sc in STRESS:
        collect(ctx, exe, "stress", sc, str(10 if ctx.quick else 100), "stress", executions, extra=[str(ctx.seed)])

    # ---- every release order of a task instance, one release after the other ------------------------------------
    for sc in PERMS:
        metas = collect(ctx, exe, "perms", sc, "1000", "perms", executions)
        n, full = len(sc["ops"]), len(sc["ops"]) == need(sc)
        orders = [m for m in metas if "order" in m]
        for m in orders:
            want_ret = [0] * (n - 1) + [1 if full else 0]          # Ready.tla, sequential: the last required input answers ready
            if m["ret"] != want_ret:
                ctx.divergences += 1
                ctx.sample({"divergence": {"scenario": sc["name"], "order": m["order"], "model_ret": want_ret, "real_ret": m["ret"]}}, limit=6)
        last = metas[-1] if metas else {}
        if len(orders) != math.factorial(n) or not last.get("exhaustive"):
            ctx.divergences += 1
            ctx.sample({"divergence": {"scenario": sc["name"], "orders": math.factorial(n), "executed": len(orders)}}, limit=6)
        ctx.extra.setdefault("release_orders", []).append({"name": sc["name"], "mode": sc["mode"], "k": sc.get("k", 1), "flows": sc["flows"],
                                                           "need": need(sc), "released": n, "orders": len(orders)})

    # ---- 4. verdict: trace validation -----------------------------------------------------------------------
    ctx.evaluations = len(executions)
    distinct, mult = tracecheck.dedupe([e for _, _, e in executions], strip=("s", "mode"))
    ctx.extra["executions_run"] = len(executions)
    ctx.extra["distinct_histories"] = len(distinct)
    ctx.extra["schedules_from_tlc"] = total_sched
    ctx.exhaustive = all_exhaustive
    if distinct:
        ctx.sample({"history": distinct[0]})
        ctx.sample({"history": distinct[len(distinct) // 2]})
    # TLC decides; the pre-screen only makes the localisation of a rejected history cheap
    odd = [e for e in distinct if suspicious(e)]
    clean = [e for e in distinct if not suspicious(e)]
    ctx.extra["prescreen_suspicious"] = len(odd)
    fails = ctx.validate("Dep", "ReadyTrace", "ReadyTrace.cfg", odd[:3], batch=1) if odd else []
    fails += ctx.validate("Dep", "ReadyTrace", "ReadyTrace.cfg", clean, batch=3000)
    ctx.traces = len(executions)
    # sensitivity self-test of the trace specification: one corrupted field must be rejected
    good = next((e for e in clean if any(ev.get("e") == "res" and ev.get("r") == 1 for ev in e)), None)
    if good is not None:
        bad = [dict(ev, r=0) if ev.get("e") == "res" and ev.get("r") == 1 else ev for ev in good]
        p = os.path.join(ctx.scratch, "corrupted.ndjson")
        tracecheck._write(bad, p)
        v, r = tracecheck.validate_file(ctx.spec("Dep"), "ReadyTrace", "ReadyTrace.cfg", p)
        ctx.extra["corrupted_trace_rejected"] = not v.accepted
        if v.accepted:
            raise tlc.TLCError("self-test: ReadyTrace accepted a history whose 'ready' answer was erased")
    for f in fails:
        ctx.violation("history of the real update_deps is not 'ready exactly once, after the last input': %s"
                      % json.dumps(f.describe()), {"history": f.execution, "detail": f.describe()})
    ctx.assume("x86-64 TSO; yield points = every parsec_atomic_* op and the K_READ hooks in front of the plain reads of *deps")
    ctx.assume("every required input is released at most once (contract of the generated release code)")


def replay(ctx, obj):
    fails = ctx.validate("Dep", "ReadyTrace", "ReadyTrace.cfg", [obj["history"]])
    for f in fails:
        ctx.violation("recorded history still rejected: %s" % json.dumps(f.describe()), obj)
