"""C03  DTD results equal sequential execution in insertion order.

spec/DTD/Seq.tla             insertion-order semantics (Insert / Start / End / Flush); TLC proves that the Start guard
                             implies sequential values; TLC -simulate GENERATES the programs (history variable prog)
spec/DTD/SeqTrace.tla        one process: every event in stamp order, ordering guard and values
spec/DTD/SeqTraceValues.tla  any number of processes: values read / written / flushed = sequential interpretation
harness/dtd/run_prog.c       generic driver: inserts a program with parsec_dtd_insert_task, bodies log Start/End

This module also holds the machinery shared with C04 and C17 (program generation, batch runs, trace merging).
"""
import json
import os

from lib import mcgen, tlc, tracecheck, vbuild

META = {
    "level": "model_checking",
    "text": "TLC checks on Seq.tla that the insertion-order Start guard makes every task read, and the data finally "
            "hold, the values of the one-task-at-a-time execution; TLC then generates random DTD programs (R/W/RW "
            "accesses, one datum in several parameters, affinities) that a generic driver inserts through "
            "parsec_dtd_insert_task under several schedulers, thread counts, window/threshold settings and 1-4 "
            "processes; each task body logs what it read and wrote and TLC validates every recorded execution against "
            "the specification (SeqTrace: ordering + values on one process; SeqTraceValues: values on several).",
    "note": "Model: exhaustive for 3 tasks x 1 parameter over 2 data and 3 tasks x 2 parameters over 1 datum (quick), 3 tasks x 2 "
            "parameters over 2 data (thorough). Implementation: "
            "sampled programs of 6-14 tasks over 2-4 data, <= 3 data parameters per task; schedulers x threads x "
            "window sizes sampled. Overlaps shorter than the stamping granularity can be missed (never invented). "
            "One body function per access signature (the DTD task-class cache is keyed by function pointer). "
            "Trusted: TLC, the ndjson recorder, MPI.",
    "technique": "TLA+ spec (TLC) generates programs, replayed on the real runtime + trace validation (TLC)",
}

MODE_NUM = {"R": 1, "W": 2, "RW": 3}
# (scheduler, threads).  A DTD writer that finds readers outstanding returns AGAIN and is re-queued (active wait);
# the schedulers ip and llp, and ll with one thread (which warns about it itself), keep selecting that task and
# live-lock: these configurations are probed by C04 only (finding dtd-again-livelock), not used here.
CONFIGS_QUICK = [("lfq", 1), ("lfq", 4), ("ap", 2), ("ll", 3)]
CONFIGS_ALL = [(s, t) for s in ("ap", "gd", "lfq", "lhq", "ltq", "pbq", "rnd", "spq") for t in (1, 2, 4, 8)] + \
              [("ll", 2), ("ll", 4), ("ll", 8)]
LIVELOCK_CONFIGS = [("ip", 1), ("ll", 1), ("ip", 2), ("llp", 2)]
KEY_DUP = "dtd-same-tile-several-params"
SEQ_INVS = ("TypeOK", "ReadsSequential", "FinalSequential", "NoConflictRunning", "WriterAfterReaders", "FlushReturnsLast")


# ---------------------------------------------------------------------------------------------------------
# model level
# ---------------------------------------------------------------------------------------------------------
def model_check(ctx, d, dup=True):
    """Exhaustive TLC runs of Seq.tla: the ordering guard implies sequential values / exclusion / flush.
    dup: also the configuration in which one datum is given to two parameters of a task (C03 only in quick)."""
    cfgs = [("m3x1", {"ND": 2, "MaxTasks": 3, "MaxAcc": 1})]
    if dup or not ctx.quick:
        cfgs.append(("m3x2d1", {"ND": 1, "MaxTasks": 3, "MaxAcc": 2}))
    if not ctx.quick:
        cfgs += [("m2x2", {"ND": 2, "MaxTasks": 2, "MaxAcc": 2}), ("m3x2", {"ND": 2, "MaxTasks": 3, "MaxAcc": 2})]
    for name, c in cfgs:
        consts = {"ND": c["ND"], "Ranks": {0}, "MaxTasks": c["MaxTasks"], "MaxAcc": c["MaxAcc"],
                  "Modes": {"R", "W", "RW"}, "WithFlush": True, "DupData": True}
        mod, cfg = mcgen.write_mc(d, name, "Seq", consts, invariants=SEQ_INVS)
        ctx.tlc_check(d, mod, cfg, must_cover=("Insert", "Start", "End", "Flush", "FlushRun"), workers=4, timeout=1500)
    # vacuity of "readers may overlap": the negation must be violated
    consts = {"ND": 1, "Ranks": {0}, "MaxTasks": 3, "MaxAcc": 1, "Modes": {"R", "W", "RW"}, "WithFlush": False,
              "DupData": False}
    mod, cfg = mcgen.write_mc(d, "overlap", "Seq", consts, invariants=("NoTwoRunning",),
                              extra_defs="NoTwoRunning == ~TwoReadersOverlap")
    r = ctx.tlc_check(d, mod, cfg, expect_ok=False, workers=2)
    if r.violated != "NoTwoRunning":
        raise tlc.TLCError("Seq.tla never lets two readers run together (got %r)" % r.violated)
    ctx.exhaustive = True


def gen_programs(ctx, d, name, nd, ntasks, maxacc, num, ranks=(0, 1, 2, 3), modes=("R", "W", "RW"), dup=False):
    """TLC -simulate of Seq: every printed history is one program (list of {"accs": [{"d","m"}], "rank"}).
    dup: a datum may be given to several parameters of one task."""
    consts = {"ND": nd, "Ranks": set(ranks), "MaxTasks": ntasks, "MaxAcc": maxacc, "Modes": set(modes),
              "WithFlush": False, "DupData": dup}
    mod, cfg = mcgen.write_mc(d, "gen_" + name, "Seq", consts, invariants=SEQ_INVS[:5] + ("Emit",))
    hs = ctx.tlc_histories(d, mod, cfg, num, 3 * ntasks + 2, workers=4, timeout=900)
    return [{"nd": nd, "tasks": h} for h in hs]


def prog_line(p, fl="A", w=2048, th=2048, ins=0, sp=(50, 300), ar=0):
    """ar=1: tiles 4 ints wide accessed with the SECOND attached arena datatype (id 1; id 0 = a one-int datatype)."""
    head = "nd=%d fl=%s w=%d th=%d ins=%d sp=%d:%d" % (p["nd"], fl, w, th, ins, sp[0], sp[1])
    if ar:
        head += " ar=1"
    segs = [head]
    for t in p["tasks"]:
        segs.append("%d %d %s" % (t["rank"], len(t["accs"]), " ".join("%d %d" % (a["d"], MODE_NUM[a["m"]]) for a in t["accs"])))
    return " ; ".join(segs)


# ---------------------------------------------------------------------------------------------------------
# running the real code
# ---------------------------------------------------------------------------------------------------------
class Exec(object):
    """One execution of one program line: per-rank event lists + the configuration it ran under."""

    def __init__(self, line, cfg, ranks):
        self.line = line
        self.cfg = cfg
        self.per_rank = [[] for _ in range(ranks)]
        self.failed = None        # None | "Crash" | "Timeout" | ...

    def describe(self):
        return {"program": self.line, "config": self.cfg, "failed": self.failed}


def _read_rank_files(prefix, nranks):
    out = []
    for r in range(nranks):
        p = "%s.%d" % (prefix, r)
        out.append(tracecheck.split_executions(tracecheck.read_ndjson(p)) if os.path.exists(p) else [])
    return out


def run_batch(ctx, exe, lines, tag, threads=2, sched="lfq", nranks=1, timeout=600, max_restarts=4, env=None, confirm=True):
    """Run the program lines (one driver process, or one mpiexec launch, for the whole batch; restarted after a
    crashing program).  Returns a list of Exec, one per line that was started."""
    cfg = {"sched": sched, "threads": threads, "ranks": nranks}
    pf = os.path.join(ctx.scratch, tag + ".progs")
    with open(pf, "w") as f:
        for ln in lines:
            f.write(ln + "\n")
    e = {"PARSEC_MCA_mca_sched": sched}
    if env:
        e.update(env)
    out = []
    skip = 0
    for attempt in range(max_restarts + 1):
        if skip >= len(lines):
            break
        prefix = os.path.join(ctx.scratch, "%s.tr%d" % (tag, attempt))
        cmd = ([exe] if nranks == 1 else vbuild.mpirun(nranks) + [exe]) + [pf, prefix, str(threads), str(skip)]
        rc, so, se = ctx.run_cmd(cmd, timeout=timeout, env=e)
        if rc == "timeout":     # the driver has its own per-program alarm: this is machine overload, not a verdict
            raise vbuild.BuildError("driver batch %s exceeded %ss (overloaded machine?)" % (tag, timeout))
        files = _read_rank_files(prefix, nranks)
        nexec = max([len(x) for x in files] + [0])
        if rc == 0:
            nexec = min(len(x) for x in files)
        for k in range(nexec):
            if skip + k >= len(lines):
                break
            ex = Exec(lines[skip + k], cfg, nranks)
            for r in range(nranks):
                ex.per_rank[r] = files[r][k] if k < len(files[r]) else []
            last = rc != 0 and k == nexec - 1
            if last:
                kinds = [ev.get("e") for pr in ex.per_rank for ev in pr if ev.get("e") in ("Crash", "Timeout")]
                ex.failed = kinds[0] if kinds else ("Timeout" if rc == "timeout" else "Crash")
                ex.cfg = dict(cfg, rc=str(rc), stderr=se[-400:])
                if confirm and not tag.endswith("_confirm"):
                    # DESIGN 1.4: a crash / hang of the real code is reported only when a rerun of the same program in
                    # the same configuration repeats it; an unrepeatable one is counted and shown, never a verdict
                    again = run_batch(ctx, exe, [lines[skip + k]], tag + "_a%d_confirm" % attempt, threads=threads, sched=sched,
                                      nranks=nranks, timeout=timeout, max_restarts=0, env=env)
                    if again and again[0].failed is None:
                        ctx.extra["unconfirmed_failures"] = ctx.extra.get("unconfirmed_failures", 0) + 1
                        ctx.sample({"unconfirmed_failure": {"program": lines[skip + k], "config": ex.cfg, "kind": ex.failed}}, limit=6)
                        ex = again[0]
            out.append(ex)
        if rc == 0:
            break
        if nexec == 0:      # died before the first program: tooling problem, not a verdict
            raise vbuild.BuildError("driver %s died before running anything (rc=%s)\n%s" % (exe, rc, se[-1500:]))
        skip += nexec
    return out


def single_events(ex):
    """Event list of a one-process execution (for SeqTrace)."""
    evs = [e for e in ex.per_rank[0] if e.get("e") != "Killed"]
    if ex.failed and not any(e.get("e") in ("Crash", "Timeout") for e in evs):
        evs.append({"e": ex.failed})
    return evs


def merged_events(ex):
    """Concatenation used by SeqTraceValues: Insert/Flush of rank 0, Start/End of every rank, one Wait, Owner of
    every rank.  All ranks must have inserted the same program (SPMD driver): checked here, harness-level."""
    ins = [[e for e in pr if e.get("e") in ("Insert", "Flush")] for pr in ex.per_rank]
    strip = lambda es: [{k: v for k, v in e.items() if k != "s"} for e in es]
    evs = list(ins[0])
    if not ex.failed:
        for r in range(1, len(ins)):
            if strip(ins[r]) != strip(ins[0]):
                evs.append({"e": "Garbage", "why": "rank %d inserted a different program" % r})
    for pr in ex.per_rank:
        evs.extend(e for e in pr if e.get("e") in ("Start", "End"))
    waits = [e for pr in ex.per_rank for e in pr if e.get("e") == "Wait"]
    if len(waits) == len(ex.per_rank):
        evs.append(waits[0])
    for pr in ex.per_rank:
        evs.extend(e for e in pr if e.get("e") == "Owner")
    for pr in ex.per_rank:
        evs.extend(e for e in pr if e.get("e") in ("Crash", "Timeout", "Garbage", "Overflow"))
    if ex.failed and not any(e.get("e") in ("Crash", "Timeout") for e in evs):
        evs.append({"e": ex.failed})
    if len(waits) != len(ex.per_rank) and not ex.failed:
        evs.append({"e": "Garbage", "why": "missing Wait"})
    return evs


def has_dup(line):
    """Does some task of the program line give one datum to several parameters ?"""
    for seg in line.split(";")[1:]:
        tk = seg.split()
        ds = [tk[2 + 2 * i] for i in range(int(tk[1]))]
        if len(set(ds)) != len(ds):
            return True
    return False


def validate(ctx, module, execs, to_events, what, batch=300, key=None, known_of=None):
    """Trace-validate executions; returns number of violations reported.  key: known-finding key for programs of
    the class `key` describes (decided by the caller through key(exec, failure)).  known_of(exec): the execution belongs
    to a listed known-finding class: those are validated apart and the search stops at the first rejected one (it is
    printed as KNOWN-FINDING once; locating every one of them costs a TLC start per probe)."""
    if not execs:
        return 0
    if known_of is not None:
        a = [x for x in execs if not known_of(x)]
        b = [x for x in execs if known_of(x)]
        n = validate(ctx, module, a, to_events, what, batch=batch, key=key)
        if b:
            evl = [to_events(x) for x in b]
            for f in ctx.validate("DTD", module, module + ".cfg", evl, batch=batch, timeout=1200, max_failures=1):
                x = b[f.index]
                ctx.violation("%s: %s" % (what, json.dumps({"program": x.line, "config": x.cfg, "detail": f.describe()})[:1800]),
                              {"module": module, "events": f.execution, "program": x.line, "config": x.cfg, "detail": f.describe()},
                              key=key(x, f) if key else None)
                n += 1
        return n
    evl = [to_events(x) for x in execs]
    fails = ctx.validate("DTD", module, module + ".cfg", evl, batch=batch, timeout=1200)
    for f in fails:
        x = execs[f.index]
        ctx.violation("%s: %s" % (what, json.dumps({"program": x.line, "config": x.cfg, "detail": f.describe()})[:1800]),
                      {"module": module, "events": f.execution, "program": x.line, "config": x.cfg, "detail": f.describe()},
                      key=key(x, f) if key else None)
    return len(fails)


def corrupted_rejected(ctx, module, events):
    """Self-test: one corrupted value in an accepted trace must be rejected."""
    bad = json.loads(json.dumps(events))
    for e in bad:
        if e.get("e") == "End" and e.get("writes"):
            e["writes"][0][1] = (e["writes"][0][1] + 1) % 1000003
            break
    else:
        return
    br = tracecheck.validate_executions(ctx.spec("DTD"), module, module + ".cfg", [bad], confirm=False, max_failures=1)
    if not br.failures:
        raise tlc.TLCError("%s accepts a trace with a corrupted written value: the validator is vacuous" % module)
    ctx.extra["corrupted_trace_rejected"] = True


WINDOWS = [(1, 0), (2, 1), (2048, 2048)]


def lines_for(progs, windows, fl="A", ins=0, sp=(50, 300), rot=0, ar=None):
    """ar: None, or function(index) -> 0 / 1 (wide tiles + second arena datatype for that program)."""
    lines = []
    for i, p in enumerate(progs):
        w, th = windows[(i + rot) % len(windows)]
        lines.append(prog_line(p, fl=fl, w=w, th=th, ins=ins, sp=sp, ar=ar(i) if ar else 0))
    return lines


def run(ctx):
    d = ctx.stage("DTD")
    exe = ctx.harness("run_prog", ["harness/dtd/run_prog.c"])
    model_check(ctx, d)
    if ctx.quick:
        progs = gen_programs(ctx, d, "a", 3, 10, 3, 40) + gen_programs(ctx, d, "b", 2, 8, 2, 20)
        dups = gen_programs(ctx, d, "d", 2, 6, 3, 8, dup=True)
        configs = CONFIGS_QUICK
    else:
        progs = gen_programs(ctx, d, "a", 3, 12, 3, 500) + gen_programs(ctx, d, "b", 2, 8, 2, 300) + \
            gen_programs(ctx, d, "c", 4, 14, 3, 400)
        dups = gen_programs(ctx, d, "d", 2, 6, 3, 100, dup=True) + gen_programs(ctx, d, "e", 2, 8, 4, 100, dup=True)
        configs = CONFIGS_ALL
    dups = [p for p in dups if has_dup(prog_line(p))]
    ctx.extra["programs_from_tlc"] = len(progs) + len(dups)
    ctx.extra["programs_with_one_datum_in_several_parameters"] = len(dups)
    ctx.sample({"program": prog_line(progs[0])})
    if dups:
        ctx.sample({"program_same_datum_in_several_parameters": prog_line(dups[0])})
    # ---- one process: every configuration, window settings rotate over the programs -------------------------------
    single = []
    for k, (s, t) in enumerate(configs):
        single += run_batch(ctx, exe, lines_for(progs, WINDOWS, rot=k), "s_%s_%d" % (s, t), threads=t, sched=s, timeout=900)
    # tasks inserting tasks: the whole program is inserted by one task (the only inserter while it runs); that task
    # counts as pending itself, so a threshold of 0 could never be reached from inside it
    ip = progs[:10] if ctx.quick else progs[:300]
    single += run_batch(ctx, exe, lines_for(ip, [(2, 1), (2048, 2048), (4, 2)], ins=1), "ins", threads=4, sched="lfq", timeout=900)
    # one datum in several parameters of a task (kept apart: on a tree without fixes/dtd-same-tile-several-params.diff
    # most of these crash or hang, every failure costs a restart of the driver)
    dsingle = []
    # (quick: 4 of these programs under one configuration and a 4 s alarm: they are the known-finding class, each hang
    #  costs its alarm)
    dq = dups[:4] if ctx.quick else dups
    for k, (s, t) in enumerate(configs[:1] if ctx.quick else configs[:8]):
        dsingle += run_batch(ctx, exe, lines_for(dq, WINDOWS, rot=k, sp=(30, 120)), "d_%s_%d" % (s, t), threads=t, sched=s,
                             timeout=900, max_restarts=len(dq), env={"VERIF_ALARM": "4" if ctx.quick else "10"}, confirm=False)
    dupkey = lambda x, f: KEY_DUP if has_dup(x.line) else None
    nv = validate(ctx, "SeqTrace", single + dsingle, single_events,
                  "one-process DTD execution is not a behaviour of Seq.tla (values / ordering)", key=dupkey,
                  known_of=lambda x: has_dup(x.line))
    # ---- several processes: values only ------------------------------------------------------------------------------
    multi = []
    mp = (progs[:20] + dups[:2]) if ctx.quick else (progs[:400] + dups[:60])
    for nr in ([2, 3] if ctx.quick else [2, 3, 4]):
        s, t = [c for c in configs if c[0] != "ll"][nr % 3]      # ll ping-pongs a re-queued writer between two threads
        # every other pair of programs: tiles 4 ints wide under the second attached arena datatype (id 1)
        multi += run_batch(ctx, exe, lines_for(mp, [(2048, 2048), (2, 1)], sp=(20, 100),
                                               ar=lambda i, nr=nr: ((i // 2) + nr) % 2), "m%d" % nr,
                           threads=max(2, t), sched=s, nranks=nr, timeout=900, max_restarts=len(dups),
                           env={"VERIF_ALARM": "30"})
    nv += validate(ctx, "SeqTraceValues", multi, merged_events,
                   "multi-process DTD execution does not produce the sequential values", key=dupkey,
                   known_of=lambda x: has_dup(x.line))
    ctx.evaluations = len(single) + len(dsingle) + len(multi)
    ctx.extra["executions_single"] = len(single) + len(dsingle)
    ctx.extra["executions_multi"] = len(multi)
    ctx.extra["executions_multi_two_arena_datatypes"] = sum(1 for x in multi if " ar=1" in x.line)
    ok = [x for x in single if not x.failed]
    if ok:
        ctx.sample({"config": ok[0].cfg, "trace": single_events(ok[0])[:12]})
        corrupted_rejected(ctx, "SeqTrace", single_events(ok[0]))
    okm = [x for x in multi if not x.failed]
    if okm:
        corrupted_rejected(ctx, "SeqTraceValues", merged_events(okm[0]))
    ctx.assume("one body function per access signature; affinity given by a PARSEC_VALUE|PARSEC_AFFINITY rank parameter")
    ctx.assume("every process inserts the same program (DTD is SPMD)")
    ctx.assume("schedulers ip, llp and ll with one thread are not used here (active-wait live-lock, see C04)")


def replay(ctx, obj):
    for f in ctx.validate("DTD", obj["module"], obj["module"] + ".cfg", [obj["events"]]):
        ctx.violation("recorded trace still rejected: %s" % json.dumps(f.describe())[:1000], obj)
