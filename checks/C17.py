"""C17  DTD data flush returns the last written value to the owner.

spec/DTD/Seq.tla             Flush(d) / FlushRun(d): once every accessor of d is done the owner copy := current value; TLC
                             checks FlushReturnsLast (after flush + wait the owner holds the value of the last inserted writer)
spec/DTD/SeqTraceValues.tla  1-4 processes: the Owner(d, v) events logged by the owning process after
                             parsec_dtd_data_flush(_all) + parsec_taskpool_wait must equal the sequential interpretation
spec/DTD/SeqTrace.tla        same on one process, with the ordering guard
Programs: TLC -simulate of Seq with affinities over 0..3 (task placed by a PARSEC_VALUE|PARSEC_AFFINITY rank), run by
harness/dtd/run_prog.c with flush_all, or parsec_dtd_data_flush of a random subset of the data followed by flush_all (every datum has to be
flushed before the wait).  Half of the multi-process runs (ar=1 in the program line) use tiles 4 ints wide with distinct
element values, accessed with the SECOND attached arena datatype (id 1; a one-int datatype is attached first, id 0): the owner
logs the value held by every element ("vs"), so a flush that moves the tile with another datatype than the tile's (a partial
copy) is rejected by SeqTraceValues.  A program found by these runs (a flushed value copied over the owner's copy while an earlier
local reader is pending, 1-2 % of its executions on 2 processes) is repeated 200 / 1500 times.
"""
import json

from lib import tlc, tracecheck
from checks import C03 as base

META = {
    "level": "model_checking",
    "text": "TLC checks on Seq.tla that flush after the last accessor leaves the owner copy equal to the value of the last "
            "inserted writer; TLC-generated DTD programs with random task affinities are run on 1-4 MPI processes and end "
            "with parsec_dtd_data_flush_all or parsec_dtd_data_flush of a subset, then parsec_taskpool_wait; every owner "
            "logs the content of its copy of each flushed datum and TLC validates the recorded executions against the "
            "sequential interpretation of the inserted program (SeqTraceValues / SeqTrace).",
    "note": "Model exhaustive for 3 tasks on 2 data; implementation sampled: programs of 6-12 tasks over 2-4 tiles "
            "distributed block-cyclically, 1-4 processes, 2 threads each; half of the multi-process runs use tiles 4 ints wide "
            "(distinct element values, every element compared) accessed with the second of two attached arena datatypes, the "
            "others one-int tiles with a single datatype. Trusted: TLC, MPI, the recorder.",
    "technique": "TLA+ spec (TLC) generates programs, run on real MPI processes + trace validation (TLC)",
}


KEY_FLUSH_WAR = "dtd-flush-overwrites-pending-reader"


def last_writer_remote(p, nranks):
    """Evidence: data whose last inserted writer runs on another process than the owner."""
    n = 0
    for d in range(1, p["nd"] + 1):
        lw = None
        for t in p["tasks"]:
            if any(a["d"] == d and a["m"] in ("W", "RW") for a in t["accs"]):
                lw = t["rank"] % nranks
        if lw is not None and lw != (d - 1) % nranks:
            n += 1
    return n


def flush_spec(p, rng, k):
    if k % 2 == 0:
        return "A"
    ds = [d for d in range(1, p["nd"] + 1) if rng.random() < 0.6] or [1]
    return "S:" + ",".join(str(d) for d in ds)


def run(ctx):
    d = ctx.stage("DTD")
    exe = ctx.harness("run_prog", ["harness/dtd/run_prog.c"])
    base.model_check(ctx, d, dup=False)
    if ctx.quick:
        progs = base.gen_programs(ctx, d, "f3", 3, 8, 2, 30) + base.gen_programs(ctx, d, "f4", 4, 10, 3, 20)
        ranks = [1, 2, 3, 4]
    else:
        progs = base.gen_programs(ctx, d, "f3", 3, 8, 2, 300) + base.gen_programs(ctx, d, "f4", 4, 12, 3, 400)
        ranks = [1, 2, 3, 4]
    ctx.extra["programs_from_tlc"] = len(progs)
    single, multi = [], []
    remote = remote_wide = 0
    for nr in ranks:
        lines = []
        for k, p in enumerate(progs):
            w, th = [(2048, 2048), (2, 1)][k % 2]
            # several processes: every other pair of programs uses tiles 4 ints wide accessed with the arena datatype
            # attached SECOND (id 1), a one-int datatype sits under id 0: a flush moving the wrong datatype truncates
            ar = ((k // 2) + nr) % 2 if nr > 1 else 0
            lines.append(base.prog_line(p, fl=flush_spec(p, ctx.rng, k + nr), w=w, th=th, sp=(20, 120), ar=ar))
            remote += last_writer_remote(p, nr)
            remote_wide += last_writer_remote(p, nr) if ar else 0
        s, t = [("lfq", 2), ("ap", 2), ("pbq", 3), ("gd", 2)][nr % 4]
        ex = base.run_batch(ctx, exe, lines, "f%d" % nr, threads=t, sched=s, nranks=nr, timeout=900,
                            env={"VERIF_ALARM": "40"})
        (single if nr == 1 else multi).extend(ex)
    # (found by the TLC-generated programs, seed 3)  d2 is owned by rank 1; task 9 (rank 1) reads d2 and must wait for d4
    # from rank 0, task 10 (rank 0, inserted after 9) rewrites d2: when its value is flushed back before 9 has run, the
    # flush task copies it over the owner's copy that 9 is going to read (1-2 % of the runs): repeated runs.
    mk = lambda r, *ps: {"accs": [{"d": d, "m": m} for d, m in ps], "rank": r}
    fw = {"nd": 4, "tasks": [mk(1, (4, "R"), (3, "W"), (2, "RW")), mk(1, (1, "W"), (3, "R"), (2, "R")),
                             mk(0, (4, "R"), (1, "W"), (3, "RW")), mk(1, (1, "RW"), (2, "W"), (3, "RW")),
                             mk(1, (1, "W"), (3, "R"), (2, "R")), mk(0, (3, "RW"), (4, "W")),
                             mk(1, (1, "R"), (3, "W"), (2, "W")), mk(0, (1, "R"), (3, "R"), (4, "W")),
                             mk(1, (1, "R"), (4, "W"), (2, "R")), mk(0, (2, "RW"), (3, "RW"))]}
    fx = base.run_batch(ctx, exe, [base.prog_line(fw, sp=(20, 120))] * (200 if ctx.quick else 1500), "fw", threads=3,
                        sched="pbq", nranks=2, timeout=900, env={"VERIF_ALARM": "40"})
    ctx.extra["executions_flush_vs_pending_reader"] = len(fx)
    base.validate(ctx, "SeqTraceValues", fx, base.merged_events,
                  "a task read a value written by a task inserted after it: the flushed value of the later remote writer was "
                  "copied over the owner's copy before the earlier local reader had run",
                  key=lambda x, f: KEY_FLUSH_WAR if (f.describe().get("next_event") or {}).get("e") == "Start" else None)
    ctx.sample({"program": single[0].line if single else multi[0].line})
    base.validate(ctx, "SeqTrace", single, base.single_events,
                  "after flush + wait the owner copy is not the value of the last inserted writer (one process)")
    base.validate(ctx, "SeqTraceValues", multi, base.merged_events,
                  "after flush + wait the owner copy is not the value of the last inserted writer")
    owners = sum(1 for x in single + multi for pr in x.per_rank for e in pr if e.get("e") == "Owner")
    ctx.evaluations = len(single) + len(multi)
    ctx.extra["executions"] = len(single) + len(multi)
    ctx.extra["owner_observations"] = owners
    ctx.extra["data_whose_last_writer_is_not_on_the_owner"] = remote
    ctx.extra["idem_with_wide_tiles_under_second_arena_datatype"] = remote_wide
    ctx.extra["executions_two_arena_datatypes"] = sum(1 for x in multi if " ar=1" in x.line)
    if owners == 0 or remote == 0 or remote_wide == 0:
        raise tlc.TLCError("no flushed datum was observed / no datum had a remote last writer: vacuous run")
    okm = [x for x in multi if not x.failed and any(e.get("e") == "Owner" for pr in x.per_rank for e in pr)]
    if okm:
        evs = base.merged_events(okm[0])
        ctx.sample({"config": okm[0].cfg, "program": okm[0].line, "owner_events": [e for e in evs if e.get("e") == "Owner"]})
        bad = json.loads(json.dumps(evs))
        for e in bad:
            if e.get("e") == "Owner":
                e["v"] = (e["v"] + 1) % 1000003
                break
        br = tracecheck.validate_executions(ctx.spec("DTD"), "SeqTraceValues", "SeqTraceValues.cfg", [bad], confirm=False,
                                            max_failures=1)
        if not br.failures:
            raise tlc.TLCError("SeqTraceValues accepts a corrupted owner value")
        ctx.extra["corrupted_trace_rejected"] = True
    okw = [x for x in okm if " ar=1" in x.line]
    if okw:     # one element of a wide owner tile differs (what a partial copy leaves): must be rejected
        evs = base.merged_events(okw[0])
        ctx.sample({"config": okw[0].cfg, "program_two_arena_datatypes": okw[0].line,
                    "owner_events": [e for e in evs if e.get("e") == "Owner"]})
        bad = json.loads(json.dumps(evs))
        for e in bad:
            if e.get("e") == "Owner" and len(e.get("vs", [])) > 1:
                e["vs"][-1] = (e["vs"][-1] + 1) % 1000003
                break
        else:
            raise tlc.TLCError("no wide Owner event in a two-datatype execution")
        br = tracecheck.validate_executions(ctx.spec("DTD"), "SeqTraceValues", "SeqTraceValues.cfg", [bad], confirm=False,
                                            max_failures=1)
        if not br.failures:
            raise tlc.TLCError("SeqTraceValues accepts an owner tile with one stale element")
        ctx.extra["partially_copied_tile_rejected"] = True
    ctx.assume("tiles: one int each (one arena datatype, id 0) or 4 ints each (arena datatype id 1, a one-int datatype "
               "under id 0), 1-D block-cyclic over the processes; every process inserts the same program")
    ctx.assume("programs do not give one datum to several parameters of a task (C03 covers that)")


def replay(ctx, obj):
    for f in ctx.validate("DTD", obj["module"], obj["module"] + ".cfg", [obj["events"]]):
        ctx.violation("recorded trace still rejected: %s" % json.dumps(f.describe())[:1000], obj)
