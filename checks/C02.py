"""C02  PTG execution respects dependencies and delivers the named data.

Same machinery as C01 (spec/PTG/JDFSem.tla, Exec.tla, ExecTrace.tla; lib/jdfgen.py; harness/ptg).  Here the trace
specification runs with CheckOrder and CheckValues:
  * a body may start only after the End of every instance named by one of its active input dependencies,
  * every value read (logged by the test-owned body, 1-3 integers per tile) equals the value carried by the output
    flow of the named predecessor, or the named tile of the data collection,
  * every value written equals the deterministic body function of the values read (so a wrong input propagates),
  * the collection logged after completion equals the model's collection and the sequential interpretation
    SeqFinal(prog) that JDFSem computes from the AST.
Exec.tla is model-checked (StartAfterPreds; TermOK: collection = sequential interpretation for every interleaving).
"""
from harness.ptg import ptgrun
from lib import jdfgen

META = {
    "level": "model_checking",
    "text": "Generated PTG programs with data and control flows (chains in every iteration direction, range broadcasts, "
            "control gathers, fan-in through several flows, ternary routing between tasks and between a task and the "
            "collection in both orientations, READ forwarding, NEW, write-back to another tile than the one read) are compiled "
            "with both dependency back-ends and run under several schedulers and thread counts; bodies log the integers "
            "they read and write; TLC validates every execution against the dependency relation and the value semantics "
            "computed from the same AST: start only after the named predecessors ended, each input = the predecessor's "
            "output or the collection tile, final collection = sequential interpretation. TLC also model-checks the life "
            "cycle model (all interleavings of small programs end with the sequential result).",
    "note": "Programs are race-free by construction (checked by the generator: in-place and value semantics agree). One "
            "process. <= ~60 instances per program; executions sample the interleavings. Trusted: printer, recorder, TLC.",
    "technique": "TLA+ value/dependency semantics of generated JDF programs (TLC) + real executions + trace validation (TLC)",
}

DATA_TAGS = ("chain", "bcast", "mask2", "split", "pipe", "new", "route")


def programs(ctx):
    ents = [e for e in jdfgen.shape_programs() if any(t.split(":")[0] in DATA_TAGS for t in e["tags"])]
    for e in ents:
        it, _ = jdfgen.validate(e["prog"])
        e["ntasks"] = len(it.order)
    rnd = [e for e in jdfgen.random_programs(2000 + ctx.seed, 30 if ctx.quick else 400)
           if any(t.split(":")[0] in DATA_TAGS for t in e["tags"])]
    return ents + rnd[:(18 if ctx.quick else 300)]


def configs(ctx):
    if ctx.quick:
        return [{"sched": "lfq", "cores": 4, "conc": 64}, {"sched": "ap", "cores": 1, "conc": 64},
                {"sched": "ip", "cores": 4, "conc": 64, "noise": 7}, {"sched": "gd", "cores": 2, "conc": 1},
                {"sched": "rnd", "cores": 4, "conc": 64, "noise": 3}, {"sched": "ltq", "cores": 3, "conc": 64},
                {"sched": "spq", "cores": 4, "conc": 8, "noise": 11}, {"sched": "lhq", "cores": 2, "conc": 64}]
    out = []
    k = 0
    for s in ["ap", "gd", "ip", "lfq", "lhq", "ll", "llp", "ltq", "pbq", "rnd", "spq"]:
        for cores in (1, 2, 4, 16):
            if cores == 1 and s in ("ll", "llp"):
                continue            # documented by the module: no active wait with a single thread (live-lock risk)
            k += 1
            out.append({"sched": s, "cores": cores, "conc": (1 if k % 4 == 0 else 32), "noise": (k if k % 2 else 0)})
    return out


def run(ctx):
    d = ctx.stage("PTG")
    ptgrun.model_checks(ctx, d)
    ents = programs(ctx)
    cfgs = configs(ctx)
    # the two dependency back-ends: alternate in quick, both in thorough
    backs = {e["prog"]["name"]: ("dynamic-hash-table" if i % 2 == 0 else "index-array") for i, e in enumerate(ents)}
    if ctx.quick:
        ptgrun.campaign(ctx, ents, cfgs, "ExecTraceC02.cfg", "c02", backends=backs,
                        what="execution (dependencies and values)")
    else:
        import copy
        other = []
        for e in ents:
            e2 = copy.deepcopy(e)
            e2["prog"]["name"] = e["prog"]["name"] + "b"
            other.append(e2)
        backs.update({e2["prog"]["name"]: ("index-array" if backs[e["prog"]["name"]] != "index-array" else "dynamic-hash-table")
                      for e, e2 in zip(ents, other)})
        allp = ents + other
        for s in range(0, len(allp), 60):
            ptgrun.campaign(ctx, allp[s:s + 60], ctx.rng.sample(cfgs, 8), "ExecTraceC02.cfg", "c02-%d" % s, backends=backs,
                            what="execution (dependencies and values)")
    ctx.assume("programs are race-free and their in-place execution equals the value semantics (generator filter)")
    ctx.assume("one process: no remote dependencies (C05 covers distribution)")


def replay(ctx, obj):
    ptgrun.replay_trace(ctx, obj)
