"""C41  Info registries return what was set.

spec/Info/Registry.tla     abstract registry (names -> distinct identifiers, per-object slots, get/set/test-and-set)
spec/Info/RegTrace.tla     sequential trace validation: operation results + the whole logged real state
spec/Info/RegLinTrace.tla  linearizability trace validation of concurrent inv/res histories
Behaviours: TLC breadth-first = EVERY operation sequence of Registry.tla up to a bound (three small universes),
TLC -simulate = long random walks over a larger universe; each replayed on the real parsec_info_* functions
(harness/info/info_replay.c).  Concurrent part: small scenarios under the cooperative scheduler (every
interleaving at yield-point granularity up to a limit, random schedules), free-running threads.
"""
import json
import os

from lib import mcgen, tlc, tracecheck

META = {
    "level": "model_checking",
    "text": "TLC enumerates every register/unregister/lookup/object-init/set/get/test-and-set sequence of Registry.tla up "
            "to a bound (and simulates long walks); each is replayed on the real parsec_info_* functions, which log the "
            "result and the complete registry and object arrays after every operation; TLC validates every step against "
            "the specification (fresh distinct identifiers, lookups, slot contents, growth). Concurrent histories of the "
            "same functions (all interleavings of small scenarios under the cooperative scheduler, random schedules, "
            "free-running threads) are checked for linearizability by TLC.",
    "note": "Exhaustive for sequences of <= 5 (quick) / 5-6 (thorough) operations over 2-4 names, 1-2 objects, 1-2 values; "
            "random walks of 30-60 operations over 5-6 names and 3 objects beyond that. Concurrent: 2-3 threads x <= 3 "
            "operations exhaustively up to a limit, random schedules and free-running 4-thread stress beyond. A slot keeps "
            "its value across unregister when the info has no destructor (modelled as the code does). The value returned "
            "by a *concurrent* parsec_info_set is not constrained (the property speaks of get / test-and-set). "
            "Trusted: TLC, vsched, ndjson recorder.",
    "technique": "TLA+ spec behaviours (TLC BFS + simulate) replayed on real code + trace validation; interleaving exploration + linearizability trace validation",
}

ALLF = [(0, 0), (0, 1), (1, 0), (1, 1)]


def flags(fs):
    return mcgen.Raw("{" + ", ".join("<<%d, %d>>" % f for f in fs) + "}")


def to_line(h):
    out = []
    for o in h:
        op = o["op"]
        if op == "reg":
            out.append("reg %d %d %d" % (o["n"], o["c"], o["d"]))
        elif op in ("unr", "lk"):
            out.append("%s %d" % (op, o["n"]))
        elif op == "obj":
            out.append("obj %d" % o["o"])
        elif op == "set":
            out.append("set %d %d %d" % (o["o"], o["n"], o["v"]))
        elif op == "get":
            out.append("get %d %d" % (o["o"], o["n"]))
        elif op == "tas":
            out.append("tas %d %d %d %d" % (o["o"], o["n"], o["v"], o["old"]))
    return ";".join(out)


def consts(names, objs, vals, fs, ml):
    return {"Names": set(range(1, names + 1)), "Objs": set(range(1, objs + 1)), "Vals": set(vals), "Flags": flags(fs),
            "MaxLen": ml}


def sequential(ctx, d, exe):
    hs = []
    if ctx.quick:
        bfs = [("reg4", consts(4, 1, [1], [(0, 0)], 5)),            # registry: holes, re-registration
               ("slot2", consts(2, 1, [1, 2], [(1, 1)], 5)),        # slots: growth, constructor, test-and-set
               ("obj2", consts(2, 2, [1], [(0, 1)], 5))]            # two object arrays, destructor on unregister
    else:
        bfs = [("reg4", consts(4, 1, [1], [(0, 0)], 6)),
               ("slot2", consts(2, 1, [1, 2], [(0, 0), (1, 1)], 5)),
               ("obj2", consts(3, 2, [1], [(0, 1), (1, 0)], 5))]
    for name, c in bfs:
        mod, cfg = mcgen.write_mc(d, name, "Registry", c, invariants=("TypeOK", "DistinctIds", "DenseIds", "Emit"))
        r = ctx.tlc_check(d, mod, cfg, workers=4, timeout=1500,
                          must_cover=("Register", "Unregister", "Lookup", "ObjInit", "Set", "Get", "TestAndSet"))
        for l in r.printed:
            h = tlc._parse_tla_string_list(l)
            if h:
                hs.append(h)
    n_bfs = len(hs)
    for (name, c, depth, num) in ([("sim5", consts(5, 3, [0, 1, 2], ALLF, 30), 30, 300)] if ctx.quick else
                                  [("sim5", consts(5, 3, [0, 1, 2], ALLF, 40), 40, 2000),
                                   ("sim6", consts(6, 3, [0, 1, 2, 3], ALLF, 60), 60, 1000)]):
        mod, cfg = mcgen.write_mc(d, name, "Registry", c, invariants=("TypeOK", "DistinctIds", "Emit"))
        hs.extend(ctx.tlc_histories(d, mod, cfg, num, depth + 1, workers=4))
    ctx.extra["behaviours_bfs"] = n_bfs
    ctx.extra["behaviours_sim"] = len(hs) - n_bfs
    hp = os.path.join(ctx.scratch, "hist.txt")
    with open(hp, "w") as f:
        for h in hs:
            f.write(to_line(h) + "\n")
    tr = os.path.join(ctx.scratch, "seq.ndjson")
    rc, out, err = ctx.run_cmd([exe, "seq", hp, tr], timeout=900)
    exs = tracecheck.split_executions(tracecheck.read_ndjson(tr)) if os.path.exists(tr) else []
    if rc != 0:
        k = max(0, len(exs) - 1)
        done = len(exs[k]) if exs else 0
        crash = {"e": "Crash", "rc": str(rc), "behaviour": to_line(hs[k]) if k < len(hs) else ""}
        if exs:
            exs[k] = exs[k] + [crash]
        else:
            exs = [[crash]]
    # conformance with the model beyond the property: the identifier policy (smallest free identifier)
    for h, ex in zip(hs, exs):
        for o, ev in zip(h, ex):
            if ev.get("e") == "op" and o["op"] == "reg" and ev.get("r") != o["r"]:
                ctx.divergences += 1
                ctx.sample({"divergence": {"behaviour": to_line(h), "register": o["n"], "model_id": o["r"], "real_id": ev.get("r")}}, limit=5)
                break
    if exs:
        ctx.sample({"behaviour": to_line(hs[0]), "last_logged_event": exs[0][-1] if exs[0] else None})
        ctx.sample({"behaviour": to_line(hs[-1])})
    return hs, exs


# ---- concurrent scenarios: "pre" runs on the main thread, then the threads run their programs ---------------------
# (two-thread scenarios are explored exhaustively at yield-point granularity; three threads and more only with
#  random schedules / free running: two threads spinning on the list lock wake each other up under vsched)
EXPLORE = [
    # array growth (set of a new identifier) against readers of an old slot
    {"name": "grow1", "pre": "reg 1 0 0;obj 1;set 1 1 1;reg 2 0 0", "threads": ["set 1 2 2", "get 1 1"], "limit": 0},
    {"name": "grow2", "pre": "reg 1 0 0;obj 1;set 1 1 1", "threads": ["reg 2 0 0;set 1 2 2", "tas 1 1 2 1;get 1 1"]},
    # two registrations racing for the hole left by an unregistration
    {"name": "hole", "pre": "reg 1 0 0;reg 2 0 0;reg 3 0 0;unr 2", "threads": ["reg 4 0 0;lk 5", "reg 5 0 0;lk 4"], "limit": 0},
    # constructed default against test-and-set
    {"name": "ctor", "pre": "reg 1 1 1;obj 1", "threads": ["get 1 1", "tas 1 1 2 0"], "limit": 0},
    {"name": "ctor2", "pre": "reg 1 1 1;obj 1", "threads": ["get 1 1;tas 1 1 1 11", "get 1 1;tas 1 1 2 11"]},
    # unregister (destructor clears the slots) against use of another info, and re-registration
    {"name": "unreg", "pre": "reg 1 0 1;reg 2 0 0;obj 1;set 1 1 1;set 1 2 2", "threads": ["unr 1;reg 3 0 0", "tas 1 2 1 2;get 1 2"]},
]
RANDOM = [
    {"name": "grow3", "pre": "reg 1 0 0;obj 1;set 1 1 1",
     "threads": ["reg 2 0 0;set 1 2 2;get 1 2", "get 1 1;tas 1 1 2 1;get 1 1", "reg 3 1 1;get 1 3;tas 1 3 1 13"]},
    {"name": "hole3", "pre": "reg 1 0 0;reg 2 0 0;reg 3 0 0;reg 4 0 0;unr 2;unr 3;obj 1",
     "threads": ["reg 5 0 0;set 1 5 1;get 1 5", "reg 6 0 0;set 1 6 2;get 1 6", "lk 1;reg 7 0 1;lk 4;unr 7"]},
    {"name": "objs3", "pre": "reg 1 1 0;reg 2 0 0",
     "threads": ["obj 1;get 1 1;set 1 2 1", "obj 2;tas 2 2 2 0;get 2 1", "reg 3 0 0;lk 3;lk 2"]},
]
STRESS = {"name": "stress", "pre": "reg 1 0 0;reg 2 1 1;obj 1;obj 2;set 1 1 1",
          "threads": ["reg 3 0 0;set 1 3 1;get 1 3;tas 1 1 2 1;get 2 2;unr 3;reg 7 0 0;set 2 7 2;get 2 7",
                      "reg 4 1 1;get 1 4;get 2 4;tas 2 1 1 0;lk 3;get 1 1;set 2 4 2;get 2 4",
                      "get 1 2;reg 5 0 1;set 2 5 2;tas 2 5 1 2;unr 5;lk 5;reg 8 0 0;get 1 8;get 2 1",
                      "obj 3;get 3 2;reg 6 0 0;tas 3 6 2 0;get 3 6;lk 4;tas 1 1 1 2;get 3 1"]}


def scenario_file(sc, path):
    with open(path, "w") as f:
        f.write("pre %s\n" % sc["pre"])
        for t, ops in enumerate(sc["threads"]):
            f.write("t %d %s\n" % (t, ops))


def annotate(ex):
    """copy every call's result into its inv event (field pr, see RegLinTrace.tla)"""
    out = []
    for i, ev in enumerate(ex):
        if ev.get("e") == "inv":
            ev = dict(ev)
            ev["pr"] = 0
            for w in ex[i + 1:]:
                if w.get("e") == "res" and w.get("t") == ev.get("t"):
                    ev["pr"] = w.get("r")
                    break
        out.append(ev)
    return out


def concurrent(ctx, exe):
    executions = []
    limit = 4000 if ctx.quick else 150000
    nrand = 500 if ctx.quick else 20000
    all_exh = True

    def collect(sc, mode, arg, extra=()):
        scf = os.path.join(ctx.scratch, sc["name"] + ".scn")
        scenario_file(sc, scf)
        tr = os.path.join(ctx.scratch, "%s.%s.trace" % (sc["name"], mode))
        meta = os.path.join(ctx.scratch, "%s.%s.meta" % (sc["name"], mode))
        rc, out, err = ctx.run_cmd([exe, mode, scf, str(arg), tr, meta] + list(extra), timeout=1200)
        exs = tracecheck.split_executions(tracecheck.read_ndjson(tr)) if os.path.exists(tr) else []
        if rc != 0:
            exs.append((exs.pop() if exs else []) + [{"e": "Crash", "rc": str(rc), "stderr": err[-300:]}])
        last = {}
        if os.path.exists(meta):
            for l in open(meta):
                last = json.loads(l)
        for e in exs:
            executions.append((sc["name"], mode, e))
        return last

    for sc in EXPLORE:
        last = collect(sc, "explore", sc.get("limit", limit))
        exh = bool(last.get("exhaustive"))
        all_exh = all_exh and exh
        ctx.extra.setdefault("scenarios", []).append({"name": sc["name"], "mode": "explore", "interleavings": last.get("explored"),
                                                      "exhaustive": exh})
    for sc in RANDOM:
        collect(sc, "random", nrand, [str(ctx.seed)])
        ctx.extra["scenarios"].append({"name": sc["name"], "mode": "random", "schedules": nrand})
    collect(STRESS, "stress", 200 if ctx.quick else 5000, [str(ctx.seed)])
    ctx.extra["conc_executions"] = len(executions)
    ctx.extra["conc_all_explored_exhaustively"] = all_exh
    distinct, mult = tracecheck.dedupe([e for _, _, e in executions])
    ctx.extra["conc_distinct_histories"] = len(distinct)
    distinct = [annotate(e) for e in distinct]
    if distinct:
        ctx.sample({"history": distinct[len(distinct) // 2]}, limit=4)
    return executions, distinct


def run(ctx):
    d = ctx.stage("Info")
    exe = ctx.harness("info_replay", ["harness/info/info_replay.c"])
    hs, exs = sequential(ctx, d, exe)
    ctx.exhaustive = True
    distinct, mult = tracecheck.dedupe(exs)
    ctx.extra["seq_executions"] = len(exs)
    # two groups (each reports its first failures): pure registry behaviours, behaviours with object arrays
    pure = [e for e in distinct if not any(ev.get("op") == "obj" for ev in e)]
    withobj = [e for e in distinct if any(ev.get("op") == "obj" for ev in e)]
    fails = ctx.validate("Info", "RegTrace", "RegTrace.cfg", pure, batch=3000, timeout=1500) + \
        ctx.validate("Info", "RegTrace", "RegTrace.cfg", withobj, batch=3000, timeout=1500)
    for f in fails:
        ctx.violation("real info registry diverges from Registry.tla: %s" % json.dumps(f.describe())[:1500],
                      {"kind": "seq", "events": f.execution, "detail": f.describe()})
    cex, cdistinct = concurrent(ctx, exe)
    ctx.evaluations = len(hs) + len(cex)
    fails = ctx.validate("Info", "RegLinTrace", "RegLinTrace.cfg", cdistinct, batch=500, timeout=1500)
    ctx.traces = len(exs) + len(cex)
    for f in fails:
        ctx.violation("history of the real info registry is not linearizable w.r.t. Registry.tla: %s" % json.dumps(f.describe())[:1500],
                      {"kind": "conc", "events": f.execution, "detail": f.describe()})
    ctx.assume("set/get/test_and_set are only called with identifiers of currently registered infos")
    ctx.assume("an info is not unregistered while another thread uses its identifier")


def replay(ctx, obj):
    mod = ("RegTrace", "RegTrace.cfg") if obj.get("kind", "seq") == "seq" else ("RegLinTrace", "RegLinTrace.cfg")
    for f in ctx.validate("Info", mod[0], mod[1], [obj["events"]]):
        ctx.violation("recorded trace still rejected: %s" % json.dumps(f.describe())[:1000], obj)
