"""C41  Info registries return what was set.

spec/Info/Registry.tla     abstract registry (names -> distinct identifiers, per-object slots, get/set/test-and-set)
spec/Info/RegTrace.tla     sequential trace validation: operation results + the whole logged real state
spec/Info/RegLinTrace.tla  linearizability trace validation of concurrent inv/res histories
Behaviours: TLC breadth-first = EVERY operation sequence of Registry.tla up to a bound (three small universes),
TLC -simulate = long random walks over a larger universe; each replayed on the real parsec_info_* functions
(harness/info/info_replay.c).  Concurrent part: small scenarios under the cooperative scheduler (every
interleaving at yield-point granularity up to a limit, random schedules), free-running threads.
"""
import json
import os

from lib import mcgen, tlc, tracecheck

META = {
    "level": "model_checking",
    "text": "TLC enumerates every register/unregister/lookup/object-init/set/get/test-and-set sequence of Registry.tla up "
            "to a bound (and simulates long walks); each is replayed on the real parsec_info_* functions, which log the "
            "result and the complete registry and object arrays after every operation; TLC validates every step against "
            "the specification (fresh distinct identifiers, lookups, slot contents, growth). Concurrent histories of the "
            "same functions (all interleavings of small scenarios under the cooperative scheduler, random schedules, "
            "free-running threads) are checked for linearizability by TLC.",
    "note": "Exhaustive for sequences of <= 5 (quick) / 6 (thorough) operations over 2-4 names, 1-2 objects, 1-2 values; "
            "random walks of 30-60 operations over 5-6 names and 3 objects beyond that. Concurrent: 2-3 threads x <= 3 "
            "operations exhaustively up to a limit, random schedules and free-running 4-thread stress beyond. A slot keeps "
            "its value across unregister when the info has no destructor (modelled as the code does). The value returned "
            "by a *concurrent* parsec_info_set is not constrained (the property speaks of get / test-and-set). "
            "Trusted: TLC, vsched, ndjson recorder.",
    "technique": "TLA+ spec behaviours (TLC BFS + simulate) replayed on real code + trace validation; interleaving exploration + linearizability trace validation",
}

ALLF = [(0, 0), (0, 1), (1, 0), (1, 1)]


def flags(fs):
    return mcgen.Raw("{" + ", ".join("<<%d, %d>>" % f for f in fs) + "}")


def to_line(h):
    out = []
    for o in h:
        op = o["op"]
        if op == "reg":
            out.append("reg %d %d %d" % (o["n"], o["c"], o["d"]))
        elif op in ("unr", "lk"):
            out.append("%s %d" % (op, o["n"]))
        elif op == "obj":
            out.append("obj %d" % o["o"])
        elif op == "set":
            out.append("set %d %d %d" % (o["o"], o["n"], o["v"]))
        elif op == "get":
            out.append("get %d %d" % (o["o"], o["n"]))
        elif op == "tas":
            out.append("tas %d %d %d %d" % (o["o"], o["n"], o["v"], o["old"]))
    return ";".join(out)


def consts(names, objs, vals, fs, ml):
    return {"Names": set(range(1, names + 1)), "Objs": set(range(1, objs + 1)), "Vals": set(vals), "Flags": flags(fs),
            "MaxLen": ml}


def sequential(ctx, d, exe):
    hs = []
    if ctx.quick:
        bfs = [("reg4", consts(4, 1, [1], [(0, 0)], 5)),            # registry: holes, re-registration
               ("slot2", consts(2, 1, [1, 2], [(0, 0), (1, 1)], 5)),  # slots: growth, constructor, test-and-set
               ("obj2", consts(2, 2, [1], [(0, 1)], 5))]            # two object arrays, destructor on unregister
    else:
        bfs = [("reg4", consts(4, 1, [1], [(0, 0)], 6)),
               ("slot2", consts(2, 1, [1, 2], [(0, 0), (1, 1)], 6)),
               ("obj2", consts(3, 2, [1], [(0, 1), (1, 0)], 6))]
    for name, c in bfs:
        mod, cfg = mcgen.write_mc(d, name, "Registry", c, invariants=("TypeOK", "DistinctIds", "DenseIds", "Emit"))
        r = ctx.tlc_check(d, mod, cfg, workers=4, timeout=1500,
                          must_cover=("Register", "Unregister", "Lookup", "ObjInit", "Set", "Get", "TestAndSet"))
        for l in r.printed:
            h = tlc._parse_tla_string_list(l)
            if h:
                hs.append(h)
    n_bfs = len(hs)
    for (name, c, depth, num) in ([("sim5", consts(5, 3, [0, 1, 2], ALLF, 30), 30, 300)] if ctx.quick else
                                  [("sim5", consts(5, 3, [0, 1, 2], ALLF, 40), 40, 3000),
                                   ("sim6", consts(6, 3, [0, 1, 2, 3], ALLF, 60), 60, 2000)]):
        mod, cfg = mcgen.write_mc(d, name, "Registry", c, invariants=("TypeOK", "DistinctIds", "Emit"))
        hs.extend(ctx.tlc_histories(d, mod, cfg, num, depth + 1, workers=4))
    ctx.extra["behaviours_bfs"] = n_bfs
    ctx.extra["behaviours_sim"] = len(hs) - n_bfs
    hp = os.path.join(ctx.scratch, "hist.txt")
    with open(hp, "w") as f:
        for h in hs:
            f.write(to_line(h) + "\n")
    tr = os.path.join(ctx.scratch, "seq.ndjson")
    rc, out, err = ctx.run_cmd([exe, "seq", hp, tr], timeout=900)
    exs = tracecheck.split_executions(tracecheck.read_ndjson(tr)) if os.path.exists(tr) else []
    if rc != 0:
        k = max(0, len(exs) - 1)
        done = len(exs[k]) if exs else 0
        crash = {"e": "Crash", "rc": str(rc), "behaviour": to_line(hs[k]) if k < len(hs) else ""}
        if exs:
            exs[k] = exs[k] + [crash]
        else:
            exs = [[crash]]
    # conformance with the model beyond the property: the identifier policy (smallest free identifier)
    for h, ex in zip(hs, exs):
        for o, ev in zip(h, ex):
            if ev.get("e") == "op" and o["op"] == "reg" and ev.get("r") != o["r"]:
                ctx.divergences += 1
                ctx.sample({"divergence": {"behaviour": to_line(h), "register": o["n"], "model_id": o["r"], "real_id": ev.get("r")}}, limit=5)
                break
    if exs:
        ctx.sample({"behaviour": to_line(hs[0]), "last_logged_event": exs[0][-1] if exs[0] else None})
        ctx.sample({"behaviour": to_line(hs[-1])})
    return hs, exs


def run(ctx):
    d = ctx.stage("Info")
    exe = ctx.harness("info_replay", ["harness/info/info_replay.c"])
    hs, exs = sequential(ctx, d, exe)
    ctx.evaluations = len(hs)
    ctx.exhaustive = True
    distinct, mult = tracecheck.dedupe(exs)
    ctx.extra["seq_executions"] = len(exs)
    fails = ctx.validate("Info", "RegTrace", "RegTrace.cfg", distinct, batch=2000, timeout=1500)
    for f in fails:
        ctx.violation("real info registry diverges from Registry.tla: %s" % json.dumps(f.describe())[:1500],
                      {"kind": "seq", "events": f.execution, "detail": f.describe()})
    ctx.assume("set/get/test_and_set are only called with identifiers of currently registered infos")
    ctx.assume("an info is not unregistered while another thread uses its identifier")


def replay(ctx, obj):
    mod = ("RegTrace", "RegTrace.cfg") if obj.get("kind", "seq") == "seq" else ("RegLinTrace", "RegLinTrace.cfg")
    for f in ctx.validate("Info", mod[0], mod[1], [obj["events"]]):
        ctx.violation("recorded trace still rejected: %s" % json.dumps(f.describe())[:1000], obj)
