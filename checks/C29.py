"""C29  Futures complete once and deliver one value.

spec/Future/Future.tla        abstract futures (the property): base (one value, ready, callback once), countable
                              (ready exactly after `count` sets), datacopy (one nested future and at most one
                              fulfilment per shape, results of the requested shape only)
spec/Future/BaseFutImpl.tla   implementation-shaped model of parsec_future.c (base + countable), yield-point granularity
spec/Future/DcFutImpl.tla     implementation-shaped model of parsec_datacopy_future.c (trigger under lock, nested list)
spec/Future/FutureTrace.tla   trace validation of recorded histories (calls, results, every callback invocation)

1. TLC checks the refinement invariants of the two models over the complete state graph of every scenario, with
   per-action coverage (vacuity guard), and shows they are sensitive (countable testing the pre-decrement value;
   TRIGGERED tested outside the lock: both must break an invariant).
2. Schedules covering every transition of each graph + random complete paths are replayed on the real vtable
   functions under the cooperative scheduler; step sequence, results and callback counts are compared (divergences).
3. Every interleaving of small scenarios / seeded random schedules of the others are run on the code by the harness.
4. Free-running 4-16 thread stress with 1-4 shapes; countable futures also in bursts: 64 futures per round with count =
   number of threads (4-6 quick, 2-8 thorough), every thread sets each future once after a barrier so that the final sets overlap (a
   decision taken on a plain re-read of the counter after the atomic decrement cannot be split by the cooperative
   scheduler: the re-read follows the atomic in the same step), thousands of rounds, one history per future.
5. All recorded histories are validated by TLC against FutureTrace (the verdict).
"""
import json
import os
import re
import time

from lib import mcgen, tlc, tracecheck

META = {
    "level": "model_checking",
    "text": "TLC checks implementation-shaped models of the base, countable and datacopy futures against the abstract "
            "future (one accepted value seen by every get, ready exactly after `count` sets, at most one nested future "
            "and one fulfilment per requested shape, callbacks once) over complete state graphs; schedules covering every "
            "model transition, exhaustive and random interleavings and free-running stress are executed on the real "
            "parsec_future_set/get/is_ready/get_or_trigger, and each recorded history (calls, results, every callback "
            "invocation, cleanup at destruction) is validated by TLC against FutureTrace.tla.",
    "note": "Bounded: 3 threads x 2-3 operations, 3-4 shapes for the model-driven and exhaustive parts, 4-16 threads x "
            "4-8 operations sampled by stress, plus bursts of overlapping final sets on countable futures (64 futures per "
            "round, count = 4-6 (thorough 2-8) setter threads released by a barrier, thousands of rounds, histories deduplicated up to "
            "thread renaming); datacopy fulfilment both synchronous (set inside the callback) and "
            "asynchronous (set later by another thread). Values passed to set are non-NULL. x86-64 TSO; trusted: TLC, "
            "vsched, ndjson recorder. Hook: one spin yield point in parsec_base_future_get's busy-wait.",
    "technique": "TLA+ refinement (TLC) + schedule replay on real code + trace validation (TLC)",
}

BASE_INVS = ("OneValue", "GetsAgree", "CbOnce", "ReadyExact", "NoStuck")
DC_INVS = ("FulfilOnce", "NestedUnique", "ResultsOK", "TrigOK")

SCENARIOS = [
    {"name": "base3", "kind": "base", "threads": [["set:1", "isready"], ["set:2", "get"], ["get", "isready"]],
     "cover": ("SetCas", "SetWmb", "WLock", "GetRmb", "IsReady")},
    {"name": "count2", "kind": "count", "count": 2, "threads": [["set:1", "isready"], ["set:1", "get"], ["isready", "set:1"]],
     "cover": ("CntDec", "WLock", "GetRmb", "IsReady")},
    {"name": "dcsync", "kind": "dc", "sync": 1, "shapes": 3, "threads": [["got:0", "got:3"], ["got:2", "got:3"], ["got:3", "got:2"]],
     "cover": ("Begin", "ILock", "IUnl", "NLock", "NUnl", "NUnlNew")},
    {"name": "dcasync", "kind": "dc", "sync": 0, "shapes": 3,
     "threads": [["got:0", "complete:2"], ["got:2", "got:2"], ["got:3", "complete:3", "got:3"]],
     "cover": ("Begin", "ILock", "IUnl", "NLock", "NUnl", "NUnlNew", "Complete")},
]
SCENARIOS_THOROUGH = [
    {"name": "base4", "kind": "base", "threads": [["set:1", "get"], ["set:2", "get"], ["isready", "set:3", "get"]],
     "cover": ("SetCas",)},
    {"name": "count3", "kind": "count", "count": 3,
     "threads": [["set:1", "set:1"], ["isready", "set:1", "isready"], ["get", "set:1"]], "cover": ("CntDec",)},
    {"name": "dcmix", "kind": "dc", "sync": 0, "shapes": 4,
     "threads": [["got:2", "complete:2", "got:3"], ["got:3", "complete:3", "got:2"], ["got:1", "complete:1", "got:4"]],
     "cover": ("Complete",)},
]
# explored exhaustively on the real code, no model involved
SMALL = [
    {"name": "x_base", "kind": "base", "threads": [["set:1", "get"], ["set:2", "isready"]]},
    {"name": "x_count", "kind": "count", "count": 2, "threads": [["set:1", "get"], ["set:1", "isready"]]},
    {"name": "x_dc", "kind": "dc", "sync": 1, "threads": [["got:2"], ["got:2"]]},
    {"name": "x_dc0", "kind": "dc", "sync": 1, "threads": [["got:0"], ["got:1"]]},
    {"name": "x_dca", "kind": "dc", "sync": 0, "threads": [["got:2", "complete:2"], ["got:2"]]},
]


def op_tla(o):
    if ":" in o:
        n, v = o.split(":")
        return {"op": n, ("v" if n == "set" else "s"): int(v)}
    return {"op": o}


def scenario_file(sc, path):
    with open(path, "w") as f:
        f.write("kind %s\ncount %d\nsync %d\n" % (sc["kind"], sc.get("count", 1), sc.get("sync", 1)))
        f.write("threads %d\n" % len(sc["threads"]))
        for t, ops in enumerate(sc["threads"]):
            f.write("t %d %s\n" % (t, " ".join(ops)))


def mc(d, sc, variant=False, tag=""):
    n = len(sc["threads"])
    prog = {t + 1: [op_tla(o) for o in ops] for t, ops in enumerate(sc["threads"])}
    if sc["kind"] == "dc":
        consts = {"Thr": set(range(1, n + 1)), "Prog": prog, "Shapes": set(range(1, sc.get("shapes", 3) + 1)),
                  "Sync": bool(sc.get("sync", 1)), "TrigOutside": variant}
        return mcgen.write_mc(d, sc["name"] + tag, "DcFutImpl", consts, invariants=DC_INVS)
    consts = {"Thr": set(range(1, n + 1)), "Prog": prog, "Kind": sc["kind"], "Count": sc.get("count", 0),
              "DecIsZero": variant}
    return mcgen.write_mc(d, sc["name"] + tag, "BaseFutImpl", consts, invariants=BASE_INVS)


def tla_seq(txt):
    return json.loads(txt.replace("<<", "[").replace(">>", "]"))


def tid_of(label):
    return int(re.search(r"\((\d+)\)", label).group(1)) - 1


def covering_paths(g, rng, nrandom):
    """Complete paths of the graph such that every transition lies on at least one of them (shortest path to a not yet
    covered transition, the transition, then a random continuation to a terminal state), plus nrandom random complete
    paths.  Returns ([(labels, end_node)], number of covering paths)."""
    from collections import deque
    pred, dq = {}, deque()
    for i in g.init:
        pred[i] = None
        dq.append(i)
    while dq:
        u = dq.popleft()
        for lab, v in g.edges.get(u, ()):
            if v not in pred and v != u:
                pred[v] = (u, lab)
                dq.append(v)

    def prefix(u):
        p = []
        while pred[u] is not None:
            w, lab = pred[u]
            p.append((w, lab, u))
            u = w
        p.reverse()
        return p

    out, seen, covered = [], set(), set()

    def finish(u, acc):
        while True:
            es = [e for e in g.edges.get(u, ()) if e[1] != u]
            if not es:
                return acc, u
            fresh = [e for e in es if (u, e[0], e[1]) not in covered]
            lab, v = rng.choice(fresh or es)
            acc.append((u, lab, v))
            u = v

    def add(acc, end):
        covered.update(acc)
        key = "".join(str(tid_of(l)) for _, l, _ in acc)
        if key not in seen:
            seen.add(key)
            out.append(([l for _, l, _ in acc], end))

    for u in sorted(g.edges):
        if u not in pred:
            continue
        for lab, v in g.edges[u]:
            if v == u or (u, lab, v) in covered:
                continue
            add(*finish(v, prefix(u) + [(u, lab, v)]))
    ncover = len(out)
    for _ in range(nrandom):
        add(*finish(rng.choice(g.init), []))
    return out, ncover


def run_harness(ctx, exe, args, tr, meta, timeout=900):
    rc, out, err = ctx.run_cmd([exe] + args, timeout=timeout)
    exs = tracecheck.split_executions(tracecheck.read_ndjson(tr)) if os.path.exists(tr) else []
    if rc == 3:         # the harness refused its own input (scenario / usage error): a tool failure, never a verdict
        raise tlc.TLCError("harness error: %s" % err[-500:])
    if rc != 0:
        exs.append([{"e": "Crash", "rc": str(rc), "stderr": err[-300:]}])
    metas = []
    if os.path.exists(meta):
        for l in open(meta):
            try:
                metas.append(json.loads(l))
            except ValueError:
                pass
    return exs, metas


def random_scenario(rng, kind, nthreads, nops):
    """Random history for the free-running part.  A get is only generated when enough sets precede it in the same
    thread or are guaranteed to happen (first operation of another thread), so that nobody waits for ever."""
    if kind == "base":
        threads = [["set:%d" % rng.randint(1, 8)] + [rng.choice(["get", "isready", "set:%d" % rng.randint(1, 8)])
                                                     for _ in range(nops - 1)] for _ in range(nthreads)]
        return {"name": "s_base", "kind": "base", "threads": threads}
    if kind == "count":
        cnt = rng.randint(1, nthreads)
        threads = [["set:1"] + [rng.choice(["get", "isready", "set:1"]) for _ in range(nops - 1)] for _ in range(nthreads)]
        return {"name": "s_count", "kind": "count", "count": cnt, "threads": threads}
    sync = rng.randint(0, 1)
    nsh = rng.randint(1, 4)
    threads = []
    for _ in range(nthreads):
        ops = []
        for _ in range(nops):
            s = rng.randint(0, nsh)
            ops.append("complete:%d" % max(1, s) if (not sync and rng.random() < 0.35) else "got:%d" % s)
        threads.append(ops)
    return {"name": "s_dc", "kind": "dc", "sync": sync, "threads": threads}


def run(ctx):
    d = ctx.stage("Future")
    exe = ctx.harness("fut_replay", ["harness/future/fut_replay.c"])
    scen = SCENARIOS + ([] if ctx.quick else SCENARIOS_THOROUGH)
    nrandom = 40 if ctx.quick else 500
    executions = []
    t0 = [time.time()]

    def phase(name):
        ctx.extra.setdefault("phase_wall_s", {})[name] = round(time.time() - t0[0], 1)
        t0[0] = time.time()

    # ---- 1. model level: abstract spec, sensitivity of the two models --------------------------------------
    ctx.tlc_check("Future", "Future", "Future.cfg")
    for sc, inv in ((SCENARIOS[1], "ReadyExact"), (SCENARIOS[2], "FulfilOnce")):
        mod, cfg = mc(d, sc, variant=True, tag="_variant")
        r = ctx.tlc_check(d, mod, cfg, expect_ok=False, workers=2)
        if r.violated != inv:
            raise tlc.TLCError("sensitivity self-test: the defective variant of %s must violate %s, got %r"
                               % (sc["name"], inv, r.violated))
    phase("model")

    # ---- 2. complete graphs (invariants + coverage) and replay of their schedules on the real code -----------
    total_sched = 0
    for sc in scen:
        mod, cfg = mc(d, sc)
        g = ctx.tlc_graph(d, mod, cfg, timeout=1500, coverage=True)
        cov = g.result.coverage
        taken = set(lab.split("(")[0] for u in g.edges for lab, v in g.edges[u])
        for a in sc["cover"]:
            if cov.get(a, (0, 0))[0] == 0 or a not in taken:
                raise tlc.TLCError("vacuity guard: action %s never taken in scenario %s" % (a, sc["name"]))
        paths, ncover = covering_paths(g, ctx.rng, nrandom)
        scf = os.path.join(ctx.scratch, sc["name"] + ".scn")
        scenario_file(sc, scf)
        schedf = os.path.join(ctx.scratch, sc["name"] + ".sched")
        with open(schedf, "w") as f:
            for labels, end in paths:
                f.write("".join(str(tid_of(l)) for l in labels) + "\n")
        tr = os.path.join(ctx.scratch, sc["name"] + ".trace")
        meta = os.path.join(ctx.scratch, sc["name"] + ".meta")
        exs, metas = run_harness(ctx, exe, ["replay", scf, schedf, tr, meta], tr, meta)
        ndiv = 0
        for (labels, end), m in zip(paths, metas):
            st = tlc.parse_state_label(g.nodes[end])
            want = {"sched": "".join(str(tid_of(l)) for l in labels), "ret": tla_seq(st["ret"])}
            got = {"sched": m["sched"], "ret": m["ret"]}
            if sc["kind"] == "dc":
                want["fulfils"] = tla_seq(st["fulfils"])
                got["fulfils"] = m["fulfils"][:len(want["fulfils"])]
            else:
                want["cbs"] = int(st["cbs"])
                got["cbs"] = m["cbs"]
            if got != want:
                ndiv += 1
                ctx.divergences += 1
                ctx.sample({"divergence": {"scenario": sc["name"], "model": want, "real": got}}, limit=6)
        total_sched += len(paths)
        ctx.extra.setdefault("scenarios", []).append(
            {"name": sc["name"], "model_states": len(g.nodes), "model_transitions": sum(len(v) for v in g.edges.values()),
             "schedules_covering_every_transition": ncover, "schedules_replayed": len(paths), "divergences": ndiv})
        if metas and sc["name"] in ("base3", "dcasync"):
            ctx.sample({"scenario": sc["name"], "threads": sc["threads"], "schedule": metas[-1]["sched"], "results": metas[-1]["ret"]})
        for e in exs:
            executions.append((sc["name"], "replay", e))
    phase("replay")

    # ---- 3. interleavings explored on the code itself ---------------------------------------------------------
    all_exh = True
    for sc in SMALL:
        scf = os.path.join(ctx.scratch, sc["name"] + ".scn")
        scenario_file(sc, scf)
        tr = os.path.join(ctx.scratch, sc["name"] + ".xtrace")
        meta = os.path.join(ctx.scratch, sc["name"] + ".xmeta")
        exs, metas = run_harness(ctx, exe, ["explore", scf, "30000", tr, meta], tr, meta, timeout=1500)
        last = metas[-1] if metas else {}
        all_exh = all_exh and bool(last.get("exhaustive"))
        ctx.extra.setdefault("explored_on_code", []).append(
            {"name": sc["name"], "interleavings": last.get("explored"), "exhaustive": last.get("exhaustive")})
        for e in exs:
            executions.append((sc["name"], "explore", e))
    for sc in scen:
        scf = os.path.join(ctx.scratch, sc["name"] + ".scn")
        tr = os.path.join(ctx.scratch, sc["name"] + ".rtrace")
        meta = os.path.join(ctx.scratch, sc["name"] + ".rmeta")
        exs, metas = run_harness(ctx, exe, ["random", scf, str(250 if ctx.quick else 3000), tr, meta, str(ctx.seed)], tr, meta)
        for e in exs:
            executions.append((sc["name"], "random", e))
    ctx.exhaustive = all_exh
    phase("explore")

    # ---- 4. free-running stress ----------------------------------------------------------------------------------
    nstress = 0
    plan = [("base", 4, 5), ("count", 8, 4), ("dc", 8, 5), ("dc", 16, 4)] if ctx.quick else \
           [("base", 4, 8), ("base", 16, 5), ("count", 8, 6), ("count", 16, 4), ("dc", 4, 8), ("dc", 8, 6), ("dc", 16, 6), ("dc", 16, 4)]
    for i, (kind, nt, nops) in enumerate(plan):
        sc = random_scenario(ctx.rng, kind, nt, nops)
        scf = os.path.join(ctx.scratch, "stress%d.scn" % i)
        scenario_file(sc, scf)
        tr = os.path.join(ctx.scratch, "stress%d.trace" % i)
        meta = os.path.join(ctx.scratch, "stress%d.meta" % i)
        exs, metas = run_harness(ctx, exe, ["stress", scf, str(40 if ctx.quick else 250), tr, meta], tr, meta, timeout=600)
        nstress += len(exs)
        if i == 2:
            ctx.sample({"stress_scenario": sc})
        for e in exs:
            executions.append(("stress%d" % i, "stress", e))
    ctx.extra["stress_histories"] = nstress
    # countable futures in bursts: every thread sets each of 64 fresh futures once per round, all released by a barrier
    # (the last sets of a future overlap); one history per future, thread ids renamed by first appearance and
    # histories already written only counted (by the harness, exact text), all distinct ones go to FutureTrace
    nburst = 0
    for i, (nt, rounds) in enumerate([(4, 4000), (ctx.rng.randint(5, 6), 800)] if ctx.quick else
                                     [(4, 40000), (5, 20000), (6, 8000), (8, 2000), (ctx.rng.randint(2, 3), 20000)]):
        sc = {"name": "burst%d" % i, "kind": "count", "count": nt, "threads": [["set:1"]] * nt}
        scf = os.path.join(ctx.scratch, "burst%d.scn" % i)
        scenario_file(sc, scf)
        tr = os.path.join(ctx.scratch, "burst%d.trace" % i)
        meta = os.path.join(ctx.scratch, "burst%d.meta" % i)
        exs, metas = run_harness(ctx, exe, ["burst", scf, str(rounds), tr, meta, "64", "40" if ctx.quick else "240"], tr, meta,
                                 timeout=900)
        m = metas[-1] if metas else {}
        if not m.get("futures"):
            raise tlc.TLCError("burst stress produced no history: %r" % (m,))
        nburst += m["futures"]
        ctx.extra.setdefault("burst_countable", []).append(m)
        if i == 0 and exs:
            ctx.sample({"burst_history_one_countable_future": exs[len(exs) // 2]})
        for e in exs:
            executions.append(("burst%d" % i, "burst", e))
    ctx.extra["burst_countable_futures_run"] = nburst
    phase("stress")

    # ---- 5. verdict: trace validation -------------------------------------------------------------------------------
    ctx.evaluations = len(executions) + nburst - sum(1 for _, k, _ in executions if k == "burst")
    distinct, mult = tracecheck.dedupe([e for _, _, e in executions])
    ctx.extra["executions_run"] = ctx.evaluations
    ctx.extra["distinct_histories"] = len(distinct)
    ctx.extra["schedules_from_tlc"] = total_sched
    if distinct:
        ctx.sample({"history": distinct[len(distinct) // 2]})
    fails = ctx.validate("Future", "FutureTrace", "FutureTrace.cfg", distinct, batch=600, timeout=1500)
    ctx.traces = ctx.evaluations
    phase("validate")
    for f in fails:
        ctx.violation("history of the real futures is not a behaviour of Future.tla (value seen by a reader, readiness, "
                      "number of fulfilments per shape or of callback runs): %s" % json.dumps(f.describe()),
                      {"history": f.execution, "detail": f.describe()})
    ctx.assume("x86-64 TSO; yield points = every parsec_atomic_* op and fence (H1) + the busy-wait of parsec_base_future_get")
    ctx.assume("set is given non-NULL data; a datacopy future's data is set once (by its fulfilment, or later by one caller)")


def replay(ctx, obj):
    fails = ctx.validate("Future", "FutureTrace", "FutureTrace.cfg", [obj["history"]])
    for f in fails:
        ctx.violation("recorded history still rejected: %s" % json.dumps(f.describe()), obj)
