"""C30  The lock-free LIFO is a linearizable stack.

spec/Lifo/Stack.tla      abstract stack (the property)
spec/Lifo/LifoImpl.tla   implementation-shaped model of lifo.h (one action per segment between yield points)
spec/Lifo/StackTrace.tla linearizability trace validation of recorded inv/res histories

1. TLC proves LifoImpl refines Stack (invariants Lin, PopsTop) for every scenario, with every shared access
   its own step (SplitReads=TRUE), and shows the model is sensitive (PtrOnlyPop=TRUE must violate Lin).
2. TLC dumps the state graph of LifoImpl at yield-point granularity; every maximal path is a schedule
   (sequence of thread ids) replayed on the real parsec_lifo_* functions under the cooperative scheduler;
   the results predicted by the model path are compared with the real ones (divergences).
3. The harness' own exhaustive explorer runs every interleaving of the real code at yield-point granularity.
4. Free-running multi-thread stress histories.
5. All recorded histories are validated by TLC against StackTrace (the verdict).
"""
import json
import os
import re

from lib import mcgen, tlc, tracecheck

META = {
    "level": "model_checking",
    "text": "TLC proves the implementation-shaped LIFO model refines the abstract stack for bounded scenarios "
            "(every shared access a separate step); every interleaving of those scenarios at yield-point granularity is "
            "replayed on the real parsec_lifo_push/chain/pop/try_pop and each recorded history is checked for "
            "linearizability by TLC against StackTrace.tla; plus free-running stress histories.",
    "note": "Bounded: 2-3 threads x <= 3 operations x <= 4 items per scenario for exhaustive interleavings, sampled beyond. "
            "Interleavings between two plain accesses inside one hook segment are covered in the model only. x86-64 TSO; "
            "trusted: TLC, vsched cooperative scheduler, ndjson recorder.",
    "technique": "TLA+ refinement (TLC) + schedule replay on real code + linearizability trace validation (TLC)",
}

# scenario: items, init (top first), threads: list of op lists
SCENARIOS = [
    # ABA window: t0 reads head=1,next=2 ; t1 pops 1, pops 2, pushes 1 back
    {"name": "aba", "items": 3, "init": [1, 2, 3], "threads": [["pop"], ["pop", "pop", "repush:1"]]},
    {"name": "pushpop", "items": 2, "init": [], "threads": [["push:1", "pop"], ["push:2", "pop"]]},
    {"name": "chain", "items": 4, "init": [4], "threads": [["chain:1,2"], ["pop", "pop"], ["push:3"]]},
    {"name": "trypop", "items": 3, "init": [1, 2], "threads": [["trypop", "repush:1"], ["trypop"], ["push:3"]]},
]
SCENARIOS_THOROUGH = [
    {"name": "aba3", "items": 3, "init": [1, 2, 3], "threads": [["pop"], ["pop", "pop", "repush:1"], ["pop"]]},
    {"name": "mix3", "items": 4, "init": [1, 2], "threads": [["pop", "repush:1"], ["push:3", "pop"], ["chain:4", "trypop"]]},
    {"name": "chain2", "items": 5, "init": [5], "threads": [["chain:1,2,3"], ["pop", "pop", "repush:2"], ["trypop", "push:4"]]},
]
STRESS = {"name": "stress", "items": 8, "init": [1, 2, 3, 4],
          "threads": [["pop", "repush:1", "pop", "repush:3", "trypop", "repush:5"],
                      ["pop", "pop", "repush:1", "repush:2", "pop", "repush:5"],
                      ["push:5", "pop", "repush:2", "trypop", "repush:4"],
                      ["chain:6,7,8", "pop", "pop", "repush:3", "repush:2"]]}


def op_tla(op):
    if op.startswith("push:"):
        return {"op": "push", "x": int(op[5:])}
    if op.startswith("repush:"):
        return {"op": "repush", "k": int(op[7:])}
    if op.startswith("chain:"):
        return {"op": "chain", "r": [int(x) for x in op[6:].split(",")]}
    return {"op": op}


def scenario_file(sc, path):
    with open(path, "w") as f:
        f.write("items %d\n" % sc["items"])
        if sc["init"]:
            f.write("init %s\n" % " ".join(str(i) for i in sc["init"]))
        f.write("threads %d\n" % len(sc["threads"]))
        for t, ops in enumerate(sc["threads"]):
            f.write("t %d %s\n" % (t, " ".join(ops)))


def mc(ctx, d, sc, split, ptronly=False, tag=""):
    n = len(sc["threads"])
    prog = {t + 1: [op_tla(o) for o in ops] for t, ops in enumerate(sc["threads"])}
    consts = {"Items": set(range(1, sc["items"] + 1)), "Thr": set(range(1, n + 1)), "Prog": prog,
              "InitStack": sc["init"], "SplitReads": split, "PtrOnlyPop": ptronly}
    return mcgen.write_mc(d, sc["name"] + tag, "LifoImpl", consts, invariants=("Lin", "PopsTop", "NoDupAbs"))


def parse_ret(txt):
    """'<<<<1>>, <<1, 2, 0>>>>' -> [[1],[1,2,0]]"""
    return json.loads(txt.replace("<<", "[").replace(">>", "]"))


def run(ctx):
    d = ctx.stage("Lifo")
    exe = ctx.harness("lifo_replay", ["harness/lifo/lifo_replay.c"])
    scen = SCENARIOS + ([] if ctx.quick else SCENARIOS_THOROUGH)
    path_limit = 4000 if ctx.quick else 60000
    explore_limit = 30000 if ctx.quick else 400000

    # ---- 1. model level -------------------------------------------------------------------------------
    ctx.tlc_check("Lifo", "Stack", "Stack.cfg")
    for sc in scen:
        mod, cfg = mc(ctx, d, sc, True, tag="_split")
        ctx.tlc_check(d, mod, cfg, must_cover=("PushCas", "PopCas") if sc["name"] != "aba" else ("PopCas",))
    mod, cfg = mc(ctx, d, SCENARIOS[0], False, ptronly=True, tag="_ptronly")
    r = ctx.tlc_check(d, mod, cfg, expect_ok=False)
    if r.violated != "Lin":
        raise tlc.TLCError("sensitivity self-test: the ABA-prone variant of the model must violate Lin, got %r" % r.violated)

    # ---- 2./3. replay on the real code ----------------------------------------------------------------
    executions = []
    total_sched = 0
    all_exhaustive = True
    for sc in scen:
        mod, cfg = mc(ctx, d, sc, False)
        g = ctx.tlc_graph(d, mod, cfg)
        paths, total, exhaustive = tlc.maximal_paths(g, limit=path_limit, rng=ctx.rng)
        all_exhaustive = all_exhaustive and exhaustive
        scf = os.path.join(ctx.scratch, sc["name"] + ".scn")
        scenario_file(sc, scf)
        schedf = os.path.join(ctx.scratch, sc["name"] + ".sched")
        with open(schedf, "w") as f:
            for labels, end in paths:
                f.write("".join(str(int(re.search(r"\((\d+)\)", l).group(1)) - 1) for l in labels) + "\n")
        tr = os.path.join(ctx.scratch, sc["name"] + ".trace")
        meta = os.path.join(ctx.scratch, sc["name"] + ".meta")
        rc, out, err = ctx.run_cmd([exe, "replay", scf, schedf, tr, meta], timeout=900)
        exs = tracecheck.split_executions(tracecheck.read_ndjson(tr)) if os.path.exists(tr) else []
        if rc != 0:
            exs.append([{"e": "Crash", "rc": str(rc), "stderr": err[-300:]}])
        metas = [json.loads(l) for l in open(meta)] if os.path.exists(meta) else []
        # conformance: same number of steps and same results as the model path predicts
        for (labels, end), m in zip(paths, metas):
            want = parse_ret(tlc.parse_state_label(g.nodes[end])["ret"])
            got = [[x for x in t] for t in m["ret"]]
            # the harness records 0 for push/chain/repush slots exactly as the model does
            if got != want or len(m["sched"]) != len(labels):
                ctx.divergences += 1
                ctx.sample({"divergence": {"scenario": sc["name"], "schedule": m["sched"], "model_ret": want, "real_ret": got,
                                           "model_steps": len(labels), "real_steps": len(m["sched"])}}, limit=6)
        total_sched += len(paths)
        ctx.extra.setdefault("scenarios", []).append(
            {"name": sc["name"], "model_paths_total": total, "replayed": len(paths), "exhaustive": exhaustive})
        for e in exs:
            executions.append((sc["name"], "replay", e))
        # exhaustive exploration on the code itself
        tr2 = os.path.join(ctx.scratch, sc["name"] + ".xtrace")
        meta2 = os.path.join(ctx.scratch, sc["name"] + ".xmeta")
        rc, out, err = ctx.run_cmd([exe, "explore", scf, str(explore_limit), tr2, meta2], timeout=1500)
        exs = tracecheck.split_executions(tracecheck.read_ndjson(tr2)) if os.path.exists(tr2) else []
        if rc != 0:
            exs.append([{"e": "Crash", "rc": str(rc), "stderr": err[-300:]}])
        last = {}
        if os.path.exists(meta2):
            for l in open(meta2):
                last = json.loads(l)
        ctx.extra["scenarios"][-1].update({"code_interleavings": last.get("explored"), "code_exhaustive": last.get("exhaustive")})
        if last.get("exhaustive") and exhaustive and last.get("explored") != total:
            ctx.divergences += 1
            ctx.sample({"divergence": {"scenario": sc["name"], "model_paths": total, "code_interleavings": last.get("explored")}}, limit=6)
        for e in exs:
            executions.append((sc["name"], "explore", e))

    # ---- 4. free-running stress -------------------------------------------------------------------------
    scf = os.path.join(ctx.scratch, "stress.scn")
    scenario_file(STRESS, scf)
    tr = os.path.join(ctx.scratch, "stress.trace")
    meta = os.path.join(ctx.scratch, "stress.meta")
    rc, out, err = ctx.run_cmd([exe, "stress", scf, str(300 if ctx.quick else 5000), tr, meta, str(ctx.seed)], timeout=600)
    exs = tracecheck.split_executions(tracecheck.read_ndjson(tr)) if os.path.exists(tr) else []
    if rc != 0:
        exs.append([{"e": "Crash", "rc": str(rc), "stderr": err[-300:]}])
    for e in exs:
        executions.append(("stress", "stress", e))

    # ---- 5. verdict: trace validation --------------------------------------------------------------------
    ctx.evaluations = len(executions)
    distinct, mult = tracecheck.dedupe([e for _, _, e in executions])
    ctx.extra["executions_run"] = len(executions)
    ctx.extra["distinct_histories"] = len(distinct)
    ctx.extra["schedules_from_tlc"] = total_sched
    ctx.exhaustive = all_exhaustive
    if distinct:
        ctx.sample({"history": distinct[0]})
        ctx.sample({"history": distinct[len(distinct) // 2]})
    fails = ctx.validate("Lifo", "StackTrace", "StackTrace.cfg", distinct, batch=400)
    ctx.traces = len(executions)
    for f in fails:
        ctx.violation("history of the real LIFO is not linearizable w.r.t. Stack.tla: %s" % json.dumps(f.describe()),
                      {"history": f.execution, "detail": f.describe()})
    ctx.assume("x86-64 TSO; yield points = every parsec_atomic_* op and fence (hook H1)")
    ctx.assume("a thread only pushes items it owns (initially, or popped by itself)")


def replay(ctx, obj):
    fails = ctx.validate("Lifo", "StackTrace", "StackTrace.cfg", [obj["history"]])
    for f in fails:
        ctx.violation("recorded history still rejected: %s" % json.dumps(f.describe()), obj)
