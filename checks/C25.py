"""C25  Data repository entries are reclaimed exactly when unused.

spec/DataRepo/Repo.tla       abstract repository (header comment of datarepo.h): per key present / uses seen / uses announced /
                             creators retaining; the operation that makes "nobody retains it and all announced uses happened"
                             true reclaims the entry
spec/DataRepo/RepoImpl.tla   implementation-shaped model of datarepo.c, one action per critical section of the bucket lock
                             (lookup_and_create = two sections with a window in between)
spec/DataRepo/RepoTrace.tla  property-level validation of recorded histories of the real functions

1. TLC: Repo satisfies PresentIff; RepoImpl refines Repo (PROPERTY Refines; invariants PresentIff, NoCrash, NoStuck) for every
   scenario (hand-written + seeded random programs); two seeded model defects must be detected.
2. Every maximal path of each state graph = an order of critical sections, replayed on the real functions (the harness
   yields exactly at operation boundaries and in the window of lookup_and_create); lookups, final presence and the
   number of reclamations (hook at the two reclamation sites) are compared with the model (divergences).
3. The harness' explorer enumerates all section orders on the real code; free-running multi-thread stress exercises the
   real locking.
4. Verdict: every recorded history is validated by TLC against RepoTrace (linearizable w.r.t. Repo.tla, the reclamation
   happening in the call that completes the condition, lookups seeing exactly the present entries).
"""
import concurrent.futures
import json
import os
import re

from lib import mcgen, tlc, tracecheck

META = {
    "level": "model_checking",
    "text": "TLC proves that the implementation-shaped model of the data repository (lookup_and_create with its find / "
            "allocate / re-find-and-insert window, addto_usage_limit, used_once, each a critical section of the bucket lock) "
            "refines the abstract repository for bounded thread programs; every order of critical sections of those programs is "
            "replayed on the real datarepo.c functions on a private repository, plus free-running stress with the real locks; "
            "each recorded history (calls, lookup results, reclamation events from the two reclamation sites) is validated by "
            "TLC against RepoTrace.tla: an entry stays findable while a creator retains it or announced uses are missing and is "
            "reclaimed exactly once by the call that completes both conditions.",
    "note": "1-3 create/addto_usage_limit pairs on 1-2 keys, limits <= 3, 2-3 threads: all section orders exhaustive; 4-6 threads "
            "free-running. Mutual exclusion of the bucket lock / table rwlock is trusted here (C32, C33). Uses are only issued "
            "for announced or about-to-be-announced limits (contract of datarepo.h). Trusted: TLC, vsched, ndjson recorder.",
    "technique": "TLA+ refinement (TLC) + critical-section schedule replay on real code + linearizability trace validation (TLC)",
}

SCENARIOS = [
    {"name": "basic", "threads": [["create:1:1", "addlimit:1:1:2"], ["use:1:1", "lookup:1"], ["use:1:1", "lookup:1"]]},
    {"name": "early", "threads": [["create:1:1", "lookup:1", "addlimit:1:1:1", "lookup:1"], ["use:1:1", "lookup:1"]]},
    {"name": "twocreators", "threads": [["create:1:1", "addlimit:1:1:1"], ["create:2:1", "addlimit:2:1:1"],
                                        ["use:1:1", "use:2:1", "lookup:1"]]},
    {"name": "reinc", "threads": [["create:1:1", "addlimit:1:1:0", "create:2:1", "addlimit:2:1:1"], ["use:2:1", "lookup:1"],
                                  ["lookup:1", "lookup:1"]]},
    {"name": "twokeys", "threads": [["create:1:1", "create:2:2", "addlimit:2:2:1", "addlimit:1:1:1"], ["use:1:1", "use:2:2", "lookup:2"]]},
    {"name": "leftover", "threads": [["create:1:1", "addlimit:1:1:2"], ["use:1:1", "lookup:1"]]},
    {"name": "racecreate", "threads": [["create:1:1", "addlimit:1:1:0"], ["create:2:1", "addlimit:2:1:0"], ["create:3:1", "addlimit:3:1:0", "lookup:1"]]},
]
STRESS = [
    {"name": "s6", "threads": [["create:1:1", "addlimit:1:1:3", "create:4:2", "addlimit:4:2:1"], ["create:2:1", "use:1:1", "addlimit:2:1:2"],
                               ["use:1:1", "use:2:1", "lookup:1"], ["use:1:1", "use:2:1", "lookup:2"], ["create:3:2", "addlimit:3:2:2", "use:4:2"],
                               ["use:3:2", "use:3:2", "lookup:1"]]},
]


def parse_op(s):
    f = s.split(":")
    if f[0] == "create":
        return {"op": "create", "c": int(f[1]), "k": int(f[2]), "n": 0}
    if f[0] == "addlimit":
        return {"op": "addlimit", "c": int(f[1]), "k": int(f[2]), "n": int(f[3])}
    if f[0] == "use":
        return {"op": "use", "c": int(f[1]), "k": int(f[2]), "n": 0}
    return {"op": "lookup", "c": 0, "k": int(f[1]), "n": 0}


def check_contract(threads):
    """Each pair c: one create followed, in the same thread, by one addlimit on the same key; at most n(c) uses of c."""
    pairs, uses = {}, {}
    for t, prog in enumerate(threads):
        for s in prog:
            o = parse_op(s)
            if o["op"] == "create":
                assert o["c"] not in pairs, s
                pairs[o["c"]] = {"t": t, "k": o["k"], "n": None}
            elif o["op"] == "addlimit":
                p = pairs.get(o["c"])
                assert p is not None and p["t"] == t and p["k"] == o["k"] and p["n"] is None, s
                p["n"] = o["n"]
            elif o["op"] == "use":
                uses.setdefault(o["c"], []).append(o["k"])
    for c, p in pairs.items():
        assert p["n"] is not None, "create %d without addlimit" % c
    for c, ks in uses.items():
        assert c in pairs and all(k == pairs[c]["k"] for k in ks) and len(ks) <= pairs[c]["n"], "uses of pair %d" % c


def random_scenario(rng, name):
    """Thread programs recorded from a random legal sequential run (so the `use` waits cannot deadlock)."""
    nthreads = rng.choice([2, 3])
    npairs = rng.choice([1, 2, 3])
    progs = [[] for _ in range(nthreads)]
    open_pairs = {}          # c -> (thread, key, n)
    left = {}                # c -> (key, uses still to issue)
    nextc = 1
    for _ in range(40):
        ch = []
        if nextc <= npairs:
            ch += ["create"] * 2
        if open_pairs:
            ch += ["addlimit"] * 2
        if any(v[1] > 0 for v in left.values()):
            ch += ["use"] * 3
        ch += ["lookup"]
        op = rng.choice(ch)
        if op == "create":
            t, k, n = rng.randrange(nthreads), rng.choice([1, 1, 2]), rng.choice([0, 1, 2, 2])
            progs[t].append("create:%d:%d" % (nextc, k))
            open_pairs[nextc] = (t, k, n)
            left[nextc] = (k, n if rng.random() < 0.8 else max(0, n - 1))
            nextc += 1
        elif op == "addlimit":
            c = rng.choice(sorted(open_pairs))
            t, k, n = open_pairs.pop(c)
            progs[t].append("addlimit:%d:%d:%d" % (c, k, n))
        elif op == "use":
            c = rng.choice(sorted(c for c, v in left.items() if v[1] > 0))
            k, m = left[c]
            left[c] = (k, m - 1)
            progs[rng.randrange(nthreads)].append("use:%d:%d" % (c, k))
        elif rng.random() < 0.3:
            progs[rng.randrange(nthreads)].append("lookup:%d" % rng.choice([1, 2]))
        if nextc > npairs and not open_pairs and not any(v[1] > 0 for v in left.values()):
            break
    for c in sorted(open_pairs):
        t, k, n = open_pairs[c]
        progs[t].append("addlimit:%d:%d:%d" % (c, k, n))
    for c, (k, m) in sorted(left.items()):
        for _ in range(m):
            progs[rng.randrange(nthreads)].append("use:%d:%d" % (c, k))
    progs = [p for p in progs if p]
    if not progs:
        return random_scenario(rng, name)
    return {"name": name, "threads": progs}


def scenario_file(sc, path):
    with open(path, "w") as f:
        f.write("threads %d\n" % len(sc["threads"]))
        for t, ops in enumerate(sc["threads"]):
            f.write("t %d %s\n" % (t, " ".join(ops)))


def mc(d, sc, mut="none", tag=""):
    n = len(sc["threads"])
    prog = {t + 1: [parse_op(s) for s in ops] for t, ops in enumerate(sc["threads"])}
    keys = set(parse_op(s)["k"] for ops in sc["threads"] for s in ops)
    consts = {"Thr": set(range(1, n + 1)), "Prog": prog, "Keys": keys, "Mut": mut}
    return mcgen.write_mc(d, sc["name"] + tag, "RepoImpl", consts, invariants=("PresentIff", "NoCrash", "NoStuck"), properties=("Refines",))


def load_meta(path):
    """Per-execution records written by the harness; a harness that died leaves a truncated last line."""
    out = []
    if os.path.exists(path):
        for l in open(path):
            try:
                out.append(json.loads(l))
            except ValueError:
                pass
    return out


def collect(ctx, exe, mode, sc, arg, kind, executions, timeout=900):
    base = os.path.join(ctx.scratch, "%s.%s" % (sc["name"], kind))
    scf = base + ".scn"
    scenario_file(sc, scf)
    tr, meta = base + ".trace", base + ".meta"
    rc, out, err = ctx.run_cmd([exe, mode, scf, arg, tr, meta], timeout=timeout)
    exs = tracecheck.split_executions(tracecheck.read_ndjson(tr)) if os.path.exists(tr) else []
    if rc != 0:
        exs.append([{"e": "Crash", "rc": str(rc), "stderr": err[-300:]}])
    for e in exs:
        executions.append((sc["name"], kind, e))
    return load_meta(meta)


def sched_of(labels):
    return "".join(str(int(re.search(r"\((\d+)\)", l).group(1)) - 1) for l in labels)


def fn_vals(txt, n, default):
    """TLC prints a function over 1..n as <<..>>, over another set of naturals as (k :> v @@ ..)."""
    out = [default] * n
    txt = txt.strip()
    if txt.startswith("<<"):
        for i, v in enumerate(json.loads(txt.replace("<<", "[").replace(">>", "]").replace("TRUE", "1").replace("FALSE", "0"))):
            out[i] = v
    else:
        for k, v in re.findall(r"(\d+) :> (\w+|<<[^>]*>>)", txt):
            out[int(k) - 1] = {"TRUE": 1, "FALSE": 0}.get(v, v if v.startswith("<<") else int(v) if v.isdigit() else v)
    return out


def model_end(g, nid, nthreads):
    lab = tlc.parse_state_label(g.nodes[nid])
    seen = json.loads(lab["seen"].replace("<<", "[").replace(">>", "]"))
    return {"present": fn_vals(lab["present"], 4, 0), "rec": fn_vals(lab["rec"], 4, 0), "seen": seen}


def run(ctx):
    d = ctx.stage("DataRepo")
    exe = ctx.harness("dr_replay", ["harness/datarepo/dr_replay.c"])
    scen = [dict(sc) for sc in SCENARIOS]
    for k in range(3 if ctx.quick else 10):
        scen.append(random_scenario(ctx.rng, "rnd%d" % k))
    for sc in scen + STRESS:
        check_contract(sc["threads"])
    byname = {sc["name"]: sc for sc in scen}
    path_limit = 3000 if ctx.quick else 20000

    def account(mod, cfg, r, **kw):
        ctx.states += r.distinct
        ctx.transitions += r.generated
        m = {"module": mod, "cfg": cfg, "distinct": r.distinct, "generated": r.generated, "depth": r.depth, "wall_s": round(r.wall, 1)}
        m.update(kw)
        if r.coverage:
            m["coverage"] = {k: v[0] for k, v in r.coverage.items()}
        ctx.models.append(m)

    def job_cover(sc):
        mod, cfg = mc(d, sc, tag="_cov")
        return ("check", sc["name"], mod, cfg, tlc.check(d, mod, cfg, must_cover=("CreateFind", "CreateInsert", "AddLimit", "UsedOnce", "Lookup"), workers=1))

    def job_mut(sc, mut):
        mod, cfg = mc(d, sc, mut=mut, tag="_" + mut)
        return ("mut", mut, mod, cfg, tlc.check(d, mod, cfg, workers=1))

    def job_graph(sc):
        mod, cfg = mc(d, sc)
        g, r = tlc.dump_graph(d, mod, cfg, timeout=1500)
        return ("graph", sc["name"], mod, cfg, r, g)

    jobs = [lambda: ("check", "Repo", "Repo", "Repo.cfg", tlc.check(ctx.spec("DataRepo"), "Repo", "Repo.cfg", workers=1)),
            lambda: job_cover(byname["twocreators"]), lambda: job_mut(byname["twocreators"], "noretained"),
            lambda: job_mut(byname["racecreate"], "norecheck")]
    jobs += [(lambda sc=sc: job_graph(sc)) for sc in scen]
    ctx.scratch
    with concurrent.futures.ThreadPoolExecutor(max_workers=2) as pool:
        results = list(pool.map(lambda j: j(), jobs))
    graphs = {}
    for res in results:
        kind, what, mod, cfg, r = res[:5]
        account(mod, cfg, r, **({"graph": True} if kind == "graph" else {}))
        if kind == "mut":
            if r.ok:
                raise tlc.TLCError("sensitivity self-test: model defect %r of RepoImpl must be detected by TLC" % what)
        elif not r.ok:
            raise tlc.TLCError("specification DataRepo/%s (%s) does not satisfy its own properties (%s); this is a model failure, "
                               "not a verdict about the code\n%s" % (mod, cfg, r.violated, r.out[-2500:]))
        if kind == "graph":
            graphs[what] = res[5]

    executions = []
    total_sched = 0
    all_exhaustive = True
    for sc in scen:
        g = graphs[sc["name"]]
        paths, total, exhaustive = tlc.maximal_paths(g, limit=path_limit, rng=ctx.rng)
        all_exhaustive = all_exhaustive and exhaustive
        scheds = [sched_of(labels) for labels, end in paths]
        schedf = os.path.join(ctx.scratch, sc["name"] + ".sched")
        with open(schedf, "w") as f:
            f.write("\n".join(scheds) + "\n")
        metas = collect(ctx, exe, "replay", sc, schedf, "replay", executions)
        for (labels, end), s, m in zip(paths, scheds, metas):
            want = model_end(g, end, len(sc["threads"]))
            got = {k: m[k] for k in want}
            if got != want or m["sched"] != s:
                ctx.divergences += 1
                ctx.sample({"divergence": {"scenario": sc["name"], "threads": sc["threads"], "schedule": s, "real_schedule": m["sched"],
                                           "model": want, "real": got}}, limit=6)
        if len(metas) != len(scheds):
            ctx.divergences += 1
            ctx.sample({"divergence": {"scenario": sc["name"], "schedules": len(scheds), "executed": len(metas)}}, limit=6)
        total_sched += len(scheds)
        info = {"name": sc["name"], "threads": sc["threads"], "model_states": len(g.nodes), "model_paths_total": total,
                "replayed": len(scheds), "exhaustive": exhaustive}
        # exhaustive exploration on the code.  Not for three-thread random programs: two threads waiting (spinning) for a
        # create of the third can wake each other for ever under the scheduler's lowest-eligible-thread default.
        if len(sc["threads"]) <= 2 or not sc["name"].startswith("rnd"):
            metas = collect(ctx, exe, "explore", sc, str(6000 if ctx.quick else 20000), "explore", executions, timeout=1500)
            last = metas[-1] if metas else {}
            info.update({"code_interleavings": last.get("explored"), "code_exhaustive": last.get("exhaustive")})
        ctx.extra.setdefault("scenarios", []).append(info)
    for sc in STRESS + [byname["twocreators"], byname["racecreate"]]:
        collect(ctx, exe, "stress", sc, str(150 if ctx.quick else 3000), "stress", executions)

    ctx.evaluations = len(executions)
    distinct, mult = tracecheck.dedupe([e for _, _, e in executions])
    ctx.extra["executions_run"] = len(executions)
    ctx.extra["distinct_histories"] = len(distinct)
    ctx.extra["schedules_from_tlc"] = total_sched
    ctx.exhaustive = all_exhaustive
    if distinct:
        ctx.sample({"history": distinct[0]})
        ctx.sample({"history": distinct[len(distinct) // 2]})
    fails = ctx.validate("DataRepo", "RepoTrace", "RepoTrace.cfg", distinct, batch=2500, timeout=1500)
    ctx.traces = len(executions)
    # sensitivity self-test of the trace specification: a history whose reclamation event is erased must be rejected
    good = next((e for e in distinct if any(ev.get("e") == "reclaim" for ev in e)), None)
    if good is not None and not fails:
        k = next(i for i, ev in enumerate(good) if ev.get("e") == "reclaim")
        bad = good[:k] + good[k + 1:]
        p = os.path.join(ctx.scratch, "corrupted.ndjson")
        tracecheck._write(bad, p)
        v, r = tracecheck.validate_file(ctx.spec("DataRepo"), "RepoTrace", "RepoTrace.cfg", p)
        ctx.extra["corrupted_trace_rejected"] = not v.accepted
        if v.accepted:
            raise tlc.TLCError("self-test: RepoTrace accepted a history whose reclamation event was erased")
    for f in fails:
        ctx.violation("history of the real data repository is not a behaviour of Repo.tla: %s" % json.dumps(f.describe()),
                      {"history": f.execution, "detail": f.describe()})
    ctx.assume("the bucket lock / table rwlock provide mutual exclusion (C32, C33): operations interleave as critical sections")
    ctx.assume("contract of datarepo.h: every create is followed by one addto_usage_limit by the same thread; used_once only for "
               "announced or about-to-be-announced uses")


def replay(ctx, obj):
    fails = ctx.validate("DataRepo", "RepoTrace", "RepoTrace.cfg", [obj["history"]])
    for f in fails:
        ctx.violation("recorded history still rejected: %s" % json.dumps(f.describe()), obj)
