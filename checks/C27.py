"""C27  Arenas and memory pools never hand out a block twice.

spec/Arena/Arena.tla       abstract arena (the property): one owner per block, at most max_used elements obtained and
                           not given up, at most max_cached single-element blocks kept for reuse
spec/Arena/ArenaImpl.tla   implementation-shaped model of arena.c over the lock-free LIFO (yield-point granularity), in
                           two variants of parsec_arena_release_chunk: the check-then-increment one and the one that
                           reserves its cache slot with the increment (fixes/arena-cache-limit-race.diff)
spec/Arena/ArenaPlace.tla  the address arithmetic of parsec_arena_allocate_device_private (size asked from data_malloc,
                           position of the data behind the chunk header) against the placement part of Arena.tla
                           (Aligned / Inside), for every residue of the backing address modulo the alignment (ASSUMEs)
spec/Arena/ArenaTrace.tla  trace validation of recorded arena histories (every data_malloc / data_free of the arena
                           is logged by the harness' own allocator callbacks, with address and size; every block
                           handed out with its data address and extent: aligned, inside its memory, apart from the
                           other extents handed out; guard bytes around every block intact when it is given back)
spec/Arena/PoolTrace.tla   abstract thread memory pool + trace validation of recorded mempool histories

1. TLC checks the refinement invariants (OneOwner, UseLimit, CacheLimit, CountersExact) of the reserving variant over
   the complete state graph of every scenario (with coverage), and shows that the check-then-increment variant
   violates CacheLimit: that is defect D4, a candidate that the replay below confirms or refutes on the code.
2. Schedules covering every transition of the graphs of BOTH variants are replayed on the real
   parsec_arena_allocate_device_private / parsec_arena_release; the variant whose step sequences and results the
   code reproduces is the code's (divergences are counted against that one).
3. Every interleaving of small scenarios (arena and mempool) / seeded random schedules on the code itself.
3b. Placement sweep (sequential): alignments 16..4096 x element sizes k*align-16..k*align+16 x counts 1,2,3,7, the
   harness' data_malloc returning every residue modulo the alignment that malloc may return (multiples of 16).
4. Free-running 4-16 thread stress with random limits, element sizes, alignments, counts.
5. All recorded histories are validated by TLC against ArenaTrace / PoolTrace (the verdict).
"""
import json
import os
import re
import time

from lib import mcgen, tlc, tracecheck

META = {
    "level": "model_checking",
    "text": "TLC checks an implementation-shaped model of the arena (counters used/released around the lock-free LIFO) "
            "against the abstract arena: one owner per block, allocation limit, cache limit, exact counters at "
            "quiescence; schedules covering every transition of the model, exhaustive and random interleavings and "
            "free-running stress are executed on the real parsec_arena_allocate_device_private / parsec_arena_release "
            "and parsec_thread_mempool_allocate / parsec_mempool_free with the harness' own data_malloc/data_free "
            "callbacks (a private region: addresses with every residue modulo the alignment that malloc may return, guard "
            "bytes around every block) logging every block; a sequential sweep over alignments, element sizes around "
            "their multiples, counts and residues; each history (block identities, address and size of the memory "
            "obtained, data address and extent handed out: aligned, inside that memory, apart from the other live "
            "extents; guard bytes and owner marks intact; cached/freed decisions) is validated by TLC against "
            "ArenaTrace.tla / PoolTrace.tla.",
    "note": "Bounded: 2-3 threads x 2-3 operations for the model-driven and exhaustive parts, 4-16 threads x 6-8 "
            "operations sampled by stress; limits 0-3 and unlimited; counts 1-3 (sweep: 1,2,3,7; alignments 16-4096, a selection "
            "of the residues for 4096). The arena is driven below the data "
            "layer (harness-owned copy records), the mempool part has no implementation-shaped model (its LIFO is C30's). "
            "A refusal is accepted when the limit is reached counting the other callers' attempts in flight. "
            "x86-64 TSO; trusted: TLC, vsched, ndjson recorder. Hook: one yield point before the plain read of "
            "`released` in parsec_arena_release_chunk.",
    "technique": "TLA+ refinement (TLC) + schedule replay on real code + trace validation (TLC)",
}

INF = 1000000
INVS = ("OneOwner", "UseLimit", "CacheLimit", "CountersExact")
INVS_NOCACHE = ("OneOwner", "UseLimit", "CountersExact")

SCENARIOS = [
    {"name": "cache1", "mu": 3, "mc": 1, "threads": [["alloc:1", "rel:1", "alloc:1"], ["alloc:1", "rel:1"]],
     "cover": ("PopCas", "ADec", "AInc", "RInc", "RUndo", "PushCas", "RSub")},
    {"name": "limit2", "mu": 2, "mc": 1, "threads": [["alloc:1", "rel:1"], ["alloc:2", "rel:1"], ["alloc:1", "rel:1"]],
     "cover": ("AUndo", "NAdd", "NUndo", "SkipRel", "RSub")},
    {"name": "unlim", "threads": [["alloc:1", "rel:1", "alloc:1"], ["alloc:1", "rel:1", "alloc:2"]],
     "cover": ("PopCas", "PopWmb", "BeginAllocN", "PushCas")},
]
SCENARIOS_THOROUGH = [
    {"name": "cache2", "mu": INF, "mc": 2, "threads": [["alloc:1", "rel:1"], ["alloc:1", "rel:1", "alloc:1"], ["alloc:1", "rel:1"]],
     "cover": ("RInc",)},
    {"name": "nocache", "mu": 2, "mc": 0, "threads": [["alloc:1", "rel:1", "alloc:1"], ["alloc:1", "rel:1"], ["alloc:1"]],
     "cover": ("AUndo",)},
]
# explored exhaustively on the real code, no model involved
SMALL = [
    {"name": "x_cache", "mu": INF, "mc": 1, "threads": [["alloc:1", "rel:1"], ["alloc:1", "rel:1"]]},
    {"name": "x_limit", "mu": 1, "mc": 0, "threads": [["alloc:1", "rel:1"], ["alloc:1"]]},
    {"name": "x_count", "mu": 2, "mc": 1, "threads": [["alloc:2", "rel:1"], ["alloc:1"]]},
]
POOL_SMALL = [
    {"name": "xp_own", "threads": [["palloc", "pfree:0:1", "palloc"], ["pfree:0:1", "palloc"]]},
    {"name": "xp_cross", "threads": [["palloc", "palloc"], ["pfree:0:1", "pfree:0:2"]]},
]
POOL_RANDOM = {"name": "rp", "threads": [["palloc", "pfree:1:1", "palloc", "pfree:0:1"], ["palloc", "pfree:0:1", "palloc", "pfree:2:1"],
                                         ["palloc", "pfree:0:3", "pfree:1:3", "palloc"]]}


def op_tla(o):
    n, v = o.split(":")
    return {"op": "alloc", "c": int(v)} if n == "alloc" else {"op": "rel", "j": int(v)}


def lim(v):
    return "inf" if v == INF else str(v)


def scenario_file(sc, path):
    f = open(path, "w") if isinstance(path, str) else path
    try:
        f.write("mu %s\nmc %s\nesize %d\nalign %d\n" % (lim(sc.get("mu", INF)), lim(sc.get("mc", INF)),
                                                      sc.get("esize", 64), sc.get("align", 16)))
        f.write("threads %d\n" % len(sc["threads"]))
        for t, ops in enumerate(sc["threads"]):
            f.write("t %d %s\n" % (t, " ".join(ops)))
    finally:
        if isinstance(path, str):
            f.close()


SWEEP_ALIGNS = (16, 32, 64, 128, 256, 4096)
SWEEP_COUNTS = (1, 2, 3, 7)
SWEEP_PER_COUNT = 4          # residues per (arena, count): every residue of the list is used over the arenas of an alignment


def sweep_residues(rng, a, nrandom=2):
    """Addresses modulo the alignment that malloc may return: every multiple of 16; for the page alignment a selection
    (aligned, just above, middle, and those where a chunk header of 48..96 bytes crosses the next boundary) + random ones."""
    if a <= 256:
        return list(range(0, a, 16))
    return [0, 16, a // 2, a - 96, a - 64, a - 48, a - 32, a - 16] + [16 * rng.randrange(a // 16) for _ in range(nrandom)]


def sweep_scenarios(rng, quick=True):
    """One arena per (alignment, element size around a multiple of the alignment: k*align-16 .. k*align+16); in each, one
    caller obtains blocks of every count at SWEEP_PER_COUNT residues of the backing address (rotating through the list
    from one arena / count to the next; all blocks held at the same time), gives them back in a shuffled order and
    obtains a few more (from the cache when there is one).  The residue a block gets is in the scenario: alloc:<c>@<r>."""
    out = []
    for a in SWEEP_ALIGNS:
        res, pos = sweep_residues(rng, a, 2 if quick else 8), 0
        per_count = SWEEP_PER_COUNT if quick else len(res)          # thorough: every residue in every arena
        for k in ((1, 2) if quick else (1, 2, 3)):
            for d in ((-16, -8, 0, 8, 16) if quick else (-16, -8, -1, 0, 1, 8, 16)):
                es = k * a + d
                if es <= 0:
                    continue
                ops = []
                for c in SWEEP_COUNTS:
                    for _ in range(min(per_count, len(res))):
                        ops.append("alloc:%d@%d" % (c, res[pos % len(res)]))
                        pos += 1
                    pos += 1 if len(res) > per_count else 0       # shift: another pairing of counts and residues next time
                pos += 1 if len(res) > per_count else 0
                n = len(ops)
                order = list(range(1, n + 1))
                rng.shuffle(order)
                ops += ["rel:%d" % j for j in order]
                ops += ["alloc:%d@%d" % (c, rng.choice(res)) for c in (1, 2, 1)]
                total = sum(int(o.split(":")[1].split("@")[0]) for o in ops[:n])
                out.append({"name": "sweep", "align": a, "esize": es, "mu": rng.choice([INF, INF, total]),
                            "mc": rng.choice([INF, 0, 1, 3]), "threads": [ops]})
    return out


def placement_vs_model(execution):
    """Size asked from data_malloc and offset of the data in the block, as recorded, against spec/Arena/ArenaPlace.tla
    (Size, DataOff).  A difference is a divergence of that model, not a verdict (the verdict is ArenaTrace's)."""
    up = lambda x, a: (x + a - 1) // a * a
    a = es = hd = None
    cnt, blk, n, out = {}, {}, 0, []
    for ev in execution:
        e = ev.get("e")
        if e == "init":
            a, es, hd = ev["al"], ev["es"], ev.get("hd")
        elif e == "inv" and ev.get("op") == "alloc":
            cnt[ev["t"]] = ev["c"]
        elif e == "malloc" and hd and ev.get("t") in cnt:
            c = cnt[ev["t"]]
            blk[ev["b"]] = ev
            want = max(up(es * c + a + hd, a), 0)
            if ev["sz"] != want:
                out.append({"what": "size asked from data_malloc", "align": a, "esize": es, "count": c, "model": want, "real": ev["sz"]})
        elif e == "res" and ev.get("op") == "alloc" and ev.get("b", 0) > 0:
            n += 1
            m = blk.get(ev["b"])
            if m is not None and hd:
                want = up(m["base"] + hd, a) - m["base"]
                if ev["data"] - m["base"] != want:
                    out.append({"what": "offset of the data in the block", "align": a, "esize": es, "base_mod_align": m["base"] % a,
                                "model": want, "real": ev["data"] - m["base"]})
    return n, out


def pool_scenario_file(sc, path):
    with open(path, "w") as f:
        f.write("esize %d\nthreads %d\n" % (sc.get("esize", 96), len(sc["threads"])))
        for t, ops in enumerate(sc["threads"]):
            f.write("t %d %s\n" % (t, " ".join(ops)))


def mc(d, sc, fixed, invs, tag):
    n = len(sc["threads"])
    nb = sum(1 for ops in sc["threads"] for o in ops if o.startswith("alloc"))
    consts = {"Thr": set(range(1, n + 1)), "Prog": {t + 1: [op_tla(o) for o in ops] for t, ops in enumerate(sc["threads"])},
              "MaxBlk": nb, "MaxUsed": sc.get("mu", INF), "MaxCached": sc.get("mc", INF), "Inf": INF, "FixedRelease": fixed}
    return mcgen.write_mc(d, sc["name"] + tag, "ArenaImpl", consts, invariants=invs)


def tla_seq(txt):
    return json.loads(txt.replace("<<", "[").replace(">>", "]"))


def tid_of(label):
    return int(re.search(r"\((\d+)\)", label).group(1)) - 1


def cache_len(st):
    """Number of blocks in the model's LIFO in a state (walk nxt from headItem)."""
    h, nxt, n = int(st["headItem"]), tla_seq(st["nxt"]), 0
    while h != 0 and n <= len(nxt):
        n += 1
        h = nxt[h - 1]
    return n


def covering_paths(g, rng, nrandom):
    """Complete paths of the graph such that every transition lies on at least one of them, plus nrandom random
    complete paths.  Returns ([(labels, end_node)], number of covering paths)."""
    from collections import deque
    pred, dq = {}, deque()
    for i in g.init:
        pred[i] = None
        dq.append(i)
    while dq:
        u = dq.popleft()
        for lab, v in g.edges.get(u, ()):
            if v not in pred and v != u:
                pred[v] = (u, lab)
                dq.append(v)

    def prefix(u):
        p = []
        while pred[u] is not None:
            w, lab = pred[u]
            p.append((w, lab, u))
            u = w
        p.reverse()
        return p

    out, seen, covered = [], set(), set()

    def finish(u, acc):
        while True:
            es = [e for e in g.edges.get(u, ()) if e[1] != u]
            if not es:
                return acc, u
            fresh = [e for e in es if (u, e[0], e[1]) not in covered]
            lab, v = rng.choice(fresh or es)
            acc.append((u, lab, v))
            u = v

    def add(acc, end):
        covered.update(acc)
        key = "".join(str(tid_of(l)) for _, l, _ in acc)
        if key not in seen:
            seen.add(key)
            out.append(([l for _, l, _ in acc], end))

    for u in sorted(g.edges):
        if u not in pred:
            continue
        for lab, v in g.edges[u]:
            if v == u or (u, lab, v) in covered:
                continue
            add(*finish(v, prefix(u) + [(u, lab, v)]))
    ncover = len(out)
    for _ in range(nrandom):
        add(*finish(rng.choice(g.init), []))
    return out, ncover


def run_harness(ctx, exe, args, tr, meta, timeout=900):
    rc, out, err = ctx.run_cmd([exe] + args, timeout=timeout)
    exs = tracecheck.split_executions(tracecheck.read_ndjson(tr)) if os.path.exists(tr) else []
    if rc == 3:         # the harness refused its own input (scenario / usage error): a tool failure, never a verdict
        raise tlc.TLCError("harness error: %s" % err[-500:])
    if rc != 0:
        exs.append([{"e": "Crash", "rc": str(rc), "stderr": err[-300:]}])
    metas = []
    if os.path.exists(meta):
        for l in open(meta):
            try:
                metas.append(json.loads(l))
            except ValueError:
                pass
    return exs, metas


def random_scenario(rng, nthreads, nops):
    threads = []
    for _ in range(nthreads):
        ops, mine = [], []
        for i in range(nops):
            if mine and rng.random() < 0.45:
                ops.append("rel:%d" % mine.pop(rng.randrange(len(mine))))
            else:
                ops.append("alloc:%d" % rng.choice([1, 1, 1, 1, 2, 3]))
                mine.append(i + 1)
        threads.append(ops)
    return {"name": "stress", "mu": rng.choice([INF, INF, nthreads, 2 * nthreads, 3]), "mc": rng.choice([INF, 0, 1, 2, nthreads]),
            "esize": rng.choice([24, 64, 100, 200, 256]), "align": rng.choice([8, 16, 32, 64, 128]), "threads": threads}


def random_pool_scenario(rng, nthreads, nops):
    threads = []
    for t in range(nthreads):
        ops = []
        for i in range(nops):
            if rng.random() < 0.5:
                ops.append("palloc")
            else:
                ops.append("pfree:%d:%d" % (rng.randrange(nthreads), rng.randint(1, nops)))
        threads.append(ops)
    return {"name": "pstress", "esize": rng.choice([96, 128, 160]), "threads": threads}


def replay_graph(ctx, exe, d, sc, fixed, nrandom, executions, check_cover):
    """Dump the graph of one variant, replay covering schedules, return (divergences, info, overshoot reachable)."""
    invs = INVS if fixed else INVS_NOCACHE
    mod, cfg = mc(d, sc, fixed, invs, "_f" if fixed else "_u")
    g = ctx.tlc_graph(d, mod, cfg, timeout=1500, coverage=True)
    if check_cover:
        taken = set(lab.split("(")[0] for u in g.edges for lab, v in g.edges[u])
        for a in sc["cover"]:
            if a not in taken:
                raise tlc.TLCError("vacuity guard: action %s never taken in scenario %s" % (a, sc["name"]))
    overshoot = False
    if not fixed and sc.get("mc", INF) != INF:
        for nid, lab in g.nodes.items():
            if cache_len(tlc.parse_state_label(lab)) > sc["mc"]:
                overshoot = True
                break
    paths, ncover = covering_paths(g, ctx.rng, nrandom)
    tag = sc["name"] + ("_f" if fixed else "_u")
    scf = os.path.join(ctx.scratch, sc["name"] + ".scn")
    scenario_file(sc, scf)
    schedf = os.path.join(ctx.scratch, tag + ".sched")
    with open(schedf, "w") as f:
        for labels, end in paths:
            f.write("".join(str(tid_of(l)) for l in labels) + "\n")
    tr = os.path.join(ctx.scratch, tag + ".trace")
    meta = os.path.join(ctx.scratch, tag + ".meta")
    exs, metas = run_harness(ctx, exe, ["replay", scf, schedf, tr, meta], tr, meta)
    divs = []
    for (labels, end), m in zip(paths, metas):
        st = tlc.parse_state_label(g.nodes[end])
        want = {"sched": "".join(str(tid_of(l)) for l in labels), "ret": tla_seq(st["ret"]), "cached": cache_len(st)}
        got = {"sched": m["sched"], "ret": m["ret"], "cached": m["cached"]}
        if got != want:
            divs.append({"scenario": sc["name"], "variant": "reserve" if fixed else "check-then-increment", "model": want, "real": got})
    for e in exs:
        executions.append((tag, "replay", e))
    info = {"name": sc["name"], "variant": "reserve" if fixed else "check-then-increment", "model_states": len(g.nodes),
            "model_transitions": sum(len(v) for v in g.edges.values()), "schedules_covering_every_transition": ncover,
            "schedules_replayed": len(paths), "divergences": len(divs)}
    return divs, info, overshoot


def run(ctx):
    d = ctx.stage("Arena")
    exe = ctx.harness("arena_replay", ["harness/arena/arena_replay.c"])
    pexe = ctx.harness("pool_replay", ["harness/arena/pool_replay.c"])
    scen = SCENARIOS + ([] if ctx.quick else SCENARIOS_THOROUGH)
    nrandom = 40 if ctx.quick else 500
    executions, pool_executions = [], []
    t0 = [time.time()]

    def phase(name):
        ctx.extra.setdefault("phase_wall_s", {})[name] = round(time.time() - t0[0], 1)
        t0[0] = time.time()

    # ---- 1. abstract spec (+ the placement arithmetic of arena.c against the placement part of it, as ASSUMEs) ----
    ctx.tlc_check("Arena", "ArenaPlace", "ArenaPlace.cfg")
    phase("model")

    # ---- 2. graphs of both variants of the first scenario: which one is the code ? ------------------------------
    first = scen[0]
    divs_f, info_f, _ = replay_graph(ctx, exe, d, first, True, nrandom, executions, True)
    divs_u, info_u, overshoot = replay_graph(ctx, exe, d, first, False, nrandom, executions, False)
    if not overshoot:
        raise tlc.TLCError("sensitivity self-test: the check-then-increment variant of the model must be able to exceed "
                           "the cache limit in scenario %s" % first["name"])
    code_fixed = len(divs_f) <= len(divs_u)
    ctx.extra["release_variant_of_the_code"] = "reserve (cache slot taken by the increment)" if code_fixed \
        else "check-then-increment (released < max_released tested before the increment: defect D4)"
    ctx.extra["scenarios"] = [info_f, info_u]
    total_sched = info_f["schedules_replayed"] + info_u["schedules_replayed"]
    for dv in (divs_f if code_fixed else divs_u):
        ctx.divergences += 1
        ctx.sample({"divergence": dv}, limit=6)
    for sc in scen[1:]:
        divs, info, _ = replay_graph(ctx, exe, d, sc, code_fixed, nrandom, executions, True)
        if not code_fixed or not ctx.quick:
            # the other variant is still model-checked (reserve: all invariants) in the thorough tier / when it is not the code's
            mod, cfg = mc(d, sc, True, INVS, "_fcheck")
            ctx.tlc_check(d, mod, cfg, workers=2)
        ctx.extra["scenarios"].append(info)
        total_sched += info["schedules_replayed"]
        for dv in divs:
            ctx.divergences += 1
            ctx.sample({"divergence": dv}, limit=6)
    phase("replay")

    # ---- 3. interleavings explored on the code itself -----------------------------------------------------------
    all_exh = True
    for sc in SMALL:
        scf = os.path.join(ctx.scratch, sc["name"] + ".scn")
        scenario_file(sc, scf)
        tr = os.path.join(ctx.scratch, sc["name"] + ".xtrace")
        meta = os.path.join(ctx.scratch, sc["name"] + ".xmeta")
        exs, metas = run_harness(ctx, exe, ["explore", scf, "30000", tr, meta], tr, meta, timeout=1500)
        last = metas[-1] if metas else {}
        all_exh = all_exh and bool(last.get("exhaustive"))
        ctx.extra.setdefault("explored_on_code", []).append(
            {"name": sc["name"], "interleavings": last.get("explored"), "exhaustive": last.get("exhaustive"),
             "max_cached_seen": max([m.get("cached", 0) for m in metas if "cached" in m] or [0])})
        for e in exs:
            executions.append((sc["name"], "explore", e))
    for sc in scen:
        scf = os.path.join(ctx.scratch, sc["name"] + ".scn")
        tr = os.path.join(ctx.scratch, sc["name"] + ".rtrace")
        meta = os.path.join(ctx.scratch, sc["name"] + ".rmeta")
        exs, metas = run_harness(ctx, exe, ["random", scf, str(250 if ctx.quick else 3000), tr, meta, str(ctx.seed)], tr, meta)
        for e in exs:
            executions.append((sc["name"], "random", e))
    for sc in POOL_SMALL:
        scf = os.path.join(ctx.scratch, sc["name"] + ".scn")
        pool_scenario_file(sc, scf)
        tr = os.path.join(ctx.scratch, sc["name"] + ".xtrace")
        meta = os.path.join(ctx.scratch, sc["name"] + ".xmeta")
        exs, metas = run_harness(ctx, pexe, ["explore", scf, "30000", tr, meta], tr, meta, timeout=1500)
        last = metas[-1] if metas else {}
        all_exh = all_exh and bool(last.get("exhaustive"))
        ctx.extra.setdefault("explored_on_code", []).append(
            {"name": sc["name"], "interleavings": last.get("explored"), "exhaustive": last.get("exhaustive")})
        for e in exs:
            pool_executions.append((sc["name"], "explore", e))
    scf = os.path.join(ctx.scratch, "rp.scn")
    pool_scenario_file(POOL_RANDOM, scf)
    tr, meta = os.path.join(ctx.scratch, "rp.rtrace"), os.path.join(ctx.scratch, "rp.rmeta")
    exs, metas = run_harness(ctx, pexe, ["random", scf, str(300 if ctx.quick else 3000), tr, meta, str(ctx.seed)], tr, meta)
    for e in exs:
        pool_executions.append(("rp", "random", e))
    ctx.exhaustive = all_exh
    phase("explore")

    # ---- 3b. placement sweep (sequential): alignments x element sizes around their multiples x counts x residues ----
    sweep = sweep_scenarios(ctx.rng, ctx.quick)
    swf = os.path.join(ctx.scratch, "sweep.scn")
    with open(swf, "w") as f:
        for sc in sweep:
            scenario_file(sc, f)
            f.write("end\n")
    tr, meta = os.path.join(ctx.scratch, "sweep.trace"), os.path.join(ctx.scratch, "sweep.meta")
    exs, metas = run_harness(ctx, exe, ["sweep", swf, "-", tr, meta], tr, meta, timeout=600)
    nblocks, ndiv = 0, 0
    for e in exs:
        executions.append(("sweep", "sweep", e))
        n, dv = placement_vs_model(e)
        nblocks += n
        for x in dv:
            ndiv += 1
            ctx.divergences += 1
            ctx.sample({"divergence": x}, limit=6)
    ctx.extra["placement_sweep"] = {"arenas": len(sweep), "blocks_handed_out": nblocks, "alignments": list(SWEEP_ALIGNS),
                                    "counts": list(SWEEP_COUNTS), "size_or_offset_differs_from_ArenaPlace": ndiv}
    crashed = any(e and e[-1].get("e") == "Crash" for e in exs)      # a verdict (rejected below), not a tool error
    if not crashed and (len(exs) < len(sweep) or nblocks < len(sweep)):
        raise tlc.TLCError("placement sweep: %d of %d arenas run, %d blocks handed out" % (len(exs), len(sweep), nblocks))
    phase("sweep")

    # ---- 4. free-running stress --------------------------------------------------------------------------------------
    plan = [(4, 8), (8, 6), (16, 6)] if ctx.quick else [(2, 10), (4, 10), (8, 8), (16, 6), (16, 8), (12, 8)]
    for i, (nt, nops) in enumerate(plan):
        sc = random_scenario(ctx.rng, nt, nops)
        scf = os.path.join(ctx.scratch, "stress%d.scn" % i)
        scenario_file(sc, scf)
        tr, meta = os.path.join(ctx.scratch, "stress%d.trace" % i), os.path.join(ctx.scratch, "stress%d.meta" % i)
        exs, metas = run_harness(ctx, exe, ["stress", scf, str(40 if ctx.quick else 250), tr, meta], tr, meta, timeout=600)
        if i == 0:
            ctx.sample({"stress_scenario": sc})
        for e in exs:
            executions.append(("stress%d" % i, "stress", e))
        psc = random_pool_scenario(ctx.rng, nt, nops)
        scf = os.path.join(ctx.scratch, "pstress%d.scn" % i)
        pool_scenario_file(psc, scf)
        tr, meta = os.path.join(ctx.scratch, "pstress%d.trace" % i), os.path.join(ctx.scratch, "pstress%d.meta" % i)
        exs, metas = run_harness(ctx, pexe, ["stress", scf, str(40 if ctx.quick else 250), tr, meta], tr, meta, timeout=600)
        for e in exs:
            pool_executions.append(("pstress%d" % i, "stress", e))
    phase("stress")

    # ---- 5. verdict: trace validation ------------------------------------------------------------------------------------
    ctx.evaluations = len(executions) + len(pool_executions)
    distinct, mult = tracecheck.dedupe([e for _, _, e in executions])
    pdistinct, pmult = tracecheck.dedupe([e for _, _, e in pool_executions])
    ctx.extra["executions_run"] = {"arena": len(executions), "mempool": len(pool_executions)}
    ctx.extra["distinct_histories"] = {"arena": len(distinct), "mempool": len(pdistinct)}
    ctx.extra["schedules_from_tlc"] = total_sched
    if distinct:
        ctx.sample({"arena_history": distinct[len(distinct) // 2]})
    if pdistinct:
        ctx.sample({"mempool_history": pdistinct[len(pdistinct) // 2]})
    fails = ctx.validate("Arena", "ArenaTrace", "ArenaTrace.cfg", distinct, batch=600, timeout=1500)
    pfails = ctx.validate("Arena", "PoolTrace", "PoolTrace.cfg", pdistinct, batch=600, timeout=1500)
    ctx.traces = len(executions) + len(pool_executions)
    phase("validate")
    for f in fails:
        ctx.violation("history of the real arena is not a behaviour of Arena.tla (a block with two owners, alignment/size, "
                      "allocation limit, or MORE BLOCKS CACHED THAN max_released): %s" % json.dumps(f.describe()),
                      {"spec": "ArenaTrace", "history": f.execution, "detail": f.describe()})
    for f in pfails:
        ctx.violation("history of the real thread memory pool is not a behaviour of the abstract pool: %s" % json.dumps(f.describe()),
                      {"spec": "PoolTrace", "history": f.execution, "detail": f.describe()})
    ctx.assume("x86-64 TSO; yield points = every parsec_atomic_* op and fence (H1) + the read of `released` in release_chunk")
    ctx.assume("a thread memory pool is allocated from by its own thread only (its counter is not atomic); freed by anybody")


def replay(ctx, obj):
    spec = obj.get("spec", "ArenaTrace")
    fails = ctx.validate("Arena", spec, spec + ".cfg", [obj["history"]])
    for f in fails:
        ctx.violation("recorded history still rejected: %s" % json.dumps(f.describe()), obj)
