"""C33  The runtime read-write lock excludes correctly and makes progress.

spec/RWLock/RW.tla        abstract read-write lock: requests, acquisitions, releases; invariant Exclusion
spec/RWLock/RWTicket.tla  implementation-shaped model of the configured ticket (phase-fair) implementation of
                          parsec_rwlock.c, one action per code segment between yield points (atomics, fences, spin hooks)
spec/RWLock/RWTrace.tla   property-level validation of recorded req / acq / rel histories (stamped inside the critical sections)

1. TLC: RW satisfies Exclusion; RWTicket satisfies Exclusion and NoDeadlock for every scenario, and - under weak fairness
   of every thread (FairSpec) - the liveness half: Progress (every waiting thread gets the lock) and Terminates; two seeded
   model defects must be detected.
2. Schedules from the state graphs (random maximal walks + one test per transition) are replayed on the real
   parsec_atomic_rwlock_* functions under the cooperative scheduler; final ticket counters are compared with the model.
3. The harness' explorer enumerates every interleaving of the small scenarios on the real code; 16-thread free-running
   stress with occupancy counters.
4. Verdict: every recorded history is validated by TLC against RWTrace; a deadlock / exhausted step budget under the
   scheduler ("Timeout") or a stress run that does not finish is a rejection.
"""
import concurrent.futures
import json
import os
import re

from lib import mcgen, tlc, tracecheck

META = {
    "level": "model_checking",
    "text": "TLC proves, for bounded lock cycles of 2-3 threads, that the implementation-shaped model of the ticket read-write "
            "lock (rin/rout/win/wout, every atomic, fence and spin re-check a separate step) never lets a writer share the lock "
            "and, under weak fairness, that every waiting thread acquires it and all cycles complete; schedules covering every "
            "model transition and random walks are replayed on the real parsec_atomic_rwlock_* functions, small scenarios "
            "exhaustively on the code, plus 16-thread free-running stress; each recorded history of critical sections is "
            "validated by TLC against RWTrace.tla (exclusion; every request granted; scheduler deadlock / timeout rejects).",
    "note": "Configured implementation only (PARSEC_RWLOCK_IMPL_TICKET). <= 3 threads x <= 2 lock cycles in the model; liveness "
            "for bounded cycles (counters are unbounded tickets). x86-64 TSO; trusted: TLC, vsched, ndjson recorder.",
    "technique": "TLA+ model checking incl. fair liveness (TLC) + schedule replay on real code + trace validation (TLC)",
}

SCENARIOS = [
    {"name": "wr", "threads": [["w"], ["r"]]},
    {"name": "ww", "threads": [["w"], ["w"]]},
    {"name": "rwr", "threads": [["r"], ["w"], ["r"]]},
    {"name": "wrw", "threads": [["w", "r"], ["r", "w"]]},
    {"name": "three", "threads": [["w", "r"], ["r", "w"], ["r", "r"]]},
    {"name": "www", "threads": [["w"], ["w", "r"], ["w"]]},
]
SCENARIOS_THOROUGH = [
    {"name": "three2", "threads": [["w", "w"], ["r", "w"], ["w", "r"]]},
    {"name": "four", "threads": [["w"], ["r"], ["w"], ["r"]]},
]
# exhaustive exploration on the code: two-thread scenarios only (with three threads two spinners can wake each other for
# ever under the scheduler's lowest-eligible-thread default, which would be reported as a timeout of the lock)
EXPLORE = ("wr", "ww", "wrw")
STRESS = {"name": "s16", "threads": [list("rrwrrrwr"), list("wrrrrwrr"), list("rrrrwrrw"), list("rwrrrrrr")] * 4}


def scenario_file(sc, path):
    with open(path, "w") as f:
        f.write("threads %d\n" % len(sc["threads"]))
        for t, ops in enumerate(sc["threads"]):
            f.write("t %d %s\n" % (t, " ".join(ops)))


def mc(d, sc, mut="none", tag="", fair=False):
    n = len(sc["threads"])
    consts = {"Thr": set(range(1, n + 1)), "Prog": {t + 1: list(ops) for t, ops in enumerate(sc["threads"])}, "Mut": mut}
    return mcgen.write_mc(d, sc["name"] + tag, "RWTicket", consts, spec="FairSpec" if fair else "Spec",
                          invariants=("Exclusion", "NoDeadlock"), properties=("Progress", "Terminates") if fair else ())


def load_meta(path):
    """Per-execution records written by the harness; a harness that died leaves a truncated last line."""
    out = []
    if os.path.exists(path):
        for l in open(path):
            try:
                out.append(json.loads(l))
            except ValueError:
                pass
    return out


def collect(ctx, exe, mode, sc, arg, kind, executions, timeout=900):
    base = os.path.join(ctx.scratch, "%s.%s" % (sc["name"], kind))
    scf = base + ".scn"
    scenario_file(sc, scf)
    tr, meta = base + ".trace", base + ".meta"
    rc, out, err = ctx.run_cmd([exe, mode, scf, arg, tr, meta], timeout=timeout)
    exs = tracecheck.split_executions(tracecheck.read_ndjson(tr)) if os.path.exists(tr) else []
    if rc != 0:
        # a free-running run that does not finish (rc = 'timeout') is a lost wake-up / deadlock of the real lock
        exs.append([{"e": "Timeout" if rc == "timeout" else "Crash", "rc": str(rc), "stderr": err[-300:]}])
    for e in exs:
        executions.append((sc["name"], kind, e))
    return load_meta(meta)


def full_transition_tests(g, max_tests, rng):
    """One test per transition of the state graph (shortest path to the transition's source, the transition, then a
    random walk to a terminal state): complete schedules, so the replay never depends on the scheduler's default
    policy.  Returns [(labels, end node)]."""
    from collections import deque
    pred = {}
    dq = deque()
    for i in g.init:
        pred[i] = None
        dq.append(i)
    while dq:
        u = dq.popleft()
        for lab, v in g.edges.get(u, ()):
            if v not in pred:
                pred[v] = (u, lab)
                dq.append(v)

    def path_to(u):
        p = []
        while pred[u] is not None:
            u, lab = pred[u]
            p.append(lab)
        p.reverse()
        return p
    trans = [(u, lab, v) for u in g.edges if u in pred for lab, v in g.edges[u] if v != u]
    if len(trans) > max_tests:
        trans = rng.sample(trans, max_tests)
    out = []
    for u, lab, v in trans:
        labels = path_to(u) + [lab]
        while True:
            es = [e for e in g.edges.get(v, ()) if e[1] != v]
            if not es:
                break
            l2, v = rng.choice(es)
            labels.append(l2)
        out.append((labels, v))
    return out


def sched_of(labels):
    return "".join(str(int(re.search(r"\((\d+)\)", l).group(1)) - 1) for l in labels)


def run(ctx):
    d = ctx.stage("RWLock")
    exe = ctx.harness("rw_replay", ["harness/rwlock/rw_replay.c"])
    scen = SCENARIOS + ([] if ctx.quick else SCENARIOS_THOROUGH)
    byname = {sc["name"]: sc for sc in scen}
    nwalks = 400 if ctx.quick else 3000
    ntrans = 500 if ctx.quick else 5000

    def account(mod, cfg, r, **kw):
        ctx.states += r.distinct
        ctx.transitions += r.generated
        m = {"module": mod, "cfg": cfg, "distinct": r.distinct, "generated": r.generated, "depth": r.depth, "wall_s": round(r.wall, 1)}
        m.update(kw)
        if r.coverage:
            m["coverage"] = {k: v[0] for k, v in r.coverage.items()}
        ctx.models.append(m)

    cover = ("Begin", "RdIn", "RdSpin", "WrWin", "WrSpin1", "WrRin", "WrSpin2", "LockFence", "CsLeave", "UnlockFence", "RdOut", "WrAnd")

    def job_fair(sc, skip=()):
        mod, cfg = mc(d, sc, tag="_fair", fair=True)
        r = tlc.check(d, mod, cfg, coverage=True, workers=1, timeout=1500)
        # vacuity guard on the number of states *generated* by each action (a spin exit often leads to a state first
        # reached through the non-blocking path, so it adds no new distinct state)
        for a in cover:
            if r.ok and a not in skip and r.coverage.get(a, (0, 0))[1] == 0:
                raise tlc.TLCError("vacuity guard: action %s of %s never taken in %s" % (a, mod, cfg))
        return ("check", sc["name"], mod, cfg, r)

    def job_mut(sc, mut):
        mod, cfg = mc(d, sc, mut=mut, tag="_" + mut)
        return ("mut", mut, mod, cfg, tlc.check(d, mod, cfg, workers=1, timeout=1500))

    def job_graph(sc):
        mod, cfg = mc(d, sc)
        g, r = tlc.dump_graph(d, mod, cfg, timeout=1500)
        return ("graph", sc["name"], mod, cfg, r, g)

    jobs = [lambda: ("check", "RW", "RW", "RW.cfg", tlc.check(ctx.spec("RWLock"), "RW", "RW.cfg", workers=1)),
            lambda: job_fair(byname["three"], skip=("WrSpin1",)), lambda: job_fair(byname["www"]),
            lambda: job_mut(byname["wr"], "fullword"), lambda: job_mut(byname["www"], "woutfirst")]
    jobs += [(lambda sc=sc: job_graph(sc)) for sc in scen]
    ctx.scratch
    with concurrent.futures.ThreadPoolExecutor(max_workers=2) as pool:
        results = list(pool.map(lambda j: j(), jobs))
    graphs = {}
    for res in results:
        kind, what, mod, cfg, r = res[:5]
        account(mod, cfg, r, **({"graph": True} if kind == "graph" else {}))
        if kind == "mut":
            if r.ok:
                raise tlc.TLCError("sensitivity self-test: model defect %r of RWTicket must be detected by TLC" % what)
        elif not r.ok:
            raise tlc.TLCError("specification RWLock/%s (%s) does not satisfy its own properties (%s); this is a model failure, "
                               "not a verdict about the code\n%s" % (mod, cfg, r.violated, r.out[-2500:]))
        if kind == "graph":
            graphs[what] = res[5]

    executions = []
    total_sched = 0
    for sc in scen:
        g = graphs[sc["name"]]
        paths, total, exhaustive = tlc.maximal_paths(g, limit=nwalks, rng=ctx.rng)
        known = set(sched_of(labels) for labels, end in paths)
        ntests = 0
        for labels, end in full_transition_tests(g, ntrans, ctx.rng):
            if sched_of(labels) not in known:
                known.add(sched_of(labels))
                paths.append((labels, end))
                ntests += 1
        scheds = [sched_of(labels) for labels, end in paths]
        tsched = [None] * ntests
        schedf = os.path.join(ctx.scratch, sc["name"] + ".sched")
        with open(schedf, "w") as f:
            f.write("\n".join(scheds) + "\n")
        metas = collect(ctx, exe, "replay", sc, schedf, "replay", executions)
        for (labels, end), s, m in zip(paths, scheds, metas):
            lab = tlc.parse_state_label(g.nodes[end])
            want = {k: int(lab[k]) for k in ("rin", "rout", "win", "wout")}
            got = {k: m[k] for k in want}
            if got != want or m["sched"] != s or m["overlaps"]:
                ctx.divergences += 1
                ctx.sample({"divergence": {"scenario": sc["name"], "schedule": s, "real_schedule": m["sched"], "model": want, "real": got,
                                           "overlaps": m["overlaps"]}}, limit=6)
        if len(metas) != len(scheds):
            ctx.divergences += 1
            ctx.sample({"divergence": {"scenario": sc["name"], "schedules": len(scheds), "executed": len(metas)}}, limit=6)
        total_sched += len(scheds)
        info = {"name": sc["name"], "threads": sc["threads"], "model_states": len(g.nodes), "model_paths_total": total,
                "walks_replayed": len(scheds) - ntests, "transition_tests": ntests, "paths_exhaustive": exhaustive}
        if sc["name"] in EXPLORE:
            metas = collect(ctx, exe, "explore", sc, str(30000 if ctx.quick else 100000), "explore", executions, timeout=1500)
            last = metas[-1] if metas else {}
            info.update({"code_interleavings": last.get("explored"), "code_exhaustive": last.get("exhaustive")})
        ctx.extra.setdefault("scenarios", []).append(info)
    metas = collect(ctx, exe, "stress", STRESS, str(30 if ctx.quick else 300), "stress", executions, timeout=600)
    ctx.extra["stress_runs"] = len(metas)

    ctx.evaluations = len(executions)
    distinct, mult = tracecheck.dedupe([e for _, _, e in executions])
    ctx.extra["executions_run"] = len(executions)
    ctx.extra["distinct_histories"] = len(distinct)
    ctx.extra["schedules_from_tlc"] = total_sched
    ctx.exhaustive = False
    if distinct:
        ctx.sample({"history": distinct[0]})
        ctx.sample({"history": distinct[len(distinct) // 2][:60]})
    fails = ctx.validate("RWLock", "RWTrace", "RWTrace.cfg", distinct, batch=1000, timeout=1500)
    ctx.traces = len(executions)
    # sensitivity self-test of the trace specification: a writer's acquisition moved before the previous release must be rejected
    good = next((e for e in distinct if sum(1 for ev in e if ev.get("e") == "acq") >= 2 and any(ev.get("m") == "w" for ev in e)), None)
    if good is not None and not fails:
        k = next((i for i, ev in enumerate(good) if ev.get("e") == "rel" and ev.get("m") == "w"
                  and any(e2.get("e") == "acq" for e2 in good[i:])), None)
        if k is None:
            k = next(i for i, ev in enumerate(good) if ev.get("e") == "rel")
        j = next((i for i, ev in enumerate(good) if i > k and ev.get("e") == "acq"), k)
        bad = list(good)
        bad[k], bad[j] = bad[j], bad[k]
        p = os.path.join(ctx.scratch, "corrupted.ndjson")
        tracecheck._write(bad, p)
        v, r = tracecheck.validate_file(ctx.spec("RWLock"), "RWTrace", "RWTrace.cfg", p)
        ctx.extra["corrupted_trace_rejected"] = not v.accepted
        if v.accepted and any(ev.get("m") == "w" for ev in (good[k], good[j])):
            raise tlc.TLCError("self-test: RWTrace accepted a history with overlapping writer")
    for f in fails:
        ctx.violation("history of the real read-write lock is not a behaviour of RW.tla: %s" % json.dumps(f.describe()),
                      {"history": f.execution, "detail": f.describe()})
    ctx.assume("x86-64 TSO; yield points = every parsec_atomic_* op, fences and the PARSEC_VERIF_SPIN hooks in the three spin loops")
    ctx.assume("liveness is checked for bounded lock cycles, under weak fairness of every thread")


def replay(ctx, obj):
    fails = ctx.validate("RWLock", "RWTrace", "RWTrace.cfg", [obj["history"]])
    for f in fails:
        ctx.violation("recorded history still rejected: %s" % json.dumps(f.describe()), obj)
