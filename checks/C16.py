"""C16  Deferred tasks are re-run, never lost or duplicated.

Same machinery as C01/C02.  The test-owned bodies return PARSEC_HOOK_RETURN_AGAIN a seeded number of times (0..3 per
instance) before completing, and the runs use small task_startup_iter / task_startup_chunk values so that the startup
generators of the classes are suspended (AGAIN) and resumed many times.
  * Exec.tla (TLC, exhaustive on small programs): HookAgain puts the task back without releasing anything; the startup
    generator StartupIterate / StartupResume / StartupEnd with `reserved` doubling and the chunk limit creates every
    startup instance exactly once (StartupOnce, NoRestart, TermOK) for chunk parameters 1 and 2.
  * ExecTrace (cfg C16): a body that returned AGAIN is started again with the next attempt number until it ends; no
    instance starts after it ended; successors start only after the final End of their predecessors (CheckOrder);
    termination only when every instance ended; startup instances are part of the space check.
"""
from harness.ptg import ptgrun
from lib import jdfgen

META = {
    "level": "model_checking",
    "text": "TLC model-checks the task life cycle with AGAIN returns and the chunked startup generation (iter/chunk = 1, 2) "
            "on small generated programs; the generated shape programs then run on the real runtime with bodies returning "
            "PARSEC_HOOK_RETURN_AGAIN 0-3 times per instance and task_startup_iter / task_startup_chunk in {1, 2, 3, default} "
            "under all priority-sensitive schedulers; TLC validates every execution: attempts are consecutive, each "
            "instance ends exactly once, successors start only after the final End, all startup instances appear once.",
    "note": "AGAIN counts are seeded per instance (0..3); quick: 8 configurations x ~70 programs. The number of AGAIN returns "
            "actually observed is in the evidence (vacuity guard: > 0).",
    "technique": "TLA+ life-cycle model with AGAIN / startup chunking (TLC) + real executions + trace validation (TLC)",
}


def configs(ctx):
    if ctx.quick:
        return [{"sched": "spq", "cores": 4, "conc": 64, "iter": 1, "chunk": 1},
                {"sched": "ap", "cores": 1, "conc": 1, "iter": 2, "chunk": 3},
                {"sched": "ip", "cores": 2, "conc": 64, "iter": 1, "chunk": 3},
                {"sched": "lfq", "cores": 4, "conc": 64, "iter": None, "chunk": 1},
                {"sched": "pbq", "cores": 1, "conc": 64, "iter": 2, "chunk": None},
                {"sched": "gd", "cores": 3, "conc": 64, "iter": 1, "chunk": 2},
                {"sched": "rnd", "cores": 4, "conc": 8, "iter": 2, "chunk": 1, "noise": 4},
                {"sched": "llp", "cores": 3, "conc": 64, "iter": None, "chunk": None}]
    out = []
    k = 0
    for s in ["ap", "gd", "ip", "lfq", "lhq", "ll", "llp", "ltq", "pbq", "rnd", "spq"]:
        for cores in (1, 2, 4, 16):
            if cores == 1 and s in ("ll", "llp"):
                continue            # documented by the module: no active wait with a single thread (live-lock risk)
            k += 1
            out.append({"sched": s, "cores": cores, "conc": (1 if k % 4 == 0 else 32),
                        "iter": (1, 2, None)[k % 3], "chunk": (1, 3, None, 2)[k % 4], "noise": (k if k % 5 == 0 else 0)})
    return out


def run(ctx):
    d = ctx.stage("PTG")
    ptgrun.model_checks(ctx, d)
    ents = jdfgen.shape_programs()
    for e in ents:
        it, _ = jdfgen.validate(e["prog"])
        e["ntasks"] = len(it.order)
    ents += jdfgen.random_programs(3000 + ctx.seed, 14 if ctx.quick else 250)
    cfgs = configs(ctx)
    backs = {e["prog"]["name"]: ("dynamic-hash-table" if i % 3 == 0 else "index-array") for i, e in enumerate(ents)}

    def again(entry, ci):
        # the last configuration runs without AGAIN (plain chunking), the others with up to 1..3 per instance
        return None if ci == len(cfgs) - 1 else (ctx.seed * 100 + ci, 1 + ci % 3)
    if ctx.quick:
        execs, hung = ptgrun.campaign(ctx, ents, cfgs, "ExecTraceC16.cfg", "c16", again=again, backends=backs,
                                      what="execution (AGAIN / startup chunking)")
    else:
        execs = []
        for s in range(0, len(ents), 60):
            sub = ctx.rng.sample(cfgs[:-1], 7) + [cfgs[-1]]
            cfgs_local = sub

            def again2(entry, ci, n=len(cfgs_local)):
                return None if ci == n - 1 else (ctx.seed * 100 + ci, 1 + ci % 3)
            e2, _ = ptgrun.campaign(ctx, ents[s:s + 60], cfgs_local, "ExecTraceC16.cfg", "c16-%d" % s, again=again2,
                                    backends=backs, what="execution (AGAIN / startup chunking)")
            execs += e2
    n_again = sum(1 for _, ex in execs for ev in ex if ev.get("e") == "Again")
    ctx.extra["again_returns_observed"] = n_again
    if n_again == 0 and not ctx.violations:
        from lib import tlc
        raise tlc.TLCError("vacuity guard: no body returned AGAIN in any execution")
    ctx.assume("bodies are idempotent until their last attempt (they write only when they complete)")


def replay(ctx, obj):
    ptgrun.replay_trace(ctx, obj)
