"""C15  Composed taskpools run strictly one after another.

spec/Context/Compound.tla       the property: tasks of taskpool i only while i is the current one; the compound completes
                                once, after the last one (the layout = tasks per member, 0 allowed, is chosen by Init)
spec/Context/CompoundImpl.tla   implementation-shaped model of compound.c + parsec_context_add_taskpool + the local
                                termination detector: the startup hook and the completion callback of a member are the
                                sequences of steps of the code, executed by threads with a call stack (a member without
                                task completes NESTED inside add_taskpool, a tiny one CONCURRENTLY on another thread while
                                the enabling thread has not resumed), for the usages "compound added before the start" /
                                "added to a running context".  Refines Compound for the order of the code; three other
                                orders (cursor incremented after enabling the successor, accounting after enabling the
                                first member, ready before the accounting) are kept as sensitivity self-tests.
spec/Context/CompoundTrace.tla  validation of real compositions: generated PTG taskpools (spaces computed by
                                spec/PTG/JDFSem.tla) and map-operator taskpools (Layout event)
harness/compound/compound_run.c compositions of tiny / EMPTY map-operator taskpools, both usages, noise mode
"""
import concurrent.futures
import itertools
import json
import os
import shutil

from harness.ptg import ptgrun
from lib import jdfgen, mcgen, tlc, tracecheck

META = {
    "level": "model_checking",
    "text": "TLC checks that the implementation-shaped model of the compound startup hook and of the completion callback "
            "of a composed taskpool (every statement a step, callbacks nested inside parsec_context_add_taskpool for "
            "members without task or concurrent on another thread, compound enqueued before the start or into a running "
            "context) refines the one-after-another specification for every layout of 2 members with 0..2 tasks and 3 members "
            "with 0..1 task (thorough: 2..4 members with 0..2 tasks, 2 and 3 threads), and that three other statement "
            "orders do not.  The terminal states of the model give the "
            "scenarios replayed on the real code; in addition every layout of 1..6 tiny / empty members under both usages, "
            "1-4 threads and several schedulers, runs where the enabling thread is held back until another thread has "
            "finished the successor, and compositions of 1..20 generated PTG taskpools (some with an empty execution "
            "space).  TLC validates each recorded execution: no body of a later member starts before every instance of "
            "the earlier members ended, the completion callback of the composed taskpool is called exactly once, after "
            "the last instance; a composition that does not complete is a Timeout (confirmed with a 10x window).",
    "note": "Members: map-operator taskpools over 0..4 local tiles (0 = terminates inside parsec_context_add_taskpool) and "
            "instances of 4 tiny generated PTG programs (0-8 tasks). The completion of the compound is observed through "
            "parsec_taskpool_set_complete_callback on the object parsec_compose returns. The noise mode only steers the "
            "interleaving (startup-hook wrapper / parsec_verif_point_fn), it is not part of the verdict.",
    "technique": "TLA+ refinement (TLC) + model-generated and enumerated compositions on the real code + trace validation (TLC)",
}

IMPL_INV = ("OneAfterAnother", "CompletesOnceAfterLast", "EnabledOnce", "CursorMatches", "NextExists", "Accounted",
            "ContextCount", "Emit")
PROP_INV = ("OneAfterAnother", "CompletesOnceAfterLast", "EnabledOnce")
IMPL_COVER = ("AddCompound", "MainWait", "SAcct", "SReady", "SAdd", "Ret", "CInc", "CDec", "CAdd", "TaskStart", "TaskEnd",
              "MemberTerminates")
SHAPES = {1: ["T1x1"], 2: ["T2x1", "T1x2"], 3: ["T1x3", "T3x1"], 4: ["T2x2"]}


def compose_programs():
    """tiny programs whose tile expressions stay valid for every N <= 4, M <= 2 (ascending ranges only)"""
    J = jdfgen
    out = []
    b = J.Builder(N=4, M=2); J.t_indep(b, "T", ["asc"]); out.append(b)
    b = J.Builder(N=4, M=2); J.t_chain(b, "CH", "asc"); J.t_indep(b, "T", ["asc"], flowkind="new"); out.append(b)
    b = J.Builder(N=3, M=2); J.t_bcast(b, "P", "Q", "asc", "tri_lo", gather="R", raw=True); out.append(b)
    b = J.Builder(N=4, M=2); J.t_pipe(b, "asc"); out.append(b)
    res = []
    for i, b in enumerate(out):
        p = b.build()
        p["name"] = "vc%03d" % i
        nmax = p["globals"]["N"]
        res.append({"prog": p, "tags": sorted(b.tags), "desc": False, "nmax": nmax})
    return res


def member_prog(p, g):
    q = json.loads(json.dumps(p))
    q["globals"] = {"N": g[0], "M": g[1], "K": g[2]}
    return q


def layouts_tla(lo, hi, maxt):
    return mcgen.Raw("UNION {[1..n -> 0..%d] : n \\in %d..%d}" % (maxt, lo, hi))


# ------------------------------------------------------------------------------------------------ model level
def model_level(ctx, d):
    """Returns the scenarios (layout, usage, sync, win) of the terminal states of the model with the code's order."""
    maxp = 3 if ctx.quick else 4
    ctx.scratch
    jobs = []          # (name, module, cfg, keyword arguments of tlc.check)
    mod, cfg = mcgen.write_mc(d, "abs", "Compound", {"Layouts": layouts_tla(1, maxp, 2)},
                              invariants=("OneAfterAnother", "CompletesOnceAfterLast"), deadlock=True)
    jobs.append(("abs", mod, cfg, {"must_cover": ("TaskStart", "TaskEnd", "PoolDone", "CompoundDone"), "workers": 1}))
    for mp, nth in ([(maxp, 2)] if ctx.quick else [(4, 2), (3, 3)]):
        # quick: 2 members with 0..2 tasks and 3 members with 0..1 task; thorough: 2..mp members with 0..2 tasks
        lay = mcgen.Raw("[1..2 -> 0..2] \\cup [1..3 -> 0..1]") if ctx.quick else layouts_tla(2, mp, 2)
        consts = {"Layouts": lay, "NTH": nth, "Order": "code", "Usages": {"before", "running"}}
        mod, cfg = mcgen.write_mc(d, "impl_code_%d_%d" % (mp, nth), "CompoundImpl", consts, invariants=IMPL_INV,
                                  properties=("Refines",), deadlock=True)
        jobs.append(("code", mod, cfg, {"must_cover": IMPL_COVER, "workers": 2, "timeout": 3000}))
    # sensitivity: each of the other statement orders must be rejected (property-level invariants, refinement, deadlock)
    small = {"Layouts": layouts_tla(2, 3, 1), "NTH": 2, "Usages": {"before", "running"}}
    expect = {"cursor_after_enable": ("EnabledOnce",), "account_after_enable": ("deadlock",),
              "ready_before_account": None}
    for order in expect:
        consts = dict(small)
        consts["Order"] = order
        mod, cfg = mcgen.write_mc(d, "impl_" + order, "CompoundImpl", consts, invariants=PROP_INV,
                                  properties=("Refines",), deadlock=True)
        jobs.append((order, mod, cfg, {"workers": 1}))
    # the JVM start dominates these runs: three at a time (at most 4 TLC worker threads in total)
    jobs.sort(key=lambda j: -j[3]["workers"])
    with concurrent.futures.ThreadPoolExecutor(max_workers=3) as pool:
        results = list(pool.map(lambda j: tlc.check(d, j[1], j[2], jvm=ptgrun.JVM_SHORT, **j[3]), jobs))
    scen, got = {}, {}
    for (name, mod, cfg, kw), r in zip(jobs, results):
        ctx.states += r.distinct
        ctx.transitions += r.generated
        ctx.models.append({"module": mod, "cfg": cfg, "distinct": r.distinct, "generated": r.generated, "depth": r.depth,
                           "wall_s": round(r.wall, 1),
                           "coverage": {k: v[0] for k, v in r.coverage.items()} if r.coverage else None})
        if name in expect:
            want = expect[name]
            got[name] = "ok" if r.ok else (r.violated or "refinement")
            if r.ok or (want is not None and r.violated not in want):
                raise tlc.TLCError("sensitivity self-test: CompoundImpl with Order=%s must be rejected (%s), got %r" % (
                    name, want or "any", got[name]))
            continue
        if not r.ok:
            raise tlc.TLCError("specification Context/%s (%s) does not satisfy its own properties (%s); this is a model "
                               "failure, not a verdict about the code\n%s" % (mod, cfg, r.violated, r.out[-2500:]))
        for line in (r.printed if name == "code" else []):
            h = tlc._parse_tla_string_list(line)
            if h is None:
                raise tlc.TLCError("unreadable scenario line printed by CompoundImpl: %r" % line[:200])
            key = (tuple(h["nt"]), h["usage"], tuple(sorted(h["sync"])), tuple(sorted(h["win"])))
            scen[key] = {"nt": list(key[0]), "usage": key[1], "sync": list(key[2]), "win": list(key[3])}
    if not scen or not any(s["win"] for s in scen.values()) or not any(s["sync"] for s in scen.values()):
        raise tlc.TLCError("vacuity guard: CompoundImpl produced %d scenarios, none with a nested / concurrent completion"
                           % len(scen))
    ctx.extra["model_sensitivity"] = got
    ctx.extra["model_scenarios"] = len(scen)
    ctx.exhaustive = True
    return [scen[k] for k in sorted(scen)]


# ------------------------------------------------------------------------------------------------ map-operator compositions
def shape(rng, n):
    return rng.choice(SHAPES[n])


# "running context" = late=2 of compound_run.c (a one-task taskpool enqueued before parsec_context_start keeps the workers
# inside their scheduling loop; it degenerates to start-then-add with one core).  The plain start-then-add (late=1) is
# not used: parsec_context_start() takes its reference on the context AFTER it released the workers, which may then
# find no active taskpool and leave the loop; tasks later pushed on their queues (the map operator startup does that)
# are stranded with the schedulers whose local queues the master cannot reach (lhq).  That hang has nothing to do
# with the composition.
def scenario_run(rng, sc, k):
    members = []
    for i, n in enumerate(sc["nt"]):
        if n > 0:
            members.append(shape(rng, n))
        else:
            members.append("E" if (i + 1) in sc["sync"] else "Z")
    delay = sum(1 << (m - 1) for m in sc["win"])
    late = 0 if sc["usage"] == "before" else 2
    return {"members": members, "late": late, "delay": delay, "dmode": 1 + (k // 2) % 2, "nz": 0, "src": "model"}


def enumerated_runs(rng, quick):
    """every layout of 1..6 members, each a tiny taskpool or an empty one, under both usages"""
    runs = []
    k = 0
    for n in range(1, 7):
        for lay in itertools.product("TE", repeat=n):
            for usage in (0, 1):
                members = [shape(rng, rng.choice((1, 1, 2, 2, 3, 4))) if c == "T" else "E" for c in lay]
                k += 1
                runs.append({"members": members, "late": 0 if usage == 0 else 2, "delay": 0, "dmode": 1, "nz": 0,
                             "src": "enum"})
    return runs


def noise_runs(rng, quick):
    """the enabling thread is held back after the tasks of the successor were handed to the scheduler"""
    runs = []
    for k in range(24 if quick else 120):
        n = rng.randint(2, 6)
        members = []
        for i in range(n):
            c = rng.random()
            members.append("E" if c < 0.08 else "Z" if c < 0.2 else shape(rng, rng.choice((1, 1, 2, 2, 3, 4))))
        allm = (1 << n) - 1
        delay = allm if k % 3 == 0 else (rng.randint(1, allm) if k % 3 == 1 else 1 << rng.randrange(n))
        runs.append({"members": members, "late": (2, 0, 2, 2)[k % 4], "delay": delay, "dmode": 1 + k % 2,
                     "nz": (0, 0, 15, 40)[(k // 2) % 4], "src": "noise"})
    return runs


def run_line(r, rid):
    return "id=%d members=%s late=%d delay=%d dmode=%d wait_us=%d nz=%d" % (
        rid, ",".join(r["members"]), r["late"], r["delay"], r["dmode"], r.get("wait_us", 50000), r["nz"])


def compound_env(cfg):
    return {"OMPI_MCA_ess_singleton_isolated": "1", "OMPI_MCA_btl": "self", "OMPI_MCA_pml": "ob1",
            "PARSEC_MCA_mca_sched": cfg["sched"]}


def run_compound_process(ctx, exe, runs, ids, cfg, tag, window_ms, timeout):
    """one process = one parsec context; returns ({id: events}, rc, stats)"""
    d = os.path.join(ctx.scratch, "compound")
    os.makedirs(d, exist_ok=True)
    rf, tr = os.path.join(d, "runs-%s.txt" % tag), os.path.join(d, "trace-%s.ndjson" % tag)
    with open(rf, "w") as f:
        for i in ids:
            f.write(run_line(runs[i], i) + "\n")
    rc, out, err = ctx.run_cmd([exe, "runs=" + rf, "out=" + tr, "cores=%d" % cfg["cores"], "window_ms=%d" % window_ms],
                               timeout=timeout, env=compound_env(cfg))
    evs = tracecheck.read_ndjson(tr) if os.path.exists(tr) else []
    per, stats = {}, {}
    for e in evs:
        if e.get("e") == "ProcessDone":
            stats = e
        elif "r" in e:
            per.setdefault(e["r"], []).append(e)
    for p in (rf, tr):
        try:
            os.unlink(p)
        except OSError:
            pass
    if rc == 3 or rc == "timeout":
        raise tlc.TLCError("compound_run (%s) failed rc=%s: %s" % (tag, rc, err[-400:]))
    return per, rc, stats, err[-300:]


def run_compound_config(ctx, exe, runs, ids, cfg, ci, window_ms):
    """all the compositions `ids` under one configuration; the process ends at a composition that hangs or crashes:
    restart after it (at most 3 casualties per configuration)."""
    res, todo, casualties, stats_all = {}, list(ids), [], {"waits": 0, "waits_ok": 0, "noise": 0}
    rounds = 0
    while todo and len(casualties) < 3:
        rounds += 1
        per, rc, stats, err = run_compound_process(ctx, exe, runs, todo, cfg, "c%d-%d" % (ci, rounds), window_ms,
                                                   timeout=240 + 2 * window_ms // 1000)
        for k in stats_all:
            stats_all[k] += stats.get(k, 0)
        last = -1
        for pos, i in enumerate(todo):
            if i in per:
                res[i] = per[i]
                last = pos
        if rc == 0:
            if last != len(todo) - 1:
                raise tlc.TLCError("compound_run ended normally after %d of %d compositions: %s" % (last + 1, len(todo), err))
            todo = []
            break
        if last < 0:
            raise tlc.TLCError("compound_run died before its first composition (rc=%s): %s" % (rc, err))
        casualties.append(todo[last])
        todo = todo[last + 1:]
    return res, casualties, len(todo), stats_all


def to_execution(evs):
    ex = []
    for ev in evs or []:
        k = ev.get("e")
        if k == "Layout":
            ex.append({"e": "Layout", "sizes": ev["sizes"]})
        elif k in ("Start", "End"):
            ex.append({"e": k, "sp": ev["sp"], "c": ev["c"], "p": ev["p"]})
        elif k in ("Run", "Final"):
            ex.append({"e": k})
        elif k == "TpDone":
            ex.append({"e": "TpDone", "n": ev["n"]})
        else:
            ex.append({x: y for x, y in ev.items() if x not in ("s", "r", "th")})
    if not ex or ex[-1].get("e") not in ("Final", "Timeout", "Crash"):
        ex.append({"e": "Crash", "what": "the composition did not reach its end"})
    return ex


def compound_compositions(ctx, d, scenarios):
    exe = ctx.harness("c15_compound", ["harness/compound/compound_run.c"])
    rng = ctx.rng
    cfgs = [{"sched": "lfq", "cores": 1}, {"sched": "lfq", "cores": 3}, {"sched": "ap", "cores": 2},
            {"sched": "spq", "cores": 4}, {"sched": "ll", "cores": 2}, {"sched": "gd", "cores": 4}]
    if not ctx.quick:
        cfgs += [{"sched": "ip", "cores": 3}, {"sched": "pbq", "cores": 4}, {"sched": "rnd", "cores": 2},
                 {"sched": "ltq", "cores": 3}, {"sched": "lhq", "cores": 4}, {"sched": "llp", "cores": 1}]
    multi = [i for i, c in enumerate(cfgs) if c["cores"] > 1]
    # scenarios of the model: all of them, or a sample that prefers the scenarios with a concurrent completion
    scs = list(scenarios)
    cap = (100, 60) if ctx.quick else (1000, 500)
    if len(scs) > sum(cap):
        withwin = [s for s in scs if s["win"]]
        rest = [s for s in scs if not s["win"]]
        rng.shuffle(withwin)
        rng.shuffle(rest)
        scs = withwin[:cap[0]] + rest[:cap[1]]
    ctx.extra["model_scenarios_run"] = len(scs)
    runs, assign = [], []
    for k, sc in enumerate(scs):
        runs.append(scenario_run(rng, sc, k))
        assign.append([multi[k % len(multi)]] if sc["win"] else [k % len(cfgs)])
    for k, r in enumerate(enumerated_runs(rng, ctx.quick)):
        runs.append(r)
        a = (k + ctx.seed) % len(cfgs)
        assign.append([a, (a + 1 + k // len(cfgs)) % len(cfgs)] if ctx.quick else list(range(len(cfgs))))
    for k, r in enumerate(noise_runs(rng, ctx.quick)):
        runs.append(r)
        assign.append([multi[k % len(multi)], multi[(k + 2) % len(multi)]] if ctx.quick else multi)
    per_cfg = {ci: [i for i, a in enumerate(assign) if ci in a] for ci in range(len(cfgs))}
    window = 4000
    with concurrent.futures.ThreadPoolExecutor(max_workers=4) as pool:
        results = list(pool.map(lambda ci: run_compound_config(ctx, exe, runs, per_cfg[ci], cfgs[ci], ci, window),
                                range(len(cfgs))))
    executions, metas, hung = [], [], []
    stats = {"waits": 0, "waits_ok": 0, "noise": 0}
    not_run = 0
    for ci, (res, casualties, left, st) in enumerate(results):
        not_run += left
        for k in stats:
            stats[k] += st[k]
        for i in per_cfg[ci]:
            if i not in res:
                continue
            ex = to_execution(res[i])
            meta = {"run": runs[i], "config": cfgs[ci], "line": run_line(runs[i], i)}
            if i in casualties and any(ev.get("e") == "Timeout" for ev in ex):
                hung.append((ci, i, meta, ex))
            else:
                executions.append(ex)
                metas.append(meta)
    # a composition that did not complete: believe it only when it does not complete with a 10x window either
    confirmed = []
    for ci, i, meta, ex in hung[:2]:
        per, rc, st, err = run_compound_process(ctx, exe, runs, [i], cfgs[ci], "again-%d-%d" % (ci, i), 10 * window,
                                                timeout=300 + 10 * window // 1000)
        ex2 = to_execution(per.get(i))
        if any(ev.get("e") == "Timeout" for ev in ex2):
            confirmed.append((meta, ex2))
        else:
            ctx.extra["timeouts_not_confirmed"] = ctx.extra.get("timeouts_not_confirmed", 0) + 1
            executions.append(ex2)
            metas.append(meta)
    ctx.extra["map_operator_compositions"] = len(executions) + len(hung)
    ctx.extra["map_operator_layouts"] = len(set(tuple(m["run"]["members"]) for m in metas))
    ctx.extra["enabler_waits"] = stats
    ctx.extra["hung_compositions"] = len(hung)
    if not_run:
        ctx.extra["not_run_after_three_casualties"] = not_run
    ctx.evaluations += len(executions) + len(hung)
    for m, ex in zip(metas, executions):
        if m["run"]["src"] == "model" and m["run"]["delay"]:
            ctx.sample({"composition": m["line"], "config": m["config"], "events": ex[:12], "nevents": len(ex)})
            break
    # validation: distinct event sequences only
    distinct, mult = tracecheck.dedupe(executions)
    first = {}
    for m, ex in zip(metas, executions):
        first.setdefault(json.dumps(ex, sort_keys=True), m)
    dmetas = [first[json.dumps(ex, sort_keys=True)] for ex in distinct]
    ctx.extra["map_operator_distinct_executions"] = len(distinct)
    fails = ctx.validate(d, "CompoundTrace", "CompoundTrace.cfg", distinct, batch=400, timeout=1500, max_failures=2)
    ctx.traces += len(executions) - len(distinct)
    for f in fails:
        m = dmetas[f.index]
        ctx.violation("composition `%s` (map-operator taskpools; E = no local tile, Z = one silent task) under %s is "
                      "rejected by CompoundTrace: %s" % (m["line"], m["config"], json.dumps(f.describe())[:700]),
                      {"meta": m, "events": f.execution, "detail": f.describe()})
    for meta, ex in confirmed[:2]:
        for f in ctx.validate(d, "CompoundTrace", "CompoundTrace.cfg", [ex], timeout=600):
            ctx.violation("composition `%s` (map-operator taskpools; E = no local tile, Z = one silent task) under %s never "
                          "completes (no event for %d ms, confirmed with a 10x window; %d compositions hang in this run): %s"
                          % (meta["line"], meta["config"], window, len(hung), json.dumps(f.describe())[:500]),
                          {"meta": meta, "events": ex, "detail": f.describe()})
    return distinct


# ------------------------------------------------------------------------------------------------ PTG compositions
def ptg_compositions(ctx, d):
    ents = compose_programs()
    exe = ptgrun.build_driver(ctx, [e["prog"] for e in ents], "c15",
                              backends={e["prog"]["name"]: ("dynamic-hash-table" if i % 2 else "index-array")
                                        for i, e in enumerate(ents)})
    lengths = [1, 2, 3, 4, 6, 15, 16, 17, 20] if ctx.quick else list(range(1, 21)) + [16, 17, 32, 33]
    runs = []
    for k, n in enumerate(lengths):
        e = ents[k % len(ents)]
        pools = [(ctx.rng.randint(1, e["nmax"]), ctx.rng.randint(1, 2), 1) for _ in range(n)]
        runs.append({"prog": e["prog"], "pools": pools, "entry": e})
    # members with an empty execution space (N = 0): every position in short compositions, random ones in longer ones
    for k, n in enumerate([2, 3, 3, 4, 5, 6] if ctx.quick else [2, 2, 3, 3, 3, 4, 4, 5, 5, 6, 6, 9, 18]):
        e = ents[(k + 1) % len(ents)]
        pools = [(ctx.rng.randint(1, e["nmax"]), ctx.rng.randint(1, 2), 1) for _ in range(n)]
        empties = set([k % n] + [i for i in range(n) if ctx.rng.random() < 0.3])
        pools = [(0, p[1], 1) if i in empties else p for i, p in enumerate(pools)]
        runs.append({"prog": e["prog"], "pools": pools, "entry": e})
    for r in runs:
        ntasks = sum(len(jdfgen.Interp(member_prog(r["prog"], g)).order) for g in r["pools"])
        r["maxev"] = 2 * ntasks + 10
    cfgs = [{"sched": "lfq", "cores": 4, "conc": 4}, {"sched": "ap", "cores": 1, "conc": 1},
            {"sched": "spq", "cores": 2, "conc": 8}, {"sched": "ip", "cores": 4, "conc": 12, "noise": 8}]
    if not ctx.quick:
        cfgs += [{"sched": "ll", "cores": 16, "conc": 8}, {"sched": "gd", "cores": 3, "conc": 2, "noise": 3}]
        cfgs += [{"sched": s, "cores": c, "conc": 4, "noise": i + 1}
                 for i, (s, c) in enumerate([("gd", 3), ("ip", 2), ("rnd", 4), ("pbq", 8), ("ltq", 2), ("lhq", 5), ("llp", 4)])]
    executions, metas = [], []
    with concurrent.futures.ThreadPoolExecutor(max_workers=4) as pool:
        results = list(pool.map(lambda ci: (ci, ptgrun.run_config(ctx, exe, runs, cfgs[ci], "c15-%d" % ci, window_ms=2000)),
                                range(len(cfgs))))

    def to_ex(r, evs, info):
        ex = [{"e": "Prog", "prog": r["prog"], "pools": [list(g) for g in r["pools"]]}]
        if evs is None:
            ex.append({"e": "Crash", "what": "the process died before this run", "info": info["stderr"][-200:]})
            return ex
        for ev in evs:
            k = ev.get("e")
            if k in ("Start", "End"):
                ex.append({"e": k, "sp": ev["tp"] % 64, "c": ev["c"], "p": ev["p"]})
            elif k == "Run":
                ex.append({"e": "Run"})
            elif k == "TpDone":
                ex.append({"e": "TpDone", "n": ev["n"]})
            elif k == "Final":
                ex.append({"e": "Final"})
            else:
                ex.append({x: y for x, y in ev.items() if x not in ("s", "tp")})
        if not evs or evs[-1].get("e") != "Final":
            ex.append({"e": "Crash", "what": "run did not reach its end", "info": info["stderr"][-200:]})
        return ex

    retry = {}
    for ci, (per, info) in results:
        for ri, (r, evs) in enumerate(zip(runs, per)):
            ex = to_ex(r, evs, info)
            if any(ev.get("e") in ("Timeout", "Runaway") for ev in ex):
                retry.setdefault(ci, []).append(ri)       # re-run once with a 10x window before believing it
            executions.append(ex)
            metas.append({"program": r["prog"]["name"], "tags": r["entry"]["tags"], "members": len(r["pools"]),
                          "globals": [list(g) for g in r["pools"]], "config": cfgs[ci], "_key": (ci, ri)})
    if retry:
        def again_cfg(ci):
            sub = [runs[ri] for ri in retry[ci]]
            return ci, ptgrun.run_config(ctx, exe, sub, cfgs[ci], "c15-%d-again" % ci, window_ms=20000, timeout=600)
        with concurrent.futures.ThreadPoolExecutor(max_workers=4) as pool:
            for ci, (per, info) in pool.map(again_cfg, sorted(retry)):
                for ri, evs in zip(retry[ci], per):
                    ex = to_ex(runs[ri], evs, info)
                    k = [i for i, m in enumerate(metas) if m["_key"] == (ci, ri)][0]
                    if not any(ev.get("e") in ("Timeout", "Runaway") for ev in ex):
                        ctx.extra["timeouts_not_confirmed"] = ctx.extra.get("timeouts_not_confirmed", 0) + 1
                    executions[k] = ex
    for m in metas:
        m.pop("_key")
    ctx.evaluations += len(executions)
    ctx.extra["compositions"] = len(executions)
    ctx.extra["member_counts"] = sorted(set(len(r["pools"]) for r in runs))
    ctx.extra["compositions_with_empty_ptg_members"] = sum(1 for m in metas if any(g[0] == 0 for g in m["globals"]))
    order = sorted(range(len(executions)), key=lambda i: (metas[i]["program"], metas[i]["members"]))
    executions = [executions[i] for i in order]
    metas = [metas[i] for i in order]
    if executions:
        big = max(range(len(executions)), key=lambda i: len(executions[i]))
        ctx.sample({"composition": metas[big], "first_events": executions[big][1:10], "nevents": len(executions[big])})
    # compositions of one taskpool (= the taskpool itself) apart from real compounds: a defect of the compound object
    # then cannot hide the verdict on the others
    for grp, maxf in (([i for i, m in enumerate(metas) if m["members"] == 1], 3),
                      ([i for i, m in enumerate(metas) if m["members"] > 1], 2)):
        fails = ctx.validate(d, "CompoundTrace", "CompoundTrace.cfg", [executions[i] for i in grp], batch=200,
                             timeout=1500, max_failures=maxf)
        for f in fails:
            m = metas[grp[f.index]]
            nxt = f.describe().get("next_event") or {}
            early = nxt.get("e") == "TpDone" and f.describe()["matched_prefix"] <= 2 and m["members"] > 1
            ctx.violation("composition of %d instances of %s %s under %s rejected by CompoundTrace: %s" % (
                m["members"], m["program"], m["tags"], m["config"], json.dumps(f.describe())[:700]),
                {"meta": m, "events": f.execution, "detail": f.describe()},
                key=("compound-completes-at-start" if early else None))
    return executions, metas


def run(ctx):
    d = ctx.stage("Context")
    shutil.copy(os.path.join(ctx.spec("PTG"), "JDFSem.tla"), os.path.join(d, "JDFSem.tla"))
    with ptgrun.phase(ctx, "model_checking"):
        scenarios = model_level(ctx, d)
    with ptgrun.phase(ctx, "map_operator_compositions"):
        distinct = compound_compositions(ctx, d, scenarios)
    with ptgrun.phase(ctx, "ptg_compositions"):
        executions, metas = ptg_compositions(ctx, d)
    if not ctx.violations and not ctx.known_hits:
        with ptgrun.phase(ctx, "corruption_selftests"):
            selftests(ctx, d, executions, metas, distinct)
    ctx.assume("members are PTG taskpools (generated programs, map operators); a composition of one taskpool is the "
               "taskpool itself (parsec_compose(NULL, tp))")


def selftests(ctx, d, executions, metas, distinct):
    """Sensitivity of CompoundTrace: an accepted execution with one change must be rejected (else tool error)."""
    def overlap(ex):        # the first body of the second member moved before the last End of the first
        i2 = [i for i, ev in enumerate(ex) if ev.get("e") == "Start" and ev.get("sp") == 1]
        e1 = [i for i, ev in enumerate(ex) if ev.get("e") == "End" and ev.get("sp") == 0]
        if not i2 or not e1:
            return None
        ev = ex.pop(i2[0])
        ex.insert(e1[-1], ev)
        return ex

    def early_done(ex):     # completion callback before the last member
        i = [k for k, ev in enumerate(ex) if ev.get("e") == "TpDone"]
        if not i:
            return None
        ev = ex.pop(i[0])
        ex.insert(2, ev)
        return ex

    def no_done(ex):        # the compound never completed
        return [ev for ev in ex if ev.get("e") != "TpDone"]

    tests = []
    cands = [executions[i] for i, m in enumerate(metas) if m["members"] in (2, 3) and all(g[0] > 0 for g in m["globals"])]
    if cands:
        tests.append((cands[0], overlap, "a body of member 2 before the end of member 1"))
        tests.append((cands[0], early_done, "completion callback before the members ran"))
    cands = [ex for ex in distinct if len(ex[0]["sizes"]) >= 3 and ex[0]["sizes"][0][0] > 0 and ex[0]["sizes"][1][0] == 0
             and ex[0]["sizes"][2][0] > 0]
    if cands:
        tests.append((cands[0], no_done, "a composition with an empty member that never completes"))
    work = []
    for k, (ex, fn, what) in enumerate(tests):
        bad = fn(json.loads(json.dumps(ex)))
        if bad is None:
            continue
        path = os.path.join(ctx.scratch, "selftest-%d.ndjson" % k)
        tracecheck._write(bad, path)
        work.append((path, what, len(bad)))
    with concurrent.futures.ThreadPoolExecutor(max_workers=3) as pool:
        res = list(pool.map(lambda w: tracecheck.validate_file(d, "CompoundTrace", "CompoundTrace.cfg", w[0], timeout=600), work))
    for (path, what, n), (v, r) in zip(work, res):
        ctx.extra["trace_tlc_runs"] = ctx.extra.get("trace_tlc_runs", 0) + 1
        if v.accepted:
            raise tlc.TLCError("sensitivity self-test of CompoundTrace failed (%s): the corrupted execution was accepted" % what)
        ctx.extra.setdefault("corruption_selftests", []).append({"what": what, "events": n, "rejected": True,
                                                                 "reason": v.reason})


def replay(ctx, obj):
    d = ctx.stage("Context")
    shutil.copy(os.path.join(ctx.spec("PTG"), "JDFSem.tla"), os.path.join(d, "JDFSem.tla"))
    for f in ctx.validate(d, "CompoundTrace", "CompoundTrace.cfg", [obj["events"]]):
        ctx.violation("recorded composition still rejected: %s" % json.dumps(f.describe())[:700], obj)
