"""C15  Composed taskpools run strictly one after another.

spec/Context/Compound.tla       the property: tasks of taskpool i only while i is the current one; the compound completes
                                once, after the last one
spec/Context/CompoundImpl.tla   implementation-shaped model of compound.c + parsec_context_add_taskpool + the local
                                termination detector; refines Compound when taskpool_ready() of the compound comes after
                                the startup hook; with the order of scheduling.c (ready first) TLC finds the compound
                                completing before its first member (sensitivity run, see the report)
spec/Context/CompoundTrace.tla  validation of real compositions of 1..20 generated PTG taskpools (the spaces of the
                                members are computed by spec/PTG/JDFSem.tla from the program AST and the members' globals)
"""
import json
import os
import shutil

from harness.ptg import ptgrun
from lib import jdfgen, mcgen, tlc

META = {
    "level": "model_checking",
    "text": "TLC checks that the implementation-shaped model of parsec_compose / compound startup / member completion "
            "callback refines the one-after-another specification for up to 4 members x 2 tasks, and real compositions of "
            "1..20 instances of generated PTG programs (crossing the 16-entry growth of the member array) run under several "
            "schedulers and thread counts; TLC validates each recorded execution: no body of a later member starts before "
            "every instance of the earlier members ended, and the completion callback of the composed taskpool is called "
            "exactly once, after the last instance.",
    "note": "Members are instances of 4 tiny generated programs with different globals (1-8 tasks each). The completion of "
            "the compound is observed through parsec_taskpool_set_complete_callback on the object parsec_compose returns.",
    "technique": "TLA+ refinement (TLC) + real compositions of generated taskpools + trace validation (TLC)",
}


def compose_programs():
    """tiny programs whose tile expressions stay valid for every N <= 4, M <= 2 (ascending ranges only)"""
    J = jdfgen
    out = []
    b = J.Builder(N=4, M=2); J.t_indep(b, "T", ["asc"]); out.append(b)
    b = J.Builder(N=4, M=2); J.t_chain(b, "CH", "asc"); J.t_indep(b, "T", ["asc"], flowkind="new"); out.append(b)
    b = J.Builder(N=3, M=2); J.t_bcast(b, "P", "Q", "asc", "tri_lo", gather="R", raw=True); out.append(b)
    b = J.Builder(N=4, M=2); J.t_pipe(b, "asc"); out.append(b)
    res = []
    for i, b in enumerate(out):
        p = b.build()
        p["name"] = "vc%03d" % i
        nmax = p["globals"]["N"]
        res.append({"prog": p, "tags": sorted(b.tags), "desc": False, "nmax": nmax})
    return res


def member_prog(p, g):
    q = json.loads(json.dumps(p))
    q["globals"] = {"N": g[0], "M": g[1], "K": g[2]}
    return q


def run(ctx):
    # ---- 1. model level
    d = ctx.stage("Context")
    shutil.copy(os.path.join(ctx.spec("PTG"), "JDFSem.tla"), os.path.join(d, "JDFSem.tla"))
    sizes = [(3, [2, 1, 2])] if ctx.quick else [(3, [2, 1, 2]), (4, [2, 2, 1, 2]), (1, [2]), (2, [3, 3])]
    for np_, nt in sizes:
        mod, cfg = mcgen.write_mc(d, "abs%d" % np_, "Compound", {"NP": np_, "NT": nt},
                                  invariants=("OneAfterAnother", "CompletesOnceAfterLast"), deadlock=True)
        ctx.tlc_check(d, mod, cfg, must_cover=("TaskStart", "TaskEnd", "PoolDone", "CompoundDone"), workers=2,
                      jvm=ptgrun.JVM_SHORT)
        mod, cfg = mcgen.write_mc(d, "impl%d" % np_, "CompoundImpl", {"NP": np_, "NT": nt, "ReadyBeforeStartup": False},
                                  invariants=("CompletesOnceAfterLast", "OneAfterAnother", "CompletesAtEnd", "ContextCount"),
                                  deadlock=True)
        ctx.tlc_check(d, mod, cfg, must_cover=("Startup", "TaskStart", "TaskEnd", "MemberDone"), workers=2,
                      jvm=ptgrun.JVM_SHORT)
    # the order of scheduling.c:parsec_context_add_taskpool (taskpool_ready before the startup hook): the model must
    # show the early completion (this is what the real runs below exhibit as long as compound.c is not repaired)
    mod, cfg = mcgen.write_mc(d, "impl_ready_first", "CompoundImpl", {"NP": 2, "NT": [1, 1], "ReadyBeforeStartup": True},
                              invariants=("CompletesOnceAfterLast", "OneAfterAnother"), deadlock=True)
    r = ctx.tlc_check(d, mod, cfg, expect_ok=False, workers=1, jvm=ptgrun.JVM_SHORT)
    if r.violated != "CompletesOnceAfterLast":
        raise tlc.TLCError("sensitivity self-test: ready-before-startup must violate CompletesOnceAfterLast, got %r" % r.violated)
    ctx.exhaustive = True
    # ---- 2. real compositions
    ents = compose_programs()
    exe = ptgrun.build_driver(ctx, [e["prog"] for e in ents], "c15",
                              backends={e["prog"]["name"]: ("dynamic-hash-table" if i % 2 else "index-array")
                                        for i, e in enumerate(ents)})
    lengths = [1, 2, 3, 4, 5, 8, 10, 15, 16, 17, 18, 20] if ctx.quick else list(range(1, 21)) + [16, 17, 32, 33]
    runs = []
    for k, n in enumerate(lengths):
        e = ents[k % len(ents)]
        pools = [(ctx.rng.randint(1, e["nmax"]), ctx.rng.randint(1, 2), 1) for _ in range(n)]
        ntasks = sum(len(jdfgen.Interp(member_prog(e["prog"], g)).order) for g in pools)
        runs.append({"prog": e["prog"], "pools": pools, "maxev": 2 * ntasks + 10, "entry": e})
    cfgs = [{"sched": "lfq", "cores": 4, "conc": 4}, {"sched": "ap", "cores": 1, "conc": 1},
            {"sched": "spq", "cores": 2, "conc": 8}, {"sched": "ll", "cores": 16 if not ctx.quick else 6, "conc": 8},
            {"sched": "gd", "cores": 3, "conc": 2, "noise": 3}, {"sched": "ip", "cores": 4, "conc": 12, "noise": 8}]
    if not ctx.quick:
        cfgs += [{"sched": s, "cores": c, "conc": 4, "noise": i + 1}
                 for i, (s, c) in enumerate([("gd", 3), ("ip", 2), ("rnd", 4), ("pbq", 8), ("ltq", 2), ("lhq", 5), ("llp", 4)])]
    executions, metas = [], []
    import concurrent.futures
    with concurrent.futures.ThreadPoolExecutor(max_workers=4) as pool:
        results = list(pool.map(lambda ci: (ci, ptgrun.run_config(ctx, exe, runs, cfgs[ci], "c15-%d" % ci, window_ms=2000)),
                                range(len(cfgs))))
    def to_execution(r, evs, info):
        ex = [{"e": "Prog", "prog": r["prog"], "pools": [list(g) for g in r["pools"]]}]
        if evs is None:
            ex.append({"e": "Crash", "what": "the process died before this run", "info": info["stderr"][-200:]})
            return ex
        for ev in evs:
            k = ev.get("e")
            if k in ("Start", "End"):
                ex.append({"e": k, "sp": ev["tp"] % 64, "c": ev["c"], "p": ev["p"]})
            elif k == "Run":
                ex.append({"e": "Run"})
            elif k == "TpDone":
                ex.append({"e": "TpDone", "n": ev["n"]})
            elif k == "Final":
                ex.append({"e": "Final"})
            else:
                ex.append({x: y for x, y in ev.items() if x not in ("s", "tp")})
        if not evs or evs[-1].get("e") != "Final":
            ex.append({"e": "Crash", "what": "run did not reach its end", "info": info["stderr"][-200:]})
        return ex

    retry = {}
    for ci, (per, info) in results:
        for ri, (r, evs) in enumerate(zip(runs, per)):
            ex = to_execution(r, evs, info)
            if any(ev.get("e") in ("Timeout", "Runaway") for ev in ex):
                retry.setdefault(ci, []).append(ri)       # re-run once with a 10x window before believing it
            executions.append(ex)
            metas.append({"program": r["prog"]["name"], "tags": r["entry"]["tags"], "members": len(r["pools"]),
                          "globals": [list(g) for g in r["pools"]], "config": cfgs[ci], "_key": (ci, ri)})
    if retry:
        def again_cfg(ci):
            sub = [runs[ri] for ri in retry[ci]]
            return ci, ptgrun.run_config(ctx, exe, sub, cfgs[ci], "c15-%d-again" % ci, window_ms=20000, timeout=600)
        with concurrent.futures.ThreadPoolExecutor(max_workers=4) as pool:
            for ci, (per, info) in pool.map(again_cfg, sorted(retry)):
                for ri, evs in zip(retry[ci], per):
                    ex = to_execution(runs[ri], evs, info)
                    k = [i for i, m in enumerate(metas) if m["_key"] == (ci, ri)][0]
                    if not any(ev.get("e") in ("Timeout", "Runaway") for ev in ex):
                        ctx.extra["timeouts_not_confirmed"] = ctx.extra.get("timeouts_not_confirmed", 0) + 1
                    executions[k] = ex
    for m in metas:
        m.pop("_key")
    ctx.evaluations = len(executions)
    ctx.extra["compositions"] = len(executions)
    ctx.extra["member_counts"] = sorted(set(len(r["pools"]) for r in runs))
    order = sorted(range(len(executions)), key=lambda i: (metas[i]["program"], metas[i]["members"]))
    executions = [executions[i] for i in order]
    metas = [metas[i] for i in order]
    if executions:
        big = max(range(len(executions)), key=lambda i: len(executions[i]))
        ctx.sample({"composition": metas[big], "first_events": executions[big][1:10], "nevents": len(executions[big])})
    # compositions of one taskpool (= the taskpool itself) apart from real compounds: a defect of the compound object
    # then cannot hide the verdict on the others
    for grp, maxf in (([i for i, m in enumerate(metas) if m["members"] == 1], 3),
                      ([i for i, m in enumerate(metas) if m["members"] > 1], 2)):
        fails = ctx.validate(d, "CompoundTrace", "CompoundTrace.cfg", [executions[i] for i in grp], batch=200,
                             timeout=1500, max_failures=maxf)
        for f in fails:
            m = metas[grp[f.index]]
            nxt = f.describe().get("next_event") or {}
            early = nxt.get("e") == "TpDone" and f.describe()["matched_prefix"] <= 2 and m["members"] > 1
            ctx.violation("composition of %d instances of %s %s under %s rejected by CompoundTrace: %s" % (
                m["members"], m["program"], m["tags"], m["config"], json.dumps(f.describe())[:700]),
                {"meta": m, "events": f.execution, "detail": f.describe()},
                key=("compound-completes-at-start" if early else None))
    if not ctx.violations and not ctx.known_hits:
        cands = [executions[i] for i, m in enumerate(metas) if m["members"] in (2, 3)]
        if cands:
            def overlap(ex):        # the first body of the second member moved before the last End of the first
                i2 = [i for i, ev in enumerate(ex) if ev.get("e") == "Start" and ev.get("sp") == 1]
                e1 = [i for i, ev in enumerate(ex) if ev.get("e") == "End" and ev.get("sp") == 0]
                if not i2 or not e1:
                    return None
                ev = ex.pop(i2[0])
                ex.insert(e1[-1], ev)
                return ex

            def early_done(ex):     # completion callback before the last member
                i = [k for k, ev in enumerate(ex) if ev.get("e") == "TpDone"]
                if not i:
                    return None
                ev = ex.pop(i[0])
                ex.insert(2, ev)
                return ex
            ptgrun.corruption_selftest(ctx, d, "CompoundTrace", "CompoundTrace.cfg", cands[0], overlap,
                                       "a body of member 2 before the end of member 1")
            ptgrun.corruption_selftest(ctx, d, "CompoundTrace", "CompoundTrace.cfg", cands[0], early_done,
                                       "completion callback before the members ran")
    ctx.assume("members are PTG taskpools; a composition of one taskpool is the taskpool itself (parsec_compose(NULL, tp))")


def replay(ctx, obj):
    d = ctx.stage("Context")
    shutil.copy(os.path.join(ctx.spec("PTG"), "JDFSem.tla"), os.path.join(d, "JDFSem.tla"))
    for f in ctx.validate(d, "CompoundTrace", "CompoundTrace.cfg", [obj["events"]]):
        ctx.violation("recorded composition still rejected: %s" % json.dumps(f.describe())[:700], obj)
