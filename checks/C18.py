"""C18  Typed PTG flows deliver correctly converted copies.

spec/Reshape/Reshape.tla       documented meaning of [type] / [type_remote] on dependencies (pack / unpack of tile regions)
spec/Reshape/ReshapeExec.tla   abstract machine: conversions and overwrites in any order; TLC: views correct, producer intact
spec/Reshape/ReshapeTrace.tla  validation of recorded executions of the program family harness/reshape/reshapefan.jdf.in

The family: PROD(k) hands one tile to three consumers through dependencies annotated (per compiled variant) with local
and/or remote datatypes in {full, lower, upper}; consumers run on other processes when nodes > 1.  Consumers that are
documented to own a private converted copy overwrite it; all others log their copy twice (start / end of body).
"""
import json
import os
import concurrent.futures as cf

from lib import mcgen, tlc, tracecheck, vbuild

META = {
    "level": "model_checking",
    "text": "TLC checks on the abstract machine that conversions/overwrites in any order keep every consumer's view equal to "
            "the documented pack/unpack of the producer's tile and the producer's data intact; generated variants of a "
            "fan-out PTG program with local/remote dependency datatypes (full, lower, upper; equal or different per successor) "
            "run on 1-3 MPI processes, and every recorded execution is validated by TLC against Reshape.tla (views, "
            "stability of copies, producer data unchanged, run-once, placement, termination).",
    "note": "One program family (one producer flow, three successors), tiles 3x3..5x5 ints, shapes full/lower/upper with "
            "diagonal; annotation combinations sampled from the documented cases with equal shapes on both sides or one side "
            "undeclared, plus the documented lower->upper case; short-message case with several remote shapes (documented "
            "unsupported) excluded by using the rendez-vous path (short limit 0) when two remote shapes go to one process. "
            "Trusted: TLC, Open MPI pack/unpack as used by the runtime, test-owned bodies.",
    "technique": "TLA+ spec of datatype conversion (TLC) + trace validation of generated typed PTG programs on real runs",
}

SH = {-1: "", 0: "DEFAULT", 1: "LOWER_TILE", 2: "UPPER_TILE"}


def ann_text(t, tr):
    parts = []
    if t != -1:
        parts.append("type=%s" % SH[t])
    if tr != -1:
        parts.append("type_remote=%s" % SH[tr])
    return "[" + " ".join(parts) + "]" if parts else ""


def variant_pool(rng, n):
    """Each variant = 3 consumers x (out.type, out.type_remote, in.type, in.type_remote)."""
    def one():
        style = rng.choice(["none", "local_both", "local_in", "local_out", "remote_both", "both_both", "lu"])
        s = rng.choice([1, 2])
        if style == "none":
            return [-1, -1, -1, -1]
        if style == "local_both":
            return [s, -1, s, -1]
        if style == "local_in":
            return [-1, -1, s, -1]
        if style == "local_out":
            return [s, -1, -1, -1]
        if style == "remote_both":
            return [-1, s, -1, s]
        if style == "both_both":
            return [s, s, s, s]
        return [1, -1, 2, -1]          # documented lower -> upper conversion (tests/collections/reshape/local_input_LU_LL)
    fixed = [
        [[-1, -1, -1, -1], [1, -1, 1, -1], [-1, 2, -1, 2]],
        [[1, -1, 1, -1], [1, -1, 1, -1], [1, -1, 1, -1]],
        [[-1, -1, -1, -1], [1, -1, 1, -1], [2, -1, 2, -1]],       # two different local shapes on one flow
        [[1, 1, 1, 1], [2, 2, 2, 2], [-1, -1, -1, -1]],
        [[-1, 1, -1, 1], [-1, 1, -1, 1], [-1, 2, -1, 2]],
        [[-1, -1, 1, -1], [1, -1, 2, -1], [-1, -1, -1, -1]],
        [[1, -1, 1, -1], [1, -1, 2, -1], [-1, -1, -1, -1]],       # same output type, two input types: the X consumer overwrites its copy
    ]
    out = fixed[:n]
    while len(out) < n:
        out.append([one(), one(), one()])
    return out


def ctl_of(vi):
    """Variants 6 (same output type, two input types) and every third random variant order consumer 1 before consumer 2."""
    return vi == 6 or (vi > 6 and vi % 3 == 0)


def signature(a, local):
    return ("L", a[0], a[2]) if local else ("R", a[1], a[3])


def scrib_mask(ann, nodes):
    """Consumer j may overwrite its copy when it is documented to own a private converted copy for EVERY k: its
    conversion signature is a real conversion and no other consumer on the same process shares it."""
    mask = 0
    for j in (1, 2, 3):
        ok = True
        for k in range(nodes):          # producer rank classes
            local = (k % nodes) == ((j - 1) % nodes)
            a = ann[j - 1]
            if local and a[0] == -1 and a[2] == -1:
                ok = False              # no conversion: the producer's own copy
            for j2 in (1, 2, 3):
                if j2 != j and ((j2 - 1) % nodes) == ((j - 1) % nodes):
                    local2 = (k % nodes) == ((j2 - 1) % nodes)
                    if signature(ann[j2 - 1], local2) == signature(a, local):
                        ok = False      # shares the converted / received copy
        if ok:
            mask |= 1 << (j - 1)
    return mask


def build_variant(ctx, vi, ann):
    d = os.path.join(ctx.scratch, "var%d" % vi)
    os.makedirs(d, exist_ok=True)
    t = open(os.path.join(vbuild.VERIF, "harness/reshape/reshapefan.jdf.in")).read()
    for j in (1, 2, 3):
        a = ann[j - 1]
        t = t.replace("@OUT%d@" % j, ann_text(a[0], a[1])).replace("@IN%d@" % j, ann_text(a[2], a[3]))
    # optional control dependency CONS1(k) -> CONS2(k): consumer 2 asks for its copy only once consumer 1 is done
    ctl = ctl_of(vi)
    t = t.replace("@CTL1@", "CTL Y -> Y CONS2(k)" if ctl else "").replace("@CTL2@", "CTL Y <- Y CONS1(k)" if ctl else "")
    jdf = os.path.join(d, "reshapefan.jdf")
    open(jdf, "w").write(t)
    c = vbuild.compile_jdf(jdf, d, "reshapefan")
    return ctx.harness("reshapefan_%s_%d" % (ctx.tier, vi), ["harness/reshape/reshapefan_main.c", c],
                       extra_cflags=["-I" + d, "-I" + os.path.join(vbuild.VERIF, "harness/reshape"), "-Wno-unused-variable", "-DVT_LINE=700"])


def one_run(ctx, exe, idx, ann, nodes, nt, mb, scrib, env, cores):
    pre = os.path.join(ctx.scratch, "rr%d" % idx)
    s = [max(ann[j][0], ann[j][1], ann[j][2], ann[j][3], 0) for j in range(3)]
    # the shape a consumer overwrites = destination shape of its conversion; pass per-consumer dst shape (local==remote here)
    args = [str(nt), str(mb)] + [str(x) for x in s] + [str(scrib), pre, str(cores)]
    cmd = (vbuild.mpirun(nodes) if nodes > 1 else []) + [exe] + args
    rc, out, err = ctx.run_cmd(cmd, timeout=120, env=env)
    if rc != 0:
        rc, out, err = ctx.run_cmd(cmd, timeout=400, env=env)
    evs = []
    for r in range(nodes):
        p = "%s.%d" % (pre, r)
        if os.path.exists(p):
            evs += [{k: v for k, v in e.items() if k != "s"} for e in tracecheck.read_ndjson(p)]
    if rc != 0:
        evs.append({"e": "Timeout" if rc == "timeout" else "Crash", "p": 0, "j": 0, "k": 0, "rc": str(rc), "stderr": err[-300:]})
    cfg = {"nt": nt, "mb": mb, "nodes": nodes, "ann": ann, "scrib": [(scrib >> j) & 1 for j in range(3)]}
    return {"cfg": cfg, "events": evs, "run": {"env": env, "cores": cores, "rc": str(rc)}}


def model_level(ctx, d):
    for i, (mb, anns) in enumerate([(2, [[-1, -1, 1, -1], [1, -1, 1, -1]]), (3, [[1, -1, 2, -1], [-1, 2, -1, 2]])]):
        mod, cfg = mcgen.write_mc(d, "exec%d" % i, "ReshapeExec", {"MB": mb, "Anns": anns, "Local": [True, False], "InPlace": False},
                                  invariants=("ViewsOK", "ProducerIntact"))
        ctx.tlc_check(d, mod, cfg, must_cover=("Convert", "Overwrite"), workers=2)
    mod, cfg = mcgen.write_mc(d, "inplace", "ReshapeExec", {"MB": 3, "Anns": [[1, -1, 2, -1], [-1, -1, -1, -1]],
                                                           "Local": [True, True], "InPlace": True},
                              invariants=("ViewsOK", "ProducerIntact"))
    r = ctx.tlc_check(d, mod, cfg, expect_ok=False, workers=2)
    if r.violated is None:
        raise tlc.TLCError("sensitivity self-test: in-place conversion must violate ProducerIntact/ViewsOK")


def run(ctx):
    d = ctx.stage("Reshape")
    model_level(ctx, d)
    ctx.build()
    rng = ctx.rng
    nvar = 7 if ctx.quick else 24
    variants = variant_pool(rng, nvar)
    with cf.ThreadPoolExecutor(max_workers=4) as ex:
        exes = list(ex.map(lambda iv: build_variant(ctx, iv[0], iv[1]), enumerate(variants)))
    jobs = []
    idx = 0
    for vi, ann in enumerate(variants):
        # one process: sequential executions (1 core) under schedulers that order the three consumers differently, so that a
        # consumer overwriting its private copy runs BEFORE a sibling's conversion in some run; then 2-3 processes
        plan = [(1, 1, "lfq"), (1, 1, "ip"), (1, 1, "ap"), (1, rng.choice([2, 3]), "ll"),
                (2, rng.choice([1, 2, 3]), None),
                (3, rng.choice([1, 2, 3]), None)] + ([] if ctx.quick else [(3, 2, None), (2, 1, "ip")])
        for nodes, cores, sched in plan:
            nt = rng.randint(max(3, nodes), 5)
            mb = rng.choice([3, 4, 5])
            env = {"PARSEC_MCA_runtime_comm_coll_bcast": str(rng.randint(0, 2)),
                   "PARSEC_MCA_runtime_comm_short_limit": "0"}
            if sched:
                env["PARSEC_MCA_mca_sched"] = sched
            jobs.append((exes[vi], idx, ann, nodes, nt, mb, scrib_mask(ann, nodes), env, cores))
            idx += 1
    with cf.ThreadPoolExecutor(max_workers=4) as ex:
        lines = list(ex.map(lambda j: one_run(ctx, *j), jobs))
    ctx.evaluations = len(lines)
    ctx.extra["variants"] = [{"ann": v, "ctl_1_before_2": ctl_of(i)} for i, v in enumerate(variants)]
    ctx.extra["runs"] = len(lines)
    ctx.sample({"cfg": lines[0]["cfg"], "first_events": lines[0]["events"][:3]})
    ctx.sample({"cfg": lines[-1]["cfg"]})
    fails = validate_lines(ctx, lines)
    for f in fails:
        l = lines[f]
        key = None
        ctx.violation("typed-dependency execution not explained by Reshape.tla: cfg=%s (ann = per consumer [out.type, "
                      "out.type_remote, in.type, in.type_remote], -1 undeclared, 1 lower, 2 upper)" % json.dumps(l["cfg"]),
                      {"line": {"cfg": l["cfg"], "events": l["events"]}, "run": l["run"]}, key=key)
    ctx.assume("conversion semantics = CHANGELOG.ptg.md table (pack with source-side type, unpack with destination-side type)")
    ctx.assume("several different remote shapes to one process inside short messages is documented as unsupported: short limit set to 0")


def validate_lines(ctx, lines):
    spec = ctx.spec("Reshape")
    fails = []

    def probe(idx):
        p = os.path.join(ctx.scratch, "rl-%d-%d.ndjson" % (idx[0], len(idx)))
        with open(p, "w") as f:
            for i in idx:
                f.write(json.dumps({"cfg": lines[i]["cfg"], "events": lines[i]["events"]}) + "\n")
        v, r = tracecheck.validate_file(spec, "ReshapeTrace", "ReshapeTrace.cfg", p, timeout=900)
        ctx.states += r.distinct
        ctx.transitions += r.generated
        return v

    def rec(idx):
        if not idx or len(fails) >= 4:
            return
        if probe(idx).accepted:
            return
        if len(idx) == 1:
            if not probe(idx).accepted:
                fails.append(idx[0])
            return
        h = len(idx) // 2
        rec(idx[:h])
        rec(idx[h:])
    for s in range(0, len(lines), 40):
        rec(list(range(s, min(len(lines), s + 40))))
    ctx.traces += len(lines)
    return fails


def replay(ctx, obj):
    for f in validate_lines(ctx, [obj["line"] if "events" in obj["line"] else obj]):
        ctx.violation("recorded execution still rejected", obj)
