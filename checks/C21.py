"""C21  Redistribution copies exactly the requested window.

spec/Dist/Redistribute.tla       the property (After: window of the source lands at the target displacement, the rest of the
                                 target is unchanged) + the 1-D index arithmetic of the two taskpools (path selection of
                                 parsec_redistribute_New, getsize(), source/target tile overlap pieces); TLC proves on a box
                                 that the pieces tile the window exactly once.
spec/Dist/RedistributeTrace.tla  one record per real parsec_redistribute call: gathered target matrix = After, path taken =
                                 the path the wrapper model selects.
harness/redistribute/rd_run.c    real parsec_redistribute on 2D block-cyclic source/target (different tile sizes, grids,
                                 k-cyclicity), 1 process and mpiexec 2 / 4 processes.
"""
import json
import os

from lib import mcgen, tracecheck, vbuild

META = {
    "level": "model_checking",
    "text": "TLC proves on a parameter box that the tile-overlap pieces computed as in redistribute.jdf / "
            "redistribute_reshuffle.jdf (getsize, tile ranges, path selection) cover the requested window exactly once; "
            "the real parsec_redistribute is run on marker-filled block-cyclic matrices (random tile sizes, shapes, "
            "displacements, grids, 1-4 processes, both the general and the reshuffle taskpool), the target is gathered and "
            "TLC checks every element: window elements equal the corresponding source elements, all others are unchanged.",
    "note": "Model box: tile sizes <= 3 (4 thorough), window <= 6 (8), displacements <= 4 (6), plus the 'wide' box (source "
            "tiles 1..2, target tiles 4x or 5x the source tile, window up to 3 target tiles, every target displacement "
            "inside a tile), one dimension (the code uses the same arithmetic for rows and columns; the model includes "
            "where Update places each piece inside the target tile). Real runs: seeded random, matrices <= 24x24 elements, "
            "tile sizes 1..7, plus a class with non-square 1x2 / 2x1 source tiles and target tiles covering 4-5 x 3-5 "
            "source tiles (matrices <= 30x30), 2D block-cyclic source and target (SBC/tabular distributions not "
            "exercised), 1/2/4 processes, quick 43 calls, thorough ~470. Trusted: TLC, the MPI_Reduce gather of the target matrix.",
    "technique": "TLA+ function-style spec (TLC box on the index arithmetic) + real runs validated element by element",
}


def scn_line(s):
    return " ".join("%s=%s" % (k, v) for k, v in s.items())


def gen(rng, grids, maxb, reshuffle):
    (PY, QY), (PT, QT) = rng.choice(grids), rng.choice(grids)
    mbY, nbY = rng.randint(1, maxb), rng.randint(1, maxb)
    if reshuffle == "near":
        mbY, nbY = max(2, mbY), max(2, nbY)
    if reshuffle:
        mbT, nbT = mbY, nbY
    else:
        mbT, nbT = rng.randint(1, maxb), rng.randint(1, maxb)
    mtY, ntY = rng.randint(1, max(1, 24 // mbY)), rng.randint(1, max(1, 24 // nbY))
    mtT, ntT = rng.randint(1, max(1, 24 // mbT)), rng.randint(1, max(1, 24 // nbT))
    mtY, ntY, mtT, ntT = min(mtY, 8), min(ntY, 8), min(mtT, 8), min(ntT, 8)
    LMY, LNY, LMT, LNT = mtY * mbY, ntY * nbY, mtT * mbT, ntT * nbT
    sr, sc = rng.randint(1, min(LMY, LMT)), rng.randint(1, min(LNY, LNT))
    if reshuffle:
        diY = rng.randrange(0, LMY - sr + 1, mbY) if LMY - sr >= 0 else 0
        djY = rng.randrange(0, LNY - sc + 1, nbY)
        diT = rng.randrange(0, LMT - sr + 1, mbT)
        djT = rng.randrange(0, LNT - sc + 1, nbT)
    else:
        diY, djY = rng.randint(0, LMY - sr), rng.randint(0, LNY - sc)
        diT, djT = rng.randint(0, LMT - sr), rng.randint(0, LNT - sc)
    if reshuffle == "near":
        # equal tile sizes, exactly one displacement off the tile grid: must take the general taskpool
        which = rng.choice(["diY", "djY", "diT", "djT"])
        if which == "diY" and mbY > 1 and diY + sr < LMY:
            diY += rng.randint(1, min(mbY - 1, LMY - sr - diY))
        elif which == "djY" and nbY > 1 and djY + sc < LNY:
            djY += rng.randint(1, min(nbY - 1, LNY - sc - djY))
        elif which == "diT" and mbT > 1 and diT + sr < LMT:
            diT += rng.randint(1, min(mbT - 1, LMT - sr - diT))
        elif which == "djT" and nbT > 1 and djT + sc < LNT:
            djT += rng.randint(1, min(nbT - 1, LNT - sc - djT))
    return {"mbY": mbY, "nbY": nbY, "mtY": mtY, "ntY": ntY, "PY": PY, "QY": QY, "kpY": rng.randint(1, 2), "kqY": rng.randint(1, 2),
            "mbT": mbT, "nbT": nbT, "mtT": mtT, "ntT": ntT, "PT": PT, "QT": QT, "kpT": rng.randint(1, 2), "kqT": rng.randint(1, 2),
            "sr": sr, "sc": sc, "diY": diY, "djY": djY, "diT": diT, "djT": djT}


def gen_wide(rng, grids):
    """Small NON-SQUARE source tiles gathered by big target tiles: a target tile covers >= 4 source tile rows and >= 3
    source tile columns (so Update has north / west / >= 2x1 inner / east / south pieces and the second inner row and
    column are placed with a non-zero multiple of the source tile size); the window spans >= 2 target tiles in each
    dimension.  General taskpool by construction (tile sizes differ)."""
    (PY, QY), (PT, QT) = rng.choice(grids), rng.choice(grids)
    mbY, nbY = rng.choice([(1, 2), (2, 1)])
    rr, rc = rng.choice([(4, 3), (4, 4), (5, 3), (4, 5), (5, 4)])
    mbT, nbT = mbY * rr, nbY * rc
    mtT, ntT = rng.randint(2, 3), rng.randint(2, 3)
    LMT, LNT = mtT * mbT, ntT * nbT
    sr, sc = rng.randint(2 * mbT, LMT), rng.randint(2 * nbT, LNT)
    # the source is at least as large as the window, plus a margin so that the window can sit anywhere
    mtY = (sr + rng.randint(0, 3) + mbY - 1) // mbY
    ntY = (sc + rng.randint(0, 3) + nbY - 1) // nbY
    LMY, LNY = mtY * mbY, ntY * nbY
    if rng.random() < 0.4:      # everything aligned at the origin (the plainest "gather" shape)
        diY = djY = diT = djT = 0
    else:
        diY, djY = rng.randint(0, LMY - sr), rng.randint(0, LNY - sc)
        diT, djT = rng.randint(0, LMT - sr), rng.randint(0, LNT - sc)
    return {"mbY": mbY, "nbY": nbY, "mtY": mtY, "ntY": ntY, "PY": PY, "QY": QY, "kpY": rng.randint(1, 2), "kqY": rng.randint(1, 2),
            "mbT": mbT, "nbT": nbT, "mtT": mtT, "ntT": ntT, "PT": PT, "QT": QT, "kpT": rng.randint(1, 2), "kqT": rng.randint(1, 2),
            "sr": sr, "sc": sc, "diY": diY, "djY": djY, "diT": diT, "djT": djT}


def run_group(ctx, exe, scns, nranks, cores, tag, timeout=600):
    sp = os.path.join(ctx.scratch, "rd-%s.txt" % tag)
    with open(sp, "w") as f:
        for s in scns:
            f.write(scn_line(s) + "\n")
    tr = os.path.join(ctx.scratch, "rd-%s.ndjson" % tag)
    cmd = ([] if nranks == 1 else vbuild.mpirun(nranks)) + [exe, sp, tr, str(cores)]
    rc, out, err = ctx.run_cmd(cmd, timeout=timeout)
    exs = tracecheck.split_executions(tracecheck.read_ndjson(tr)) if os.path.exists(tr) else []
    res = []
    for ex in exs:
        call = [e for e in ex if e.get("e") == "call"]
        rest = [e for e in ex if e.get("e") != "call"]
        if not rest:        # the call was announced and never returned: the process group died or hung in it
            rest = [{"e": "Timeout" if rc == "timeout" else "Crash", "rc": str(rc), "call": call[0]["scn"] if call else "",
                     "ranks": nranks, "stderr": err[-300:]}]
        res.append(rest)
    return res


def run(ctx):
    d = ctx.stage("Dist")
    exe = ctx.harness("rd_run", ["harness/redistribute/rd_run.c"])
    rng = ctx.rng
    box = {"MaxB": 3, "MaxSize": 6, "MaxDis": 4} if ctx.quick else {"MaxB": 4, "MaxSize": 8, "MaxDis": 6}
    mod, cfg = mcgen.write_mc(d, "rdbox", "Redistribute", box,
                              invariants=("PiecesPartitionWindow", "GetsizeIsOverlap", "ReshuffleWholeTiles",
                                          "PlacementIsExact"))
    ctx.tlc_check(d, mod, cfg, must_cover=("NewGeneral", "NewReshuffle", "NewGeneralWide"), workers=2, timeout=1500)
    ctx.exhaustive = True
    n = 12 if ctx.quick else 130
    maxb = 5 if ctx.quick else 7
    groups = [("r1", 1, 2, [(1, 1)]), ("r2", 2, 2, [(2, 1), (1, 2)]), ("r4", 4, 1, [(2, 2), (4, 1), (1, 4)])]
    nwide = {"r1": 4, "r2": 3} if ctx.quick else {"r1": 30, "r2": 30, "r4": 20}
    exs = []
    for tag, nr, cores, grids in groups:
        scns = [gen(rng, grids, maxb, True if k % 5 in (1, 3) else ("near" if k % 5 in (2, 4) else False)) for k in range(n)]
        wide = [gen_wide(rng, grids) for _ in range(nwide.get(tag, 0))]
        got = run_group(ctx, exe, scns + wide, nr, cores, tag)
        exs.extend(got)
        ctx.extra["calls_" + tag] = len(got)
        ctx.extra["wide_calls_" + tag] = len(wide)
    ctx.evaluations = len(exs)
    paths = [e[0].get("path") for e in exs if e and e[0].get("e") == "redist"]
    ctx.extra["general_path_calls"] = paths.count("general")
    ctx.extra["reshuffle_path_calls"] = paths.count("reshuffle")
    if not paths.count("general") or not paths.count("reshuffle"):
        raise RuntimeError("scenario generator did not exercise both taskpools: %s" % paths)
    if exs:
        small = min((e for e in exs if e[0].get("e") == "redist"), key=lambda e: len(json.dumps(e)))
        ctx.sample({"record": small[0]})
        multi = [e for e in exs if e[0].get("ranks", 1) > 1 and e[0].get("path") == "reshuffle"]
        if multi:
            ctx.sample({"record": {k: v for k, v in multi[0][0].items() if k != "T"}})
    for f in ctx.validate("Dist", "RedistributeTrace", "RedistributeTrace.cfg", exs, batch=60, timeout=1500):
        ctx.violation("parsec_redistribute result differs from the specified copy (window wrong / outside modified / "
                      "call failed): %s" % json.dumps(f.describe())[:1800], {"events": f.execution, "detail": f.describe()})
    ctx.assume("matrix sizes are multiples of the tile sizes (no padded border tiles); values are exactly representable "
               "doubles")


def replay(ctx, obj):
    for f in ctx.validate("Dist", "RedistributeTrace", "RedistributeTrace.cfg", [obj["events"]]):
        ctx.violation("recorded trace still rejected: %s" % json.dumps(f.describe())[:1000], obj)
