"""C05  Distributed PTG results do not depend on process count or message path.

spec/PTGDist/DistFan.tla       semantics of the program family harness/ptgdist/distfan.jdf (graph, values, placement)
spec/PTGDist/DistFanExec.tla   abstract execution machine; TLC: every order of execution computes the same values
spec/PTGDist/DistFanTrace.tla  trace validation with one cursor per process

The real runtime executes the family on 1..4 MPI processes x 3 broadcast topologies x short-message limit {0, default}
x tile sizes straddling the limit x placements x thread counts x schedulers; test-owned task bodies log what they read
and wrote; every execution is validated against the same specification: each task ran once, on the process its
placement names, after its (local or remote) predecessors, and read exactly the values the graph determines; the
final collection contents are the writers' outputs; every process terminated (logged Done).
"""
import json
import os
import concurrent.futures as cf

from lib import mcgen, tlc, tracecheck, vbuild

META = {
    "level": "model_checking",
    "text": "TLC proves on the abstract machine that the values of the program family are independent of the execution "
            "order (hence of process count, placement, topology); the real runtime is run over a matrix of process counts "
            "(1-4), broadcast topologies (star/chain/binomial), short-message limits, tile sizes, placements, schedulers, and "
            "every recorded per-process trace is validated by TLC against the same specification (values read, run-once, "
            "placement, causal order, final contents, termination of every process).",
    "note": "One parameterised program family (broadcast fan-out, strided second producer, two-input gather, cross-process "
            "pipeline; P has two output flows with IDENTICAL remote destination sets = two payloads per activation; two flows "
            "with DIFFERENT remote destination sets is the known finding of C13 and is explored there); sizes np<=4, w1<=4; sampled configurations, "
            "seeded. Trusted: TLC, Open MPI, the test-owned bodies and per-process stamp order.",
    "technique": "TLA+ confluence check (TLC) + trace validation of real multi-process runs with per-process cursors",
}

SCHEDS = ["lfq", "ap", "ll", "gd", "spq", "ltq", "pbq", "lhq", "ip", "llp", "rnd"]


def one_run(ctx, exe, i, cfg, env, cores):
    pre = os.path.join(ctx.scratch, "run%d" % i)
    args = [str(cfg["np"]), str(cfg["w1"]), str(cfg["nq"]), "1", str(cfg["s"]), str(cfg["ts"]), str(cfg["pmul"]),
            str(cfg["poff"]), pre, str(cores)]
    cmd = (vbuild.mpirun(cfg["nodes"]) if cfg["nodes"] > 1 else []) + [exe] + args
    rc, out, err = ctx.run_cmd(cmd, timeout=120, env=env)
    if rc != 0:
        # confirm a hang / crash once with a longer deadline before believing it
        rc, out, err = ctx.run_cmd(cmd, timeout=400, env=env)
    ranks = []
    for r in range(cfg["nodes"]):
        p = "%s.%d" % (pre, r)
        evs = tracecheck.read_ndjson(p) if os.path.exists(p) else []
        ranks.append([{k: v for k, v in e.items() if k != "s"} for e in evs])
    if rc != 0:
        ranks[0].append({"e": "Timeout" if rc == "timeout" else "Crash", "p": 0, "rc": str(rc), "stderr": err[-300:]})
    g = {k: cfg[k] for k in ("np", "w1", "nq", "s", "nodes", "pmul", "poff")}
    return {"cfg": g, "ranks": ranks, "run": {"ts": cfg["ts"], "env": env, "cores": cores, "rc": str(rc)}}


def run(ctx):
    d = ctx.stage("PTGDist")
    # ---- model level: order independence of the values, exhaustively for small configurations
    small = [{"np": 1, "w1": 2, "nq": 1, "s": 2, "nodes": 2, "pmul": 1, "poff": 0},
             {"np": 2, "w1": 1, "nq": 1, "s": 1, "nodes": 3, "pmul": 1, "poff": 1}]
    if not ctx.quick:
        small.append({"np": 2, "w1": 2, "nq": 2, "s": 2, "nodes": 3, "pmul": 2, "poff": 0})
    for i, g in enumerate(small):
        mod, cfg = mcgen.write_mc(d, "exec%d" % i, "DistFanExec", {"Cfg": g}, invariants=("Deterministic", "OrderOK"))
        ctx.tlc_check(d, mod, cfg, must_cover=("Start", "End"), workers=4)
    # ---- real runs
    ctx.build()
    gen = os.path.join(ctx.scratch, "gen")
    os.makedirs(gen, exist_ok=True)
    c = vbuild.compile_jdf(os.path.join(vbuild.VERIF, "harness/ptgdist/distfan.jdf"), gen, "distfan")
    exe = ctx.harness("distfan", ["harness/ptgdist/distfan_main.c", c],
                      extra_cflags=["-I" + gen, "-I" + os.path.join(vbuild.VERIF, "harness/ptgdist"), "-Wno-unused-variable"])
    rng = ctx.rng
    nruns = 20 if ctx.quick else 160
    jobs = []
    for i in range(nruns):
        nodes = [1, 2, 3, 4, 3, 4, 2][i % 7]
        cfg = {"np": rng.randint(1, 4), "w1": rng.randint(1, 4), "nq": rng.randint(1, 3), "s": rng.randint(1, 3),
               "nodes": nodes, "pmul": rng.choice([1, 1, 2, 3, 5]), "poff": rng.randint(0, 3),
               "ts": rng.choice([1, 4, 200, 300, 4000])}
        env = {"PARSEC_MCA_runtime_comm_coll_bcast": str(i % 3),
               "PARSEC_MCA_mca_sched": rng.choice(SCHEDS)}
        if rng.random() < 0.4:
            env["PARSEC_MCA_runtime_comm_short_limit"] = "0"
        jobs.append((i, cfg, env, rng.choice([1, 2, 3])))
    lines = []
    with cf.ThreadPoolExecutor(max_workers=4) as ex:
        for res in ex.map(lambda j: one_run(ctx, exe, *j), jobs):
            lines.append(res)
    ctx.evaluations = len(lines)
    ctx.extra["runs"] = len(lines)
    ctx.extra["by_nodes"] = {str(n): sum(1 for l in lines if l["cfg"]["nodes"] == n) for n in (1, 2, 3, 4)}
    ctx.extra["tasks_executed"] = sum(sum(1 for e in r if e.get("e") == "End") for l in lines for r in l["ranks"])
    ctx.sample({"cfg": lines[0]["cfg"], "run": lines[0]["run"], "rank0_first_events": lines[0]["ranks"][0][:4]})
    ctx.sample({"cfg": lines[-1]["cfg"], "run": lines[-1]["run"]})
    # each execution is one line of the trace file; tracecheck treats a one-event "execution" = one line
    execs = [[{"cfg": l["cfg"], "ranks": l["ranks"]}] for l in lines]
    fails = validate_lines(ctx, execs)
    for f in fails:
        l = lines[f.index]
        ctx.violation("distributed execution not explained by DistFan.tla (cfg=%s run=%s): process logs cannot be completed; "
                      "see replay for the per-process traces" % (json.dumps(l["cfg"]), json.dumps(l["run"])),
                      {"line": {"cfg": l["cfg"], "ranks": l["ranks"]}, "run": l["run"]})
    ctx.assume("per-process event order = stamp order of one atomic counter per process; no cross-process clock is used")
    ctx.assume("output flows of one task have identical remote destination sets (different sets: see the C13 known finding)")


def validate_lines(ctx, execs):
    """Executions here are single lines (one json object = one whole multi-process execution); no Reset lines are
    used: the trace spec moves to the next line itself.  Bisection over lines finds the failing ones."""
    from lib.tracecheck import Failure
    spec = ctx.spec("PTGDist")
    fails = []

    def probe(idx):
        p = os.path.join(ctx.scratch, "lines-%d-%d.ndjson" % (idx[0], len(idx)))
        with open(p, "w") as f:
            for i in idx:
                f.write(json.dumps(execs[i][0]) + "\n")
        v, r = tracecheck.validate_file(spec, "DistFanTrace", "DistFanTrace.cfg", p, timeout=900)
        ctx.states += r.distinct
        ctx.transitions += r.generated
        return v

    def rec(idx):
        if not idx or len(fails) >= 3:
            return
        v = probe(idx)
        if v.accepted:
            return
        if len(idx) == 1:
            if probe(idx).accepted:       # must repeat
                return
            fails.append(Failure(idx[0], execs[idx[0]], 0, v.reason))
            return
        h = len(idx) // 2
        rec(idx[:h])
        rec(idx[h:])
    n = len(execs)
    for s in range(0, n, 40):
        rec(list(range(s, min(n, s + 40))))
    ctx.traces += n
    return fails


def replay(ctx, obj):
    fails = validate_lines(ctx, [[obj["line"]]])
    for f in fails:
        ctx.violation("recorded distributed execution still rejected", obj)
