"""C09  Priority schedulers (ap, ip, spq) honour task priorities - sequential use.

spec/Sched/Priority.tla       property (pend, Allowed) + transcription of the C code (q: chain_sorted with its `pos`
                              shortcut, pop_front / pop_back, spq's per-distance lists); hist = operation sequence
spec/Sched/PriorityTrace.tla  validates the operations executed on the real module: every select returns a task of
                              Allowed(pend), NULL exactly when nothing is pending

1. TLC: for the three modules (chosen in Init), breadth-first over EVERY sequence of schedule(ring, distance)/select
   operations up to a bound; invariant ImplRefines proves the transcription of the code selects an allowed task in every reachable state
   (for ip: the variant that ignores the distance, which is what the property requires and what the code does since
   the repair of sched_ip_schedule; the variant that appends re-scheduled rings at the back - the code before that
   repair - must violate it: sensitivity + model-level
   reproduction of the ip re-schedule defect, key ip-resched-chain-back).
2. every such sequence (+ TLC -simulate long walks with wider priorities / longer rings) is replayed through the real
   module's schedule/select (harness/sched/sched_drive.c, PARSEC_MCA_mca_sched=<m>, one stream), then the scheduler is
   drained; the recorded results are validated by TLC against PriorityTrace (Level "prop" = verdict; Level "code" =
   conformance with the transcription, counted as divergences only).
"""
import json
import os

from lib import mcgen, tlc, tracecheck

META = {
    "level": "model_checking",
    "text": "TLC enumerates every sequence of schedule(ring, distance)/select operations of Priority.tla up to a bound and "
            "proves that the transcription of chain_sorted / pop / spq's per-distance lists always selects a task the "
            "property allows; every sequence (and long simulated walks) is replayed on the real ap, ip and spq modules "
            "through their schedule/select entry points and every returned task is validated by TLC against the "
            "property (highest first with ties in scheduling order for ap and, per smallest pending distance, for spq; "
            "lowest first for ip; NULL only when nothing is pending).",
    "note": "Exhaustive for all sequences of <= 4 (quick) / 5 (thorough) operations, <= 3 / 4 tasks, rings <= 2, priorities "
            "{0,1,2}, distances {0,1} (ap, ip) / {0,1,2} (spq), each followed by a complete drain (so the full selection "
            "order of every pending set is observed); thorough adds the refinement proof on the state graph with 5 tasks "
            "and rings <= 3; simulated walks of 30-60 operations with priorities -2..3, rings <= 3, distances 0..3 beyond "
            "that. One stream, no concurrency (as the property states). Trusted: TLC, the harness' id bookkeeping.",
    "technique": "TLA+ refinement (TLC BFS over all op sequences) + replay on the real scheduler modules + trace validation (TLC)",
}

MODES = ("ap", "ip", "spq")
KEY_IP = "ip-resched-chain-back"


def consts(modes, prios, dists, maxring, maxtasks, maxlen, keephist=True, ipback=False):
    return {"Modes": set(modes), "Prios": set(prios), "Dists": set(dists), "MaxRing": maxring, "MaxTasks": maxtasks,
            "MaxLen": maxlen, "IpChainBack": ipback, "KeepHist": keephist}


def to_line(h):
    out = []
    for o in h["ops"]:
        if o["op"] == "S":
            out.append("S 0 %d %s" % (o["d"], ",".join(str(p) for p in o["ps"])))
        else:
            out.append("X 0")
    return ";".join(out)


def trace_cfg(d, level, ipback):
    c = consts(MODES, {0}, {0}, 1, 0, 0, keephist=False, ipback=ipback)
    c["Level"] = level
    return mcgen.write_mc(d, "tr_%s_%d" % (level, int(ipback)), "PriorityTrace", c, spec="TSpec",
                          invariants=("AcceptExit",))


def run_harness(ctx, exe, mode, lines, tag):
    """Replays the behaviours on the real module `mode`; returns one event list per behaviour (first event = Mode)."""
    hp = os.path.join(ctx.scratch, "beh_%s_%s.txt" % (mode, tag))
    with open(hp, "w") as f:
        for l in lines:
            f.write(l + "\n")
    tr = os.path.join(ctx.scratch, "trace_%s_%s.ndjson" % (mode, tag))
    rc, out, err = ctx.run_cmd([exe, "seq", "1", hp, tr], timeout=600, env={"PARSEC_MCA_mca_sched": mode})
    if rc == 0 and ("scheduler %s " % mode) not in err:
        raise tlc.TLCError("harness did not install scheduler %s: %s" % (mode, err[-300:]))
    exs = tracecheck.split_executions(tracecheck.read_ndjson(tr)) if os.path.exists(tr) else []
    if rc != 0:
        # the harness died inside the real code: the behaviour it was executing is the failing one
        if not exs:
            exs.append([])
        k = len(exs) - 1
        exs[-1].append({"e": "Crash", "rc": str(rc), "behaviour": lines[k] if k < len(lines) else "", "stderr": err[-300:]})
    return [[{"e": "Mode", "m": mode}] + e for e in exs]


def quick_verdict(ctx, d, mod, cfg, executions):
    """One TLC run over a batch, no search for the culprit: (accepted, first execution numbers collected by Level
    "report", number of executions it reported)."""
    p = os.path.join(ctx.scratch, "q-%s.ndjson" % mod)
    evs = []
    for k, e in enumerate(executions):
        if k:
            evs.append(tracecheck.RESET)
        evs.extend(e)
    tracecheck._write(evs, p)
    v, r = tracecheck.validate_file(d, mod, cfg, p, timeout=900)
    ctx.states += r.distinct
    ctx.transitions += r.generated
    ctx.extra["trace_tlc_runs"] = ctx.extra.get("trace_tlc_runs", 0) + 1
    rej, nrej = set(), 0
    for l in v.out.splitlines():
        if l.startswith('"VERIF-REJECTS '):
            o = json.loads(l[len('"VERIF-REJECTS '):-1].replace('\\"', '"'))
            rej, nrej = set(o["first"]), o["n"]
    os.unlink(p)
    return v.accepted, rej, nrej


def run(ctx):
    d = ctx.stage("Sched")
    exe = ctx.harness("sched_drive", ["harness/sched/sched_drive.c"])
    q = ctx.quick
    # ---- 1. every operation sequence up to the bound; the transcription refines the property -----------------
    mt, ml, mr = (3, 4, 2) if q else (4, 5, 2)
    mod, cfg = mcgen.write_mc(d, "bfs", "Priority", consts(MODES, {0, 1, 2}, {0, 1, 2}, mr, mt, ml),
                              invariants=("TypeOK", "ImplRefines", "ImplHolds", "Deterministic", "Emit"))
    r = ctx.tlc_check(d, mod, cfg, must_cover=("Schedule", "Select"), workers=4, timeout=2400)
    hs = [h for h in (tlc._parse_tla_string_list(l) for l in r.printed) if h]
    n_bfs = len(hs)
    if not hs:
        raise tlc.TLCError("no behaviour printed by %s" % mod)
    if not q:
        # larger state graph without the history variable (refinement only): 5 tasks, rings <= 3
        mod, cfg = mcgen.write_mc(d, "graph", "Priority", consts(MODES, {0, 1, 2}, {0, 1, 2}, 3, 5, 0, keephist=False),
                                  invariants=("TypeOK", "ImplRefines", "ImplHolds", "Deterministic"))
        ctx.tlc_check(d, mod, cfg, must_cover=("Schedule", "Select"), workers=4, timeout=2400)
    # long random walks
    depth, num = (30, 200) if q else (60, 3000)
    mod, cfg = mcgen.write_mc(d, "sim", "Priority", consts(MODES, {-2, 0, 1, 3}, {0, 1, 2, 3}, 3, 3 * depth, depth),
                              spec="SimSpec", invariants=("ImplHolds", "Emit"))
    hs += ctx.tlc_histories(d, mod, cfg, num, depth + 1, workers=4, timeout=1200)
    # sensitivity of the model + model-level reproduction of the ip re-schedule defect: ip appending re-scheduled rings at the back
    mod, cfg = mcgen.write_mc(d, "ipback", "Priority", consts({"ip"}, {0, 1, 2}, {0, 1}, 2, 3, 0, keephist=False, ipback=True),
                              invariants=("TypeOK", "ImplRefines"))
    r = ctx.tlc_check(d, mod, cfg, expect_ok=False, workers=2)
    if r.violated != "ImplRefines":
        raise tlc.TLCError("sensitivity self-test: ip with chain_back on distance > 0 must violate ImplRefines, got %r" % r.violated)
    ctx.exhaustive = True
    ctx.extra["behaviours_bfs"] = n_bfs
    ctx.extra["behaviours_simulated"] = len(hs) - n_bfs

    # ---- 2. replay on the real modules ---------------------------------------------------------------------------
    main, resched = [], []          # (line, mode, events); ip behaviours that re-schedule (distance > 0) apart: the ip re-schedule defect
    for mode in MODES:
        mine = [h for h in hs if h["m"] == mode]
        lines = [to_line(h) for h in mine]
        exs = run_harness(ctx, exe, mode, lines, "all")
        if mode == "spq":
            # The per-distance lists of spq persist (empty) once created, so in one process only the first behaviours
            # exercise the creation of a list while lists for other distances exist.  Replay, for every ORDER in which
            # distances are first used, some behaviours in a fresh process (fresh scheduler object = the model's q = <<>>).
            groups = {}
            for h, l in zip(mine, lines):
                order = []
                for o in h["ops"]:
                    if o["op"] == "S" and o["d"] not in order:
                        order.append(o["d"])
                if len(order) >= 2 and order != sorted(order):
                    groups.setdefault(tuple(order), []).append((h, l))
            extra_h, extra_l, extra_e = [], [], []
            for gi, (order, hl) in enumerate(sorted(groups.items())):
                # inside one process every behaviour after the first sees the lists already created: order the group so
                # that the longest behaviours come first and run a few single-behaviour processes
                hl = sorted(hl, key=lambda x: -len(x[1]))[: (1 if q else 4)]
                for bi, (h, l) in enumerate(hl):
                    e1 = run_harness(ctx, exe, mode, [l], "fresh%d_%d" % (gi, bi))
                    if len(e1) == 1:
                        extra_h.append(h); extra_l.append(l); extra_e.append(e1[0])
            ctx.extra["spq_fresh_process_runs"] = len(extra_l)
            ctx.extra["spq_distance_creation_orders"] = [list(o) for o in sorted(groups)]
            mine = mine + extra_h
            lines = lines + extra_l
            exs = exs + extra_e
        if len(exs) != len(lines):
            raise tlc.TLCError("harness produced %d executions for %d behaviours (%s)" % (len(exs), len(lines), mode))
        for h, l, e in zip(mine, lines, exs):
            apart = mode == "ip" and any(o["op"] == "S" and o["d"] > 0 for o in h["ops"])
            (resched if apart else main).append((l, mode, e))
        ctx.sample({"module": mode, "behaviour": lines[0], "events": exs[0]})
    ctx.evaluations = len(main) + len(resched)
    ctx.extra["ip_behaviours_with_distance"] = len(resched)

    # ---- 3. trace validation -----------------------------------------------------------------------------------
    def report(group, known):
        tmod, tcfg = trace_cfg(d, "prop", False)
        fails = ctx.validate(d, tmod, tcfg, [e for _, _, e in group], batch=100000, timeout=1200)
        for f in fails:
            l, mode, _ = group[f.index]
            what = ("%s: select did not return a task the property allows, behaviour `%s`: %s"
                    % (mode, l[:300], json.dumps(f.describe())[:600]))
            if ctx.violation(what, {"module": mode, "behaviour": l, "events": f.execution, "detail": f.describe()},
                             key=KEY_IP if known else None) is False:
                ctx.sample({"known_finding": KEY_IP, "behaviour": l[:200], "detail": f.describe()}, limit=6)

    # (a) everything except ip-with-distance: verdict + conformance with the transcription
    report(main, False)
    tmod, tcfg = trace_cfg(d, "code", True)
    ok, _, _ = quick_verdict(ctx, d, tmod, tcfg, [e for _, _, e in main])
    if not ok:
        ctx.divergences += 1
        ctx.sample({"divergence": "some ap/spq/ip(distance 0) execution differs from the transcription of the code"}, limit=6)
    ctx.traces = len(main)
    # (b) ip behaviours that re-schedule with a distance > 0
    if resched:
        gex = [e for _, _, e in resched]
        variant = None
        for ipback in (True, False):
            tmod, tcfg = trace_cfg(d, "code", ipback)
            ok, _, _ = quick_verdict(ctx, d, tmod, tcfg, gex)
            if ok:
                variant = "chain_back" if ipback else "sorted"
                break
        ctx.extra["ip_code_variant"] = variant
        if variant is None:
            ctx.divergences += 1
            ctx.sample({"divergence": "ip executions with distance > 0 match neither transcription"}, limit=6)
        tmod, tcfg = trace_cfg(d, "report", False)
        ok, rej, nrej = quick_verdict(ctx, d, tmod, tcfg, gex)
        ctx.traces += len(gex)
        ctx.extra["ip_distance_executions_rejected"] = nrej if ok else "validation stopped"
        if not ok:
            report(resched, False)             # something else than a disallowed select: full search
        elif rej:
            # Every execution of this group behaves exactly as the transcription with chain_back (variant), whose
            # only difference to the refining variant is the treatment of distance > 0: these rejections are that defect.
            # The first two are validated alone (verdict + longest explainable prefix); when the group does not
            # follow that transcription every rejected execution is examined.
            known = variant == "chain_back"
            pick = sorted(rej)[:2] if known else sorted(rej)[:10]
            report([resched[i - 1] for i in pick], known)
    ctx.assume("one execution stream, no concurrent scheduler activity (as the property states)")
    ctx.assume("spq: 'highest priority first' is read per smallest pending distance (the statement's distance clause)")


def replay(ctx, obj):
    d = ctx.stage("Sched")
    exe = ctx.harness("sched_drive", ["harness/sched/sched_drive.c"])
    mode = obj["module"]
    exs = run_harness(ctx, exe, mode, [obj["behaviour"]], "replay")
    tmod, tcfg = trace_cfg(d, "prop", False)
    for f in ctx.validate(d, tmod, tcfg, exs):
        ctx.violation("behaviour still rejected on the current tree: %s" % json.dumps(f.describe())[:800],
                      {"module": mode, "behaviour": obj["behaviour"], "events": f.execution})
