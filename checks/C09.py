"""C09  Priority schedulers (ap, ip, spq) honour task priorities - sequential use.

spec/Sched/Priority.tla       property (pend, Allowed) + transcription of the C code (q: chain_sorted with its `pos`
                              shortcut, pop_front / pop_back, spq's per-distance lists); hist = operation sequence
spec/Sched/PriorityTrace.tla  validates the operations executed on the real module: every select returns a task of
                              Allowed(pend), NULL exactly when nothing is pending

1. TLC: for each module, breadth-first over EVERY sequence of schedule(ring, distance)/select operations up to a
   bound; invariant ImplRefines proves the transcription of the code selects an allowed task in every reachable state
   (for ip: the variant that ignores the distance, which is what the property requires; the variant that appends
   re-scheduled rings at the back - the code of the pinned commit - must violate it: sensitivity + model-level
   reproduction of defect D9).
2. every such sequence (+ TLC -simulate long walks with wider priorities / longer rings) is replayed through the real
   module's schedule/select (harness/sched/sched_drive.c, PARSEC_MCA_mca_sched=<m>, one stream), then the scheduler is
   drained; the recorded results are validated by TLC against PriorityTrace (Level "prop" = verdict; Level "code" =
   conformance with the transcription, counted as divergences only).
"""
import json
import os

from lib import mcgen, tlc, tracecheck

META = {
    "level": "model_checking",
    "text": "TLC enumerates every sequence of schedule(ring, distance)/select operations of Priority.tla up to a bound and "
            "proves that the transcription of chain_sorted / pop / spq's per-distance lists always selects a task the "
            "property allows; every sequence (and long simulated walks) is replayed on the real ap, ip and spq modules "
            "through their schedule/select entry points and every returned task is validated by TLC against the "
            "property (highest first with ties in scheduling order for ap and, per smallest pending distance, for spq; "
            "lowest first for ip; NULL only when nothing is pending).",
    "note": "Exhaustive for all sequences of <= 5 (quick) / 6 (thorough) operations, <= 3 / 4 tasks, rings <= 2 / 3, priorities "
            "{0,1,2}, distances {0,1} (ap, ip) / {0,1,2} (spq); simulated walks of 30-60 operations with priorities -2..3, "
            "rings <= 3, distances 0..3 beyond that. One stream, no concurrency (as the property states). Trusted: TLC, "
            "the harness' id bookkeeping.",
    "technique": "TLA+ refinement (TLC BFS over all op sequences) + replay on the real scheduler modules + trace validation (TLC)",
}

MODES = ("ap", "ip", "spq")
KEY_IP = "ip-resched-chain-back"


def consts(mode, prios, dists, maxring, maxtasks, maxlen, keephist=True, ipback=False):
    return {"Mode": mode, "Prios": set(prios), "Dists": set(dists), "MaxRing": maxring, "MaxTasks": maxtasks,
            "MaxLen": maxlen, "IpChainBack": ipback, "KeepHist": keephist}


def to_line(h):
    out = []
    for o in h:
        if o["op"] == "S":
            out.append("S 0 %d %s" % (o["d"], ",".join(str(p) for p in o["ps"])))
        else:
            out.append("X 0")
    return ";".join(out)


def trace_cfg(d, mode, level, ipback):
    c = consts(mode, {0}, {0}, 1, 0, 0, keephist=False, ipback=ipback)
    c["Level"] = level
    return mcgen.write_mc(d, "tr_%s_%s_%d" % (mode, level, int(ipback)), "PriorityTrace", c, spec="TSpec",
                          invariants=("AcceptExit",))


def run_harness(ctx, exe, mode, lines, tag):
    hp = os.path.join(ctx.scratch, "beh_%s_%s.txt" % (mode, tag))
    with open(hp, "w") as f:
        for l in lines:
            f.write(l + "\n")
    tr = os.path.join(ctx.scratch, "trace_%s_%s.ndjson" % (mode, tag))
    rc, out, err = ctx.run_cmd([exe, "seq", "1", hp, tr], timeout=600, env={"PARSEC_MCA_mca_sched": mode})
    if ("scheduler %s " % mode) not in err and rc == 0:
        raise tlc.TLCError("harness did not install scheduler %s: %s" % (mode, err[-300:]))
    exs = tracecheck.split_executions(tracecheck.read_ndjson(tr)) if os.path.exists(tr) else []
    if rc != 0:
        # the harness died inside the real code: the behaviour it was executing is the failing one
        k = max(0, len(exs) - 1)
        if not exs:
            exs.append([])
        exs[-1].append({"e": "Crash", "rc": str(rc), "behaviour": lines[k] if k < len(lines) else "", "stderr": err[-300:]})
    return exs


def run(ctx):
    d = ctx.stage("Sched")
    exe = ctx.harness("sched_drive", ["harness/sched/sched_drive.c"])
    q = ctx.quick
    behaviours = {}
    n_bfs = {}
    for mode in MODES:
        dists = {0, 1, 2} if mode == "spq" else {0, 1}
        # ---- 1. every operation sequence up to the bound; the transcription refines the property -------------
        mt, ml, mr = (3, 5, 2) if q else ((4, 6, 2) if mode == "spq" else (4, 6, 3))
        mod, cfg = mcgen.write_mc(d, "bfs_" + mode, "Priority", consts(mode, {0, 1, 2}, dists, mr, mt, ml),
                                  invariants=("TypeOK", "ImplRefines", "ImplHolds", "Deterministic", "Emit"))
        r = ctx.tlc_check(d, mod, cfg, must_cover=("Schedule", "Select"), workers=4, timeout=1500)
        hs = [h for h in (tlc._parse_tla_string_list(l) for l in r.printed) if h]
        if not hs:
            raise tlc.TLCError("no behaviour printed by %s" % mod)
        n_bfs[mode] = len(hs)
        # larger state graph without the history variable (refinement only)
        if not q:
            mod, cfg = mcgen.write_mc(d, "graph_" + mode, "Priority",
                                      consts(mode, {0, 1, 2}, dists, 3, 5, 0, keephist=False),
                                      invariants=("TypeOK", "ImplRefines", "ImplHolds", "Deterministic"))
            ctx.tlc_check(d, mod, cfg, must_cover=("Schedule", "Select"), workers=4, timeout=1500)
        # ---- long random walks ---------------------------------------------------------------------------
        depth, num = (30, 120) if q else (60, 1500)
        mod, cfg = mcgen.write_mc(d, "sim_" + mode, "Priority",
                                  consts(mode, {-2, 0, 1, 3}, {0, 1, 2, 3} if mode == "spq" else {0, 1}, 3, 3 * depth, depth),
                                  spec="SimSpec", invariants=("ImplHolds", "Emit"))
        walks = ctx.tlc_histories(d, mod, cfg, num, depth + 1, workers=4)
        behaviours[mode] = hs + walks
        ctx.extra.setdefault("behaviours", {})[mode] = {"bfs": len(hs), "simulated": len(walks)}
    # sensitivity of the model + model-level reproduction of D9: ip appending re-scheduled rings at the back
    mod, cfg = mcgen.write_mc(d, "ipback", "Priority", consts("ip", {0, 1, 2}, {0, 1}, 2, 3, 0, keephist=False, ipback=True),
                              invariants=("TypeOK", "ImplRefines"))
    r = ctx.tlc_check(d, mod, cfg, expect_ok=False, workers=2)
    if r.violated != "ImplRefines":
        raise tlc.TLCError("sensitivity self-test: ip with chain_back on distance > 0 must violate ImplRefines, got %r" % r.violated)
    ctx.exhaustive = True

    # ---- 2. replay on the real modules + trace validation -----------------------------------------------------
    total = 0
    for mode in MODES:
        hs = behaviours[mode]
        lines = [to_line(h) for h in hs]
        exs = run_harness(ctx, exe, mode, lines, "all")
        total += len(lines)
        if len(exs) != len(lines):
            raise tlc.TLCError("harness produced %d executions for %d behaviours (%s)" % (len(exs), len(lines), mode))
        if mode == MODES[0]:
            ctx.sample({"module": mode, "behaviour": lines[0], "events": exs[0]})
        if mode == "spq":
            ctx.sample({"module": mode, "behaviour": lines[-1][:400], "events": exs[-1][:12]})
        # groups: for ip the behaviours that re-schedule with a distance > 0 are validated apart (defect class D9)
        resched = [any(o["op"] == "S" and o["d"] > 0 for o in h) for h in hs]
        groups = [("all", list(range(len(hs))))]
        if mode == "ip":
            groups = [("distance0", [i for i in range(len(hs)) if not resched[i]]),
                      ("resched", [i for i in range(len(hs)) if resched[i]])]
        for gname, idx in groups:
            if not idx:
                continue
            gex = [exs[i] for i in idx]
            # conformance with the transcription of the code (never a verdict)
            variant = None
            for ipback in ((True, False) if mode == "ip" else (False,)):
                tmod, tcfg = trace_cfg(d, mode, "code", ipback)
                cf = ctx.validate(d, tmod, tcfg, gex, batch=2000, timeout=900)
                if not cf:
                    variant = "chain_back" if ipback else "sorted"
                    break
            if mode == "ip" and gname == "resched":
                ctx.extra["ip_code_variant"] = variant
            if variant is None:
                ctx.divergences += 1
                ctx.sample({"divergence": {"module": mode, "group": gname, "detail": cf[0].describe()}}, limit=6)
            # the verdict
            tmod, tcfg = trace_cfg(d, mode, "prop", False)
            fails = ctx.validate(d, tmod, tcfg, gex, batch=2000, timeout=900)
            for f in fails:
                i = idx[f.index]
                what = ("%s: select did not return a task the property allows after `%s`: %s"
                        % (mode, lines[i][:300], json.dumps(f.describe())[:600]))
                rep = {"module": mode, "behaviour": lines[i], "events": f.execution, "detail": f.describe()}
                known = (mode == "ip" and gname == "resched" and variant == "chain_back")
                # every execution of this group behaves exactly as the transcription with chain_back, whose only
                # difference to the refining variant is the treatment of distance > 0: the failure is D9
                if ctx.violation(what, rep, key=KEY_IP if known else None) is False:
                    ctx.sample({"known_finding": KEY_IP, "behaviour": lines[i][:200], "detail": f.describe()}, limit=6)
    ctx.evaluations = total
    ctx.extra["behaviours_bfs"] = n_bfs
    ctx.assume("one execution stream, no concurrent scheduler activity (as the property states)")
    ctx.assume("spq: 'highest priority first' is read per smallest pending distance (the statement's distance clause)")


def replay(ctx, obj):
    d = ctx.stage("Sched")
    exe = ctx.harness("sched_drive", ["harness/sched/sched_drive.c"])
    mode = obj["module"]
    exs = run_harness(ctx, exe, mode, [obj["behaviour"]], "replay")
    tmod, tcfg = trace_cfg(d, mode, "prop", False)
    for f in ctx.validate(d, tmod, tcfg, exs):
        ctx.violation("behaviour still rejected on the current tree: %s" % json.dumps(f.describe())[:800],
                      {"module": mode, "behaviour": obj["behaviour"], "events": f.execution})
