"""C39  Argument-vector utilities are consistent.

spec/Util/Argv.tla          pure operators: fields / split / split_with_empty / join / insert / delete ...
spec/Util/ArgvStr.tla       input generator: EVERY string up to a length over {a, b, delimiter} (+ the property on the spec)
spec/Util/ArgvEdit.tla      behaviour generator: every sequence of editing operations up to a bound
spec/Util/ArgvTrace.tla     validates the real parsec_argv_* results
spec/Util/CmdLine.tla       specification of parsec_cmd_line_parse on a token alphabet + input generator
spec/Util/CmdLineTrace.tla  validates the real parse results (instances, parameters, tail, error flag)
Every generated input / behaviour is replayed on the real functions (harness/argv/argv_replay.c).
"""
import json
import os

from lib import mcgen, tlc, tracecheck

META = {
    "level": "model_checking",
    "text": "TLC enumerates every string of length <= 6 (quick) / 7 over {a, b, delimiter}, every sequence of <= 2-3 (quick) / 3-4 "
            "editing operations (append, prepend, append_unique, insert, insert_element, delete) and every argument vector of "
            "<= 4 (quick) / 5 tokens with three option tables, plus strings whose fields have lengths around and beyond the "
            "128-byte field buffer (126-130, 255-257, 300) in first / middle / last position and command lines with groups of "
            "2-3 combined short names where 0, 1 or 2 of the letters take 1-2 parameters; each is run through the real parsec_argv_* / "
            "parsec_cmd_line_* functions and TLC validates the results: split/join round trip (with and without empty fields), "
            "exact positions changed by insert/delete, copy, count, join_range; parsed option instances with their parameters, "
            "tail and error flag.",
    "note": "Token alphabet for the parser: three long options (declared or not, 0-2 parameters), one short option, two plain "
            "words, '--' and groups of the letters a-c; ignore_unknown = true. After a parse error inside/after an expanded group "
            "only the error flag and the instances are compared, not the tail. The caller's argc after parsec_argv_delete is only checked for ranges inside "
            "the vector. MCA-bound options and the usage message are not "
            "covered. Trusted: TLC, the harness' string encoding.",
    "technique": "TLA+ spec inputs/behaviours (TLC exhaustive enumeration) replayed on real code + trace validation",
}


def enc_str(s):
    return ".".join(str(c) for c in s) if s else "e"


def enc_vec(v):
    return "|".join(enc_str(s) for s in v) if v else "-"


def field_lens(quick):
    """Field-length vectors of the long-field family: lengths around ARGSIZE (128, the stack buffer of
    parsec_argv_split_inter) and a few hundred, in first / middle / last position, next to empty and short fields."""
    import itertools
    out = set()
    for n in (1, 2, 3):
        out |= set(itertools.product((0, 1, 127, 128, 129), repeat=n))
    for big in (126, 130, 255, 256, 257, 300) + (() if quick else (512, 1000, 4096)):
        out |= {(big,), (big, 2), (2, big), (2, big, 1), (big, 0, 3), (0, big, 0), (big, big), (3, 128, big)}
    return sorted(out)


def run_harness(ctx, exe, mode, lines, tag, extra=()):
    hp = os.path.join(ctx.scratch, tag + ".txt")
    with open(hp, "w") as f:
        f.write("\n".join(lines) + "\n")
    tr = os.path.join(ctx.scratch, tag + ".ndjson")
    rc, out, err = ctx.run_cmd([exe, mode, hp, tr] + list(extra), timeout=900)
    evs = tracecheck.read_ndjson(tr) if os.path.exists(tr) else []
    return rc, evs


def run(ctx):
    d = ctx.stage("Util")
    exe = ctx.harness("argv_replay", ["harness/argv/argv_replay.c"])
    q = ctx.quick
    total = 0

    # ---- split / join over every string ---------------------------------------------------------------------------
    mod, cfg = mcgen.write_mc(d, "str", "ArgvStr", {"Chars": {0, 1, 2}, "MaxStr": 6 if q else 7,
                                                    "FieldLens": mcgen.Raw(mcgen.tla(set(field_lens(q))))},
                              invariants=("RoundTrip", "RoundTripNoEmpty", "NoDelimInside", "Emit"))
    r = ctx.tlc_check(d, mod, cfg, must_cover=("Check",), workers=4, timeout=1500)
    strs = sorted(set(enc_str(o["s"]) for o in (tlc._parse_tla_string_list(l) for l in r.printed) if o is not None))
    rc, evs = run_harness(ctx, exe, "str", strs, "str")
    exs = [[e] for e in evs]                 # every input is an execution of its own (independent verdicts)
    if rc != 0:
        exs.append([{"e": "Crash", "rc": str(rc), "input": strs[len(evs)] if len(evs) < len(strs) else ""}])
    ctx.extra["strings"] = len(strs)
    ctx.extra["strings_with_long_fields"] = sum(1 for x in strs if len(x) > 200)
    total += len(strs)
    if exs:
        ctx.sample({"string": strs[len(strs) // 2], "event": exs[len(exs) // 2][0]})
    fails = [("split/join", "ArgvTrace", f) for f in ctx.validate("Util", "ArgvTrace", "ArgvTrace.cfg", exs, batch=4000, timeout=1500)]

    # ---- editing operations -----------------------------------------------------------------------------------------
    cfgs = [("edit", {"Words": mcgen.Raw("{<<>>, <<1>>, <<1, 2>>}"), "Sources": mcgen.Raw("{<< <<2>> >>, << <<1>>, <<>> >>}"),
                      "Dels": {0, 1, 2, 3}, "MaxLen": 2 if q else 3, "MaxArgc": 3}),
            ("edit3", {"Words": mcgen.Raw("{<<1>>}"), "Sources": mcgen.Raw("{<< <<2>>, <<>> >>}"),
                       "Dels": {1, 2}, "MaxLen": 3 if q else 4, "MaxArgc": 2})]
    lines = set()
    for name, c in cfgs:
        mod, cfg = mcgen.write_mc(d, name, "ArgvEdit", c, invariants=("TypeOK", "Emit"))
        r = ctx.tlc_check(d, mod, cfg, must_cover=("DoAppend", "DoPrepend", "DoAppendUnique", "DoInsert", "DoInsertElement", "DoDelete"),
                          workers=4, timeout=1500)
        hs = [h for h in (tlc._parse_tla_string_list(l) for l in r.printed) if h]
        lines |= set(";".join("%s %d %d %s %s" % (o["op"], o["a"], o["b"], enc_str(o["w"]), enc_vec(o["src"])) for o in h) for h in hs)
    lines = sorted(lines)
    rc, evs = run_harness(ctx, exe, "edit", lines, "edit")
    exs = tracecheck.split_executions(evs)
    if rc != 0:
        exs.append([{"e": "Crash", "rc": str(rc)}])
    ctx.extra["edit_behaviours"] = len(lines)
    total += len(lines)
    if exs and exs[0]:
        ctx.sample({"behaviour": lines[0], "last_logged_event": exs[0][-1]})
    fails += [("argv editing", "ArgvTrace", f) for f in ctx.validate("Util", "ArgvTrace", "ArgvTrace.cfg", exs, batch=4000, timeout=1500)]

    # ---- command lines ------------------------------------------------------------------------------------------------
    tables = "{[np |-> <<0, 1, -1>>, short |-> 0], [np |-> <<2, 0, -1>>, short |-> 1], [np |-> <<1, 2, 0>>, short |-> 3]}"
    # second family: groups of short names ("-ab", "-acb", ..) over tables where every declared option k has the letter k as
    # short name and 0, 1 or 2 of the letters take 1-2 parameters; followed by every sequence of plain words / "--"
    tables2 = ("{[np |-> <<1, 2, 0>>, short |-> -1], [np |-> <<0, 0, 0>>, short |-> -1], [np |-> <<2, 0, 1>>, short |-> -1], "
               "[np |-> <<1, -1, 0>>, short |-> -1]}")
    perms = {12, 13, 21, 23, 31, 32, 11, 22, 33, 123, 132, 213, 231, 312, 321}
    groups = perms if q else perms | {100 * a + 10 * b + c_ for a in (1, 2, 3) for b in (1, 2, 3) for c_ in (1, 2, 3)}
    argvs2 = ("GroupArgvs({<<>>, <<3>>}, %s, {TP, TQ, TEnd}, 3) \\cup GroupArgvs({<<>>}, %s, {TP, TQ}, %d) "
              "\\cup GroupArgvs({<<>>}, %s, {TP, TQ, LBase + 2}, %d)"
              % (mcgen.tla({1000 + g for g in groups}), mcgen.tla({1000 + g for g in groups}), 4 if q else 5,
                 mcgen.tla({1000 + g for g in (12, 21, 132, 312)}), 3 if q else 4))
    c = {"NOpt": 3, "Tables": mcgen.Raw(tables), "ArgvSet": mcgen.Raw("AllArgvs(%d)" % (4 if q else 5)),
         "Tables2": mcgen.Raw(tables2), "ArgvSet2": mcgen.Raw(argvs2)}
    mod, cfg = mcgen.write_mc(d, "cmd", "CmdLine", c, invariants=("Accounted", "NoPlaceholder", "GroupOfFlags", "Emit"))
    r = ctx.tlc_check(d, mod, cfg, must_cover=("ParseStep",), workers=4, timeout=1500)
    ins = [o for o in (tlc._parse_tla_string_list(l) for l in r.printed) if o]
    lines = sorted(set("%s %s %d" % (",".join(str(t) for t in o["argv"]) or "-", ",".join(str(n) for n in o["np"]), o["short"]) for o in ins))
    rc, evs = run_harness(ctx, exe, "parse", lines, "parse", ["3"])
    # the harness parses every command line in a process of its own: a crash is an observation about that input
    crashes = [e for e in evs if e.get("e") != "parse"]
    exs = [[e] for e in evs if e.get("e") == "parse"]
    if rc != 0 or len(evs) != len(lines):
        crashes.append({"e": "Crash", "rc": str(rc), "input": "harness: %d results for %d command lines" % (len(evs), len(lines))})
    ctx.extra["command_lines"] = len(lines)
    ctx.extra["command_lines_with_short_name_groups"] = sum(1 for x in lines if x.endswith(" -1"))
    ctx.extra["command_lines_crashing_the_parser"] = len(crashes)
    total += len(lines)
    if exs:
        ctx.sample({"command_line": lines[len(lines) // 2], "event": exs[len(exs) // 2][0]})
        ctx.sample(next((e[0] for e in exs if e[0]["argv"][:1] == [1132] and e[0]["np"] == [1, 2, 0] and len(e[0]["argv"]) == 5), exs[-1][0]))
    for e in crashes[:2]:
        ctx.violation("parsec_cmd_line_parse crashed (%s) on the command line '%s' (tokens, parameters per option, short names: see "
                      "CmdLine.tla); %d of the %d command lines crash the parser"
                      % (e.get("rc"), e.get("input", e.get("raw")), len(crashes), len(lines)),
                      {"trace_module": "CmdLineTrace", "events": [e]})
    fails += [("command line parsing", "CmdLineTrace", f)
              for f in ctx.validate("Util", "CmdLineTrace", "CmdLineTrace.cfg", exs, batch=4000, timeout=1500)]

    ctx.evaluations = total
    ctx.exhaustive = True
    for what, tm, f in fails:
        key = None
        ev = f.execution[f.prefix_len] if f.prefix_len < len(f.execution) else {}
        if ev.get("e") == "split" and ev.get("s") and ev["s"][-1] == 0:
            key = "split-with-empty-trailing-delimiter"
        ctx.violation("%s: real result rejected by %s: %s" % (what, tm, json.dumps(f.describe())[:1500]),
                      {"trace_module": tm, "events": f.execution, "detail": f.describe()}, key=key)
    ctx.assume("strings and argument vectors are well formed (NUL terminated / NULL terminated)")


def replay(ctx, obj):
    tm = obj.get("trace_module", "ArgvTrace")
    for f in ctx.validate("Util", tm, tm + ".cfg", [obj["events"]]):
        ctx.violation("recorded trace still rejected: %s" % json.dumps(f.describe())[:1000], obj)
