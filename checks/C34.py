"""C34  Objects are destroyed exactly once when their last reference goes.

spec/Object/RefCount.tla   abstract object: reference count, destructor log; the Release dropping the last reference runs the
                           destructor chain (most derived class first) exactly once
spec/Object/RefImpl.tla    implementation-shaped model of PARSEC_OBJ_RETAIN / PARSEC_OBJ_RELEASE (parsec_object.h), one action per
                           code segment between yield points; environment = thread programs over reference tokens
spec/Object/RefTrace.tla   property-level validation of recorded histories (calls + destructor invocations logged by
                           test-owned class hierarchies of depth 1..4, some levels without destructor)

1. TLC: RefCount satisfies DtorsExactlyOnce; RefImpl refines it (PROPERTY Refines; invariants RefMatches, DtorsExactlyOnce,
   NoStuck) for every scenario (hand-written + seeded random programs); a seeded model defect must be detected.
2. Every maximal path of each state graph (sampled above a limit) is a schedule replayed on the real macros under the
   cooperative scheduler; final reference counts are compared with the model (divergences).
3. The harness' explorer enumerates all interleavings of small scenarios on the real code, including the race on the lazy
   class-descriptor initialisation (parsec_class_initialize) by concurrent first PARSEC_OBJ_NEW; free-running stress.
4. Verdict: every recorded history is validated by TLC against RefTrace.
"""
import concurrent.futures
import json
import os
import re

from lib import mcgen, tlc, tracecheck

META = {
    "level": "model_checking",
    "text": "TLC proves that the implementation-shaped model of PARSEC_OBJ_RETAIN/RELEASE (atomic fetch_add, destructor chain run "
            "by the release that reads zero) refines the abstract reference-counted object for bounded thread programs; all "
            "interleavings at yield-point granularity of those programs are replayed on the real macros with objects of "
            "test-owned class hierarchies of depth 1..4 (dynamic and statically constructed, levels without destructor), "
            "including the race of concurrent first PARSEC_OBJ_NEW on the lazy class initialisation, plus free-running stress "
            "(four threads leaving a spin rendezvous together: last references of one object dropped at once, first use of "
            "one cold class by all threads; 115 000 such executions in quick); "
            "each recorded history (calls and destructor invocations) is validated by TLC against RefTrace.tla: destructors "
            "run exactly once, most derived to base, by the release that drops the last reference, before it returns.",
    "note": "2-3 threads (4 in the free-running bursts), <= 5 operations per thread, 1-3 objects (8 in the cold-class burst); exhaustive interleavings for the small scenarios, sampled for "
            "the larger ones. A thread uses an object only through a reference it holds (contract of the object system). "
            "x86-64 TSO; trusted: TLC, vsched, ndjson recorder.",
    "technique": "TLA+ refinement (TLC) + schedule replay on real code + linearizability trace validation (TLC)",
}

CHAINS = {"C1": [1], "C2": [2, 1], "C3": [3, 2, 1], "C4": [4, 3, 2, 1], "N4": [4, 2, 1], "N2": [2]}

SCENARIOS = [
    {"name": "depth1", "pre": ["new:1:C1:1", "retain:1:2"], "threads": [["take:1", "release:1"], ["take:2", "release:2"]]},
    {"name": "share3", "pre": ["new:1:C3:1", "retain:1:2", "retain:1:3"],
     "threads": [["take:1", "release:1"], ["take:2", "release:2"], ["take:3", "release:3"]]},
    {"name": "handoff", "pre": ["new:1:C4:1"],
     "threads": [["take:1", "retain:1:10", "pass:10", "release:1"], ["take:10", "retain:10:11", "release:10", "release:11"]]},
    {"name": "two", "pre": ["new:1:N4:1", "construct:2:C2:2", "retain:2:3"],
     "threads": [["take:1", "retain:1:10", "pass:10", "take:3", "release:3", "release:1"],
                 ["take:2", "take:10", "release:10", "release:2"]]},
    {"name": "newthr", "pre": [],
     "threads": [["new:1:C2:1", "retain:1:2", "pass:2", "release:1"], ["take:2", "retain:2:3", "release:2", "release:3"],
                 ["new:2:N2:5", "release:5"]]},
    {"name": "kept", "pre": ["construct:1:C3:1", "retain:1:2"], "threads": [["take:1", "retain:1:3", "release:1"], ["take:2", "release:2"]]},
    # concurrent first use of the classes: parsec_class_initialize under its lock (explored on the code only)
    {"name": "cold", "cold": True, "pre": [],
     "threads": [["new:1:C3:1", "release:1", "new:4:C2:4", "release:4"], ["new:2:C4:2", "release:2", "new:3:C3:3", "release:3"]]},
    # concurrent first use of ONE class by four free-running threads (stress only): an object of the class is being
    # constructed / destructed by the thread that initialised the class while the others are still inside
    # parsec_class_initialize (plain reads and writes of the constructor / destructor arrays: no yield point there)
    # the last references of one object dropped by four free-running threads leaving a spin rendezvous together
    # (stress only: a plain re-read next to the atomic update has no yield point to separate it)
    {"name": "relrace", "stress_only": True, "pre": ["new:1:C2:1", "retain:1:2", "retain:1:3", "retain:1:4"],
     "threads": [["take:1", "release:1"], ["take:2", "release:2"], ["take:3", "release:3"], ["take:4", "release:4"]]},
    {"name": "coldrace", "cold": True, "pre": [],
     "threads": [["new:1:C4:1", "release:1", "new:5:C4:5", "release:5"], ["new:2:C4:2", "release:2", "new:6:C4:6", "release:6"],
                 ["new:3:C4:3", "release:3", "new:7:C4:7", "release:7"], ["new:4:C4:4", "release:4", "new:8:C4:8", "release:8"]]},
]
EXPLORE = ("depth1", "share3", "handoff", "kept", "cold")
STRESS = ("share3", "two", "newthr")


def parse_op(s):
    f = s.split(":")
    if f[0] in ("new", "construct"):
        return {"op": "new", "kind": f[0], "obj": int(f[1]), "cls": f[2], "tok": int(f[3]), "ntok": 0}
    if f[0] == "retain":
        return {"op": "retain", "obj": 0, "tok": int(f[1]), "ntok": int(f[2])}
    return {"op": f[0], "obj": 0, "tok": int(f[1]), "ntok": 0}


def analyse(sc):
    """Static check of the contract (a thread retains / releases / passes only references it holds) and the derived
    constants of the model: token -> object, object -> destructor chain, references made in `pre`."""
    tokobj, chain, pretok, created = {}, {}, set(), set()
    progs = [[parse_op(s) for s in sc["pre"]]] + [[parse_op(s) for s in p] for p in sc["threads"]]
    changed = True
    while changed:
        changed = False
        for p in progs:
            for o in p:
                if o["op"] == "new" and o["tok"] not in tokobj:
                    tokobj[o["tok"]] = o["obj"]
                    chain[o["obj"]] = CHAINS[o["cls"]]
                    changed = True
                if o["op"] == "retain" and o["tok"] in tokobj and o["ntok"] not in tokobj:
                    tokobj[o["ntok"]] = tokobj[o["tok"]]
                    changed = True
    taken = set()
    for k, p in enumerate(progs):
        held = set()
        for o in p:
            if o["op"] == "new":
                assert o["tok"] not in created, (sc["name"], o)
                created.add(o["tok"])
                held.add(o["tok"])
            elif o["op"] == "retain":
                assert o["tok"] in held and o["ntok"] not in created, (sc["name"], o)
                created.add(o["ntok"])
                held.add(o["ntok"])
            elif o["op"] in ("release", "pass"):
                assert o["tok"] in held, (sc["name"], o)
                held.discard(o["tok"])
            elif o["op"] == "take":
                assert o["tok"] not in taken, (sc["name"], o)
                taken.add(o["tok"])
                held.add(o["tok"])
        if k == 0:
            pretok = set(held)
    assert taken <= created
    return tokobj, chain, pretok


def random_scenario(rng, name):
    nthreads = rng.choice([2, 3])
    nobj = rng.choice([1, 2])
    classes = sorted(CHAINS)
    pre, progs, held, avail = [], [[] for _ in range(nthreads)], [set() for _ in range(nthreads)], set()
    nexttok = [0]

    def tok():
        nexttok[0] += 1
        return nexttok[0]
    tokobj = {}
    for o in range(1, nobj + 1):
        t = tok()
        pre.append("%s:%d:%s:%d" % (rng.choice(["new", "new", "construct"]), o, rng.choice(classes), t))
        tokobj[t] = o
        avail.add(t)
        for _ in range(rng.choice([0, 1, 2])):
            t2 = tok()
            pre.append("retain:%d:%d" % (t, t2))
            tokobj[t2] = o
            avail.add(t2)
    passed = set(avail)            # a reference changes hands at most once (keeps `take` unambiguous)
    count, idle = 0, 0
    while count < rng.choice([5, 7]) and idle < 50:
        idle += 1
        t = rng.randrange(nthreads)
        ch = []
        if avail:
            ch += ["take"] * 3
        if held[t]:
            ch += ["retain", "release", "release"]
        if any(k not in passed for k in held[t]):
            ch += ["pass"]
        if not ch:
            continue
        idle = 0
        op = rng.choice(ch)
        if op == "take":
            k = rng.choice(sorted(avail))
            avail.discard(k)
            held[t].add(k)
            progs[t].append("take:%d" % k)
        elif op == "retain":
            k = rng.choice(sorted(held[t]))
            k2 = tok()
            tokobj[k2] = tokobj[k]
            held[t].add(k2)
            progs[t].append("retain:%d:%d" % (k, k2))
            count += 1
        elif op == "release":
            k = rng.choice(sorted(held[t]))
            held[t].discard(k)
            progs[t].append("release:%d" % k)
            count += 1
        else:
            k = rng.choice(sorted(x for x in held[t] if x not in passed))
            held[t].discard(k)
            passed.add(k)
            avail.add(k)
            progs[t].append("pass:%d" % k)
    if rng.random() < 0.8:                     # drain: every reference is given back
        for k in sorted(avail):
            t = rng.randrange(nthreads)
            progs[t].append("take:%d" % k)
            held[t].add(k)
        for t in range(nthreads):
            for k in sorted(held[t]):
                progs[t].append("release:%d" % k)
    progs = [p for p in progs if p]          # a thread without operations would still take one scheduler step
    if not progs:
        return random_scenario(rng, name)
    return {"name": name, "pre": pre, "threads": progs}


def scenario_file(sc, path):
    with open(path, "w") as f:
        f.write("cold %d\n" % (1 if sc.get("cold") else 0))
        if sc["pre"]:
            f.write("pre %s\n" % " ".join(sc["pre"]))
        f.write("threads %d\n" % len(sc["threads"]))
        for t, ops in enumerate(sc["threads"]):
            f.write("t %d %s\n" % (t, " ".join(ops)))


def mc(d, sc, mut="none", tag=""):
    tokobj, chain, pretok = analyse(sc)
    n = len(sc["threads"])
    prog = {t + 1: [{k: v for k, v in parse_op(s).items() if k in ("op", "obj", "tok", "ntok")} for s in ops]
            for t, ops in enumerate(sc["threads"])}
    consts = {"Thr": set(range(1, n + 1)), "Prog": prog, "Objs": set(chain), "Chain": chain, "TokObj": tokobj,
              "PreTok": pretok, "Mut": mut}
    return mcgen.write_mc(d, sc["name"] + tag, "RefImpl", consts, invariants=("RefMatches", "DtorsExactlyOnce", "NoStuck"),
                          properties=("Refines",))


def load_meta(path):
    """Per-execution records written by the harness; a harness that died leaves a truncated last line."""
    out = []
    if os.path.exists(path):
        for l in open(path):
            try:
                out.append(json.loads(l))
            except ValueError:
                pass
    return out


def collect(ctx, exe, mode, sc, arg, kind, executions, timeout=900):
    base = os.path.join(ctx.scratch, "%s.%s" % (sc["name"], kind))
    scf = base + ".scn"
    scenario_file(sc, scf)
    tr, meta = base + ".trace", base + ".meta"
    rc, out, err = ctx.run_cmd([exe, mode, scf, arg, tr, meta], timeout=timeout)
    exs = tracecheck.split_executions(tracecheck.read_ndjson(tr)) if os.path.exists(tr) else []
    if rc != 0:
        exs.append([{"e": "Crash", "rc": str(rc), "stderr": err[-300:]}])
    for e in exs:
        executions.append((sc["name"], kind, e))
    return load_meta(meta)


def sched_of(labels):
    return "".join(str(int(re.search(r"\((\d+)\)", l).group(1)) - 1) for l in labels)


def model_refs(g, nid, nobj=8):
    txt = tlc.parse_state_label(g.nodes[nid])["ref"]
    # a function over a set of naturals prints as <<a, b>> when its domain is 1..n, else as (1 :> a @@ 3 :> b)
    out = [-1] * nobj
    if txt.startswith("<<"):
        for i, v in enumerate(json.loads(txt.replace("<<", "[").replace(">>", "]"))):
            out[i] = v
    else:
        for k, v in re.findall(r"(\d+) :> (-?\d+)", txt):
            out[int(k) - 1] = int(v)
    return out


def run(ctx):
    d = ctx.stage("Object")
    exe = ctx.harness("obj_replay", ["harness/object/obj_replay.c"])
    scen = [dict(sc) for sc in SCENARIOS]
    for k in range(3 if ctx.quick else 12):
        scen.append(random_scenario(ctx.rng, "rnd%d" % k))
    byname = {sc["name"]: sc for sc in scen}
    modelled = [sc for sc in scen if not sc.get("cold") and not sc.get("stress_only")]
    path_limit = 3000 if ctx.quick else 25000

    def account(mod, cfg, r, **kw):
        ctx.states += r.distinct
        ctx.transitions += r.generated
        m = {"module": mod, "cfg": cfg, "distinct": r.distinct, "generated": r.generated, "depth": r.depth, "wall_s": round(r.wall, 1)}
        m.update(kw)
        if r.coverage:
            m["coverage"] = {k: v[0] for k, v in r.coverage.items()}
        ctx.models.append(m)

    def job_abs():
        mod, cfg = mcgen.write_mc(d, "abs", "RefCount", {"Objs": {1, 2}, "Chain": {1: [3, 2, 1], 2: [2]}}, spec="OSpec",
                                  invariants=("DtorsExactlyOnce",))
        return ("check", "RefCount", mod, cfg, tlc.check(d, mod, cfg, must_cover=("New", "RetainB", "Release"), workers=1))

    def job_cover(sc):
        mod, cfg = mc(d, sc, tag="_cov")
        return ("check", sc["name"], mod, cfg, tlc.check(d, mod, cfg, must_cover=("Take", "Pass", "Begin", "RetainRmw", "ReleaseRmw"), workers=1))

    def job_mut(sc, mut):
        mod, cfg = mc(d, sc, mut=mut, tag="_" + mut)
        return ("mut", mut, mod, cfg, tlc.check(d, mod, cfg, workers=1))

    def job_graph(sc):
        mod, cfg = mc(d, sc)
        g, r = tlc.dump_graph(d, mod, cfg, timeout=1500)
        return ("graph", sc["name"], mod, cfg, r, g)

    jobs = [job_abs, lambda: job_cover(byname["handoff"]), lambda: job_mut(byname["share3"], "le1")]
    jobs += [(lambda sc=sc: job_graph(sc)) for sc in modelled]
    ctx.scratch
    with concurrent.futures.ThreadPoolExecutor(max_workers=2) as pool:
        results = list(pool.map(lambda j: j(), jobs))
    graphs = {}
    for res in results:
        kind, what, mod, cfg, r = res[:5]
        account(mod, cfg, r, **({"graph": True} if kind == "graph" else {}))
        if kind == "mut":
            if r.ok:
                raise tlc.TLCError("sensitivity self-test: model defect %r of RefImpl must be detected by TLC" % what)
        elif not r.ok:
            raise tlc.TLCError("specification Object/%s (%s) does not satisfy its own properties (%s); this is a model failure, "
                               "not a verdict about the code\n%s" % (mod, cfg, r.violated, r.out[-2500:]))
        if kind == "graph":
            graphs[what] = res[5]

    executions = []
    total_sched = 0
    all_exhaustive = True
    seen_actions = set()
    for sc in scen:
        info = {"name": sc["name"], "pre": sc["pre"], "threads": sc["threads"]}
        if not sc.get("cold") and not sc.get("stress_only"):
            g = graphs[sc["name"]]
            seen_actions |= set(re.match(r"\w+", lab).group(0) for es in g.edges.values() for lab, _ in es)
            paths, total, exhaustive = tlc.maximal_paths(g, limit=path_limit, rng=ctx.rng)
            all_exhaustive = all_exhaustive and exhaustive
            scheds = [sched_of(labels) for labels, end in paths]
            schedf = os.path.join(ctx.scratch, sc["name"] + ".sched")
            with open(schedf, "w") as f:
                f.write("\n".join(scheds) + "\n")
            metas = collect(ctx, exe, "replay", sc, schedf, "replay", executions)
            for (labels, end), s, m in zip(paths, scheds, metas):
                want = model_refs(g, end)
                if m["ref"] != want or m["sched"] != s:
                    ctx.divergences += 1
                    ctx.sample({"divergence": {"scenario": sc["name"], "schedule": s, "real_schedule": m["sched"],
                                               "model_ref": want, "real_ref": m["ref"]}}, limit=6)
            if len(metas) != len(scheds):
                ctx.divergences += 1
                ctx.sample({"divergence": {"scenario": sc["name"], "schedules": len(scheds), "executed": len(metas)}}, limit=6)
            total_sched += len(scheds)
            info.update({"model_states": len(g.nodes), "model_paths_total": total, "replayed": len(scheds), "exhaustive": exhaustive})
        if sc["name"] in EXPLORE:
            metas = collect(ctx, exe, "explore", sc, str(20000 if ctx.quick else 60000), "explore", executions, timeout=1500)
            last = metas[-1] if metas else {}
            info.update({"code_interleavings": last.get("explored"), "code_exhaustive": last.get("exhaustive")})
        ctx.extra.setdefault("scenarios", []).append(info)
    want_actions = {"Take", "Pass", "New", "Begin", "RetainRmw", "ReleaseRmw"}
    if not want_actions <= seen_actions:
        raise tlc.TLCError("vacuity guard: actions never taken in any scenario: %s" % sorted(want_actions - seen_actions))
    for name in STRESS:
        collect(ctx, exe, "stress", byname[name], str(200 if ctx.quick else 3000), "stress", executions)
    # several processes: how closely the threads leave the rendezvous depends on the cores the process got
    for b in range(5 if ctx.quick else 40):
        collect(ctx, exe, "stress", byname["coldrace"], "3000", "stress%d" % b, executions, timeout=600)
        collect(ctx, exe, "stress", byname["relrace"], "20000", "stress%d" % b, executions, timeout=600)

    ctx.evaluations = len(executions)
    distinct, mult = tracecheck.dedupe([e for _, _, e in executions])
    ctx.extra["executions_run"] = len(executions)
    ctx.extra["distinct_histories"] = len(distinct)
    ctx.extra["schedules_from_tlc"] = total_sched
    ctx.exhaustive = all_exhaustive
    if distinct:
        ctx.sample({"history": distinct[0]})
        ctx.sample({"history": distinct[len(distinct) // 2]})
    fails = ctx.validate("Object", "RefTrace", "RefTrace.cfg", distinct, batch=1000, timeout=1500)
    ctx.traces = len(executions)
    # sensitivity self-test of the trace specification: swapping two destructor levels must be rejected
    good = next((e for e in distinct if sum(1 for ev in e if ev.get("e") == "dtor") >= 2), None)
    if good is not None and not fails:
        idx = [i for i, ev in enumerate(good) if ev.get("e") == "dtor"][:2]
        bad = list(good)
        bad[idx[0]], bad[idx[1]] = dict(bad[idx[0]], lvl=bad[idx[1]]["lvl"]), dict(bad[idx[1]], lvl=bad[idx[0]]["lvl"])
        p = os.path.join(ctx.scratch, "corrupted.ndjson")
        tracecheck._write(bad, p)
        v, r = tracecheck.validate_file(ctx.spec("Object"), "RefTrace", "RefTrace.cfg", p)
        ctx.extra["corrupted_trace_rejected"] = not v.accepted
        if v.accepted:
            raise tlc.TLCError("self-test: RefTrace accepted a history with two destructor levels swapped")
    for f in fails:
        ctx.violation("history of the real object system is not a behaviour of RefCount.tla: %s" % json.dumps(f.describe()),
                      {"history": f.execution, "detail": f.describe()})
    ctx.assume("x86-64 TSO; yield points = every parsec_atomic_* op (reference count updates, the class-initialisation lock)")
    ctx.assume("a thread retains / releases an object only through a reference it holds")


def replay(ctx, obj):
    fails = ctx.validate("Object", "RefTrace", "RefTrace.cfg", [obj["history"]])
    for f in fails:
        ctx.violation("recorded history still rejected: %s" % json.dumps(f.describe()), obj)
