"""C01  Every PTG task instance runs exactly once.

spec/PTG/JDFSem.tla     semantics of the generated JDF subset: execution space, dependencies, values (given the AST)
spec/PTG/Exec.tla       life cycle of the instances as the generated code / runtime implement it (startup generators
                        with chunking, ready set, AGAIN, completion releasing successors, termination counter)
spec/PTG/ExecTrace.tla  validation of recorded executions (cfg C01: space membership, at most once, all before
                        termination; no ordering / value demands)

1. TLC checks Exec exhaustively on small generated programs (RanOnce, OnlySpace, TermOK, no deadlock) and shows the
   model deadlocks on a descending range when its loops are the `<=`-only loops (sensitivity).
2. lib/jdfgen.py prints ~60 "shape" programs (every range form x startup-capable class / dependency target / chain /
   broadcast / control gather / several flows / ternary routing / NEW) plus seeded random ones as .jdf; parsec-ptgpp and
   cc build them (both dependency back-ends) into one driver; every program runs under several schedulers, thread
   counts and startup-chunking parameters; test-owned bodies log Start/End.
3. Every execution is validated by TLC against ExecTrace with the space computed by JDFSem from the same AST.  A taskpool
   that never terminates (re-confirmed with a 10x window) is a Timeout event, which no specification step explains.
"""
from harness.ptg import ptgrun
from lib import jdfgen

META = {
    "level": "model_checking",
    "text": "TLC model-checks the task life cycle (startup generation with chunking, readiness, completion, termination "
            "counting) of small generated PTG programs; ~60 shape programs covering every range form (ascending, "
            "descending, stepped, expression step, triangular, derived, empty) as startup classes and as dependency "
            "targets, plus seeded random programs, are compiled by the real parsec-ptgpp and executed by the real runtime "
            "under several schedulers / thread counts / startup parameters / both dependency back-ends; TLC validates "
            "every recorded execution against the execution space computed from the same program AST: only instances of "
            "the space start, none twice, all have run when termination is detected.",
    "note": "Programs have <= ~60 instances, <= 3 parameters per class, one process (every placement is local). Exec.tla is "
            "exhaustive for 5-8 small programs; executions are samples of the scheduler's interleavings. Trusted: the "
            "AST->JDF printer, the JSON image of the AST, TLC, the event recorder; hang = no event and no completion for "
            "1.5 s, re-confirmed with 15 s.",
    "technique": "TLA+ semantics of generated JDF programs (TLC) + real ptgpp/runtime executions + trace validation (TLC)",
}

SCHEDS_ALL = ["ap", "gd", "ip", "lfq", "lhq", "ll", "llp", "ltq", "pbq", "rnd", "spq"]


def configs(ctx):
    out = []
    if ctx.quick:
        # 7 schedulers, 1..4 threads; startup parameters 1 / default alternate; one run with sequential taskpools
        # (the ll module documents that it cannot wait actively with a single thread: 2 threads there)
        out = [{"sched": "lfq", "cores": 4, "conc": 64, "iter": None, "chunk": 1},
               {"sched": "lfq", "cores": 1, "conc": 1, "iter": 1, "chunk": None},
               {"sched": "ap", "cores": 4, "conc": 64, "iter": 1, "chunk": None},
               {"sched": "ap", "cores": 1, "conc": 64, "iter": None, "chunk": 1},
               {"sched": "spq", "cores": 3, "conc": 64, "iter": 1, "chunk": 1},
               {"sched": "ll", "cores": 2, "conc": 64, "iter": None, "chunk": None},
               {"sched": "gd", "cores": 2, "conc": 64, "iter": 2, "chunk": 3},
               {"sched": "ip", "cores": 4, "conc": 64, "iter": None, "chunk": None, "noise": 5},
               {"sched": "rnd", "cores": 3, "conc": 64, "iter": 1, "chunk": 1, "noise": 9}]
    else:
        k = 0
        for s in SCHEDS_ALL:
            for cores in (1, 2, 4, 16):
                if cores == 1 and s in ("ll", "llp"):
                    continue        # documented by the module: no active wait with a single thread (live-lock risk)
                k += 1
                out.append({"sched": s, "cores": cores, "conc": (1 if k % 5 == 0 else 32), "noise": (k if k % 3 == 0 else 0),
                            "iter": (1, None, 2)[k % 3], "chunk": (None, 1, 3)[k % 3]})
    return out


def programs(ctx):
    ents = jdfgen.shape_programs()
    for e in ents:
        it, _ = jdfgen.validate(e["prog"])
        e["ntasks"] = len(it.order)
    ents += jdfgen.random_programs(1000 + ctx.seed, 12 if ctx.quick else 300)
    return ents


def backends(ctx, ents):
    return {e["prog"]["name"]: ("dynamic-hash-table" if i % 2 else "index-array") for i, e in enumerate(ents)}


def run(ctx):
    d = ctx.stage("PTG")
    ptgrun.model_checks(ctx, d)
    ents = programs(ctx)
    cfgs = configs(ctx)
    if ctx.quick:
        ptgrun.campaign(ctx, ents, cfgs, "ExecTraceC01.cfg", "c01", backends=backends(ctx, ents))
    else:
        # both back-ends: the same programs compiled a second time with the other one
        import copy
        other = []
        for i, e in enumerate(ents):
            e2 = copy.deepcopy(e)
            e2["prog"]["name"] = e["prog"]["name"] + "b"
            other.append(e2)
        b = backends(ctx, ents)
        b.update({e2["prog"]["name"]: ("index-array" if b[e["prog"]["name"]] != "index-array" else "dynamic-hash-table")
                  for e, e2 in zip(ents, other)})
        # every program under a seeded subset of the configurations (8 of 44), in slices of 60 programs per binary
        allp = ents + other
        for s in range(0, len(allp), 60):
            sub = ctx.rng.sample(cfgs, 8)
            ptgrun.campaign(ctx, allp[s:s + 60], sub, "ExecTraceC01.cfg", "c01-%d" % s, backends=b)
    ctx.extra["shape_tags"] = sorted(set(t for e in ents for t in e["tags"]))[:80]
    ctx.assume("one process: every instance is local; guards are those of the dependencies (JDF has no space guard)")
    ctx.assume("generated programs are valid: inputs and outputs name each other (checked by the generator and by "
               "JDFSem.Consistent in the model runs)")


def replay(ctx, obj):
    ptgrun.replay_trace(ctx, obj)
