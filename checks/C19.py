"""C19  Matrix datatypes select exactly the specified elements.

spec/Dist/MatrixTypes.tla       the property (Selected = the mathematical region in column-major order, ExtentCovers)
                                and the type maps the C code builds (contiguous / vector / indexed with the blocklens[]
                                and indices[] of parsec_matrix_define_triangle); TLC proves them equal on the whole box
                                and prints every case of the box.
spec/Dist/MatrixTypesTrace.tla  one logged record per datatype really built: sel (offsets observed with MPI_Pack on a
                                marker buffer) = Selected(...), lb = 0, extent covers the tile.
harness/matrixtypes/mt_replay.c builds every case on the real parsec_matrix_define_datatype / _rectangle / _contiguous /
                                _triangle / parsec_matrix_adt_define_* and logs what MPI_Pack selects.
"""
import json
import os

from lib import mcgen, tlc, tracecheck

META = {
    "level": "model_checking",
    "text": "TLC enumerates the whole parameter box (m, n, ld, uplo, diag) of MatrixTypes.tla and proves that the "
            "contiguous/vector/indexed type maps computed as in matrixtypes.c equal the mathematical region in "
            "column-major order; every case of the box is then built with the real parsec_matrix_define_datatype (and the "
            "direct rectangle/contiguous/triangle entry points and arena shorthands), MPI_Pack of a marker buffer reveals "
            "the selected element offsets and their order, and TLC validates each logged record (offsets = Selected, "
            "lb = 0, extent covers the tile) against MatrixTypesTrace.tla.",
    "note": "Exhaustive for m, n in 1..8 (quick) / 1..12 (thorough), ld in m..m+3, diag in {0,1}, uplo in "
            "{full, upper, lower}, element types int and double, resize none / ld*n / ld*n+3. Trusted: TLC, MPI_Pack/"
            "MPI_Type_get_extent of the MPI library as the observer of a datatype's type map.",
    "technique": "TLA+ function-style spec (TLC exhaustive box, model = property) + every case replayed on real code + "
                 "record-by-record trace validation",
}


def case_line(c):
    return "%s %d %d %d %d" % (c["uplo"], c["diag"], c["m"], c["n"], c["ld"])


def run(ctx):
    d = ctx.stage("Dist")
    exe = ctx.harness("mt_replay", ["harness/matrixtypes/mt_replay.c"])
    mx = 8 if ctx.quick else 12
    mod, cfg = mcgen.write_mc(d, "mtbox", "MatrixTypes", {"MaxM": mx, "MaxN": mx, "MaxPad": 3},
                              invariants=("ImplSelectsRegion", "SelectedShape", "ImplExtentCovers", "TrianglesPartition",
                                          "Emit"))
    r = ctx.tlc_check(d, mod, cfg, must_cover=("DefineFull", "DefineUpper", "DefineLower"), workers=2, timeout=1200)
    cases = []
    for l in r.printed:
        c = tlc._parse_tla_string_list(l)
        if c:
            cases.append(c)
    expect = mx * mx * 4 * 5
    if len(cases) != expect:
        raise tlc.TLCError("expected %d cases from the box, TLC printed %d" % (expect, len(cases)))
    cases.sort(key=lambda c: (c["uplo"], c["diag"], c["m"], c["n"], c["ld"]))
    ctx.exhaustive = True
    ctx.extra["cases"] = len(cases)
    cp = os.path.join(ctx.scratch, "cases.txt")
    with open(cp, "w") as f:
        for c in cases:
            f.write(case_line(c) + "\n")
    tr = os.path.join(ctx.scratch, "mt.ndjson")
    rc, out, err = ctx.run_cmd([exe, cp, tr], timeout=600)
    exs = tracecheck.split_executions(tracecheck.read_ndjson(tr)) if os.path.exists(tr) else []
    exs = [e for e in exs if e]
    if rc != 0:
        # the harness died inside the real code: the record being produced is the failing one
        last = exs[-1][0] if exs else {}
        exs.append([{"e": "Crash", "rc": str(rc), "after": {k: v for k, v in last.items() if k != "sel"},
                     "stderr": err[-400:]}])
    ctx.evaluations = len(exs)
    ctx.extra["records"] = len(exs)
    if exs:
        ctx.sample({"case": case_line(cases[0]), "record": exs[0][0]})
        mid = [e for e in exs if e[0].get("uplo") == "lower" and e[0].get("m", 0) >= 4 and e[0].get("n", 0) >= 3]
        if mid:
            ctx.sample({"record": mid[0][0]})
    # first the model-level spec (Exact = TRUE: property + the exact extent the model of the code predicts); whatever it
    # accepts is accepted by the property-level spec too.  Only when it rejects something is the property-level spec
    # consulted: rejected there = violation, accepted there = divergence (model and code disagree within the property).
    dv = ctx.validate("Dist", "MatrixTypesTrace", "MatrixTypesTraceExact.cfg", exs, batch=2000, timeout=1200)
    if dv:
        ctx.traces -= len(exs)      # same executions validated twice: count them once
        fails = ctx.validate("Dist", "MatrixTypesTrace", "MatrixTypesTrace.cfg", exs, batch=2000, timeout=1200)
        for f in fails:
            ctx.violation("datatype built by matrixtypes.c does not select the mathematical region / extent does not "
                          "cover the tile: %s" % json.dumps(f.describe())[:1500],
                          {"events": f.execution, "detail": f.describe()})
        if not fails:
            for f in dv:
                ctx.divergences += 1
                ctx.sample({"divergence": f.describe()}, limit=5)
    ctx.assume("MPI_Pack visits the elements of a datatype in type-map order (MPI standard) and is the observer of the "
               "selection")


def replay(ctx, obj):
    for f in ctx.validate("Dist", "MatrixTypesTrace", "MatrixTypesTrace.cfg", [obj["events"]]):
        ctx.violation("recorded trace still rejected: %s" % json.dumps(f.describe())[:1000], obj)
