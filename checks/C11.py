"""C11  Four-counter distributed termination is safe and live.

spec/Termdet/FourCounter.tla       the protocol of termdet_fourcounter_module.c (states, counters, accumulators, UP/DOWN
                                   waves over FIFO channels, delayed messages, root decision) with its environment
spec/Termdet/FourCounterSim.tla    the same next-state relation with a history variable (TLC -simulate behaviours)
spec/Termdet/FourCounterTrace.tla  property-level validation of what the real module did on N virtual ranks

1. TLC, exhaustive: N = 2, 3 (thorough: 4) processes, <= 2 application messages, <= 2 spawned tasks, every interleaving
   of workload changes, message sends / receives and control-message deliveries: safety (Safe, CbOnce, none of the
   module's asserts) and liveness (AllTerm, Agreement) under per-action weak fairness.  Sensitivity self-test: the root
   decision without the last_acc_* equality must violate Safe.
2. Environment replay: TLC -simulate behaviours (quick >= 300, thorough >= 2000; N = 2..4, 5 in thorough) are played
   into N virtual ranks of the real module (harness/fourcounter/fc_replay.c); after each behaviour the harness makes
   the system quiet and delivers control messages fairly, bounded.  Per step the real taskpool_state / callback counts
   are compared with the model's prediction (divergences).
3. Verdict by TLC (FourCounterTrace): a termination callback is accepted only while every process is idle and no
   application message is in transit; at the end every process must have declared termination exactly once.
"""
import json
import os

from lib import mcgen, tlc, tracecheck

META = {
    "level": "model_checking",
    "text": "TLC checks the four-counter wave protocol (as coded: states, counters, accumulators, delayed messages, root "
            "decision on two equal consecutive waves) exhaustively for 2-3 processes (4 in thorough) for safety and, under "
            "per-action weak fairness, liveness; TLC-generated behaviours are then played as the environment of N virtual "
            "ranks of the real module (real taskpool_ready/addto_*/outgoing/incoming_message_*/msg_dispatch, recorded "
            "send_am) and TLC validates each recorded execution: no termination callback while a process has work or an "
            "application message is unreceived, and every process terminates once the system is quiet.",
    "note": "Model bounds: <= 2 application messages, <= 2 spawned tasks, FIFO control channels.  Liveness on the real code "
            "is bounded (fair round-robin delivery, <= 80 N + 40 deliveries after quiescence).  One harness thread: the "
            "intra-process races of the module (atomic counters outside the rwlock) are not explored.  Asserts compiled out. "
            "Real dynamic-termdet MPI programs are not run here.  Trusted: TLC, the virtual-rank harness.",
    "technique": "TLA+ protocol model (TLC safety + liveness) + environment replay of TLC behaviours on virtual ranks + "
                 "trace validation (TLC)",
}

ACTIONS = ("TaskpoolReady", "Spawn", "TaskDone", "ActionDone", "SendApp", "RecvStart", "RecvEnd", "MsgUp", "MsgDown", "MsgDelay")
STATE_CODE = {"NR": 1, "BWC": 2, "BWP": 2, "IWC": 3, "IWP": 3, "TERM": 4}     # parsec_termdet_taskpool_state_t
JVM_ENV = {"JAVA_TOOL_OPTIONS": "-Xss16m"}


def consts(n, variant="code", msgs=2, spawn=2):
    return {"N": n, "MaxMsgs": msgs, "MaxSpawn": spawn, "Variant": variant}


def to_line(n, h):
    return "%d;" % n + ";".join("%s %d %d" % (s["a"], s["r"], s["q"]) for s in h)


def replay_behaviours(ctx, exe, items, tag):
    """items: list of (n, hist).  Returns (executions, metas)."""
    bf = os.path.join(ctx.scratch, "fc-%s.txt" % tag)
    with open(bf, "w") as f:
        for n, h in items:
            f.write(to_line(n, h) + "\n")
    tr = os.path.join(ctx.scratch, "fc-%s.ndjson" % tag)
    mt = os.path.join(ctx.scratch, "fc-%s.meta" % tag)
    rc, out, err = ctx.run_cmd([exe, bf, tr, mt], timeout=900)
    exs = tracecheck.split_executions(tracecheck.read_ndjson(tr)) if os.path.exists(tr) else []
    metas = [json.loads(l) for l in open(mt) if l.strip().endswith("}")] if os.path.exists(mt) else []
    if rc != 0 or len(exs) != len(items):
        k = max(min(len(exs), len(items)) - 1, 0)
        exs = exs[:k] + [[{"e": "Crash", "rc": str(rc), "behaviour": to_line(*items[k]), "stderr": err[-300:]}]]
    return exs, metas


def rejected_once(ctx, sub, module, cfg, events, env=None):
    """One TLC run: is this single (corrupted) execution rejected ?  (binding self-test)"""
    p = os.path.join(ctx.scratch, "selftest.ndjson")
    with open(p, "w") as f:
        for ev in events:
            f.write(json.dumps(ev, separators=(",", ":")) + "\n")
    v, r = tracecheck.validate_file(ctx.spec(sub), module, cfg, p, env=env)
    ctx.extra["trace_tlc_runs"] = ctx.extra.get("trace_tlc_runs", 0) + 1
    return not v.accepted


def run(ctx):
    d = ctx.stage("Termdet")
    exe = ctx.harness("fc_replay", ["harness/fourcounter/fc_replay.c"])
    invs = ("TypeOK", "Safe", "Sticky", "CbOnce", "NoAssert")

    # ---- 1. the protocol model: safety + liveness, exhaustive -------------------------------------------------------------
    for n in ((2, 3) if ctx.quick else (1, 2, 3, 4)):
        mod, cfg = mcgen.write_mc(d, "fc%d" % n, "FourCounter", consts(n), spec="FairSpec", invariants=invs,
                                  properties=("AllTerm", "Agreement"))
        cover = ACTIONS if n >= 3 else ()
        ctx.tlc_check(d, mod, cfg, must_cover=cover, workers=2, timeout=3000, heap="6g")
    ctx.exhaustive = True
    # sensitivity self-test: with a root decision that ignores the last_acc_* equality the model must violate Safe; the
    # shortest unsafe behaviour TLC finds is kept as a DIRECTED behaviour for the replay on the real code
    c = consts(2, "nolast")
    c["MaxLen"] = 60
    mod, cfg = mcgen.write_mc(d, "fc_nolast", "FourCounterSim", c, spec="SimSpec", invariants=("EmitUnsafe", "Safe"), view="vars")
    r = ctx.tlc_check(d, mod, cfg, expect_ok=False, workers=1)
    if r.violated != "Safe":
        raise tlc.TLCError("sensitivity self-test: a root decision without the last_acc_* equality must violate Safe, got %r" % r.violated)
    directed = [(2, h) for h in (tlc._parse_tla_string_list(l) for l in r.printed) if h]
    if not directed:
        raise tlc.TLCError("sensitivity self-test: no unsafe behaviour was printed")
    directed = directed[:1]

    # ---- 2. behaviours -> environment replay on the real module ----------------------------------------------------------------
    plan = [(3, 260, 40), (4, 160, 48)] if ctx.quick else [(2, 400, 32), (3, 1200, 44), (4, 900, 56), (5, 300, 64)]
    items = list(directed)
    for n, num, depth in plan:
        c = consts(n)
        c["MaxLen"] = depth
        mod, cfg = mcgen.write_mc(d, "fcsim%d" % n, "FourCounterSim", c, spec="SimSpec", invariants=("Safe", "NoAssert", "Emit"))
        hs = ctx.tlc_histories(d, mod, cfg, num, depth + 1, workers=2, timeout=900)
        items.extend((n, h) for h in hs)
    items.append((1, [{"a": "Ready", "r": 0, "q": -1, "st": ["BWC"], "cb": [0]}, {"a": "ActionDone", "r": 0, "q": -1, "st": ["TERM"], "cb": [1]}]))
    ctx.extra["behaviours"] = len(items)
    exs, metas = replay_behaviours(ctx, exe, items, "sim")
    ctx.evaluations = len(exs)
    for i, ((n, h), m) in enumerate(zip(items, metas)):
        if i < len(directed):
            continue          # predicted by the weakened model on purpose: judged by the trace specification only
        want = [[STATE_CODE[x] for x in s["st"]] + list(s["cb"]) for s in h]
        ok = (m.get("diverged") == 0 and m.get("obs") == want and m.get("fin") and
              m["fin"][-1] == [4] * n + [1] * n)
        if not ok:
            ctx.divergences += 1
            k = next((j for j, (a, b) in enumerate(zip(m.get("obs", []), want)) if a != b), None)
            ctx.sample({"divergence": {"behaviour": to_line(n, h), "first_different_step": k,
                                       "model": want[k] if k is not None else None,
                                       "real": m["obs"][k] if k is not None else m.get("fin")}}, limit=6)
    if exs:
        ctx.sample({"directed_behaviour": to_line(*items[0]), "events": exs[0]})
        ctx.sample({"behaviour": to_line(*items[-2]), "events": exs[-2], "control_messages": metas[-2].get("ctl") if len(metas) > 1 else None})

    # ---- 3. verdict ---------------------------------------------------------------------------------------------------------------------
    fails = ctx.validate("Termdet", "FourCounterTrace", "FourCounterTrace.cfg", exs, batch=3000, env=JVM_ENV, timeout=1500)
    for f in fails:
        i = f.index
        ctx.violation("four-counter termination: termination declared while a process had work / a message was unreceived, or "
                      "not declared after quiescence: %s" % json.dumps(f.describe())[:1200],
                      {"line": to_line(*items[i]) if i < len(items) else None, "events": f.execution})
    # ---- binding self-test: an application message that is never received must make the next `term` unacceptable ------------------
    cand = [e for e in exs if any(ev.get("e") == "recvend" for ev in e) and e[-1].get("e") == "end"]
    if cand and not ctx.violations:
        ex = list(cand[0])
        k = max(j for j, ev in enumerate(ex) if ev.get("e") == "recvend")
        if not rejected_once(ctx, "Termdet", "FourCounterTrace", "FourCounterTrace.cfg", ex[:k] + ex[k + 1:], JVM_ENV):
            raise tlc.TLCError("binding self-test: a trace without the last recvend was accepted by FourCounterTrace")
    ctx.assume("taskpool_ready is called while the process holds a pending action (runtime start-up action)")
    ctx.assume("control channels are FIFO per (source, destination); application messages may be delayed arbitrarily")
    ctx.assume("a receive is incoming_message_start, later addto_runtime_actions(+1) + incoming_message_end (remote_dep_release_incoming)")


def replay(ctx, obj):
    exe = ctx.harness("fc_replay", ["harness/fourcounter/fc_replay.c"])
    if obj.get("line"):
        toks = obj["line"].split(";")
        h = [{"a": t.split()[0], "r": int(t.split()[1]), "q": int(t.split()[2])} for t in toks[1:]]
        exs, _ = replay_behaviours(ctx, exe, [(int(toks[0]), h)], "replay")
    else:
        exs = [obj["events"]]
    for f in ctx.validate("Termdet", "FourCounterTrace", "FourCounterTrace.cfg", exs, env=JVM_ENV):
        ctx.violation("still rejected: %s" % json.dumps(f.describe())[:1000], obj)
