"""C11  Four-counter distributed termination is safe and live.

spec/Termdet/FourCounter.tla       the protocol of termdet_fourcounter_module.c (states, counters, accumulators, UP/DOWN
                                   waves over FIFO channels, delayed messages, root decision) with its environment;
                                   `variant` weakens one clause of the module at a time (sensitivity / directed behaviours)
spec/Termdet/FourCounterSim.tla    the same next-state relation with a history variable (TLC -simulate behaviours, and the
                                   shortest unsafe / stranded behaviour of every weakened variant)
spec/Termdet/FourCounterTrace.tla  property-level validation of what the real module did on N virtual ranks

1. TLC, exhaustive: N = 2, 3 (thorough: 1..4) processes, <= 2 application messages, <= 2 spawned tasks, every interleaving
   of workload changes, message sends / receives (a reception may release tasks piecewise and may complete with a
   flying-message action or with a released task) and control-message deliveries: safety (Safe, CbOnce, none of the
   module's asserts, NoStrand) and liveness (AllTerm, Agreement) under per-action weak fairness.
2. Transition coverage on the real module: the complete state graphs for N = 2 and N = 3 (thorough: also N = 4 with <= 2
   messages / 1 spawned task and N = 5 with 1 / 1) (TLC -dump) are handed to
   harness/fourcounter/fc_replay.c, which executes EVERY transition of the graph on N virtual ranks of the real module
   from the state reached by the shortest path, compares the observable state of the real ranks (taskpool_state,
   callbacks, nb_tasks / nb_pending_actions, every queued control message with its payload, parked messages) with the
   target state of the model, then drives the system to quiescence and requires every rank to terminate exactly once.
3. Directed behaviours: for each weakened variant of the model (a conjunct of the root decision, a branch of
   check_state_workload_changed / check_state_message_received, a disjunct of the addto_* slow-path tests, ... dropped) TLC
   produces the shortest behaviour that ends unsafe or stranded; each one is replayed on the real code in every run.
4. Environment replay of TLC -simulate behaviours for N = 4 (thorough: 2..5).
5. Verdict by TLC (FourCounterTrace): a termination callback is accepted only while every process is idle and no
   application message is in transit; at the end every process must have declared termination exactly once.
"""
import json
import os
import re

from lib import mcgen, tlc, tracecheck

META = {
    "level": "model_checking",
    "text": "TLC checks the four-counter wave protocol (as coded: states, counters, accumulators, delayed messages, root "
            "decision on two equal consecutive waves) exhaustively for 2-3 processes (4 in thorough) for safety and, under "
            "per-action weak fairness, liveness.  Every transition of the complete 2- and 3-process state graphs is then "
            "executed on N virtual ranks of the real module (real taskpool_ready/addto_*/outgoing/incoming_message_*/"
            "msg_dispatch, recorded send_am) from the state reached by the shortest path, with the observable state of the "
            "real ranks compared to the model after every step, followed by a drive to quiescence; the shortest unsafe / "
            "stranded behaviours of 16 weakened variants of the model and simulated 4-process behaviours are replayed too.  "
            "TLC validates the recorded executions: no termination callback while a process has work or an application "
            "message is unreceived, and every process terminates exactly once when the system is quiet.",
    "note": "Model bounds: <= 2 application messages, <= 2 spawned tasks, FIFO control channels.  Transition coverage: all "
            "transitions of the N = 2 and N = 3 graphs (thorough: also N = 4 with 2 messages / 1 task and N = 5 with 1 / 1) are "
            "executed and compared in the harness; trace validation by TLC "
            "covers every execution the harness flags (state mismatch, callback in a non-quiet system, not terminated at the "
            "end; capped at 2 x 150 per graph) plus a seeded sample (~400) of the others plus all directed and simulated "
            "behaviours - for the unsampled rest the (equally simple) oracle inside the harness is trusted.  The harness "
            "restores the saved state of the virtual ranks (monitor bytes, counters, channels) instead of re-executing the "
            "deterministic prefix of each transition.  Liveness on the real code is bounded (fair round-robin delivery, "
            "<= 80 N + 40 deliveries after quiescence).  One harness thread: the intra-process races of the module (atomic "
            "counters outside the rwlock) are not explored.  Asserts compiled out.  Real dynamic-termdet MPI programs are "
            "not run here.  Trusted: TLC, the virtual-rank harness.",
    "technique": "TLA+ protocol model (TLC safety + liveness) + transition coverage of the model's state graph on virtual "
                 "ranks of the real module + directed behaviours from weakened models + trace validation (TLC)",
}

ACTIONS = ("TaskpoolReady", "Spawn", "TaskDone", "ActionDone", "SendApp", "RecvStart", "RecvEnd", "RecvEndTask", "MsgUp",
           "MsgDown", "MsgDelay")
STATE_CODE = {"NR": 1, "BWC": 2, "BWP": 2, "IWC": 3, "IWP": 3, "TERM": 4}     # parsec_termdet_taskpool_state_t
JVM_ENV = {"JAVA_TOOL_OPTIONS": "-Xss16m"}
INVS = ("TypeOK", "Safe", "Sticky", "CbOnce", "NoAssert", "BusyShown", "NoStrand")
# weakened variants of the model: expected kind of the shortest bad behaviour (sensitivity self-test) -----------------------------
VARIANTS_N2 = {"nolast": "unsafe", "nolastR": "unsafe", "noeq": "unsafe", "su_noleft": "strand", "wc_noBWP": "strand",
               "wc_noBWC": "strand", "wc_noIWC": "strand", "wc_noIWP": "strand", "wc_nosend": "strand", "nt_nozero": "strand",
               "nt_noret": "strand", "pa_nozero": "strand", "pa_noret": "strand", "up_nocheck": "strand",
               "down_nocheck": "strand"}
VARIANTS_N3 = {"mr_noleft": "unsafe"}                                         # needs two children
VARIANTS_N4 = {"down_nofwd": "strand"}                                        # needs a grandchild (thorough; no messages, no tasks)
# harness op codes (fc_replay.c) ----------------------------------------------------------------------------------------------------
OPS = {"TaskpoolReady": 0, "Spawn": 1, "TaskDone": 2, "ActionDone": 3, "SendApp": 4, "RecvStart": 5, "RecvEnd": 6,
       "RecvEndTask": 7, "MsgUp": 8, "MsgDown": 9, "MsgDelay": 10}
OP_NAMES = ["Ready", "Spawn", "TaskDone", "ActionDone", "SendApp", "RecvStart", "RecvEnd", "RecvEndTask", "MsgUp", "MsgDown",
            "MsgDelay"]
MAX_FLAGGED = 150
GRAPHS_THOROUGH = ((4, 2, 1), (5, 1, 1))   # (N, MaxMsgs, MaxSpawn) graphs (~81k and ~65k states) besides N = 2, 3 with (2, 2)


def consts(n, variants=("code",), msgs=2, spawn=2):
    return {"N": n, "MaxMsgs": msgs, "MaxSpawn": spawn, "Variants": set(variants)}


def to_line(n, h):
    return "%d;" % n + ";".join("%s %d %d" % (s["a"], s["r"], s["q"]) for s in h)


# ---- state graph: TLC -dump dot -> compact text for the harness ---------------------------------------------------------------------
_RE_LABEL = re.compile(r'^(\w+)\((\d+)(?:, ?(\d+))?\)$')
_RE_PAIR = re.compile(r'<<(\d+), (\d+)>> :> ')
_RE_REC = re.compile(r'\[([^\]]*)\]')
_RE_FLD = re.compile(r'(\w+) \|-> (\\"\w+\\"|\w+)')
_RE_INTS = re.compile(r':> (-?\d+)')
_RE_STR = re.compile(r':> \\"(\w+)\\"')
_RE_SEQ = re.compile(r':> <<(.*?)>>(?= @@|\s*\))')


def _var(lab, name):
    """raw text of variable `name` in a dot state label (/\\ a = ...\\n/\\ b = ...)."""
    key = "/\\\\ %s = " % name
    i = lab.find(key)
    if i < 0:
        raise tlc.TLCError("state label without variable %s: %s" % (name, lab[:200]))
    i += len(key)
    j = lab.find("\\n/\\\\ ", i)
    return lab[i:] if j < 0 else lab[i:j]


def obs_of_label(lab):
    """Observable state of a model state, in the text format of real_obs() in fc_replay.c:
       states|callbacks|nb_tasks|nb_pending_actions|in flight|being received|parked|p>q:U<s>.<r>,D<res>;..."""
    ints = lambda k: ",".join(_RE_INTS.findall(_var(lab, k)))
    st = ",".join(str(STATE_CODE[x]) for x in _RE_STR.findall(_var(lab, "st")))
    dv = _var(lab, "delayed")
    dl = ",".join(str(x.count("[")) for x in _RE_SEQ.findall(dv)) if "[" in dv else ",".join("0" for _ in _RE_SEQ.findall(dv))
    ch = ""
    ctl = _var(lab, "ctl")
    if "[" in ctl:
        ps = list(_RE_PAIR.finditer(ctl))
        for i, m in enumerate(ps):
            seg = ctl[m.end():ps[i + 1].start() if i + 1 < len(ps) else len(ctl)]
            if "[" not in seg:
                continue
            items = []
            for rec in _RE_REC.findall(seg):
                f = dict(_RE_FLD.findall(rec))
                items.append("U%s.%s" % (f["s"], f["r"]) if "UP" in f["t"] else "D%d" % (1 if f["res"] == "TRUE" else 0))
            ch += "%s>%s:%s;" % (m.group(1), m.group(2), ",".join(items))
    return "|".join((st, ints("cb"), ints("tasks"), ints("pa"), ints("flight"), ints("started"), dl, ch))


def load_dot(path):
    """Streaming parser of TLC's dot dump (the generic lib/tlc.dump_graph is too slow for 150 MB).
       Returns (observable state by node index, edges [(src, dst, op, a, b)] sorted by src, index of the initial state)."""
    ids, obs, raw, init = {}, [], [], None
    with open(path, encoding="latin-1") as f:
        for line in f:
            if line[-3:-1] == "];":
                p = line.split(" ", 3)
                if len(p) == 4 and p[1] == "->":                     # <src> -> <dst> [label="Op(a,b)",color=...];
                    raw.append((p[0], p[2], p[3][8:p[3].index('"', 8)]))
                    continue
            i = line.find(' [label="')
            if i <= 0:
                continue
            nid = line[:i]
            j = line.find('",tooltip="', i)
            if j < 0:
                j = line.find('",style = filled]', i)
                if j >= 0:
                    init = nid
                else:
                    j = line.rfind('"]')
            if nid not in ids:
                ids[nid] = len(obs)
                obs.append(obs_of_label(line[i + 9:j]))
    if init is None or not raw:
        raise tlc.TLCError("state graph dump %s has no initial state / no edge" % path)
    edges = []
    for a, b, lab in raw:
        m = _RE_LABEL.match(lab)
        if not m or m.group(1) not in OPS or a not in ids or b not in ids:
            raise tlc.TLCError("unexpected edge in the state graph dump: %r" % ((a, b, lab),))
        edges.append((ids[a], ids[b], OPS[m.group(1)], int(m.group(2)), int(m.group(3)) if m.group(3) is not None else -1))
    edges.sort(key=lambda e: e[0])               # stable: the harness (counting sort by source) keeps exactly this order
    return obs, edges, ids[init]


def check_and_dump(ctx, d, n, cover, msgs=2, spawn=2):
    """One TLC run: exhaustive safety + liveness AND the dump of the complete state graph (per-action coverage from it)."""
    tag = "fc%d_%d_%d" % (n, msgs, spawn)
    mod, cfg = mcgen.write_mc(d, tag, "FourCounter", consts(n, msgs=msgs, spawn=spawn), spec="FairSpec", invariants=INVS,
                              properties=("AllTerm", "Agreement"))
    dot = os.path.join(ctx.scratch, tag + "-graph")
    r = tlc.run(d, mod, cfg, workers=2 if n >= 3 else 1, timeout=3000, heap="6g", args=["-dump", "dot,actionlabels", dot])
    ctx.states += r.distinct
    ctx.transitions += r.generated
    if os.path.exists(dot + "_liveness.dot"):        # (TLC also dumps its liveness graph: not used, and big)
        os.unlink(dot + "_liveness.dot")
    if not r.ok:
        raise tlc.TLCError("specification FourCounter (N = %d) does not satisfy its own properties (%s); this is a model "
                           "failure, not a verdict about the code\n%s" % (n, r.violated, r.out[-2500:]))
    obs, edges, init = load_dot(dot + ".dot")
    os.unlink(dot + ".dot")
    if len(obs) != r.distinct:
        raise tlc.TLCError("state graph dump has %d nodes, TLC found %d distinct states" % (len(obs), r.distinct))
    taken = {}                                   # vacuity guard: transitions per action, counted on the dumped graph
    for e in edges:
        taken[e[2]] = taken.get(e[2], 0) + 1
    for a in cover:
        if not taken.get(OPS[a]):
            raise tlc.TLCError("vacuity guard: action %s of FourCounter never taken for N = %d" % (a, n))
    ctx.models.append({"module": mod, "cfg": cfg, "distinct": r.distinct, "generated": r.generated, "depth": r.depth,
                       "wall_s": round(r.wall, 1), "graph": True, "coverage": {a: taken.get(OPS[a], 0) for a in ACTIONS}})
    return obs, edges, init


def directed_behaviours(ctx, d, n, expected, msgs=2, spawn=2):
    """Shortest unsafe / stranded behaviour of each weakened variant, all variants in ONE breadth-first TLC run."""
    c = consts(n, expected.keys(), msgs, spawn)
    c["MaxLen"] = 40
    mod, cfg = mcgen.write_mc(d, "fc_variants%d" % n, "FourCounterSim", c, spec="SimSpec", invariants=("EmitBad", "AllServed"),
                              constraints=("Unserved",), view="vars", extra_defs="ASSUME TLCSet(1, {})")
    r = ctx.tlc_check(d, mod, cfg, expect_ok=False, workers=1, timeout=3000, heap="6g")
    got = {}
    for l in r.printed:
        o = tlc._parse_tla_string_list(l)
        if o and o.get("variant") not in got:
            got[o["variant"]] = o
    for v, kind in expected.items():
        if v not in got or got[v]["kind"] != kind or not got[v]["hist"]:
            raise tlc.TLCError("sensitivity self-test: the weakened variant %s of the model must have a %s behaviour for N = %d, "
                               "got %r" % (v, kind, n, got.get(v, {}).get("kind")))
    if r.violated != "AllServed":
        raise tlc.TLCError("directed behaviours: TLC stopped with %r instead of AllServed" % r.violated)
    return [(n, got[v]["hist"], v, got[v]["kind"]) for v in sorted(expected)]


def replay_behaviours(ctx, exe, items, tag):
    """items: list of (n, hist).  Returns (executions, metas)."""
    bf = os.path.join(ctx.scratch, "fc-%s.txt" % tag)
    with open(bf, "w") as f:
        for n, h in items:
            f.write(to_line(n, h) + "\n")
    tr = os.path.join(ctx.scratch, "fc-%s.ndjson" % tag)
    mt = os.path.join(ctx.scratch, "fc-%s.meta" % tag)
    rc, out, err = ctx.run_cmd([exe, bf, tr, mt], timeout=900)
    if rc == 3:
        raise tlc.TLCError("fc_replay: input error (%s)" % err[-300:])
    exs = tracecheck.split_executions(tracecheck.read_ndjson(tr)) if os.path.exists(tr) else []
    metas = [json.loads(l) for l in open(mt) if l.strip().endswith("}")] if os.path.exists(mt) else []
    if rc != 0 or len(exs) != len(items):
        k = max(min(len(exs), len(items)) - 1, 0)
        exs = exs[:k] + [[{"e": "Crash", "rc": str(rc), "behaviour": to_line(*items[k]), "stderr": err[-300:]}]]
    return exs, metas


def replay_graph(ctx, exe, n, labels, edges, init, sample):
    """Transition coverage of one state graph on the real module.  Returns (executions, replay lines, summary)."""
    gf = os.path.join(ctx.scratch, "fc-graph%d.txt" % n)
    with open(gf, "w") as f:
        f.write("G %d %d %d %d\n" % (n, len(labels), len(edges), init))
        f.write("".join("n %s\n" % o for o in labels))
        f.write("".join("e %d %d %d %d %d\n" % e for e in edges))
    tr = os.path.join(ctx.scratch, "fc-graph%d.ndjson" % n)
    mt = os.path.join(ctx.scratch, "fc-graph%d.meta" % n)
    rc, out, err = ctx.run_cmd([exe, "-g", gf, tr, mt, str(ctx.seed), str(sample), str(MAX_FLAGGED)], timeout=1800)
    if rc == 3:
        raise tlc.TLCError("fc_replay -g: input error (%s)" % err[-300:])
    exs = tracecheck.split_executions(tracecheck.read_ndjson(tr)) if os.path.exists(tr) and os.path.getsize(tr) else []
    allm = [json.loads(l) for l in open(mt) if l.strip().endswith("}")] if os.path.exists(mt) else []
    summary = allm.pop() if allm and allm[-1].get("summary") else None
    metas = [m for m in allm if m.get("edge", -1) >= 0]                    # one per written execution, in order
    root_mismatch = [m for m in allm if m.get("edge", -1) < 0]             # (the initial state itself differs)
    lines = ["%d;" % n + ";".join("%s %d %d" % (OP_NAMES[edges[e][2]], edges[e][3], edges[e][4]) for e in m["path"]) for m in metas]
    if rc != 0 or summary is None or len(exs) != len(metas):
        # the real code died (or hung) in the middle of the walk: a crash of the real code in a legal scenario
        k = min(len(exs), len(metas))
        exs, metas, lines = exs[:k], metas[:k], lines[:k]
        exs.append([{"e": "Crash", "rc": str(rc), "graph": n, "stderr": err[-300:]}])
        metas.append({"edge": -1, "crash": True})
        lines.append(None)
        summary = summary or {"crash": True, "mismatch": 0, "illegal": 0, "badexec": 0, "executed_edges": 0,
                              "nodes": len(labels), "edges": len(edges)}
    if root_mismatch:
        summary["root_mismatch"] = root_mismatch[0]
    os.unlink(gf)
    return exs, lines, metas, summary


def rejected_once(ctx, sub, module, cfg, events, env=None):
    """One TLC run: is this single (corrupted) execution rejected ?  (binding self-test)"""
    p = os.path.join(ctx.scratch, "selftest.ndjson")
    with open(p, "w") as f:
        for ev in events:
            f.write(json.dumps(ev, separators=(",", ":")) + "\n")
    v, r = tracecheck.validate_file(ctx.spec(sub), module, cfg, p, env=env)
    ctx.extra["trace_tlc_runs"] = ctx.extra.get("trace_tlc_runs", 0) + 1
    return not v.accepted


def run(ctx):
    d = ctx.stage("Termdet")
    exe = ctx.harness("fc_replay", ["harness/fourcounter/fc_replay.c"])

    # ---- 1. the protocol model: safety + liveness, exhaustive; the complete state graphs for N = 2, 3 --------------------------------
    graphs = {}
    for n in ((2, 3) if ctx.quick else (1, 2, 3, 4)):
        if n in (2, 3):
            graphs[(n, 2, 2)] = check_and_dump(ctx, d, n, ACTIONS if n == 3 else ())
        else:
            mod, cfg = mcgen.write_mc(d, "fc%d" % n, "FourCounter", consts(n), spec="FairSpec", invariants=INVS,
                                      properties=("AllTerm", "Agreement"))
            ctx.tlc_check(d, mod, cfg, workers=2, timeout=3000, heap="6g")
    if not ctx.quick:                     # smaller bounds, more processes (a process with a parent AND children): graphs too
        for n, msgs, spawn in GRAPHS_THOROUGH:
            graphs[(n, msgs, spawn)] = check_and_dump(ctx, d, n, (), msgs, spawn)
    ctx.exhaustive = True

    # ---- 2. directed behaviours: the shortest unsafe / stranded behaviour of every weakened variant of the model ----------------------
    # (also the sensitivity self-test of the model: each weakening must be noticed by Safe / NoStrand)
    directed = directed_behaviours(ctx, d, 2, VARIANTS_N2) + directed_behaviours(ctx, d, 3, VARIANTS_N3)
    if not ctx.quick:
        directed += directed_behaviours(ctx, d, 4, VARIANTS_N4, msgs=0, spawn=0)
    ctx.extra["directed_variants"] = {v: "%s after %d steps (N = %d)" % (k, len(h), n) for n, h, v, k in directed}

    # ---- 3. behaviours -> environment replay on the real module ---------------------------------------------------------------------
    plan = [(4, 120, 48)] if ctx.quick else [(2, 400, 32), (3, 1200, 44), (4, 900, 56), (5, 300, 64)]
    items = [(n, h) for n, h, _, _ in directed]
    for n, num, depth in plan:
        c = consts(n)
        c["MaxLen"] = depth
        mod, cfg = mcgen.write_mc(d, "fcsim%d" % n, "FourCounterSim", c, spec="SimSpec", invariants=("Safe", "NoAssert", "Emit"))
        hs = ctx.tlc_histories(d, mod, cfg, num, depth + 1, workers=2, timeout=900)
        items.extend((n, h) for h in hs)
    items.append((1, [{"a": "Ready", "r": 0, "q": -1, "st": ["BWC"], "cb": [0]}, {"a": "ActionDone", "r": 0, "q": -1, "st": ["TERM"], "cb": [1]}]))
    ctx.extra["behaviours"] = len(items)
    exs, metas = replay_behaviours(ctx, exe, items, "sim")
    lines = [to_line(n, h) for n, h in items]
    # what the (simple) oracle inside the harness thinks of each execution: 2 = a callback in a non-quiet system / not everybody
    # terminated / crash, 1 = the real state differs from the model, 0 = nothing.  Only used to ORDER the trace validation.
    flags = [2 if (i >= len(metas) or metas[i].get("badterm") or metas[i].get("stuck") or exs[i][-1].get("e") == "Crash") else 0
             for i in range(len(exs))]
    for i, ((n, h), m) in enumerate(zip(items, metas)):
        if i < len(directed):
            continue          # predicted by a weakened model on purpose: judged by the trace specification only
        want = [[STATE_CODE[x] for x in s["st"]] + list(s["cb"]) for s in h]
        ok = (m.get("diverged") == 0 and m.get("obs") == want and m.get("fin") and
              m["fin"][-1] == [4] * n + [1] * n)
        if not ok:
            ctx.divergences += 1
            k = next((j for j, (a, b) in enumerate(zip(m.get("obs", []), want)) if a != b), None)
            ctx.sample({"divergence": {"behaviour": to_line(n, h), "first_different_step": k,
                                       "model": want[k] if k is not None else None,
                                       "real": m["obs"][k] if k is not None else m.get("fin")}}, limit=6)
    if exs:
        ctx.sample({"directed_behaviour": "%s: %s" % (directed[0][2], lines[0]), "events": exs[0]})
        ctx.sample({"behaviour": lines[-2], "events": exs[-2], "control_messages": metas[-2].get("ctl") if len(metas) > 1 else None})

    # ---- 4. transition coverage: every transition of the N = 2 and N = 3 graphs on the real module -------------------------------------
    cov = {}
    for key in sorted(graphs):
        n = key[0]
        labels, edges, init = graphs[key]
        target = 80 if n == 2 else (300 if ctx.quick else 1500)              # executions sampled for TLC besides the flagged ones
        gx, gl, gm, summ = replay_graph(ctx, exe, n, labels, edges, init, max(1, int(100000.0 * target / max(1, len(edges)))))
        cov["N=%d,msgs<=%d,tasks<=%d" % key] = {k: summ.get(k) for k in ("nodes", "edges", "visited_nodes", "executed_edges", "mismatch", "illegal",
                                                    "badexec", "emitted", "capped")}
        ndiv = (summ.get("mismatch") or 0) + (summ.get("illegal") or 0) + (1 if summ.get("root_mismatch") else 0)
        ctx.divergences += ndiv
        if not summ.get("crash") and summ.get("executed_edges") != len(edges) and not ndiv:
            raise tlc.TLCError("transition coverage N = %d: %r edges executed of %d without any divergence" %
                               (n, summ.get("executed_edges"), len(edges)))
        for m, line in zip(gm, gl):
            if m.get("mismatch") or m.get("illegal"):
                ctx.sample({"divergence": {"behaviour": line, "model_state_after_last_step": m.get("model"),
                                           "real_state_after_last_step": m.get("real"), "illegal_in_real_environment": m.get("illegal"),
                                           "termination_in_non_quiet_system": m.get("badterm"), "not_terminated": m.get("stuck")}},
                           limit=6)
        exs.extend(gx)
        lines.extend(gl)
        flags.extend(2 if (m.get("badterm") or m.get("stuck") or m.get("crash")) else 1 if (m.get("mismatch") or m.get("illegal")) else 0
                     for m in gm)
        graphs[key] = None
    ctx.extra["transition_coverage"] = cov
    ctx.evaluations = len(items) + sum((c.get("executed_edges") or 0) for c in cov.values())

    # ---- 5. verdict ---------------------------------------------------------------------------------------------------------------------
    seen, uex, uline, uflag = set(), [], [], []
    for e, l, fl in zip(exs, lines, flags):
        k = json.dumps(e, sort_keys=True)
        if k not in seen:
            seen.add(k)
            uex.append(e)
            uline.append(l)
            uflag.append(fl)
    ctx.extra["executions_recorded"] = len(exs)
    ctx.extra["executions_distinct"] = len(uex)

    def judge(idx, **kw):
        sub = [uex[i] for i in idx]
        for f in ctx.validate("Termdet", "FourCounterTrace", "FourCounterTrace.cfg", sub, env=JVM_ENV, timeout=1500, **kw):
            i = idx[f.index]
            ctx.violation("four-counter termination: termination declared while a process had work / a message was unreceived, or "
                          "not declared after quiescence: %s" % json.dumps(f.describe())[:1200],
                          {"line": uline[i], "events": f.execution})
    # the executions the harness oracle suspects first, one TLC run each (bounded: a broken module yields hundreds of them and
    # locating each rejected execution inside a big batch costs many TLC runs); once TLC has rejected some of them the other
    # suspects add nothing to the verdict and are left out, everything else is still validated
    bad = [i for i in range(len(uex)) if uflag[i] == 2]
    judge(bad[:2], batch=1, max_failures=2)
    rest = [i for i in range(len(uex)) if uflag[i] != 2]
    if ctx.violations:
        ctx.extra["suspect_executions_not_validated"] = len(bad) - len(bad[:2])
    else:
        rest = bad[2:] + rest
    judge(rest, batch=3000)
    # ---- binding self-test: an application message that is never received must make the next `term` unacceptable ------------------
    cand = [e for e in uex if any(ev.get("e") == "recvend" for ev in e) and e[-1].get("e") == "end"]
    if cand and not ctx.violations:
        ex = list(cand[0])
        k = max(j for j, ev in enumerate(ex) if ev.get("e") == "recvend")
        if not rejected_once(ctx, "Termdet", "FourCounterTrace", "FourCounterTrace.cfg", ex[:k] + ex[k + 1:], JVM_ENV):
            raise tlc.TLCError("binding self-test: a trace without the last recvend was accepted by FourCounterTrace")
    ctx.assume("taskpool_ready is called while the process holds a pending action (runtime start-up action)")
    ctx.assume("control channels are FIFO per (source, destination); application messages may be delayed arbitrarily")
    ctx.assume("a receive is incoming_message_start, later zero or more addto_nb_tasks(+1) (release_deps of the pieces that "
               "arrived), and finally either addto_runtime_actions(+1) + incoming_message_end (remote_dep_release_incoming of a PTG "
               "taskpool with collectives) or addto_nb_tasks(+1) + incoming_message_end (the completion releases a task, no "
               "flying-message action)")


def replay(ctx, obj):
    exe = ctx.harness("fc_replay", ["harness/fourcounter/fc_replay.c"])
    if obj.get("line"):
        toks = obj["line"].split(";")
        h = [{"a": t.split()[0], "r": int(t.split()[1]), "q": int(t.split()[2])} for t in toks[1:]]
        exs, _ = replay_behaviours(ctx, exe, [(int(toks[0]), h)], "replay")
    else:
        exs = [obj["events"]]
    for f in ctx.validate("Termdet", "FourCounterTrace", "FourCounterTrace.cfg", exs, env=JVM_ENV):
        ctx.violation("still rejected: %s" % json.dumps(f.describe())[:1000], obj)
