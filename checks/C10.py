"""C10  Local termination detection is exact.

spec/Termdet/Local.tla       abstract detector: ready flag, number of tasks, number of pending actions, Report (callback)
spec/Termdet/LocalImpl.tla   implementation-shaped model of termdet_local_module.c, one action per code segment between
                             two yield points of the hooked build; environment = fixed thread programs over load tokens
                             (usage contract E1/E2 of termdet.h, checked statically here and enforced by `take` waits)
spec/Termdet/LocalTrace.tla  property-level validation of recorded histories of the real module

1. TLC: Local satisfies CbOnce, NoEarly and (fair) Live; LocalImpl refines Local (PROPERTY Refines) and satisfies CbOnce,
   NoEarly, FinalOK (liveness half on finite programs), NoStuck for every scenario (hand-written: PTG-like, DTD-like,
   zero crossings, ready racing with the last release, load left over, never ready; plus seeded random programs);
   three seeded model defects must be detected.
2. The state graph of every scenario gives schedules (random maximal walks + one test per transition) replayed on
   the real module, driven through parsec_termdet_local_module.module.* on a private parsec_taskpool_t; callback count,
   final state and counters are compared with the model (divergences).
3. The harness' own explorer enumerates interleavings of the small scenarios on the real code; free-running stress
   with a monitoring thread sampling taskpool_state().
4. Verdict: every recorded history is validated by TLC against LocalTrace (linearizable w.r.t. Local.tla).
"""
import concurrent.futures
import json
import os
import re

from lib import mcgen, tlc, tracecheck

META = {
    "level": "model_checking",
    "text": "TLC proves that the implementation-shaped model of the local termination detector (fetch_add on the two "
            "counters, zero-crossing inc/dec of the pending actions, read of the monitor, CAS BUSY->TERMINATING, callback, "
            "CAS ->TERMINATED, retain/release) refines the abstract detector and reports termination exactly once and exactly "
            "when ready with no load, for contract-respecting thread programs; schedules from the state graphs (random "
            "walks and one test per transition) are replayed on the real module through its exported function table, plus "
            "exhaustive interleavings of small scenarios and free-running stress with a state-sampling monitor thread; each "
            "recorded history (calls, callback, observed states) is validated by TLC against LocalTrace.tla.",
    "note": "2-3 threads, <= 4 API calls per thread, counters crossing zero up to 3 times; schedules sampled (all model "
            "transitions covered), small scenarios exhaustive on the code. Only contract-respecting scenarios (E1: a counter "
            "is raised by a thread owning load or before ready; E2: a task completes only after the call announcing it "
            "returned). set_* only in the sequential set-up phase. x86-64 TSO; trusted: TLC, vsched, ndjson recorder.",
    "technique": "TLA+ refinement (TLC) + schedule replay on real code + linearizability trace validation (TLC)",
}

MAIN = 0
# thread programs; tokens < 100 are tasks, >= 100 pending actions
SCENARIOS = [
    {"name": "ready0", "threads": [["ready"]]},
    {"name": "readyrace", "threads": [["setpa:100", "pass:100", "ready"], ["take:100", "relpa:100"]]},
    {"name": "ptg", "threads": [["addpa:100", "addtasks:1,2", "ready", "relpa:100"],
                                ["take:1", "endtask:1"],
                                ["take:2", "addtasks:3", "endtask:2", "take:3", "endtask:3"]]},
    {"name": "zero", "threads": [["setpa:100,101", "ready", "pass:101", "addtasks:1", "relpa:100"],
                                 ["take:1", "endtask:1"],
                                 ["take:101", "addtasks:2", "take:2", "endtask:2", "relpa:101"]]},
    {"name": "dtd", "threads": [["settasks:", "setpa:100", "ready", "addtasks:1", "addtasks:2", "relpa:100"],
                                ["take:1", "endtask:1", "take:2", "endtask:2"]]},
    {"name": "leftover", "threads": [["setpa:100", "ready", "addtasks:1", "relpa:100"], ["take:1"]]},
    {"name": "notready", "threads": [["setpa:100,101", "addtasks:1,2", "pass:100", "relpa:101"], ["take:100", "take:1", "relpa:100"], ["take:2"]]},
    {"name": "settasks", "threads": [["settasks:1,2", "ready"], ["take:1", "endtask:1"], ["take:2", "endtask:2"]]},
    {"name": "papass", "threads": [["setpa:100", "ready", "addpa:101", "pass:101", "relpa:100"],
                                   ["take:101", "addpa:102", "relpa:101", "relpa:102"]]},
]
EXPLORE = ("ready0", "readyrace", "leftover", "papass", "dtd")
STRESS = ("ptg", "zero", "dtd")


def parse_op(s):
    name, _, arg = s.partition(":")
    toks = [int(x) for x in arg.split(",") if x]
    return name, toks


def check_contract(threads):
    """Static check of the usage contract: tokens created once, given back / passed only by their holder; a counter is
    raised only by a thread holding a token, or by Main in the sequential set-up phase (before ready and before it made
    any load visible to other threads); set_* only while nothing is live; tasks complete only after ready (enforced by a
    wait in the harness, so a program with endtask needs a ready)."""
    created, taken = set(), set()
    has_ready = any(s == "ready" for s in threads[MAIN])
    for t, prog in enumerate(threads):
        held, before_ready = set(), (t == MAIN)
        shared = False           # Main has made load visible to other threads (a task exists or a token was passed)
        nlive_known = 0 if t == MAIN else None
        for s in prog:
            op, toks = parse_op(s)
            if op in ("setpa", "settasks"):
                assert t == MAIN and before_ready and nlive_known == 0, "set_* only first in the set-up phase: %s" % s
                assert all((k >= 100) == (op == "setpa") for k in toks)
                if op == "setpa":
                    held |= set(toks)
                    nlive_known = None if toks else 0
                else:
                    nlive_known = None if toks else 0
                    shared = shared or bool(toks)
            elif op in ("addtasks", "addpa"):
                assert held or (before_ready and not shared), "thread %d raises a counter without owning load: %s" % (t, s)
                assert toks and all((k >= 100) == (op == "addpa") for k in toks)
                assert op == "addtasks" or len(toks) == 1
                assert op == "addpa" or len(toks) <= 2
                if op == "addpa":
                    held |= set(toks)
                else:
                    shared = True
                nlive_known = None
            elif op in ("endtask", "relpa", "pass"):
                assert len(toks) == 1 and toks[0] in held, "thread %d gives back a token it does not hold: %s" % (t, s)
                assert (toks[0] >= 100) == (op != "endtask")
                assert op != "endtask" or has_ready, "a task can only complete after ready"
                if op == "pass":
                    shared = True
                held -= set(toks)
            elif op == "take":
                assert len(toks) == 1 and toks[0] not in taken, s
                taken.add(toks[0])
                held |= set(toks)
            elif op == "ready":
                assert t == MAIN and before_ready
                before_ready = False
            else:
                raise AssertionError(s)
            if op in ("setpa", "settasks", "addtasks", "addpa"):
                assert not (set(toks) & created), "token created twice: %s" % s
                created |= set(toks)
    assert taken <= created


def random_program(rng, nthreads=3, nops=9):
    """A random contract-respecting set of thread programs: a random legal sequential run is recorded per thread;
    `take` waits make every interleaving of the result legal."""
    progs = [[] for _ in range(nthreads)]
    held = [set() for _ in range(nthreads)]
    avail, nt, npa, ready, passed, shared = set(), [0], [99], False, set(), False

    def newtask():
        nt[0] += 1
        return nt[0]

    def newpa():
        npa[0] += 1
        return npa[0]
    if rng.random() < 0.5:
        k = rng.choice([1, 2])
        toks = [newpa() for _ in range(k)]
        progs[MAIN].append("setpa:" + ",".join(map(str, toks)))
        held[MAIN] |= set(toks)
    count = 0
    idle = 0
    while count < nops and idle < 50:
        idle += 1
        t = rng.randrange(nthreads)
        choices = []
        if held[t] or (t == MAIN and not ready and not shared):
            choices += ["addtasks", "addtasks", "addpa"]
        if t == MAIN and not ready and (held[MAIN] or avail or any(held) and count >= nops // 2):
            choices += ["ready"]
        if ready and any(k < 100 for k in held[t]):
            choices += ["endtask"] * 3
        if any(k >= 100 for k in held[t]):
            choices += ["relpa", "relpa"]
        if any(k >= 100 and k not in passed for k in held[t]):
            choices += ["pass"]
        if avail:
            choices += ["take"] * 3
        if not choices:
            continue
        idle = 0
        op = rng.choice(choices)
        if op == "addtasks":
            toks = [newtask() for _ in range(rng.choice([1, 1, 2]))]
            progs[t].append("addtasks:" + ",".join(map(str, toks)))
            avail |= set(toks)
            shared = True
            count += 1
        elif op == "addpa":
            k = newpa()
            progs[t].append("addpa:%d" % k)
            held[t].add(k)
            count += 1
        elif op == "ready":
            progs[t].append("ready")
            ready = True
            count += 1
        elif op in ("endtask", "relpa", "pass"):
            k = rng.choice(sorted(x for x in held[t] if (x < 100) == (op == "endtask") and (op != "pass" or x not in passed)))
            progs[t].append("%s:%d" % (op, k))
            held[t].discard(k)
            if op == "pass":
                avail.add(k)
                shared = True
                passed.add(k)       # a token changes hands at most once (keeps `take` unambiguous)
            else:
                count += 1
        elif op == "take":
            k = rng.choice(sorted(avail))
            avail.discard(k)
            progs[t].append("take:%d" % k)
            held[t].add(k)
    if not ready and (rng.random() < 0.85 or any(k < 100 for h in held for k in h) or any(k < 100 for k in avail)):
        progs[MAIN].append("ready")
        ready = True
    # drain (most of the time): everything available is taken by somebody, everything held is given back
    if rng.random() < 0.8:
        for k in sorted(avail):
            t = rng.randrange(nthreads)
            progs[t].append("take:%d" % k)
            held[t].add(k)
        for t in range(nthreads):
            for k in sorted(held[t]):
                if k >= 100 or ready:
                    progs[t].append(("endtask:%d" if k < 100 else "relpa:%d") % k)
    # a thread without operations would still take one scheduler step: drop it (if Main has none, nobody calls
    # ready / raises a counter without owning load, so the renumbering is harmless)
    return [p for p in progs if p] or [["ready"]]


def op_tla(s):
    name, toks = parse_op(s)
    return {"op": name, "toks": toks, "tok": toks[0] if toks else 0}


def scenario_file(sc, path):
    with open(path, "w") as f:
        f.write("threads %d\n" % len(sc["threads"]))
        for t, ops in enumerate(sc["threads"]):
            f.write("t %d %s\n" % (t, " ".join(ops)))


INVARIANTS = ("CbOnce", "NoEarly", "Sane", "FinalOK", "NoStuck")


def mc(d, sc, mut="none", tag="", fair=False):
    n = len(sc["threads"])
    prog = {t + 1: [op_tla(o) for o in ops] for t, ops in enumerate(sc["threads"])}
    consts = {"Thr": set(range(1, n + 1)), "Prog": prog, "Mut": mut}
    return mcgen.write_mc(d, sc["name"] + tag, "LocalImpl", consts, spec="FairSpec" if fair else "Spec", invariants=INVARIANTS,
                          properties=("Refines", "Terminates") if fair else ("Refines",))


def node_vals(g, nid):
    lab = tlc.parse_state_label(g.nodes[nid])
    return {"cb": int(lab["cb"]), "cbby": int(lab["cbBy"]), "final": lab["mon"].strip('"'), "destroyed": int(lab["destroyed"]),
            "ref": int(lab["ref"]), "tasks": int(lab["tasks"]), "pa": int(lab["pa"])}


def load_meta(path):
    """Per-execution records written by the harness; a harness that died leaves a truncated last line."""
    out = []
    if os.path.exists(path):
        for l in open(path):
            try:
                out.append(json.loads(l))
            except ValueError:
                pass
    return out


def collect(ctx, exe, mode, sc, arg, kind, executions, timeout=900):
    base = os.path.join(ctx.scratch, "%s.%s" % (sc["name"], kind))
    scf = base + ".scn"
    scenario_file(sc, scf)
    tr, meta = base + ".trace", base + ".meta"
    rc, out, err = ctx.run_cmd([exe, mode, scf, arg, tr, meta], timeout=timeout)
    exs = tracecheck.split_executions(tracecheck.read_ndjson(tr)) if os.path.exists(tr) else []
    if rc != 0:
        exs.append([{"e": "Crash", "rc": str(rc), "stderr": err[-300:]}])
    for e in exs:
        executions.append((sc["name"], kind, e))
    return load_meta(meta)


def full_transition_tests(g, max_tests, rng):
    """One test per transition of the state graph (shortest path to the transition's source, the transition, then a
    random walk to a terminal state): complete schedules, so the replay never depends on the scheduler's default
    policy.  Returns [(labels, end node)]."""
    from collections import deque
    pred = {}
    dq = deque()
    for i in g.init:
        pred[i] = None
        dq.append(i)
    while dq:
        u = dq.popleft()
        for lab, v in g.edges.get(u, ()):
            if v not in pred:
                pred[v] = (u, lab)
                dq.append(v)

    def path_to(u):
        p = []
        while pred[u] is not None:
            u, lab = pred[u]
            p.append(lab)
        p.reverse()
        return p
    trans = [(u, lab, v) for u in g.edges if u in pred for lab, v in g.edges[u] if v != u]
    if len(trans) > max_tests:
        trans = rng.sample(trans, max_tests)
    out = []
    for u, lab, v in trans:
        labels = path_to(u) + [lab]
        while True:
            es = [e for e in g.edges.get(v, ()) if e[1] != v]
            if not es:
                break
            l2, v = rng.choice(es)
            labels.append(l2)
        out.append((labels, v))
    return out


def sched_of(labels):
    return "".join(str(int(re.search(r"\((\d+)\)", l).group(1)) - 1) for l in labels)


def run(ctx):
    d = ctx.stage("Termdet")
    exe = ctx.harness("tl_replay", ["harness/termdet_local/tl_replay.c"])
    scen = [dict(sc) for sc in SCENARIOS]
    for k in range(3 if ctx.quick else 12):
        scen.append({"name": "rnd%d" % k, "threads": random_program(ctx.rng, nthreads=ctx.rng.choice([2, 3]), nops=ctx.rng.choice([6, 8]))})
    for sc in scen:
        check_contract(sc["threads"])
    byname = {sc["name"]: sc for sc in scen}
    nwalks = 300 if ctx.quick else 1500
    ntrans = 400 if ctx.quick else 3000

    # ---- 1. model level (two single-worker TLC processes at a time) ---------------------------------------------
    def account(mod, cfg, r, **kw):
        ctx.states += r.distinct
        ctx.transitions += r.generated
        m = {"module": mod, "cfg": cfg, "distinct": r.distinct, "generated": r.generated, "depth": r.depth, "wall_s": round(r.wall, 1)}
        m.update(kw)
        if r.coverage:
            m["coverage"] = {k: v[0] for k, v in r.coverage.items()}
        ctx.models.append(m)

    def job_fair(sc, cover):
        mod, cfg = mc(d, sc, tag="_fair", fair=True)
        return ("check", sc["name"], mod, cfg, tlc.check(d, mod, cfg, must_cover=cover, workers=1, timeout=1500))

    def job_mut(sc, mut):
        mod, cfg = mc(d, sc, mut=mut, tag="_" + mut)
        return ("mut", mut, mod, cfg, tlc.check(d, mod, cfg, workers=1, timeout=1500))

    def job_graph(sc):
        mod, cfg = mc(d, sc)
        g, r = tlc.dump_graph(d, mod, cfg, timeout=1500)
        return ("graph", sc["name"], mod, cfg, r, g)

    jobs = [lambda: ("check", "Local", "Local", "Local.cfg", tlc.check(ctx.spec("Termdet"), "Local", "Local.cfg", workers=1)),
            lambda: job_fair(byname["zero"], ("FetchAddTasks", "IncPa", "DecPa", "FetchAddPa", "SetPaCas", "ChkMon", "ReadyCas",
                                              "ReadyRetain", "ReadyRead", "CasTerm", "CasTerminated", "Release", "Take", "Pass")),
            lambda: job_mut(byname["ptg"], "nozero"), lambda: job_mut(byname["readyrace"], "nocas"),
            lambda: job_mut(byname["leftover"], "readytasks")]
    jobs += [(lambda sc=sc: job_graph(sc)) for sc in scen]
    ctx.scratch
    with concurrent.futures.ThreadPoolExecutor(max_workers=2) as pool:
        results = list(pool.map(lambda j: j(), jobs))
    graphs = {}
    for res in results:
        kind, what, mod, cfg, r = res[:5]
        account(mod, cfg, r, **({"graph": True} if kind == "graph" else {}))
        if kind == "mut":
            if r.ok:
                raise tlc.TLCError("sensitivity self-test: model defect %r of LocalImpl must be detected by TLC" % what)
        elif not r.ok:
            raise tlc.TLCError("specification Termdet/%s (%s) does not satisfy its own properties (%s); this is a model failure, "
                               "not a verdict about the code\n%s" % (mod, cfg, r.violated, r.out[-2500:]))
        if kind == "graph":
            graphs[what] = res[5]

    # ---- 2./3. replay on the real code ------------------------------------------------------------------------------
    executions = []
    total_sched = 0
    seen_actions = set()
    for sc in scen:
        g = graphs[sc["name"]]
        seen_actions |= set(re.match(r"\w+", lab).group(0) for es in g.edges.values() for lab, _ in es)
        paths, total, exhaustive = tlc.maximal_paths(g, limit=nwalks, rng=ctx.rng)
        known = set(sched_of(labels) for labels, end in paths)
        ntests = 0
        for labels, end in full_transition_tests(g, ntrans, ctx.rng):
            if sched_of(labels) not in known:
                known.add(sched_of(labels))
                paths.append((labels, end))
                ntests += 1
        scheds = [sched_of(labels) for labels, end in paths]
        schedf = os.path.join(ctx.scratch, sc["name"] + ".sched")
        with open(schedf, "w") as f:
            f.write("\n".join(scheds) + "\n")
        metas = collect(ctx, exe, "replay", sc, schedf, "replay", executions)
        for (labels, end), s, m in zip(paths, scheds, metas):
            want = node_vals(g, end)
            got = {k: m[k] for k in want}
            if got != want or m["sched"] != s:
                ctx.divergences += 1
                ctx.sample({"divergence": {"scenario": sc["name"], "threads": sc["threads"], "schedule": s, "real_schedule": m["sched"],
                                           "model": want, "real": got}}, limit=6)
        if len(metas) != len(scheds):
            ctx.divergences += 1
            ctx.sample({"divergence": {"scenario": sc["name"], "schedules": len(scheds), "executed": len(metas)}}, limit=6)
        total_sched += len(scheds)
        destroyed = sum(1 for m in metas if m.get("destroyed"))
        info = {"name": sc["name"], "threads": sc["threads"], "model_states": len(g.nodes), "model_paths_total": total,
                "walks_replayed": len(scheds) - ntests, "transition_tests": ntests, "paths_exhaustive": exhaustive,
                "refcount_reached_zero_in": destroyed}
        if sc["name"] in EXPLORE:
            metas = collect(ctx, exe, "explore", sc, str(20000 if ctx.quick else 60000), "explore", executions, timeout=1500)
            last = metas[-1] if metas else {}
            info.update({"code_interleavings": last.get("explored"), "code_exhaustive": last.get("exhaustive")})
        ctx.extra.setdefault("scenarios", []).append(info)
    want_actions = {"BeginTasks", "BeginPa", "BeginSetTasks", "BeginSetPa", "BeginReady", "FetchAddTasks", "SetTasksCas", "IncPa", "DecPa",
                    "FetchAddPa", "SetPaCas", "ChkMon", "ReadyCas", "ReadyRetain", "ReadyRead", "CasTerm", "CasTerminated", "Release",
                    "Take", "Pass"}
    if not want_actions <= seen_actions:
        raise tlc.TLCError("vacuity guard: actions never taken in any scenario: %s" % sorted(want_actions - seen_actions))
    for name in STRESS:
        collect(ctx, exe, "stress", byname[name], str(150 if ctx.quick else 2000), "stress", executions)

    # ---- 4. verdict: trace validation ---------------------------------------------------------------------------------
    ctx.evaluations = len(executions)
    distinct, mult = tracecheck.dedupe([e for _, _, e in executions])
    ctx.extra["executions_run"] = len(executions)
    ctx.extra["distinct_histories"] = len(distinct)
    ctx.extra["schedules_from_tlc"] = total_sched
    ctx.extra["histories_with_refcount_zero"] = sum(1 for e in distinct if any(ev.get("e") == "destroyed" for ev in e))
    ctx.exhaustive = False
    if distinct:
        ctx.sample({"history": distinct[0]})
        ctx.sample({"history": distinct[len(distinct) // 2]})
    fails = ctx.validate("Termdet", "LocalTrace", "LocalTrace.cfg", distinct, batch=1000, timeout=1500)
    ctx.traces = len(executions)
    # sensitivity self-test of the trace specification: a history whose callback event is duplicated must be rejected
    good = next((e for e in distinct if any(ev.get("e") == "cb" for ev in e)), None)
    if good is not None and not fails:
        bad = []
        for ev in good:
            bad.append(ev)
            if ev.get("e") == "cb":
                bad.append(ev)
        p = os.path.join(ctx.scratch, "corrupted.ndjson")
        tracecheck._write(bad, p)
        v, r = tracecheck.validate_file(ctx.spec("Termdet"), "LocalTrace", "LocalTrace.cfg", p)
        ctx.extra["corrupted_trace_rejected"] = not v.accepted
        if v.accepted:
            raise tlc.TLCError("self-test: LocalTrace accepted a history with two termination callbacks")
    for f in fails:
        ctx.violation("history of the real local termination detector is not a behaviour of Local.tla: %s" % json.dumps(f.describe()),
                      {"history": f.execution, "detail": f.describe()})
    ctx.assume("x86-64 TSO; yield points = every parsec_atomic_* op and the K_READ hooks in front of the plain reads of the monitor state")
    ctx.assume("usage contract of termdet.h: E1 a counter is raised only by a thread owning load or before ready; "
               "E2 a task completes only after the call that announced it returned; set_* only in the sequential set-up phase")


def replay(ctx, obj):
    fails = ctx.validate("Termdet", "LocalTrace", "LocalTrace.cfg", [obj["history"]])
    for f in fails:
        ctx.violation("recorded history still rejected: %s" % json.dumps(f.describe()), obj)
