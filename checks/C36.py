"""C36  The red-black tree keeps order and balance.

spec/RBTree/RB.tla       abstract ordered key set + history of operations (source of behaviours)
spec/RBTree/RBTrace.tla  validates, for every operation of the real tree, the logged structure (BST order, red-black
                         invariants, parent links, key set) and every lookup / lookup-or-larger result.
Behaviours: (a) TLC breadth-first: EVERY operation sequence up to a bound (insert/remove/update over a small key
universe); (b) TLC -simulate: long random walks over a larger universe.  Each behaviour is replayed on the real
parsec_rbtree_* functions (harness/rbtree/rb_replay.c) and the recorded trace goes through RBTrace.
"""
import json
import os

from lib import mcgen, tlc, tracecheck

META = {
    "level": "model_checking",
    "text": "TLC enumerates every insert/remove/update sequence of RB.tla up to a bound (and simulates long walks); each "
            "is replayed on the real red-black tree, which logs its full structure and all lookup results after every "
            "operation; TLC validates each logged tree (BST order, red-black invariants, parent links, key set = abstract "
            "set) and each lookup against the specification.",
    "note": "Exhaustive for all sequences of <= 5 (quick) / 6 (thorough) operations over 4-5 keys; random walks of 40-120 "
            "operations over 12-24 keys beyond that. Keys are unique (contract of the only caller, zone_malloc). Trusted: "
            "TLC, the harness' bounded tree walk.",
    "technique": "TLA+ spec behaviours (TLC BFS + simulate) replayed on real code + trace validation with structural invariants",
}


def to_line(h):
    return ";".join("%s %d %d" % (o["op"], o["k"], o["nk"]) for o in h)


def run(ctx):
    d = ctx.stage("RBTree")
    exe = ctx.harness("rb_replay", ["harness/rbtree/rb_replay.c"])
    hs = []
    # (a) exhaustive sequences
    nk, ml = (4, 5) if ctx.quick else (5, 6)
    mod, cfg = mcgen.write_mc(d, "bfs", "RB", {"Keys": set(range(1, nk + 1)), "MaxLen": ml}, invariants=("TypeOK", "Emit"))
    r = ctx.tlc_check(d, mod, cfg, must_cover=("Insert", "Remove", "Update"), timeout=1500)
    for l in r.printed:
        h = tlc._parse_tla_string_list(l)
        if h:
            hs.append((nk, h))
    n_bfs = len(hs)
    ctx.exhaustive = True
    # (b) long random walks
    for (keys, depth, num) in ([(12, 40, 300)] if ctx.quick else [(12, 60, 2000), (24, 120, 1500)]):
        mod, cfg = mcgen.write_mc(d, "sim%d" % keys, "RB", {"Keys": set(range(1, keys + 1)), "MaxLen": depth},
                                  invariants=("TypeOK", "Emit"))
        walks = ctx.tlc_histories(d, mod, cfg, num, depth + 1, workers=4)
        hs.extend((keys, h) for h in walks)
    ctx.extra["behaviours_bfs"] = n_bfs
    ctx.extra["behaviours_sim"] = len(hs) - n_bfs
    ctx.evaluations = len(hs)
    # replay, grouped by key universe (the harness logs lookups for q in 0..maxkey+1)
    executions = []
    for keys in sorted(set(k for k, _ in hs)):
        grp = [h for k, h in hs if k == keys]
        hp = os.path.join(ctx.scratch, "hist%d.txt" % keys)
        with open(hp, "w") as f:
            for h in grp:
                f.write(to_line(h) + "\n")
        tr = os.path.join(ctx.scratch, "trace%d.ndjson" % keys)
        rc, out, err = ctx.run_cmd([exe, hp, tr, str(keys)], timeout=900)
        exs = tracecheck.split_executions(tracecheck.read_ndjson(tr)) if os.path.exists(tr) else []
        if rc != 0:
            # the harness died (crash in the real code): the behaviour it was executing is the failing one
            exs.append([{"e": "Crash", "rc": str(rc), "behaviour": to_line(grp[len(exs) - 1]) if exs else ""}])
        executions.extend(exs)
    if executions:
        ctx.sample({"behaviour": to_line(hs[0][1]), "first_logged_event": executions[0][0] if executions[0] else None})
        ctx.sample({"behaviour": to_line(hs[-1][1])})
    fails = ctx.validate("RBTree", "RBTrace", "RBTrace.cfg", executions, batch=1500, timeout=1500)
    for f in fails:
        ctx.violation("real red-black tree diverges from RB.tla / breaks a structural invariant: %s" % json.dumps(f.describe())[:1500],
                      {"events": f.execution, "detail": f.describe()})
    ctx.assume("keys are unique; update_node to an existing key is refused")


def replay(ctx, obj):
    for f in ctx.validate("RBTree", "RBTrace", "RBTrace.cfg", [obj["events"]]):
        ctx.violation("recorded trace still rejected: %s" % json.dumps(f.describe())[:1000], obj)
