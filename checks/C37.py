"""C37  Taskpool identifiers resolve to the registered taskpool.

spec/Taskpool/Ids.tla       abstract registry (the property): distinct consecutive identifiers, lookup = registration,
                            synchronization continues from the largest identifier handed out anywhere
spec/Taskpool/IdsImpl.tla   implementation-shaped model of the registry array of parsec.c (NULL start, doubling growth
                            with initialisation of the new slots, the sync_ids resize loop, junk = uninitialised memory);
                            refines Ids (invariant Agree) and is the source of behaviours (history variable)
spec/Taskpool/IdsTrace.tla  linearizability trace validation of recorded histories + the cross-process sync rule

1. TLC checks IdsImpl against Ids for every operation sequence up to a bound, including identifier jumps caused by
   other processes (Sync(j)), with coverage, and shows the model is sensitive (growth without initialisation must break it).
2. TLC enumerates every reserve/register/unregister/lookup/sync sequence up to a bound (BFS, history variable) and
   simulates long walks; each behaviour is replayed on the real functions (the registry cannot be reset: behaviours
   continue from the current identifier, so the array keeps growing through many doublings).
3. Concurrent reservations/registrations/lookups: every interleaving of small scenarios at yield-point granularity,
   seeded random schedules, free-running 8-16 thread stress.
4. parsec_taskpool_sync_ids on 1-4 MPI processes with different prior histories, several rounds.
5. All recorded histories are validated by TLC against IdsTrace (the verdict).
"""
import json
import os

from lib import mcgen, tlc, tracecheck, vbuild

META = {
    "level": "model_checking",
    "text": "TLC checks an implementation-shaped model of the taskpool registry array (growth, initialisation of new slots, "
            "the sync resize loop) against the abstract registry for every operation sequence up to a bound; every such "
            "sequence and long random walks are replayed on the real parsec_taskpool_reserve_id/register/unregister/lookup/"
            "sync_ids, concurrent scenarios are explored exhaustively, randomly and free-running, identifier "
            "synchronization is run on 1-4 MPI processes with different histories, and every recorded history is "
            "checked by TLC against IdsTrace.tla (linearizable registry, distinct identifiers, same next identifier "
            "on all processes after synchronization).",
    "note": "Exhaustive for all sequences of <= 5 (quick) / 6 (thorough) operations over 3 taskpools; walks of 30-60 "
            "operations; identifiers reach several thousands (the array is never reset). Lookups are restricted to "
            "identifiers that were handed out (identifier 0 and never-reserved ones are outside the property: slot 0 is "
            "never initialised). A taskpool is reserved/registered/unregistered by one thread. Trusted: TLC, vsched, recorder.",
    "technique": "TLA+ refinement (TLC) + behaviours replayed on real code + linearizability trace validation (TLC)",
}

SMALL = [
    {"name": "x_resreg", "threads": [["reserve:1", "register:1"], ["reserve:2", "lookup:1"]]},
    {"name": "x_unreg", "threads": [["reserve:1", "register:1", "unregister:1"], ["lookup:1"]]},
]
RANDOM = {"name": "r3", "threads": [["reserve:1", "register:1", "lookup:2", "unregister:1"],
                                    ["reserve:2", "lookup:1", "register:2", "lookup:3"],
                                    ["lookup:1", "reserve:3", "register:3", "lookup:2"]]}


def to_line(h):
    return ";".join("%s %d" % (o["op"], o["a"]) for o in h)


def scenario_file(sc, path):
    with open(path, "w") as f:
        f.write("threads %d\n" % len(sc["threads"]))
        for t, ops in enumerate(sc["threads"]):
            f.write("t %d %s\n" % (t, " ".join(ops)))


def run_harness(ctx, exe, args, tr, meta=None, timeout=900):
    # MALLOC_PERTURB_: memory handed out by malloc/realloc is filled with a non-zero byte, so that a slot the registry
    # forgot to initialise cannot look like an empty one by luck
    rc, out, err = ctx.run_cmd([exe] + args, timeout=timeout, env={"MALLOC_PERTURB_": "165"})
    exs = tracecheck.split_executions(tracecheck.read_ndjson(tr)) if os.path.exists(tr) else []
    if rc == 3:         # the harness refused its own input (scenario / usage error): a tool failure, never a verdict
        raise tlc.TLCError("harness error: %s" % err[-500:])
    if rc != 0:
        exs.append([{"e": "Crash", "rc": str(rc), "stderr": err[-300:]}])
    metas = []
    if meta and os.path.exists(meta):
        for l in open(meta):
            try:
                metas.append(json.loads(l))
            except ValueError:
                pass
    return exs, metas


def stress_scenario(rng, nthreads, nops):
    """Thread t owns taskpools t*4+1 .. t*4+4 (only the owner reserves / registers / unregisters), anybody looks up."""
    threads = []
    for t in range(nthreads):
        mine = [t * 4 + k for k in range(1, 5)]
        ops = []
        for _ in range(nops):
            x = rng.random()
            if x < 0.3:
                ops.append("reserve:%d" % rng.choice(mine))
            elif x < 0.5:
                ops.append("register:%d" % rng.choice(mine))
            elif x < 0.65:
                ops.append("unregister:%d" % rng.choice(mine))
            else:
                ops.append("lookup:%d" % rng.randint(1, nthreads * 4))
        threads.append(ops)
    return {"name": "stress", "threads": threads}


def run(ctx):
    d = ctx.stage("Taskpool")
    exe = ctx.harness("tp_replay", ["harness/taskpool/tp_replay.c"])
    executions = []

    # ---- 1. model: refinement with identifier jumps, sensitivity ------------------------------------------------
    mod, cfg = mcgen.write_mc(d, "jumps", "IdsImpl", {"Tps": {1, 2, 3}, "MaxLen": 4 if ctx.quick else 5, "MaxJump": 3, "NoFill": False},
                              invariants=("Agree", "NoJunkSeen"))
    ctx.tlc_check(d, mod, cfg, must_cover=("ReserveId", "Register", "Unregister", "Lookup", "Sync"), workers=2, timeout=1500)
    mod, cfg = mcgen.write_mc(d, "nofill", "IdsImpl", {"Tps": {1, 2}, "MaxLen": 4, "MaxJump": 1, "NoFill": True},
                              invariants=("Agree", "NoJunkSeen"))
    r = ctx.tlc_check(d, mod, cfg, expect_ok=False, workers=2)
    if r.violated not in ("Agree", "NoJunkSeen"):
        raise tlc.TLCError("sensitivity self-test: growth without initialising the new slots must break Agree, got %r" % r.violated)

    # ---- 2. behaviours: every sequence up to a bound + long walks, replayed on the real functions ---------------
    hs = []
    ml = 5 if ctx.quick else 6
    mod, cfg = mcgen.write_mc(d, "bfs", "IdsImpl", {"Tps": {1, 2, 3}, "MaxLen": ml, "MaxJump": 0, "NoFill": False},
                              invariants=("Agree", "NoJunkSeen", "Emit"))
    r = ctx.tlc_check(d, mod, cfg, must_cover=("ReserveId", "Register", "Unregister", "Lookup", "Sync"), workers=2, timeout=1500)
    for l in r.printed:
        h = tlc._parse_tla_string_list(l)
        if h:
            hs.append(h)
    n_bfs = len(hs)
    for (ntp, depth, num) in ([(6, 30, 200)] if ctx.quick else [(6, 40, 1500), (10, 60, 1000)]):
        mod, cfg = mcgen.write_mc(d, "sim%d" % ntp, "IdsImpl",
                                  {"Tps": set(range(1, ntp + 1)), "MaxLen": depth, "MaxJump": 0, "NoFill": False},
                                  invariants=("Agree", "NoJunkSeen", "Emit"))
        hs.extend(ctx.tlc_histories(d, mod, cfg, num, depth + 1, workers=2))
    ctx.extra["behaviours_bfs"] = n_bfs
    ctx.extra["behaviours_sim"] = len(hs) - n_bfs
    ctx.exhaustive = True
    hp = os.path.join(ctx.scratch, "behaviours.txt")
    with open(hp, "w") as f:
        for h in hs:
            f.write(to_line(h) + "\n")
    tr = os.path.join(ctx.scratch, "seq.trace")
    exs, _ = run_harness(ctx, exe, ["seq", hp, tr], tr)
    # conformance: the results the model recorded in its history = the results of the real calls (identifiers as offsets)
    for h, e in zip(hs, exs):
        base = e[0].get("last", 0) if e and e[0].get("e") == "init" else 0
        want = [o["r"] + (base if o["op"] in ("reserve", "register") else 0) for o in h if o["op"] != "sync"]
        got = [ev["r"] for ev in e if ev.get("e") == "res"]
        if got != want:
            ctx.divergences += 1
            ctx.sample({"divergence": {"behaviour": to_line(h), "model_results": want, "real_results": got}}, limit=6)
    if hs and exs:
        ctx.sample({"behaviour": to_line(hs[0]), "first_events": exs[0][:5]})
        ctx.sample({"behaviour": to_line(hs[-1])})
    executions.extend(exs)
    ctx.extra["last_identifier_reached"] = max([ev.get("r", 0) for e in exs for ev in e if ev.get("op") == "reserve" and ev.get("e") == "res"] or [0])

    # ---- 3. concurrency ----------------------------------------------------------------------------------------------
    for sc in SMALL:
        scf = os.path.join(ctx.scratch, sc["name"] + ".scn")
        scenario_file(sc, scf)
        tr, meta = os.path.join(ctx.scratch, sc["name"] + ".xtrace"), os.path.join(ctx.scratch, sc["name"] + ".xmeta")
        exs, metas = run_harness(ctx, exe, ["explore", scf, "30000", tr, meta], tr, meta, timeout=1500)
        last = metas[-1] if metas else {}
        ctx.exhaustive = ctx.exhaustive and bool(last.get("exhaustive"))
        ctx.extra.setdefault("explored_on_code", []).append(
            {"name": sc["name"], "interleavings": last.get("explored"), "exhaustive": last.get("exhaustive")})
        executions.extend(exs)
    scf = os.path.join(ctx.scratch, "r3.scn")
    scenario_file(RANDOM, scf)
    tr, meta = os.path.join(ctx.scratch, "r3.rtrace"), os.path.join(ctx.scratch, "r3.rmeta")
    exs, metas = run_harness(ctx, exe, ["random", scf, str(400 if ctx.quick else 30000), tr, meta, str(ctx.seed)], tr, meta)
    executions.extend(exs)
    for i, (nt, nops) in enumerate([(8, 8), (16, 6)] if ctx.quick else [(4, 10), (8, 10), (16, 8), (16, 12)]):
        sc = stress_scenario(ctx.rng, nt, nops)
        scf = os.path.join(ctx.scratch, "stress%d.scn" % i)
        scenario_file(sc, scf)
        tr, meta = os.path.join(ctx.scratch, "stress%d.trace" % i), os.path.join(ctx.scratch, "stress%d.meta" % i)
        exs, metas = run_harness(ctx, exe, ["stress", scf, str(40 if ctx.quick else 1500), tr, meta], tr, meta, timeout=600)
        if i == 0:
            ctx.sample({"stress_scenario": sc})
        executions.extend(exs)

    # ---- 4. identifier synchronization across processes ------------------------------------------------------------------
    plans = [(1, "2;0;3"), (2, "0,3;2,0;1,1"), (3, "0,3,1;2,0,0;0,0,5"), (4, "1,0,7,2;0,0,0,0;3,9,0,1")]
    if not ctx.quick:
        plans += [(4, ";".join(",".join(str(ctx.rng.randint(0, 9)) for _ in range(4)) for _ in range(5))),
                  (3, ";".join(",".join(str(ctx.rng.randint(0, 12)) for _ in range(3)) for _ in range(6)))]
    nsync = 0
    for np_, rounds in plans:
        pref = os.path.join(ctx.scratch, "sync%d_%d" % (np_, nsync))
        rc, out, err = ctx.run_cmd(vbuild.mpirun(np_) + [exe, "mpi", rounds, pref], timeout=600)
        ex = [{"e": "init", "last": 0}]
        if rc != 0:
            ex.append({"e": "Crash", "rc": str(rc), "stderr": err[-300:]})
        else:
            rows = []
            for rk in range(np_):
                rows += [json.loads(l) for l in open("%s.%d" % (pref, rk))]
            for rd in sorted(set(x["round"] for x in rows)):
                rr = sorted([x for x in rows if x["round"] == rd], key=lambda x: x["rank"])
                ex.append({"e": "sync", "before": [x["before"] for x in rr], "after": [x["after"] for x in rr]})
                nsync += 1
        executions.append(ex)
        if np_ == 3:
            ctx.sample({"sync_ids": {"processes": np_, "reservations_before_each_sync": rounds, "events": ex[1:]}})
    ctx.extra["sync_rounds"] = nsync

    # ---- 5. verdict ---------------------------------------------------------------------------------------------------------
    ctx.evaluations = len(executions)
    distinct, mult = tracecheck.dedupe(executions)
    ctx.extra["executions_run"] = len(executions)
    ctx.extra["distinct_histories"] = len(distinct)
    fails = ctx.validate("Taskpool", "IdsTrace", "IdsTrace.cfg", distinct, batch=1500, timeout=1500)
    ctx.traces = len(executions)
    for f in fails:
        ctx.violation("history of the real taskpool registry is not a behaviour of Ids.tla (lookup result, distinct "
                      "identifiers, or next identifier after synchronization): %s" % json.dumps(f.describe())[:1500],
                      {"history": f.execution, "detail": f.describe()})
    ctx.assume("lookups only for identifiers that were handed out; one thread reserves/registers/unregisters a given taskpool")


def replay(ctx, obj):
    for f in ctx.validate("Taskpool", "IdsTrace", "IdsTrace.cfg", [obj["history"]]):
        ctx.violation("recorded history still rejected: %s" % json.dumps(f.describe())[:1000], obj)
