"""C13  Collective activations reach each destination exactly once.

spec/Comm/Bcast.tla       transcription of parsec_remote_dep_activate (bit walk relative to the root, idx / my_idx,
                          forwarded mask shared by the outputs, the three child predicates), payload selection of
                          remote_dep_mpi_pack_dep, and the property predicates ExactlyOnce / DataAvail
spec/Comm/BcastTrace.tla  the same two predicates applied to the activation messages recorded from the real code

1. TLC runs the propagation of EVERY configuration (root, family of destination sets, topology) up to a bound plus
   sampled larger ones (up to 70 processes: rank-bit banks of 32): ExactlyOnce holds everywhere; DataAvail holds for
   star and whenever the destination sets coincide; the configurations where a rank is reached through a relay that
   does not consume an output the rank needs (class of the known finding D8, predicate RelayLacksOutput of the spec)
   are exactly the DataAvail failures of the model.  TLC prints verdicts + predicted messages per configuration.
2. For the same configurations the real parsec_remote_dep_activate / parsec_remote_dep_propagate /
   parsec_gather_collective_pattern are driven from every virtual rank's point of view, one process per topology
   (harness/bcast/bcast_replay.c; sends taken from the exported command queue, no source hook).
3. Verdict by TLC (BcastTrace): configurations outside the class must satisfy ExactlyOnce and DataAvail; configurations
   inside the class must satisfy ExactlyOnce, and their DataAvail failure is reported with key "relay-lacks-output".
"""
import json
import os

from lib import mcgen, tlc, tracecheck

META = {
    "level": "model_checking",
    "text": "TLC evaluates the transcription of the collective-activation walk for every root, every family of destination "
            "sets and the three topologies up to a bound (plus sampled configurations up to 70 processes); the real "
            "parsec_remote_dep_activate/propagate are then driven from each virtual rank's point of view for the same "
            "configurations and TLC checks the recorded activation messages: every destination is activated exactly once, "
            "nobody else, and every activation carries every output its target consumes.",
    "note": "Exhaustive on model and real code: N<=5 with 1-2 outputs and N<=4 with 3 outputs (quick); N<=6 / N<=5 (thorough, "
            "N=6 with 3 outputs sampled).  Payload selection of remote_dep_mpi_pack_dep (static) is re-stated in the harness "
            "from the real structures.  DataAvail fails on the unchanged tree for the class relay-lacks-output (known finding "
            "D8).  Real MPI runs of multi-flow JDFs are left to C05.  Trusted: TLC, the virtual-rank harness.",
    "technique": "TLA+ transcription checked by TLC over all configurations + environment replay on virtual ranks + "
                 "trace validation (TLC)",
}

TOPOS = (("star", 0), ("chain", 1), ("binomial", 2))
INVS = ("Terminates", "ExactlyOnceInv", "StarOK", "EqualSetsOK", "ClassIsDataFailure")


def comprehension(nmin, nmax, kmin, kmax, roots=None):
    if roots is not None:
        return ("UNION {UNION {UNION {{[topo |-> t, n |-> nn, root |-> rt, dest |-> d] : t \\in {\"star\", \"chain\", \"binomial\"}, "
                "d \\in {x \\in [1..k -> SUBSET ((0..(nn-1)) \\ {rt})] : \\E o \\in 1..k : x[o] # {}}} : rt \\in %s} "
                ": nn \\in %d..%d} : k \\in %d..%d}" % (mcgen.tla(set(roots)), nmin, nmax, kmin, kmax))
    return ("UNION {UNION {UNION {{[topo |-> t, n |-> nn, root |-> rt, dest |-> d] : t \\in {\"star\", \"chain\", \"binomial\"}, "
            "d \\in {x \\in [1..k -> SUBSET ((0..(nn-1)) \\ {rt})] : \\E o \\in 1..k : x[o] # {}}} : rt \\in 0..(nn-1)} "
            ": nn \\in %d..%d} : k \\in %d..%d}" % (nmin, nmax, kmin, kmax))


def sampled_configs(ctx, count):
    out = []
    sizes = (7, 8, 12, 16, 31, 32, 33, 34, 40, 63, 64, 65, 70) if ctx.quick else \
            (6, 7, 8, 6, 12, 16, 6, 31, 32, 33, 34, 40, 63, 64, 65, 70)
    for i in range(count):
        n = sizes[i % len(sizes)]
        root = ctx.rng.randrange(n)
        k = 1 + ctx.rng.randrange(3)
        others = [r for r in range(n) if r != root]
        dest = []
        for o in range(k):
            mode = ctx.rng.randrange(4)
            if mode == 0:
                s = set(ctx.rng.sample(others, 1 + ctx.rng.randrange(min(4, len(others)))))
            elif mode == 1:
                s = set(r for r in others if ctx.rng.random() < 0.5)
            elif mode == 2 and dest:
                s = set(r for r in dest[0] if ctx.rng.random() < 0.6)        # overlapping subset of the first output
            else:
                s = set(r for r in others if ctx.rng.random() < 0.15)
            dest.append(s)
        if not any(dest):
            dest[0] = {others[0]}
        for t, _ in TOPOS:
            out.append({"topo": t, "n": n, "root": root, "dest": [set(s) for s in dest]})
    return out


def cfg_line(o):
    return "%d %d %d %s" % (o["n"], o["root"], len(o["dest"]),
                            " ".join(",".join(str(r) for r in sorted(s)) if s else "-" for s in o["dest"]))


def run_real(ctx, exe, topo, code, models, tag):
    cf = os.path.join(ctx.scratch, "cfg-%s-%s.txt" % (topo, tag))
    with open(cf, "w") as f:
        for m in models:
            f.write(cfg_line(m) + "\n")
    tr = os.path.join(ctx.scratch, "bcast-%s-%s.ndjson" % (topo, tag))
    rc, out, err = ctx.run_cmd([exe, topo, cf, tr], timeout=900, env={"PARSEC_MCA_runtime_comm_coll_bcast": str(code)})
    evs = tracecheck.read_ndjson(tr) if os.path.exists(tr) else []
    if rc != 0 or len(evs) != len(models):
        k = min(len(evs), len(models) - 1)
        evs = evs[:k] + [{"e": "Crash", "rc": str(rc), "topo": topo, "config": cfg_line(models[k]), "stderr": err[-300:]}]
    return evs


def lacks_output(ev):
    need = {}
    for o, s in enumerate(ev.get("dest", ()), 1):
        for r in s:
            need.setdefault(r, set()).add(o)
    return any(not need.get(d, set()) <= set(p) for _, d, p in ev.get("edges", ()))


def rejected_once(ctx, sub, module, cfg, events, env=None):
    """One TLC run: is this single (corrupted) execution rejected ?  (binding self-test)"""
    p = os.path.join(ctx.scratch, "selftest.ndjson")
    with open(p, "w") as f:
        for ev in events:
            f.write(json.dumps(ev, separators=(",", ":")) + "\n")
    v, r = tracecheck.validate_file(ctx.spec(sub), module, cfg, p, env=env)
    ctx.extra["trace_tlc_runs"] = ctx.extra.get("trace_tlc_runs", 0) + 1
    return not v.accepted


def run(ctx):
    d = ctx.stage("Comm")
    exe = ctx.harness("bcast_replay", ["harness/bcast/bcast_replay.c"])

    # ---- 1. the model over all configurations --------------------------------------------------------------------------
    if ctx.quick:
        expr = "(%s) \\cup (%s)" % (comprehension(2, 5, 1, 2), comprehension(2, 4, 3, 3))
    else:
        expr = "(%s) \\cup (%s)" % (comprehension(2, 6, 1, 2), comprehension(2, 5, 3, 3))
    samples = sampled_configs(ctx, 12 if ctx.quick else 160)
    expr += " \\cup {" + ", ".join(mcgen.tla(c) for c in samples) + "}"
    mod, cfg = mcgen.write_mc(d, "bcast", "Bcast", {"Configs": mcgen.Raw(expr)}, invariants=INVS + ("Emit",))
    r = ctx.tlc_check(d, mod, cfg, must_cover=("Activate", "Finish"), workers=2, timeout=1500)
    models = [tlc._parse_tla_string_list(l) for l in r.printed]
    models = [m for m in models if m]
    if not models:
        raise tlc.TLCError("the model printed no configuration")
    ctx.exhaustive = True
    # the model must reproduce the reproduced defect D8 (otherwise the transcription is not faithful)
    d8 = [{"topo": "chain", "n": 3, "root": 0, "dest": [{1, 2}, {2}]}, {"topo": "binomial", "n": 4, "root": 0, "dest": [{1, 2, 3}, {3}]}]
    for i, c in enumerate(d8 if not ctx.quick else d8[:1]):
        mod, cfg = mcgen.write_mc(d, "d8_%d" % i, "Bcast", {"Configs": mcgen.Raw("{" + mcgen.tla(c) + "}")}, invariants=("DataAvailInv",))
        rr = ctx.tlc_check(d, mod, cfg, expect_ok=False, workers=1)
        if rr.violated != "DataAvailInv":
            raise tlc.TLCError("the transcription no longer reproduces D8 on %r (got %r)" % (c, rr.violated))
    for c in d8:      # ... and both inputs must be members of the class in the main run
        if not any(m["cls"] for m in models if (m["topo"], m["n"], m["root"], m["dest"]) ==
                   (c["topo"], c["n"], c["root"], [sorted(x) for x in c["dest"]])):
            raise tlc.TLCError("the D8 input %r is not in the class relay-lacks-output of the model" % c)
    ctx.extra["configurations"] = len(models)
    ctx.extra["in_class_relay_lacks_output"] = sum(1 for m in models if m["cls"])
    if any(not m["eo"] for m in models):
        raise tlc.TLCError("model: ExactlyOnce fails")      # (cannot happen: ExactlyOnceInv was checked)

    # ---- 2. the real code, one process per topology ------------------------------------------------------------------------
    real = []
    for topo, code in TOPOS:
        ms = [m for m in models if m["topo"] == topo]
        evs = run_real(ctx, exe, topo, code, [{"n": m["n"], "root": m["root"], "dest": m["dest"]} for m in ms], "all")
        for m, ev in zip(ms, evs):
            real.append((m, ev))
    ctx.evaluations = len(real)
    ncmp = 0
    for m, ev in real:
        if ev.get("e") != "bcast":
            continue
        ncmp += 1
        got = sorted((s, t, tuple(sorted(p))) for s, t, p in ev["edges"])
        want = sorted((s, t, tuple(p)) for s, t, p in m["edges"])
        if got != want or ev["dest"] != m["dest"]:
            ctx.divergences += 1
            ctx.sample({"divergence": {"config": cfg_line({"n": m["n"], "root": m["root"], "dest": m["dest"]}), "topo": m["topo"],
                                       "model_edges": m["edges"], "real_edges": ev["edges"]}}, limit=6)
    ctx.extra["compared_with_model"] = ncmp
    outside = [(m, ev) for m, ev in real if not m["cls"]]
    inside = [(m, ev) for m, ev in real if m["cls"]]
    if outside:
        ctx.sample({"config": cfg_line(outside[len(outside) // 2][0]), "recorded": outside[len(outside) // 2][1]})
    if inside:
        ctx.sample({"config_in_class": cfg_line(inside[0][0]), "recorded": inside[0][1]})

    # ---- 3. verdict ------------------------------------------------------------------------------------------------------------
    def rep(m, ev):
        return {"topo": m["topo"], "config": cfg_line(m), "recorded": ev}
    fails = ctx.validate("Comm", "BcastTrace", "BcastTrace.cfg", [[ev] for _, ev in outside], batch=20000, timeout=1500)
    for f in fails:
        m, ev = outside[f.index]
        ctx.violation("collective activation: a destination is not activated exactly once, or an activation lacks an output "
                      "its target consumes (configuration outside the known class): topo=%s %s -> %s"
                      % (m["topo"], cfg_line(m), json.dumps(ev)[:600]), rep(m, ev))
    if inside:
        fails = ctx.validate("Comm", "BcastTrace", "BcastTraceEO.cfg", [[ev] for _, ev in inside], batch=20000, timeout=1500)
        for f in fails:
            m, ev = inside[f.index]
            ctx.violation("collective activation: a destination is not activated exactly once: topo=%s %s -> %s"
                          % (m["topo"], cfg_line(m), json.dumps(ev)[:600]), rep(m, ev))
        # the known finding: is DataAvail really broken on the real code for the class ?  (candidates picked by a cheap
        # scan of the recorded messages; the verdict on the candidate is TLC's)
        cand = [(m, ev) for m, ev in inside if ev.get("e") == "bcast" and lacks_output(ev)]
        ctx.extra["in_class_real_lines_lacking_an_output"] = len(cand)
        n0 = ctx.traces
        for m, ev in cand[:1]:
            for f in ctx.validate("Comm", "BcastTrace", "BcastTrace.cfg", [[ev]]):
                ctx.violation("collective activation: rank reached through a relay that does not hold an output it needs: "
                              "topo=%s %s -> %s" % (m["topo"], cfg_line(m), json.dumps(ev)[:600]), rep(m, ev),
                              key="relay-lacks-output")
        ctx.traces = n0
    # ---- binding self-test: drop one output from one payload of an accepted line ------------------------------------------------
    good = [ev for m, ev in outside if ev.get("e") == "bcast" and any(p for _, _, p in ev["edges"])]
    if good and not ctx.violations:
        ev = json.loads(json.dumps(good[len(good) // 2]))
        for e in ev["edges"]:
            if e[2]:
                e[2] = e[2][1:]
                break
        if not rejected_once(ctx, "Comm", "BcastTrace", "BcastTrace.cfg", [ev]):
            raise tlc.TLCError("binding self-test: a line with a dropped output was accepted by BcastTrace")
    ctx.assume("the relay rebuilds the root's description (parsec_gather_collective_pattern) from the same destination sets")
    ctx.assume("payload of an activation = outputs in the sender's outgoing_mask whose rank_bits contain the peer (remote_dep_mpi_pack_dep)")


def replay(ctx, obj):
    exe = ctx.harness("bcast_replay", ["harness/bcast/bcast_replay.c"])
    code = dict(TOPOS)[obj["topo"]]
    n, root, k = [int(x) for x in obj["config"].split()[:3]]
    dest = [[] if t == "-" else [int(x) for x in t.split(",")] for t in obj["config"].split()[3:]]
    evs = run_real(ctx, exe, obj["topo"], code, [{"n": n, "root": root, "dest": dest}], "replay")
    for f in ctx.validate("Comm", "BcastTrace", "BcastTrace.cfg", [[ev] for ev in evs]):
        ctx.violation("still rejected: %s" % json.dumps(f.describe())[:1000], obj, key=obj.get("key"))
