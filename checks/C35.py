"""C35  Task buffers and heaps keep every task and prefer the best.

spec/Heap/HBBuffer.tla     abstract bounded buffer + parent store (conservation, overflow only when full, pop = best)
spec/Heap/HBTrace.tla      sequential trace validation of parsec_hbbuffer_push_all / _by_priority / pop_best
spec/Heap/HBConcTrace.tla  concurrent histories: nothing lost or duplicated, quiescent pops return the best
spec/Heap/MaxHeap.tla      abstract collection of max-heaps (insert / remove / split-and-steal)
spec/Heap/HeapTrace.tla    trace validation of heap_insert / heap_remove / heap_split_and_steal incl. the tree structure
Behaviours: TLC breadth-first (every operation sequence up to a bound) + TLC -simulate (long walks: buffers of
1..8 slots, heaps of up to 64 tasks split repeatedly), replayed on the real functions (harness/heap/heap_replay.c);
concurrent push/pop on one buffer under the cooperative scheduler (all interleavings / random schedules) and free running.
"""
import json
import os

from lib import mcgen, tlc, tracecheck

META = {
    "level": "model_checking",
    "text": "TLC enumerates every push_all / push_all_by_priority / pop_best sequence (buffers of 1-3 slots) and every "
            "insert / remove / split-and-steal sequence (up to 3 heaps) up to a bound, and simulates long walks (buffers of "
            "1-8 slots, heaps up to 64 tasks split repeatedly); each is replayed on the real hbbuffer.c / maxheap.c, which "
            "log slots, parent-store content and every heap's tree after each operation; TLC validates conservation, "
            "overflow-only-when-full, best-priority pops, heap order, size bookkeeping and tree shape. Concurrent push/pop "
            "histories on one buffer (every interleaving of 2-thread scenarios, random schedules of 3 threads, free-running "
            "4 threads) are validated for 'no task lost or duplicated' and best-priority quiescent pops.",
    "note": "Exhaustive: hbbuffer <= 2 (quick) / 3 (thorough) operations with rings of <= 2 tasks over 4 tasks, sizes 1-3; "
            "heaps <= 5 (quick) / 6 (thorough) operations over 5-6 tasks. Under concurrency pop_best is only required to "
            "return a task that is in the buffer (the property promises the best only when quiescent). "
            "Trusted: TLC, vsched, the harness' parent store and bounded tree walks.",
    "technique": "TLA+ spec behaviours (TLC BFS + simulate) replayed on real code + trace validation; interleaving exploration + trace validation",
}


def hb_line(h):
    return ";".join("pop" if o["op"] == "pop" else "%s %d %s" % (o["op"], o["d"], ",".join(str(i) for i in o["r"])) for o in h)


def heap_line(h):
    return ";".join("%s %d %d" % (o["op"], o["h"], o["x"]) for o in h)


def pmap(prio):
    return {i + 1: v for i, v in enumerate(prio)}


def replay_and_validate(ctx, d, exe, mode, args, lines, tracemod, consts, tag, what, fails):
    hp = os.path.join(ctx.scratch, tag + ".txt")
    with open(hp, "w") as f:
        f.write("\n".join(lines) + "\n")
    tr = os.path.join(ctx.scratch, tag + ".ndjson")
    rc, out, err = ctx.run_cmd([exe, mode, hp, tr] + args, timeout=900)
    exs = tracecheck.split_executions(tracecheck.read_ndjson(tr)) if os.path.exists(tr) else []
    if rc != 0:
        k = max(0, len(exs) - 1)
        crash = {"e": "Crash", "rc": str(rc), "behaviour": lines[k] if k < len(lines) else "", "stderr": err[-200:]}
        if exs:
            exs[k] = exs[k] + [crash]
        else:
            exs = [[crash]]
    if exs and exs[0]:
        ctx.sample({"what": what, "behaviour": lines[0], "last_logged_event": exs[0][-1]}, limit=4)
    c2 = dict(consts)
    c2["MaxLen"] = 0
    tm, tc = mcgen.write_mc(d, "T" + tag, tracemod, c2, spec="TSpec", invariants=("AcceptExit",))
    for f in ctx.validate(d, tm, tc, exs, batch=2000, timeout=1500):
        fails.append((what, tracemod, c2, f))
    return len(exs)


def hbbuffer_seq(ctx, d, exe, fails):
    q = ctx.quick
    prio = [0, 1, 1, 2]
    n = 0
    for size in (1, 2, 3):
        c = {"Items": set(pmap(prio)), "Prio": pmap(prio), "Size": size, "MaxLen": 2 if q else 3, "MaxChain": 2}
        mod, cfg = mcgen.write_mc(d, "hb%d" % size, "HBBuffer", c, invariants=("TypeOK", "Emit"))
        r = ctx.tlc_check(d, mod, cfg, must_cover=("PushAll", "PushPrio", "PopBest"), workers=4, timeout=1500)
        lines = sorted(set(hb_line(h) for h in (tlc._parse_tla_string_list(l) for l in r.printed) if h))
        n += replay_and_validate(ctx, d, exe, "hbseq", [str(size), ",".join(str(p) for p in prio)], lines, "HBTrace", c,
                                 "hb%d" % size, "hbbuffer size %d" % size, fails)
    ctx.extra["hb_behaviours_bfs"] = n
    prio = [0, 1, 1, 2, 2, 0, 3, 1]
    ns = 0
    for size in ((1, 3, 8) if q else (1, 2, 3, 5, 8)):
        depth = 10 if q else 20
        c = {"Items": set(pmap(prio)), "Prio": pmap(prio), "Size": size, "MaxLen": depth, "MaxChain": 3}
        mod, cfg = mcgen.write_mc(d, "hbsim%d" % size, "HBBuffer", c, invariants=("TypeOK", "Emit"))
        hs = ctx.tlc_histories(d, mod, cfg, 120 if q else 1000, depth + 1, workers=4)
        lines = sorted(set(hb_line(h) for h in hs))
        ns += replay_and_validate(ctx, d, exe, "hbseq", [str(size), ",".join(str(p) for p in prio)], lines, "HBTrace", c,
                                  "hbsim%d" % size, "hbbuffer size %d (walks)" % size, fails)
    ctx.extra["hb_behaviours_sim"] = ns
    return n + ns


def heap_seq(ctx, d, exe, fails):
    q = ctx.quick
    prio = [0, 1, 1, 2, 2]
    c = {"Items": set(pmap(prio)), "Prio": pmap(prio), "MaxHeaps": 3, "MaxLen": 5 if q else 6, "InsHeaps": {1, 2, 3}}
    mod, cfg = mcgen.write_mc(d, "heap", "MaxHeap", c, invariants=("TypeOK", "Emit"))
    r = ctx.tlc_check(d, mod, cfg, must_cover=("Insert", "Remove", "Split"), workers=4, timeout=1500)
    lines = sorted(set(heap_line(h) for h in (tlc._parse_tla_string_list(l) for l in r.printed) if h))
    n = replay_and_validate(ctx, d, exe, "heapseq", [",".join(str(p) for p in prio), "3"], lines, "HeapTrace", c, "heap",
                            "maxheap", fails)
    ctx.extra["heap_behaviours_bfs"] = n
    prio = [(7 * i + 3) % 11 for i in range(64)]
    depth = 120 if q else 200
    ns = 0
    for tag, ins in (("heapsim", set(range(1, 15))), ("heapsim1", {1})):     # many heaps / one large heap split repeatedly
        c = {"Items": set(pmap(prio)), "Prio": pmap(prio), "MaxHeaps": 14, "MaxLen": depth, "InsHeaps": ins}
        mod, cfg = mcgen.write_mc(d, tag, "MaxHeap", c, invariants=("Emit",))
        hs = ctx.tlc_histories(d, mod, cfg, 24 if q else 150, depth + 1, workers=4)
        lines = sorted(set(heap_line(h) for h in hs))
        ns += replay_and_validate(ctx, d, exe, "heapseq", [",".join(str(p) for p in prio), "14"], lines, "HeapTrace", c, tag,
                                  "maxheap (walks, up to 64 tasks)", fails)
    ctx.extra["heap_behaviours_sim"] = ns
    return n + ns


EXPLORE = [
    {"name": "prio2", "size": 2, "prios": [0, 1, 1, 2, 2], "init": [1], "threads": ["push_prio:4,2 pop", "push_all:3,5 pop repush_prio:2"]},
    {"name": "evict1", "size": 1, "prios": [0, 1, 2, 3], "init": [2], "threads": ["push_prio:3 pop", "push_prio:4,1 pop"]},
    {"name": "up", "size": 2, "prios": [0, 1, 2, 3, 1], "init": [], "threads": ["push_all:1,2,3 pop", "up_all:4 pop repush_all:2 push_prio:5"]},
]
RANDOM = [
    {"name": "three1", "size": 1, "prios": [0, 1, 2, 3], "init": [2], "threads": ["push_prio:3 pop", "push_prio:4,1 pop", "pop repush_all:1"]},
    {"name": "three3", "size": 3, "prios": [0, 1, 2, 3, 1, 2, 0], "init": [1, 2],
     "threads": ["push_prio:3,5 pop repush_prio:2", "push_all:4,6 pop pop", "pop repush_prio:1 push_prio:7 pop"]},
]
STRESS = {"name": "stress", "size": 4, "prios": [0, 1, 2, 3, 1, 2, 0, 3, 2, 1], "init": [1, 2, 3],
          "threads": ["push_prio:4,5 pop repush_prio:2 pop repush_all:4", "push_all:6 pop pop repush_prio:2 repush_prio:3",
                      "pop repush_prio:1 push_prio:7,8 pop repush_all:4", "push_prio:9 pop push_all:10 pop repush_prio:4"]}


def annotate(ex):
    """copy what every call returned / handed to the parent into its inv event (fields pr, pp; see HBConcTrace.tla)"""
    out = []
    for i, ev in enumerate(ex):
        if ev.get("e") == "inv":
            ev = dict(ev)
            ev["pp"], ev["pr"] = [], 0
            for w in ex[i + 1:]:
                if w.get("e") == "res" and w.get("t") == ev.get("t"):
                    ev["pp"], ev["pr"] = w.get("par", []), w.get("ret", 0)
                    break
        out.append(ev)
    return out


def hbbuffer_conc(ctx, d, exe, fails):
    limit = 30000 if ctx.quick else 400000
    nrand = 400 if ctx.quick else 20000
    total = 0

    def go(sc, mode, arg, extra=()):
        scf = os.path.join(ctx.scratch, sc["name"] + ".scn")
        with open(scf, "w") as f:
            f.write("size %d\nprios %s\n" % (sc["size"], ",".join(str(p) for p in sc["prios"])))
            if sc["init"]:
                f.write("init %s\n" % " ".join(str(i) for i in sc["init"]))
            for t, ops in enumerate(sc["threads"]):
                f.write("t %d %s\n" % (t, ops))
        tr = os.path.join(ctx.scratch, "%s.%s.trace" % (sc["name"], mode))
        meta = os.path.join(ctx.scratch, "%s.%s.meta" % (sc["name"], mode))
        rc, out, err = ctx.run_cmd([exe, mode, scf, str(arg), tr, meta] + list(extra), timeout=1200)
        exs = tracecheck.split_executions(tracecheck.read_ndjson(tr)) if os.path.exists(tr) else []
        if rc != 0:
            exs.append((exs.pop() if exs else []) + [{"e": "Crash", "rc": str(rc), "stderr": err[-300:]}])
        last = {}
        if os.path.exists(meta):
            for l in open(meta):
                last = json.loads(l)
        distinct, mult = tracecheck.dedupe(exs)
        distinct = [annotate(e) for e in distinct]
        c = {"Items": set(pmap(sc["prios"])), "Prio": pmap(sc["prios"]), "Size": sc["size"], "MaxLen": 0, "MaxChain": 1,
             "Thr": set(range(1, 10))}
        tm, tc = mcgen.write_mc(d, "C" + sc["name"], "HBConcTrace", c, spec="TSpec", invariants=("AcceptExit", "NothingTwice"))
        if distinct:
            ctx.sample({"scenario": sc["name"], "history": distinct[len(distinct) // 2]}, limit=6)
        for f in ctx.validate(d, tm, tc, distinct, batch=500, timeout=1500):
            fails.append(("hbbuffer concurrent scenario %s" % sc["name"], "HBConcTrace", c, f))
        ctx.extra.setdefault("scenarios", []).append({"name": sc["name"], "mode": mode, "executions": len(exs),
                                                      "exhaustive": last.get("exhaustive"), "distinct_histories": len(distinct)})
        return len(exs)

    for sc in EXPLORE:
        total += go(sc, "explore", limit)
    for sc in RANDOM:
        total += go(sc, "random", nrand, [str(ctx.seed)])
    total += go(STRESS, "stress", 200 if ctx.quick else 5000, [str(ctx.seed)])
    ctx.extra["conc_executions"] = total
    return total


def run(ctx):
    d = ctx.stage("Heap")
    exe = ctx.harness("heap_replay", ["harness/heap/heap_replay.c"])
    fails = []
    n = hbbuffer_seq(ctx, d, exe, fails)
    n += heap_seq(ctx, d, exe, fails)
    ctx.exhaustive = True
    n += hbbuffer_conc(ctx, d, exe, fails)
    ctx.evaluations = n
    for what, tracemod, c, f in fails:
        ctx.violation("%s: real code rejected by %s: %s" % (what, tracemod, json.dumps(f.describe())[:1500]),
                      {"trace_module": tracemod, "consts": {k: (sorted(v) if isinstance(v, set) else v) for k, v in c.items()},
                       "events": f.execution, "detail": f.describe()})
    ctx.assume("maxheap functions have a single caller per heap (as the schedulers use them)")
    ctx.assume("tasks handed to the parent store stay there; a task is pushed only by the thread that owns it")


def replay(ctx, obj):
    d = ctx.stage("Heap")
    c = dict(obj["consts"])
    for k in ("Items", "Thr"):
        if k in c:
            c[k] = set(c[k])
    c["Prio"] = {int(k): v for k, v in c["Prio"].items()}
    inv = ("AcceptExit", "NothingTwice") if obj["trace_module"] == "HBConcTrace" else ("AcceptExit",)
    tm, tc = mcgen.write_mc(d, "Treplay", obj["trace_module"], c, spec="TSpec", invariants=inv)
    for f in ctx.validate(d, tm, tc, [obj["events"]]):
        ctx.violation("recorded trace still rejected: %s" % json.dumps(f.describe())[:1000], obj)
