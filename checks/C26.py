"""C26  Data copy ownership transfers keep one consistent newest version (parsec/data.c).

spec/Data/Coherency.tla       Start/End = statement-by-statement transcription of
                              parsec_data_start/end_transfer_ownership_to_copy; Access(dev, mode, bump) = one access of a
                              client that follows the runtime's discipline; the property's four clauses as invariants
                              (OneOwner, TransferIff, SourceNewest, WriteOwns)
spec/Data/CoherencyTrace.tla  validates every access executed on the real functions (result + complete logged state)

1. TLC, exhaustive over the state graph (versions bounded): the four clauses hold for the transcription in which a
   read access leaves an OWNED target OWNED (EndKeepsOwned = TRUE, the proposed repair fixes/data-owner-read.diff);
   for the transcription of the pinned commit (a read turns even the owner SHARED) TLC must find a violation
   (sensitivity of the model + model-level reproduction of the defect: W on a; R on a; R on b reads a stale copy).
2. behaviours: (a) every access sequence up to a bound (TLC BFS with a history variable), (b) one test per transition
   of the bounded state graph (shortest path to the source state + the transition), (c) TLC -simulate long walks; all
   replayed on the real functions with a privately allocated parsec_data_t (harness/data/data_replay.c).
3. TLC validates every recorded access against CoherencyTrace (Level prop = verdict, Level code = conformance).
"""
import json
import os
import re

from lib import mcgen, tlc, tracecheck

META = {
    "level": "model_checking",
    "text": "The two ownership-transfer functions of data.c are transcribed statement by statement into Coherency.tla; TLC "
            "checks the four clauses of the property (one owner; transfer requested iff a reading access targets a copy "
            "that is not up to date; the transfer source holds the newest version; a write makes the target the owner) "
            "over the whole bounded state graph, enumerates every access sequence up to a bound and one test per "
            "transition of the graph; all are replayed on the real functions on a private parsec_data_t with 3 copies "
            "and every access (result and full state) is validated by TLC against the property.",
    "note": "3 device copies (2 and 3 in thorough); all sequences of <= 3 (quick) / 4-5 (thorough) accesses (device, R/W/RW, "
            "bump), every transition of the state graph with versions <= 2 / 4, random walks of 10-16 accesses. Client "
            "discipline assumed: W always bumps, R never, RW may; the client copies the version of the named source. "
            "Trusted: TLC, the harness playing the client.",
    "technique": "TLA+ transcription checked by TLC (invariants) + replay of all bounded access sequences and per-transition "
                 "tests on the real code + trace validation (TLC)",
}

KEY = "data-owner-read-downgrade"
INVS = ("TypeOK", "OneOwner", "WriteOwns", "SourceNewest", "TransferIff")


def consts(n, maxlen, maxver, keephist, fixed, kinds=("own", "exc")):
    return {"N": n, "Kinds": set(kinds), "MaxLen": maxlen, "MaxVer": maxver, "KeepHist": keephist, "EndKeepsOwned": fixed}


def to_line(kind, ops):
    return kind + " | " + ";".join("%d %s %d" % (o[0], o[1], o[2]) for o in ops)


_RE_ACC = re.compile(r'Access\((\d+),\s*(\d),\s*(\d)\)')


def label_op(lab):
    m = _RE_ACC.search(lab)
    if not m:
        raise tlc.TLCError("unexpected edge label %r" % lab)
    return (int(m.group(1)), ("R", "W", "RW")[int(m.group(2)) - 1], int(m.group(3)))


def quick_verdict(ctx, d, mod, cfg, executions):
    """One TLC run over a batch, no search for the culprit: (accepted, first execution numbers collected by Level
    "report", number of executions it reported)."""
    p = os.path.join(ctx.scratch, "q-%s.ndjson" % mod)
    evs = []
    for k, e in enumerate(executions):
        if k:
            evs.append(tracecheck.RESET)
        evs.extend(e)
    tracecheck._write(evs, p)
    v, r = tracecheck.validate_file(d, mod, cfg, p, timeout=1500)
    ctx.states += r.distinct
    ctx.transitions += r.generated
    ctx.extra["trace_tlc_runs"] = ctx.extra.get("trace_tlc_runs", 0) + 1
    rej, nrej = set(), 0
    for l in v.out.splitlines():
        if l.startswith('"VERIF-REJECTS '):
            o = json.loads(l[len('"VERIF-REJECTS '):-1].replace('\\"', '"'))
            rej, nrej = set(o["first"]), o["n"]
    os.unlink(p)
    return v.accepted, rej, nrej


def trace_cfg(d, n, level, fixed):
    c = consts(n, 0, 0, False, fixed)
    c["Level"] = level
    return mcgen.write_mc(d, "tr%d_%s_%d" % (n, level, int(fixed)), "CoherencyTrace", c, spec="TSpec", invariants=("AcceptExit",))


def run_harness(ctx, exe, n, lines, tag):
    hp = os.path.join(ctx.scratch, "beh%d_%s.txt" % (n, tag))
    with open(hp, "w") as f:
        for l in lines:
            f.write(l + "\n")
    tr = os.path.join(ctx.scratch, "trace%d_%s.ndjson" % (n, tag))
    rc, out, err = ctx.run_cmd([exe, str(n), hp, tr], timeout=900)
    exs = tracecheck.split_executions(tracecheck.read_ndjson(tr)) if os.path.exists(tr) else []
    if rc != 0:
        if not exs:
            exs.append([])
        k = len(exs) - 1
        exs[-1].append({"e": "Crash", "rc": str(rc), "behaviour": lines[k] if k < len(lines) else ""})
        while len(exs) < len(lines):
            exs.append([{"e": "Crash", "rc": "not run"}])
    return exs


def run(ctx):
    d = ctx.stage("Data")
    exe = ctx.harness("data_replay", ["harness/data/data_replay.c"])
    q = ctx.quick
    # ---- 1. the transcription against the four clauses, whole bounded state graph ------------------------------
    gv = 2 if q else 4
    mod, cfg = mcgen.write_mc(d, "repaired", "Coherency", consts(3, 0, gv, False, True), invariants=INVS)
    ctx.tlc_check(d, mod, cfg, must_cover=("Access",), workers=4, timeout=1500)
    mod, cfg = mcgen.write_mc(d, "pinned", "Coherency", consts(3, 0, gv, False, False), invariants=INVS)
    r = ctx.tlc_check(d, mod, cfg, expect_ok=False, workers=2, timeout=1500)
    if r.violated not in ("TransferIff", "SourceNewest"):
        raise tlc.TLCError("sensitivity self-test: the transcription of the pinned end_transfer (a read turns the owner "
                           "SHARED) must violate TransferIff/SourceNewest, got %r" % r.violated)
    ctx.extra["model_of_pinned_code_violates"] = r.violated

    # ---- 2. behaviours -----------------------------------------------------------------------------------------
    sets = {}                                   # n -> list of behaviour lines
    # (a) every access sequence up to the bound
    for n, ml in (((3, 3),) if q else ((3, 4), (2, 5))):
        mod, cfg = mcgen.write_mc(d, "bfs%d" % n, "Coherency", consts(n, ml, ml, True, False), invariants=("TypeOK", "Emit"))
        r = ctx.tlc_check(d, mod, cfg, must_cover=("Access",), workers=4, timeout=2400)
        hs = [h for h in (tlc._parse_tla_string_list(l) for l in r.printed) if h]
        if not hs:
            raise tlc.TLCError("no behaviour printed by %s" % mod)
        sets.setdefault(n, []).extend(
            to_line(h["k"], [(o["dev"], o["mode"], 1 if o["bump"] else 0) for o in h["ops"]]) for h in hs)
        ctx.extra.setdefault("behaviours_bfs", {})[str(n)] = len(hs)
    # (b) one test per transition of the bounded state graph of the code as it is
    mod, cfg = mcgen.write_mc(d, "graph", "Coherency", consts(3, 0, gv, False, False), invariants=("TypeOK",))
    g = ctx.tlc_graph(d, mod, cfg, timeout=1500)
    pred_kind = {}
    for i in g.init:
        pred_kind[i] = tlc.parse_state_label(g.nodes[i])["kind"].strip('"')
    # per initial node: shortest path to every reachable state, then each outgoing transition
    lines = set()
    from collections import deque
    ntests = 0
    for i0 in g.init:
        kind = pred_kind[i0]
        pred = {i0: None}
        dq = deque([i0])
        while dq:
            u = dq.popleft()
            for lab, v in g.edges.get(u, ()):
                if v not in pred:
                    pred[v] = (u, lab)
                    dq.append(v)
        for u in pred:
            path = []
            x = u
            while pred[x] is not None:
                x, lab = pred[x]
                path.append(label_op(lab))
            path.reverse()
            for lab, v in g.edges.get(u, ()):
                lines.add(to_line(kind, path + [label_op(lab)]))
                ntests += 1
    sets.setdefault(3, []).extend(sorted(lines))
    ctx.extra["graph_transitions"] = ntests
    ctx.extra["graph_tests_distinct"] = len(lines)
    # (c) long random walks
    depth, num = (10, 300) if q else (16, 4000)
    mod, cfg = mcgen.write_mc(d, "sim", "Coherency", consts(3, depth, depth, True, False), invariants=("TypeOK", "Emit"))
    walks = ctx.tlc_histories(d, mod, cfg, num, depth + 1, workers=4, timeout=1200)
    sets[3].extend(to_line(h["k"], [(o["dev"], o["mode"], 1 if o["bump"] else 0) for o in h["ops"]]) for h in walks)
    ctx.extra["behaviours_simulated"] = len(walks)
    ctx.exhaustive = True

    # ---- 3. replay + validation -----------------------------------------------------------------------------------
    total = 0
    for n in sorted(sets):
        lines = sorted(set(sets[n]), key=lambda l: (l.count(";"), not l.startswith("own"), l))   # shortest first, parsec_data_create state first
        exs = run_harness(ctx, exe, n, lines, "all")
        if len(exs) != len(lines):
            raise tlc.TLCError("harness produced %d executions for %d behaviours (N=%d)" % (len(exs), len(lines), n))
        total += len(lines)
        ctx.sample({"copies": n, "behaviour": lines[len(lines) // 2], "events": exs[len(lines) // 2]})

        def report(idx, known):
            tmod, tcfg = trace_cfg(d, n, "prop", False)
            fails = ctx.validate(d, tmod, tcfg, [exs[i] for i in idx], batch=100000, timeout=1500)
            for f in fails:
                i = idx[f.index]
                what = ("an access on the real data.c functions breaks a clause of the property, behaviour `%s`: %s"
                        % (lines[i][:300], json.dumps(f.describe())[:700]))
                if ctx.violation(what, {"copies": n, "behaviour": lines[i], "events": f.execution, "detail": f.describe()},
                                 key=KEY if known else None) is False:
                    ctx.sample({"known_finding": KEY, "behaviour": lines[i], "detail": f.describe()}, limit=6)

        # conformance with the transcription (pinned variant first, then the repaired one)
        variant = None
        for fixed in (False, True):
            tmod, tcfg = trace_cfg(d, n, "code", fixed)
            ok, _, _ = quick_verdict(ctx, d, tmod, tcfg, exs)
            if ok:
                variant = "repaired" if fixed else "pinned"
                break
        ctx.extra.setdefault("code_variant", {})[str(n)] = variant
        if variant is None:
            ctx.divergences += 1
            ctx.sample({"divergence": "executions with %d copies match neither transcription of data.c" % n}, limit=6)
        # the verdict: one pass that collects the executions breaking a clause, then each reported one alone
        tmod, tcfg = trace_cfg(d, n, "report", False)
        ok, rej, nrej = quick_verdict(ctx, d, tmod, tcfg, exs)
        ctx.traces += len(exs)
        ctx.extra.setdefault("executions_rejected", {})[str(n)] = nrej if ok else "validation stopped"
        if not ok:
            report(list(range(len(exs))), False)      # not a clause: garbage / crash / client bookkeeping - full search
        elif rej:
            # Every execution equals the transcription of the pinned code (variant), whose only difference to the
            # transcription TLC proved correct is end_transfer's downgrade of the owner on a read: the rejections are
            # that defect.  Two of the shortest are validated alone (verdict + longest explainable prefix); if the
            # code follows neither/the repaired transcription every reported execution is examined.
            known = variant == "pinned"
            pick = sorted(rej)[:2] if known else sorted(rej)[:10]
            report([i - 1 for i in pick], known)
    ctx.evaluations = total
    ctx.assume("client discipline: the client copies the source's version on a requested transfer; a write-only access "
               "always completes with a version bump (newest + 1), a read-write access may, a read access never")
    ctx.assume("'requested exactly when not up to date' is demanded of accesses that read; a write-only access must not "
               "request a transfer (data.c: 'we'll just overwrite w/o read')")
    ctx.assume("initial data: host copy OWNED by device 0 (parsec_data_create) or EXCLUSIVE without owner; other copies INVALID")


def replay(ctx, obj):
    d = ctx.stage("Data")
    exe = ctx.harness("data_replay", ["harness/data/data_replay.c"])
    n = obj["copies"]
    exs = run_harness(ctx, exe, n, [obj["behaviour"]], "replay")
    tmod, tcfg = trace_cfg(d, n, "prop", False)
    for f in ctx.validate(d, tmod, tcfg, exs):
        ctx.violation("behaviour still rejected on the current tree: %s" % json.dumps(f.describe())[:800],
                      {"copies": n, "behaviour": obj["behaviour"], "events": f.execution})
