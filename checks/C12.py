"""C12  User-triggered termination reaches every process exactly once.

spec/Termdet/UserTrigger.tla       the protocol of termdet_user_trigger_module.c (Ready / Trigger / Deliver, delayed
                                   messages, the shifted binary tree of parsec_termdet_signal_termination) + the property
spec/Termdet/UserTriggerTrace.tla  property-level validation of what the real module did on N virtual ranks

1. TLC, exhaustive: N = 1..8, every triggering process, every order of taskpool_ready / delivery: nobody is notified
   twice, the root never, everybody else exactly once when nothing is in flight any more, every maximal behaviour
   ends there.  Sensitivity self-test: the variant with `2*rel+2 <= n` must violate AtMostOnce.
2. Environment replay: the maximal paths of the TLC state graph (N = 2..4, 5 in thorough) are replayed on N virtual
   ranks of the real module (harness/usertrigger/ut_replay.c): real taskpool_ready / taskpool_set_nb_tasks(0) /
   msg_dispatch, send_am recorded.  Event-level traces validated by UserTriggerTrace.
3. Sweep on the real code: all N <= 32 (thorough: 128), all roots, FIFO / LIFO / random delivery, plus large N
   (255..4096, sampled roots); each (N, root, order) is one `run` line (edge list in delivery order) validated by TLC.
"""
import json
import os
import re

from lib import mcgen, tlc, tracecheck

META = {
    "level": "model_checking",
    "text": "TLC checks the user-trigger broadcast protocol (shifted binary tree, delayed notifications before "
            "taskpool_ready) exhaustively for 1..8 processes, all triggering processes and all delivery orders; the real "
            "module is then run on N virtual ranks in one process (recorded send_am, real msg_dispatch) for the TLC "
            "behaviours and for every (N, root) of a sweep, and TLC validates each recorded edge list: every process but "
            "the triggering one is notified exactly once, nobody twice, nobody outside the communicator.",
    "note": "Exhaustive in the model for N <= 8.  Real code: every root for N <= 32 (quick) / 128 (thorough) under three "
            "delivery orders, sampled roots for N in {255,256,257,1023,1024,4095,4096}.  The root's own trigger counts as "
            "its notification (a message reaching the root is a second one).  Asserts are compiled out (RelWithDebInfo). "
            "Trusted: TLC, the virtual-rank harness (per-rank view of the process-wide delayed-message list).",
    "technique": "TLA+ protocol model (TLC exhaustive) + environment replay on virtual ranks + edge-list trace validation (TLC)",
}

LARGE = (255, 256, 257, 1023, 1024, 4095, 4096)
JVM_ENV = {"JAVA_TOOL_OPTIONS": "-Xss32m"}


def label_to_step(lab):
    m = re.match(r"(\w+)\(([^)]*)\)", lab)
    if not m:
        raise tlc.TLCError("unexpected edge label %r" % lab)
    args = [a.strip() for a in m.group(2).split(",")]
    return {"Ready": "R", "Trigger": "T", "Deliver": "D"}[m.group(1)] + " " + " ".join(args)


def run_lines_to_execs(path):
    return [[ev] for ev in tracecheck.read_ndjson(path)]


def sweep(ctx, exe, runs, tag):
    rf = os.path.join(ctx.scratch, "runs-%s.txt" % tag)
    with open(rf, "w") as f:
        for r in runs:
            f.write("%d %d %d %d\n" % r)
    tr = os.path.join(ctx.scratch, "sweep-%s.ndjson" % tag)
    rc, out, err = ctx.run_cmd([exe, "sweep", rf, tr], timeout=900)
    exs = run_lines_to_execs(tr) if os.path.exists(tr) else []
    if rc != 0 or len(exs) != len(runs):
        k = min(len(exs), len(runs) - 1)
        exs = exs[:k] + [[{"e": "Crash", "rc": str(rc), "run": "%d %d %d %d" % runs[k], "stderr": err[-300:]}]]
    return exs


def behaviours(ctx, exe, lines, tag):
    bf = os.path.join(ctx.scratch, "beh-%s.txt" % tag)
    with open(bf, "w") as f:
        f.write("\n".join(lines) + "\n")
    tr = os.path.join(ctx.scratch, "beh-%s.ndjson" % tag)
    rc, out, err = ctx.run_cmd([exe, "replay", bf, tr], timeout=900)
    exs = tracecheck.split_executions(tracecheck.read_ndjson(tr)) if os.path.exists(tr) else []
    flags = [int(x) for x in out.split()] if out.strip() else []
    if rc != 0 or len(exs) != len(lines):
        k = min(len(exs), len(lines)) - 1
        exs = exs[:max(k, 0)] + [[{"e": "Crash", "rc": str(rc), "behaviour": lines[max(k, 0)], "stderr": err[-300:]}]]
    return exs, flags


def rejected_once(ctx, sub, module, cfg, events, env=None):
    """One TLC run: is this single (corrupted) execution rejected ?  (binding self-test)"""
    p = os.path.join(ctx.scratch, "selftest.ndjson")
    with open(p, "w") as f:
        for ev in events:
            f.write(json.dumps(ev, separators=(",", ":")) + "\n")
    v, r = tracecheck.validate_file(ctx.spec(sub), module, cfg, p, env=env)
    ctx.extra["trace_tlc_runs"] = ctx.extra.get("trace_tlc_runs", 0) + 1
    return not v.accepted


def run(ctx):
    d = ctx.stage("Termdet")
    exe = ctx.harness("ut_replay", ["harness/usertrigger/ut_replay.c"])
    invs = ("TypeOK", "AtMostOnce", "AllNotified", "CbOnce", "Completes")

    # ---- 1. the protocol model, exhaustive ---------------------------------------------------------------------
    mod, cfg = mcgen.write_mc(d, "ut_all", "UserTrigger", {"Ns": set(range(1, 9)), "Variant": "code"}, invariants=invs)
    ctx.tlc_check(d, mod, cfg, must_cover=("Ready", "Trigger", "Deliver"), workers=2)
    ctx.exhaustive = True
    mod, cfg = mcgen.write_mc(d, "ut_le", "UserTrigger", {"Ns": {4}, "Variant": "le"}, invariants=("AtMostOnce",))
    r = ctx.tlc_check(d, mod, cfg, expect_ok=False, workers=2)
    if r.violated != "AtMostOnce":
        raise tlc.TLCError("sensitivity self-test: the `<=` variant of the tree must violate AtMostOnce, got %r" % r.violated)

    # ---- 2. TLC behaviours replayed on virtual ranks of the real module -------------------------------------------
    lines = []
    limit = 1500 if ctx.quick else 12000
    mod, cfg = mcgen.write_mc(d, "utg", "UserTrigger", {"Ns": {2, 3, 4} if ctx.quick else {2, 3, 4, 5}, "Variant": "code"},
                              invariants=invs)
    g = ctx.tlc_graph(d, mod, cfg)
    for i0 in sorted(g.init, key=lambda i: int(tlc.parse_state_label(g.nodes[i])["N"])):
        n = int(tlc.parse_state_label(g.nodes[i0])["N"])
        sub = tlc.Graph()
        sub.nodes, sub.edges, sub.init = g.nodes, g.edges, [i0]
        paths, total, exhaustive = tlc.maximal_paths(sub, limit=limit, rng=ctx.rng)
        ctx.extra.setdefault("behaviours", []).append({"N": n, "maximal_paths": total, "replayed": len(paths),
                                                       "exhaustive": exhaustive})
        for labels, end in paths:
            lines.append("%d;" % n + ";".join(label_to_step(l) for l in labels))
    bexs, flags = behaviours(ctx, exe, lines, "tlc")
    for i, ex in enumerate(bexs):
        # conformance with the model: the behaviour was replayable as is, every callback fired once, all TERMINATED
        end = ex[-1] if ex else {}
        bad = (i < len(flags) and flags[i] != 0) or (end.get("e") == "end" and (
            any(c != 1 for c in end["cb"]) or any(s != 4 for s in end["st"])))
        if bad:
            ctx.divergences += 1
            ctx.sample({"divergence": {"behaviour": lines[i] if i < len(lines) else None, "end": end}}, limit=6)
    if bexs:
        ctx.sample({"behaviour": lines[0], "events": bexs[0]})

    # ---- 3. sweep over (N, root, delivery order) on the real code ---------------------------------------------------
    nmax = 32 if ctx.quick else 128
    runs = [(n, root, order, ctx.seed) for n in range(1, nmax + 1) for root in range(n) for order in (0, 1, 2)]
    for n in LARGE:
        roots = {0, n - 1, n // 2}
        while len(roots) < (5 if ctx.quick else 48):
            roots.add(ctx.rng.randrange(n))
        runs += [(n, root, ctx.rng.randrange(3), ctx.seed) for root in sorted(roots)]
    sexs = sweep(ctx, exe, runs, "all")
    ctx.extra["sweep_runs"] = len(runs)
    ctx.extra["sweep_edges"] = sum(len(e[0].get("edges", ())) for e in sexs if e)
    ctx.extra["behaviours_replayed"] = len(lines)
    if sexs and sexs[0]:
        k = min(len(sexs) - 1, 40)
        ctx.sample({"run": runs[k], "line": sexs[k][0]})

    # ---- verdict -----------------------------------------------------------------------------------------------------
    ctx.evaluations = len(bexs) + len(sexs)
    fails = ctx.validate("Termdet", "UserTriggerTrace", "UserTriggerTrace.cfg", bexs, batch=4000, env=JVM_ENV)
    for f in fails:
        i = f.index
        ctx.violation("user-trigger termination: a process is notified twice / not at all (TLC behaviour replayed on the real "
                      "module): %s" % json.dumps(f.describe())[:1200],
                      {"kind": "behaviour", "line": lines[i] if i < len(lines) else None, "events": f.execution})
    fails = ctx.validate("Termdet", "UserTriggerTrace", "UserTriggerTrace.cfg", sexs, batch=6000, env=JVM_ENV, timeout=1500)
    for f in fails:
        ev = f.execution[0] if f.execution else {}
        ctx.violation("user-trigger termination: the notifications recorded from the real module for N=%s root=%s are not "
                      "'every other process exactly once': %s" % (ev.get("n"), ev.get("root"), json.dumps(ev)[:800]),
                      {"kind": "run", "line": "%d %d %d %d" % runs[f.index] if f.index < len(runs) else None, "events": f.execution})

    # ---- binding self-test: one corrupted field must be rejected --------------------------------------------------------
    good = [e for e in sexs if e and e[0].get("e") == "run" and len(e[0]["edges"]) >= 3]
    if good and not ctx.violations:
        ev = json.loads(json.dumps(good[len(good) // 2][0]))
        ev["edges"][-1][1] = ev["edges"][0][1]          # last notification goes to an already notified process
        if not rejected_once(ctx, "Termdet", "UserTriggerTrace", "UserTriggerTrace.cfg", [ev], JVM_ENV):
            raise tlc.TLCError("binding self-test: a run with a duplicated destination was accepted by UserTriggerTrace")
    ctx.assume("a single process triggers termination (contract of the user_trigger detector)")
    ctx.assume("asserts compiled out (RelWithDebInfo); a duplicate notification is observed by the harness, not by a crash")


def replay(ctx, obj):
    exe = ctx.harness("ut_replay", ["harness/usertrigger/ut_replay.c"])
    if obj.get("kind") == "run" and obj.get("line"):
        exs = sweep(ctx, exe, [tuple(int(x) for x in obj["line"].split())], "replay")
    elif obj.get("kind") == "behaviour" and obj.get("line"):
        exs, _ = behaviours(ctx, exe, [obj["line"]], "replay")
    else:
        exs = [obj["events"]]
    for f in ctx.validate("Termdet", "UserTriggerTrace", "UserTriggerTrace.cfg", exs, env=JVM_ENV):
        ctx.violation("still rejected: %s" % json.dumps(f.describe())[:1000], obj)
