"""C12  User-triggered termination reaches every process exactly once.

spec/Termdet/UserTrigger.tla       the protocol of termdet_user_trigger_module.c (Ready / Trigger / Deliver, delayed
                                   messages, the shifted binary tree of parsec_termdet_signal_termination) + the property
spec/Termdet/UserTriggerTrace.tla  property-level validation of what the real module did on N virtual ranks

1. TLC, exhaustive: N = 1..8, every triggering process, every order of taskpool_ready / delivery: nobody is notified
   twice, the root never, everybody else exactly once when nothing is in flight any more, every maximal behaviour
   ends there.  Sensitivity self-test: the variant with `2*rel+2 <= n` must violate AtMostOnce.
2. Environment replay: the maximal paths of the TLC state graph (N = 2..4, 5 in thorough) are replayed on N virtual
   ranks of the real module (harness/usertrigger/ut_replay.c): real taskpool_ready / taskpool_set_nb_tasks(0) /
   msg_dispatch, send_am recorded.  Event-level traces validated by UserTriggerTrace.
3. Sweep on the real code: all N <= 32 (thorough: 128), all roots, FIFO / LIFO / random delivery, plus large N
   (255..4096, sampled roots); each (N, root, order) is one `run` line (edge list in delivery order) validated by TLC.
4. Inside one process (spec/Termdet/UserTriggerImpl.tla): the threads of a process call the module concurrently (the user
   trigger / the notification from the parent, flying-message accounting addto_runtime_actions(+1/-1), task release);
   steps = code between two yield points (atomics, send_am).  TLC: whatever the interleaving the process sends the
   notifications of its children once and fires its callback once (= the atomic Trigger / Deliver step of UserTrigger).
   Sensitivity self-test: with `state = TERMINATED` moved after the send loop (Order = "late") AtMostOnceI must fail.
   Binding: every maximal path of the TLC graph is a schedule replayed on the real module (harness mode conc, cooperative
   scheduler vsched.h, send_am is a yield point), the harness also explores every interleaving itself; results / sends /
   callbacks are compared with the model (divergences) and every execution, completed by the sequential delivery of what
   is in flight, is validated by UserTriggerTrace (nobody notified twice, everybody once).
"""
import json
import os
import re

from lib import mcgen, tlc, tracecheck

META = {
    "level": "model_checking",
    "text": "TLC checks the user-trigger broadcast protocol (shifted binary tree, delayed notifications before "
            "taskpool_ready) exhaustively for 1..8 processes, all triggering processes and all delivery orders; the real "
            "module is then run on N virtual ranks in one process (recorded send_am, real msg_dispatch) for the TLC "
            "behaviours and for every (N, root) of a sweep, and TLC validates each recorded edge list: every process but "
            "the triggering one is notified exactly once, nobody twice, nobody outside the communicator.  A second, "
            "implementation-shaped model (threads of one process, one step per segment between yield points, one send per "
            "step) shows that concurrent calls of the module by several threads of the terminating process (trigger or "
            "parent notification vs. flying-message accounting) still produce one broadcast and one callback; its schedules "
            "are replayed on the real module under a cooperative scheduler, all interleavings of the scenarios are explored "
            "on the real code, and TLC validates each execution.",
    "note": "Exhaustive in the model for N <= 8.  Real code: every root for N <= 32 (quick) / 128 (thorough) under three "
            "delivery orders, sampled roots for N in {255,256,257,1023,1024,4095,4096}.  The root's own trigger counts as "
            "its notification (a message reaching the root is a second one).  Asserts are compiled out (RelWithDebInfo). "
            "In-process concurrency: 2-3 threads, <= 4 operations each, exhaustive over the interleavings at yield-point "
            "granularity (atomics of the module + every send_am); the zero-crossing test and `state = TERMINATED` that "
            "follow the fetch-add without a yield point are one step with it (at statement granularity TLC shows that a "
            "runtime action accounted after the counter reached zero could re-run the broadcast in the unchanged code too: "
            "such an action is outside the counting contract, see assumptions). "
            "Trusted: TLC, the virtual-rank harness (per-rank view of the process-wide delayed-message list).",
    "technique": "TLA+ protocol model (TLC exhaustive) + environment replay on virtual ranks + edge-list trace validation (TLC) "
                 "+ implementation-shaped thread model (TLC) with schedule replay / exhaustive interleaving of the real module",
}

LARGE = (255, 256, 257, 1023, 1024, 4095, 4096)
JVM_ENV = {"JAVA_TOOL_OPTIONS": "-Xss32m"}


def label_to_step(lab):
    m = re.match(r"(\w+)\(([^)]*)\)", lab)
    if not m:
        raise tlc.TLCError("unexpected edge label %r" % lab)
    args = [a.strip() for a in m.group(2).split(",")]
    return {"Ready": "R", "Trigger": "T", "Deliver": "D"}[m.group(1)] + " " + " ".join(args)


def run_lines_to_execs(path):
    return [[ev] for ev in tracecheck.read_ndjson(path)]


def sweep(ctx, exe, runs, tag):
    rf = os.path.join(ctx.scratch, "runs-%s.txt" % tag)
    with open(rf, "w") as f:
        for r in runs:
            f.write("%d %d %d %d\n" % r)
    tr = os.path.join(ctx.scratch, "sweep-%s.ndjson" % tag)
    rc, out, err = ctx.run_cmd([exe, "sweep", rf, tr], timeout=900)
    exs = run_lines_to_execs(tr) if os.path.exists(tr) else []
    if rc != 0 or len(exs) != len(runs):
        k = min(len(exs), len(runs) - 1)
        exs = exs[:k] + [[{"e": "Crash", "rc": str(rc), "run": "%d %d %d %d" % runs[k], "stderr": err[-300:]}]]
    return exs


def behaviours(ctx, exe, lines, tag):
    bf = os.path.join(ctx.scratch, "beh-%s.txt" % tag)
    with open(bf, "w") as f:
        f.write("\n".join(lines) + "\n")
    tr = os.path.join(ctx.scratch, "beh-%s.ndjson" % tag)
    rc, out, err = ctx.run_cmd([exe, "replay", bf, tr], timeout=900)
    exs = tracecheck.split_executions(tracecheck.read_ndjson(tr)) if os.path.exists(tr) else []
    flags = [int(x) for x in out.split()] if out.strip() else []
    if rc != 0 or len(exs) != len(lines):
        k = min(len(exs), len(lines)) - 1
        exs = exs[:max(k, 0)] + [[{"e": "Crash", "rc": str(rc), "behaviour": lines[max(k, 0)], "stderr": err[-300:]}]]
    return exs, flags


def rejected_once(ctx, sub, module, cfg, events, env=None):
    """One TLC run: is this single (corrupted) execution rejected ?  (binding self-test)"""
    p = os.path.join(ctx.scratch, "selftest.ndjson")
    with open(p, "w") as f:
        for ev in events:
            f.write(json.dumps(ev, separators=(",", ":")) + "\n")
    v, r = tracecheck.validate_file(ctx.spec(sub), module, cfg, p, env=env)
    ctx.extra["trace_tlc_runs"] = ctx.extra.get("trace_tlc_runs", 0) + 1
    return not v.accepted


# ---- in-process concurrency (UserTriggerImpl.tla / harness mode conc) ----------------------------------------------
# scenario: threads of virtual rank `me` in a communicator of n; root == me: a thread triggers, else the notification of
# the parent is dispatched by a thread; pre = runtime actions accounted before the threads start.
#   trig  taskpool_set_nb_tasks(tp, 0)              msg  parsec_termdet_user_trigger_msg_dispatch (from the parent)
#   add:v taskpool_addto_runtime_actions(tp, v)     tsk  taskpool_addto_nb_tasks(tp, -1)
#   chk   first op: go on only if taskpool_state() != TERMINATED (precondition of the accounting helpers)
# "flying*": the action was accounted while the tasks still held their reference (strict counting contract);
# "late*":   a thread that saw the taskpool not TERMINATED accounts and completes an action at any time.
CONC = [
    {"id": "late", "n": 3, "me": 0, "root": 0, "pre": 0, "prog": [["trig"], ["chk", "add:1", "add:-1"]]},
    {"id": "lateshift", "n": 7, "me": 5, "root": 5, "pre": 0, "prog": [["trig"], ["chk", "add:1", "add:-1", "tsk"]]},
    {"id": "flying", "n": 3, "me": 1, "root": 1, "pre": 1, "prog": [["trig"], ["add:-1"]]},
    {"id": "relay", "n": 5, "me": 1, "root": 0, "pre": 0, "prog": [["msg"], ["chk", "add:1", "add:-1"]]},
    {"id": "relayflying", "n": 6, "me": 4, "root": 3, "pre": 1, "prog": [["msg"], ["tsk", "add:-1"]]},
    {"id": "late3", "n": 2, "me": 1, "root": 1, "pre": 0, "prog": [["trig"], ["chk", "add:1", "add:-1"], ["chk", "add:1", "add:-1"]]},
]
CONC_THOROUGH = [
    {"id": "flying3", "n": 7, "me": 2, "root": 2, "pre": 2, "prog": [["tsk", "trig"], ["add:1", "add:-1", "add:-1"], ["add:-1"]]},
    {"id": "relay3", "n": 7, "me": 2, "root": 0, "pre": 1, "prog": [["msg"], ["chk", "add:1", "add:-1"], ["add:-1", "tsk"]]},
    {"id": "late3w", "n": 4, "me": 3, "root": 3, "pre": 0, "prog": [["trig"], ["chk", "add:1", "add:-1"], ["chk", "add:2", "add:-2"]]},
]
# the same, every plain access its own step (model only): holds under the strict counting contract
CONC_STMT = [
    {"id": "flyingS", "n": 3, "me": 1, "root": 1, "pre": 1, "prog": [["trig"], ["add:-1"]]},
    {"id": "relayflyingS", "n": 6, "me": 4, "root": 3, "pre": 2, "prog": [["msg"], ["add:-1"], ["tsk", "add:-1"]]},
]
IMPL_INV = ("TypeOKI", "AtMostOnceI", "CbOnceI", "CompleteI", "CompletesI")


def sc_tla(sc, grain):
    def op(o):
        return {"op": "add", "v": int(o[4:])} if o.startswith("add:") else {"op": o, "v": 0}
    return mcgen.tla({"id": sc["id"], "n": sc["n"], "me": sc["me"], "root": sc["root"], "pre": sc["pre"], "grain": grain,
                      "prog": [[op(o) for o in t] for t in sc["prog"]]})


def impl_mc(d, name, scs, order):
    """scs: list of (scenario, grain)"""
    raw = mcgen.Raw("{" + ", ".join(sc_tla(sc, g) for sc, g in scs) + "}")
    maxt = max(len(sc["prog"]) for sc, _ in scs)
    return mcgen.write_mc(d, name, "UserTriggerImpl", {"Scenarios": raw, "Order": order, "MaxT": maxt, "Variant": "code"},
                          invariants=IMPL_INV)


def tla_seq(txt):
    return json.loads(txt.replace("<<", "[").replace(">>", "]"))


def conc_script(scs, schedules, explore_limit):
    out = []
    for sc in scs:
        out.append("S %s %d %d %d %d" % (sc["id"], sc["n"], sc["me"], sc["root"], sc["pre"]))
        out += ["T " + " ".join(t) for t in sc["prog"]]
        out += ["R " + s for s in schedules.get(sc["id"], ())]
        if explore_limit:
            out.append("X %d" % explore_limit)
    return "\n".join(out) + "\n"


def conc_run(ctx, exe, script, tag):
    """-> (executions, metas): one execution / meta per R line and per explored interleaving, in order"""
    sf = os.path.join(ctx.scratch, "conc-%s.txt" % tag)
    with open(sf, "w") as f:
        f.write(script)
    tr = os.path.join(ctx.scratch, "conc-%s.ndjson" % tag)
    mf = os.path.join(ctx.scratch, "conc-%s.meta" % tag)
    rc, out, err = ctx.run_cmd([exe, "conc", sf, tr, mf], timeout=900)
    if rc == 3:
        raise tlc.TLCError("ut_replay conc: bad script / scenario (%s)" % err[-300:])
    exs = tracecheck.split_executions(tracecheck.read_ndjson(tr)) if os.path.exists(tr) else []
    metas = [json.loads(l) for l in open(mf)] if os.path.exists(mf) else []
    if rc != 0:
        exs.append([{"e": "Crash", "rc": str(rc), "stderr": err[-300:]}])
    return exs, metas


def run(ctx):
    d = ctx.stage("Termdet")
    exe = ctx.harness("ut_replay", ["harness/usertrigger/ut_replay.c"])
    invs = ("TypeOK", "AtMostOnce", "AllNotified", "CbOnce", "Completes")

    # ---- 1. the protocol model, exhaustive ---------------------------------------------------------------------
    mod, cfg = mcgen.write_mc(d, "ut_all", "UserTrigger", {"Ns": set(range(1, 9)), "Variant": "code"}, invariants=invs)
    ctx.tlc_check(d, mod, cfg, must_cover=("Ready", "Trigger", "Deliver"), workers=2)
    ctx.exhaustive = True
    mod, cfg = mcgen.write_mc(d, "ut_le", "UserTrigger", {"Ns": {4}, "Variant": "le"}, invariants=("AtMostOnce",))
    r = ctx.tlc_check(d, mod, cfg, expect_ok=False, workers=2)
    if r.violated != "AtMostOnce":
        raise tlc.TLCError("sensitivity self-test: the `<=` variant of the tree must violate AtMostOnce, got %r" % r.violated)

    # ---- 2. TLC behaviours replayed on virtual ranks of the real module -------------------------------------------
    lines = []
    limit = 1500 if ctx.quick else 12000
    mod, cfg = mcgen.write_mc(d, "utg", "UserTrigger", {"Ns": {2, 3, 4} if ctx.quick else {2, 3, 4, 5}, "Variant": "code"},
                              invariants=invs)
    g = ctx.tlc_graph(d, mod, cfg)
    for i0 in sorted(g.init, key=lambda i: int(tlc.parse_state_label(g.nodes[i])["N"])):
        n = int(tlc.parse_state_label(g.nodes[i0])["N"])
        sub = tlc.Graph()
        sub.nodes, sub.edges, sub.init = g.nodes, g.edges, [i0]
        paths, total, exhaustive = tlc.maximal_paths(sub, limit=limit, rng=ctx.rng)
        ctx.extra.setdefault("behaviours", []).append({"N": n, "maximal_paths": total, "replayed": len(paths),
                                                       "exhaustive": exhaustive})
        for labels, end in paths:
            lines.append("%d;" % n + ";".join(label_to_step(l) for l in labels))
    bexs, flags = behaviours(ctx, exe, lines, "tlc")
    for i, ex in enumerate(bexs):
        # conformance with the model: the behaviour was replayable as is, every callback fired once, all TERMINATED
        end = ex[-1] if ex else {}
        bad = (i < len(flags) and flags[i] != 0) or (end.get("e") == "end" and (
            any(c != 1 for c in end["cb"]) or any(s != 4 for s in end["st"])))
        if bad:
            ctx.divergences += 1
            ctx.sample({"divergence": {"behaviour": lines[i] if i < len(lines) else None, "end": end}}, limit=6)
    if bexs:
        ctx.sample({"behaviour": lines[0], "events": bexs[0]})

    # ---- 3. sweep over (N, root, delivery order) on the real code ---------------------------------------------------
    nmax = 32 if ctx.quick else 128
    runs = [(n, root, order, ctx.seed) for n in range(1, nmax + 1) for root in range(n) for order in (0, 1, 2)]
    for n in LARGE:
        roots = {0, n - 1, n // 2}
        while len(roots) < (5 if ctx.quick else 48):
            roots.add(ctx.rng.randrange(n))
        runs += [(n, root, ctx.rng.randrange(3), ctx.seed) for root in sorted(roots)]
    sexs = sweep(ctx, exe, runs, "all")
    ctx.extra["sweep_runs"] = len(runs)
    ctx.extra["sweep_edges"] = sum(len(e[0].get("edges", ())) for e in sexs if e)
    ctx.extra["behaviours_replayed"] = len(lines)
    if sexs and sexs[0]:
        k = min(len(sexs) - 1, 40)
        ctx.sample({"run": runs[k], "line": sexs[k][0]})

    # ---- 4. inside one process: the threads of the terminating process (UserTriggerImpl) --------------------------------
    scen = CONC + ([] if ctx.quick else CONC_THOROUGH)
    # sensitivity self-test of the model: TERMINATED published after the send loop => a second broadcast
    mod, cfg = impl_mc(d, "impl_late", [(CONC[0], "yield")], "late")
    r = ctx.tlc_check(d, mod, cfg, expect_ok=False, workers=1)
    if r.violated not in ("AtMostOnceI", "CbOnceI"):
        raise tlc.TLCError("sensitivity self-test: with `state = TERMINATED` after the send loop the thread model must violate "
                           "AtMostOnceI / CbOnceI, got %r" % r.violated)
    # what the model says at statement granularity for a runtime action accounted after the counter reached zero
    # (outside the counting contract; recorded, not a verdict)
    mod, cfg = impl_mc(d, "impl_stmt_late", [(CONC[0], "stmt")], "code")
    r = ctx.tlc_check(d, mod, cfg, expect_ok=False, workers=1)
    ctx.extra["stmt_granularity_uncounted_action"] = r.violated or "holds"
    # the code's order: all scenarios at yield-point granularity + the strict ones at statement granularity
    mod, cfg = impl_mc(d, "impl", [(sc, "yield") for sc in scen] + [(sc, "stmt") for sc in CONC_STMT], "code")
    g = ctx.tlc_graph(d, mod, cfg, coverage=True)
    cov = g.result.coverage or {}
    for a in ("Start", "Lk", "Ul", "Tsk", "Fa", "Test", "Set", "Send"):
        if a not in cov or cov[a][1] == 0:
            raise tlc.TLCError("UserTriggerImpl: action %s never taken (vacuity guard); coverage %r" % (a, cov))
    byid = {sc["id"]: sc for sc in scen}
    schedules, expect, npaths = {}, {}, {}
    path_limit = 1500 if ctx.quick else 20000
    for i0 in g.init:
        m = re.search(r'id \|-> "(\w+)"', g.nodes[i0])
        if not m or m.group(1) not in byid:
            continue                                            # statement-granularity scenarios: model only
        sub = tlc.Graph()
        sub.nodes, sub.edges, sub.init = g.nodes, g.edges, [i0]
        paths, total, exhaustive = tlc.maximal_paths(sub, limit=path_limit, rng=ctx.rng)
        npaths[m.group(1)] = (total, exhaustive)
        schedules[m.group(1)] = []
        for labels, end in paths:
            sched = "".join(str(int(re.search(r"\((\d+)\)", l).group(1)) - 1) for l in labels)
            st = tlc.parse_state_label(g.nodes[end])
            schedules[m.group(1)].append(sched)
            expect[(m.group(1), sched)] = {"ret": tla_seq(st["ret"]), "sent": tla_seq(st["sent"]), "cbs": int(st["cbs"])}
    cexs, cmetas = conc_run(ctx, exe, conc_script(scen, schedules, 3000 if ctx.quick else 60000), "all")
    cruns = [m for m in cmetas if "sched" in m]
    explored = {m["id"]: m for m in cmetas if "explored" in m}
    for m in cruns:
        bad = None
        if m["mode"] == "R":
            want = expect.get((m["id"], m["sched"]))
            got = {"ret": m["ret"], "sent": m["sent"], "cbs": m["cbs"]}
            if want is None:
                bad = {"schedule_not_followed": m}              # the code took another number of steps than the model
            elif want != got:
                bad = {"model": want, "code": m}
        elif m["cbs"] != 1 or m["state"] != 4 or m["nbpa"] != 0:
            bad = {"code": m}
        if bad:
            ctx.divergences += 1
            ctx.sample({"divergence": bad}, limit=6)
    for sc in scen:
        e, (total, exhaustive) = explored.get(sc["id"], {}), npaths.get(sc["id"], (None, False))
        ctx.extra.setdefault("concurrent", []).append(
            {"id": sc["id"], "n": sc["n"], "me": sc["me"], "root": sc["root"], "threads": sc["prog"], "model_paths": total,
             "replayed": len(schedules.get(sc["id"], ())), "code_interleavings": e.get("explored"),
             "code_exhaustive": e.get("exhaustive")})
        if e.get("exhaustive") and exhaustive and e.get("explored") != total:
            ctx.divergences += 1
            ctx.sample({"divergence": {"scenario": sc["id"], "model_paths": total, "code_interleavings": e.get("explored")}}, limit=6)
    cdistinct, _ = tracecheck.dedupe(cexs)
    how = {}                                                    # distinct execution -> (scenario, schedule) that produced it
    for ex, m in zip(cexs, cruns):
        how.setdefault(json.dumps(tracecheck.dedupe([ex])[0][0], sort_keys=True), m)
    ctx.extra["concurrent_executions"] = len(cexs)
    ctx.extra["concurrent_distinct"] = len(cdistinct)
    if cexs:
        ctx.sample({"concurrent": cruns[len(cruns) // 2] if cruns else None, "events": cexs[len(cexs) // 2]})

    # ---- verdict -----------------------------------------------------------------------------------------------------
    ctx.evaluations = len(bexs) + len(sexs) + len(cexs)
    fails = ctx.validate("Termdet", "UserTriggerTrace", "UserTriggerTrace.cfg", cdistinct, batch=2000, env=JVM_ENV)
    for f in fails:
        ctx.violation("user-trigger termination, threads of one process calling the module concurrently: a process is notified "
                      "twice / not at all: %s" % json.dumps(f.describe())[:1200],
                      {"kind": "concurrent", "events": f.execution,
                       "scenario": byid.get(how.get(json.dumps(f.execution, sort_keys=True), {}).get("id")),
                       "sched": how.get(json.dumps(f.execution, sort_keys=True), {}).get("sched")})
    fails = ctx.validate("Termdet", "UserTriggerTrace", "UserTriggerTrace.cfg", bexs, batch=4000, env=JVM_ENV)
    for f in fails:
        i = f.index
        ctx.violation("user-trigger termination: a process is notified twice / not at all (TLC behaviour replayed on the real "
                      "module): %s" % json.dumps(f.describe())[:1200],
                      {"kind": "behaviour", "line": lines[i] if i < len(lines) else None, "events": f.execution})
    fails = ctx.validate("Termdet", "UserTriggerTrace", "UserTriggerTrace.cfg", sexs, batch=6000, env=JVM_ENV, timeout=1500)
    for f in fails:
        ev = f.execution[0] if f.execution else {}
        ctx.violation("user-trigger termination: the notifications recorded from the real module for N=%s root=%s are not "
                      "'every other process exactly once': %s" % (ev.get("n"), ev.get("root"), json.dumps(ev)[:800]),
                      {"kind": "run", "line": "%d %d %d %d" % runs[f.index] if f.index < len(runs) else None, "events": f.execution})

    # ---- binding self-test: one corrupted field must be rejected --------------------------------------------------------
    good = [e for e in sexs if e and e[0].get("e") == "run" and len(e[0]["edges"]) >= 3]
    if good and not ctx.violations:
        ev = json.loads(json.dumps(good[len(good) // 2][0]))
        ev["edges"][-1][1] = ev["edges"][0][1]          # last notification goes to an already notified process
        if not rejected_once(ctx, "Termdet", "UserTriggerTrace", "UserTriggerTrace.cfg", [ev], JVM_ENV):
            raise tlc.TLCError("binding self-test: a run with a duplicated destination was accepted by UserTriggerTrace")
    if cdistinct and not ctx.violations:
        ex = json.loads(json.dumps(next(e for e in cdistinct if sum(1 for ev in e if ev["e"] == "send") >= 2)))
        snd = [ev for ev in ex if ev["e"] == "send"]
        k = max(i for i, ev in enumerate(ex) if ev["e"] == "send")
        ex.insert(k + 1, dict(snd[0]))                         # the process sends one of its notifications a second time ...
        k = next(i for i, ev in enumerate(ex) if ev["e"] == "deliver" and (ev["src"], ev["dst"]) == (snd[0]["src"], snd[0]["dst"]))
        ex.insert(k + 1, dict(ex[k]))                          # ... and the child receives it
        if not rejected_once(ctx, "Termdet", "UserTriggerTrace", "UserTriggerTrace.cfg", ex, JVM_ENV):
            raise tlc.TLCError("binding self-test: a concurrent execution with a duplicated send was accepted by UserTriggerTrace")
    ctx.assume("a single process triggers termination (contract of the user_trigger detector)")
    ctx.assume("in-process concurrency: runtime actions are accounted by threads that saw taskpool_state() != TERMINATED; yield "
               "points = the parsec_atomic_* operations of the module and every send_am; the zero-crossing test and "
               "`state = TERMINATED` that follow the fetch-add without a yield point are atomic with it (an action accounted "
               "after the counter reached zero is outside the counting contract of parsec_taskpool_update_runtime_nbtask)")
    ctx.assume("asserts compiled out (RelWithDebInfo); a duplicate notification is observed by the harness, not by a crash")


def replay(ctx, obj):
    exe = ctx.harness("ut_replay", ["harness/usertrigger/ut_replay.c"])
    if obj.get("kind") == "run" and obj.get("line"):
        exs = sweep(ctx, exe, [tuple(int(x) for x in obj["line"].split())], "replay")
    elif obj.get("kind") == "behaviour" and obj.get("line"):
        exs, _ = behaviours(ctx, exe, [obj["line"]], "replay")
    elif obj.get("kind") == "concurrent" and obj.get("scenario") and obj.get("sched") is not None:
        sc = obj["scenario"]                                    # the same schedule, again, on the real module
        exs, _ = conc_run(ctx, exe, conc_script([sc], {sc["id"]: [obj["sched"]]}, 0), "replay")
    else:
        exs = [obj["events"]]
    for f in ctx.validate("Termdet", "UserTriggerTrace", "UserTriggerTrace.cfg", exs, env=JVM_ENV):
        ctx.violation("still rejected: %s" % json.dumps(f.describe())[:1000], obj)
