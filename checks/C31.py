"""C31  Lists and dequeues keep their contents and order.

spec/List/Seq.tla           abstract list (sequence of items with fixed priorities) + free-standing sorted ring
spec/List/SeqTrace.tla      sequential trace validation: content and order after every operation, both link directions
spec/List/ListLinTrace.tla  linearizability trace validation of concurrent inv/res histories of the locked functions
Behaviours: TLC breadth-first = every operation sequence of Seq.tla up to a bound in three operation families
(basic / sorted / ring), TLC -simulate = long random walks with many priority ties; each is replayed on the real
static-inline functions of list.h, list_item.h, dequeue.h and fifo.h (harness/list/list_replay.c picks, for every
abstract operation, one of the real functions implementing it).  Concurrent part: the locked functions under the
cooperative scheduler (every interleaving of small scenarios, random schedules) and free-running threads.
"""
import json
import os

from lib import mcgen, tlc, tracecheck

META = {
    "level": "model_checking",
    "text": "TLC enumerates every operation sequence of Seq.tla up to a bound (push/pop/chain/unchain/remove/add, sorted "
            "insertion of items and chains, sort, ring sorted insertion) and simulates long walks with many priority ties; "
            "each is replayed on the real list / dequeue / fifo functions, the list being walked in both directions after "
            "every operation; TLC validates order, stability of sorted insertion, sort = ordered permutation, ring order. "
            "Concurrent histories of the locked functions (all interleavings of small scenarios at yield-point "
            "granularity, random schedules, free-running threads) are checked for linearizability by TLC.",
    "note": "Exhaustive: basic family <= 3 (quick) / 4 (thorough) operations over 4 interchangeable items, sorted family <= 3 (quick) / 4 (thorough) "
            "operations over 4 items with priorities {0,1,1,2} and chains of <= 2, ring family all orders of 5 items; random "
            "walks of 14-30 operations over 6-8 items with 3 priorities. Concurrent: 2 threads x <= 3 operations "
            "exhaustively, 3 threads by random schedules, 4 free-running threads. Sorted insertion is only specified on "
            "lists already in non-increasing order. Hook: one yield point inside the locked merge sort. "
            "Trusted: TLC, vsched, ndjson recorder.",
    "technique": "TLA+ spec behaviours (TLC BFS + simulate) replayed on real code + trace validation; interleaving exploration + linearizability trace validation",
}

BASIC = {"push_front", "push_back", "pop_front", "pop_back", "remove", "add_before", "unchain", "chain_front", "chain_back"}
SORTED = {"push_back", "push_sorted", "chain_sorted", "sort"}
SORTED_SIM = {"push_back", "push_front", "push_sorted", "chain_sorted", "sort", "pop_front", "pop_back", "remove"}
RING = {"ring_push_sorted"}


def to_line(h):
    return ";".join("%s %d %s" % (o["op"], o["x"], ",".join(str(i) for i in o["r"]) or "-") for o in h)


def consts(prio, ml, mc, ops, canon):
    p = {i + 1: v for i, v in enumerate(prio)}
    return {"Items": set(p), "Prio": p, "MaxLen": ml, "MaxChain": mc, "Ops": set(ops), "Canon": canon}


def sequential(ctx, d, exe):
    q = ctx.quick
    cfgs = [("basic", consts([0, 0, 0, 0], 3 if q else 4, 2, BASIC, True), None),
            ("sorted", consts([0, 1, 1, 2], 3 if q else 4, 2, SORTED, False), None),
            ("ring", consts([0, 1, 1, 2, 0], 5, 1, RING, False), None),
            ("simsorted", consts([0, 1, 1, 2, 2, 0], 14 if q else 24, 3, SORTED_SIM, False), (14 if q else 24, 200 if q else 3000)),
            ("simbasic", consts([0] * 6, 14 if q else 30, 3, BASIC, True), (14 if q else 30, 100 if q else 2000))]
    if not q:
        cfgs.append(("simring", consts([0, 1, 1, 2, 0, 2, 1, 0], 8, 1, RING, False), (8, 2000)))
    fails = []
    nb = ns = 0
    for name, c, sim in cfgs:
        mod, cfg = mcgen.write_mc(d, name, "Seq", c, invariants=("TypeOK", "RingOrdered", "Emit"),
                                  properties=() if sim else ("SortedKept",))
        if sim:
            hs = ctx.tlc_histories(d, mod, cfg, sim[1], sim[0] + 1, workers=4)
            ns += len(hs)
        else:
            cover = {"basic": ("PushFront", "PopBack", "Unchain", "Remove", "AddBefore"),
                     "sorted": ("PushSorted", "Sort"), "ring": ("RingPushSorted",)}[name]
            r = ctx.tlc_check(d, mod, cfg, must_cover=cover, workers=4, timeout=1500)
            hs = [h for h in (tlc._parse_tla_string_list(l) for l in r.printed) if h]
            nb += len(hs)
        lines = sorted(set(to_line(h) for h in hs))
        hp = os.path.join(ctx.scratch, name + ".txt")
        with open(hp, "w") as f:
            f.write("\n".join(lines) + "\n")
        tr = os.path.join(ctx.scratch, name + ".ndjson")
        prios = ",".join(str(c["Prio"][i]) for i in sorted(c["Prio"]))
        rc, out, err = ctx.run_cmd([exe, "seq", hp, tr, prios], timeout=900)
        exs = tracecheck.split_executions(tracecheck.read_ndjson(tr)) if os.path.exists(tr) else []
        if rc != 0:
            k = max(0, len(exs) - 1)
            crash = {"e": "Crash", "rc": str(rc), "behaviour": lines[k] if k < len(lines) else "", "stderr": err[-200:]}
            if exs:
                exs[k] = exs[k] + [crash]
            else:
                exs = [[crash]]
        if exs and exs[0]:
            ctx.sample({"family": name, "behaviour": lines[0], "last_logged_event": exs[0][-1]}, limit=4)
        c2 = dict(c)
        c2["MaxLen"] = 0
        tm, tc = mcgen.write_mc(d, "T" + name, "SeqTrace", c2, spec="TSpec", invariants=("AcceptExit",))
        for f in ctx.validate(d, tm, tc, exs, batch=3000, timeout=1500):
            fails.append((name, c, f))
        ctx.extra.setdefault("families", []).append({"name": name, "behaviours": len(lines)})
    ctx.extra["behaviours_bfs"] = nb
    ctx.extra["behaviours_sim"] = ns
    return nb + ns, fails


# ---- concurrent scenarios (locked functions) -----------------------------------------------------------------------
EXPLORE = [
    {"name": "pushpop", "prios": [0, 1, 1, 2], "init": [1], "threads": ["push_front:2 pop_back", "push_back:3 pop_front repush_front:2"]},
    {"name": "sorted", "prios": [0, 1, 1, 2, 2], "init": [4, 2], "threads": ["push_sorted:3 pop_front", "chain_sorted:5,1 try_pop_back"]},
    {"name": "chains", "prios": [0, 0, 0, 0, 0], "init": [1], "threads": ["chain_front:2,3 unchain", "chain_back:4,5 is_empty try_pop_front"]},
    # a locked sort against the unlocked emptiness test of pop (the items are detached while they are sorted)
    {"name": "sortpop", "prios": [0, 1, 1], "init": [1, 2, 3], "threads": ["sort", "pop_front"], "key": "pop-during-sort"},
    {"name": "sortpopb", "prios": [2, 1, 0], "init": [3, 2, 1], "threads": ["sort is_empty", "pop_back repush_front:1"], "key": "pop-during-sort"},
]
RANDOM = [
    {"name": "mix3", "prios": [0, 1, 1, 2, 2, 0], "init": [4, 2, 1],
     "threads": ["push_sorted:3 pop_front repush_sorted:2", "chain_sorted:5,6 pop_back", "try_pop_front is_empty pop_front repush_sorted:3"]},
    {"name": "deq3", "prios": [0, 0, 0, 0, 0, 0], "init": [1, 2],
     "threads": ["push_front:3 pop_back repush_back:2", "push_back:4 pop_front unchain", "chain_back:5,6 try_pop_back try_pop_front"]},
]
STRESS = {"name": "stress", "prios": [0, 1, 1, 2, 2, 0, 1, 2], "init": [4, 5, 2, 1],
          "threads": ["push_sorted:3 pop_front repush_sorted:2 pop_back repush_sorted:4 is_empty",
                      "chain_sorted:6,7 pop_front pop_front repush_sorted:2 repush_sorted:3",
                      "pop_back try_pop_front repush_sorted:1 repush_sorted:2 pop_front repush_sorted:5",
                      "push_sorted:8 try_pop_back repush_sorted:2 pop_front repush_sorted:4 is_empty"]}


def scenario_file(sc, path):
    with open(path, "w") as f:
        f.write("prios %s\n" % ",".join(str(p) for p in sc["prios"]))
        if sc["init"]:
            f.write("init %s\n" % " ".join(str(i) for i in sc["init"]))
        for t, ops in enumerate(sc["threads"]):
            f.write("t %d %s\n" % (t, ops))


def concurrent(ctx, d, exe):
    limit = 40000 if ctx.quick else 400000
    nrand = 400 if ctx.quick else 20000
    total = 0
    fails = []
    all_exh = True

    def collect(sc, mode, arg, extra=()):
        scf = os.path.join(ctx.scratch, sc["name"] + ".scn")
        scenario_file(sc, scf)
        tr = os.path.join(ctx.scratch, "%s.%s.trace" % (sc["name"], mode))
        meta = os.path.join(ctx.scratch, "%s.%s.meta" % (sc["name"], mode))
        rc, out, err = ctx.run_cmd([exe, mode, scf, str(arg), tr, meta] + list(extra), timeout=1200)
        exs = tracecheck.split_executions(tracecheck.read_ndjson(tr)) if os.path.exists(tr) else []
        if rc != 0:
            exs.append((exs.pop() if exs else []) + [{"e": "Crash", "rc": str(rc), "stderr": err[-300:]}])
        last = {}
        if os.path.exists(meta):
            for l in open(meta):
                last = json.loads(l)
        return exs, last

    def check(sc, exs):
        distinct, mult = tracecheck.dedupe(exs)
        p = {i + 1: v for i, v in enumerate(sc["prios"])}
        c = {"Items": set(p), "Prio": p, "MaxLen": 0, "MaxChain": 1, "Ops": set(), "Canon": False, "Thr": set(range(1, 10))}
        tm, tc = mcgen.write_mc(d, "L" + sc["name"], "ListLinTrace", c, spec="TSpec", invariants=("AcceptExit", "NoElementTwice"))
        if distinct:
            ctx.sample({"scenario": sc["name"], "history": distinct[len(distinct) // 2]}, limit=6)
        for f in ctx.validate(d, tm, tc, distinct, batch=500, timeout=1500):
            fails.append((sc, f))
        return len(distinct)

    for sc in EXPLORE:
        exs, last = collect(sc, "explore", limit)
        exh = bool(last.get("exhaustive"))
        all_exh = all_exh and exh
        total += len(exs)
        nd = check(sc, exs)
        ctx.extra.setdefault("scenarios", []).append({"name": sc["name"], "mode": "explore", "interleavings": last.get("explored"),
                                                      "exhaustive": exh, "distinct_histories": nd})
    for sc in RANDOM:
        exs, last = collect(sc, "random", nrand, [str(ctx.seed)])
        total += len(exs)
        nd = check(sc, exs)
        ctx.extra["scenarios"].append({"name": sc["name"], "mode": "random", "schedules": nrand, "distinct_histories": nd})
    exs, last = collect(STRESS, "stress", 200 if ctx.quick else 5000, [str(ctx.seed)])
    total += len(exs)
    nd = check(STRESS, exs)
    ctx.extra["scenarios"].append({"name": "stress", "mode": "stress", "runs": len(exs), "distinct_histories": nd})
    ctx.extra["conc_executions"] = total
    ctx.extra["conc_all_explored_exhaustively"] = all_exh
    return total, fails


def run(ctx):
    d = ctx.stage("List")
    exe = ctx.harness("list_replay", ["harness/list/list_replay.c"])
    nseq, fails = sequential(ctx, d, exe)
    ctx.exhaustive = True
    for name, c, f in fails:
        ctx.violation("real list diverges from Seq.tla (%s family): %s" % (name, json.dumps(f.describe())[:1500]),
                      {"kind": "seq", "prios": [c["Prio"][i] for i in sorted(c["Prio"])], "events": f.execution, "detail": f.describe()})
    nconc, cfails = concurrent(ctx, d, exe)
    ctx.evaluations = nseq + nconc
    for sc, f in cfails:
        ctx.violation("history of the real locked list functions is not linearizable w.r.t. Seq.tla (scenario %s): %s"
                      % (sc["name"], json.dumps(f.describe())[:1500]),
                      {"kind": "conc", "prios": sc["prios"], "events": f.execution, "detail": f.describe()}, key=sc.get("key"))
    ctx.assume("an item is in at most one list / ring; nolock functions have a single caller")
    ctx.assume("x86-64 TSO; yield points = every parsec_atomic_* op and fence, plus one inside the locked merge sort")


def replay(ctx, obj):
    d = ctx.stage("List")
    p = {i + 1: v for i, v in enumerate(obj["prios"])}
    c = {"Items": set(p), "Prio": p, "MaxLen": 0, "MaxChain": 1, "Ops": set(), "Canon": False}
    if obj.get("kind") == "conc":
        c["Thr"] = set(range(1, 10))
        tm, tc = mcgen.write_mc(d, "Lreplay", "ListLinTrace", c, spec="TSpec", invariants=("AcceptExit", "NoElementTwice"))
    else:
        tm, tc = mcgen.write_mc(d, "Treplay", "SeqTrace", c, spec="TSpec", invariants=("AcceptExit",))
    for f in ctx.validate(d, tm, tc, [obj["events"]]):
        ctx.violation("recorded trace still rejected: %s" % json.dumps(f.describe())[:1000], obj)
