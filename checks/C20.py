"""C20  Block-cyclic data distributions are consistent.

spec/Dist/BlockCyclic.tla       PART 1 the property: consistency predicates over the tables of one configuration (one
                                view per rank): exactly one valid owner per tile and all views agree, local tiles <->
                                storage slots injective, tile memory disjoint and inside the local storage, data keys
                                map back to coordinates / owner / data, vpid in range.  (Nothing about WHICH rank owns.)
                                PART 2 a model of two_dim_rectangle_cyclic.c (counting loops, grid offsets, k-cyclic
                                rank_of / position / key layout); TLC proves its tables consistent on a parameter box
                                and prints every configuration of the box.
spec/Dist/BlockCyclicTrace.tla  validates the tables dumped from the real code against the predicates.
harness/blockcyclic/bc_dump.c   instantiates each configuration once per rank (one process, no MPI launch) through the
                                real init functions and dumps rank_of / rank_of_key / data_key / data_of / data_of_key /
                                vpid_of for every tile.
Configurations: a seeded sample of the TLC box (2D block cyclic, k-cyclic, grid offsets, submatrices) + seeded random
configurations of every distribution: 2DBC tile / LAPACK storage, k-cyclic view, symmetric lower/upper, band, tabular
(random table), vector row/col/diag; run under a 1-VP and a 4-VP (hwloc synthetic) virtual process map.
"""
import json
import os
import threading

from lib import mcgen, tlc, tracecheck

META = {
    "level": "model_checking",
    "text": "TLC proves, for every configuration of a parameter box, that the transcribed arithmetic of "
            "two_dim_rectangle_cyclic.c yields tables satisfying the consistency predicates of BlockCyclic.tla; sampled "
            "box configurations and seeded random configurations of all six distributions are instantiated once per "
            "rank on the real init functions, every rank's rank_of / data_of / data_key / rank_of_key / data_of_key / "
            "vpid_of tables are dumped and TLC validates them against the same predicates (exactly one valid owner per "
            "tile across all views, injective non-overlapping local storage, key round trips, vpid in range).",
    "note": "Model box: P <= 3, Q <= 2, k <= 2, <= 4x3 stored tiles, tile offsets <= 1 (quick); P <= 4, Q <= 3, <= 5x4 tiles "
            "(thorough). Real code: quick ~210 configurations (+ a third of them again under 4 VPs; <= 9 ranks, <= 6x6 tiles), "
            "thorough ~1600 (<= 16 ranks, <= 8x8 tiles). Symmetric distributions are exercised "
            "on square matrices with square tiles and diagonal submatrices only; band with the off-band covering the whole "
            "matrix as in tests/collections/two_dim_band. Trusted: TLC, the harness' table dump.",
    "technique": "TLA+ consistency predicates + model of the distribution arithmetic (TLC exhaustive box) + table dumps "
                 "of the real code validated record by record",
}

# input classes with an open defect (see fixes/C20-*.diff): the failing predicate is waived ONLY to classify the failure
KNOWN = {
    "kcyclic-stored-key": "BlockCyclicTraceNoStoredKeys.cfg",
}


def cfg_line(c):
    return " ".join("%s=%s" % (k, v) for k, v in c.items())


def from_model(mc, rng):
    """A configuration of the TLC box -> parameters of parsec_matrix_block_cyclic_init."""
    mb, nb = rng.randint(1, 3), rng.randint(1, 3)
    lm = mc["lmt"] * mb - rng.randint(0, mb - 1)
    ln = mc["lnt"] * nb - rng.randint(0, nb - 1)
    i = mc["it"] * mb + (rng.randint(0, mb - 1) if (mc["it"] + 1) * mb <= lm else 0)
    j = mc["jt"] * nb + (rng.randint(0, nb - 1) if (mc["jt"] + 1) * nb <= ln else 0)
    i, j = min(i, lm - 1), min(j, ln - 1)
    return {"kind": "2dbc", "st": "tile", "mb": mb, "nb": nb, "lm": lm, "ln": ln, "i": i, "j": j, "m": lm - i,
            "n": ln - j, "P": mc["P"], "Q": mc["Q"], "kp": mc["kp"], "kq": mc["kq"], "ip": mc["ip"], "jq": mc["jq"]}


def grid(rng, maxnodes):
    while True:
        P, Q = rng.randint(1, 5), rng.randint(1, 5)
        if P * Q <= maxnodes:
            return P, Q


def random_cfg(kind, rng, big):
    mt_max = 8 if big else 6
    mb, nb = rng.randint(1, 4), rng.randint(1, 4)
    lmt, lnt = rng.randint(1, mt_max), rng.randint(1, mt_max)
    lm = lmt * mb - rng.randint(0, mb - 1)
    ln = lnt * nb - rng.randint(0, nb - 1)
    P, Q = grid(rng, 16 if big else 9)
    c = {"kind": kind}
    if kind in ("2dbc", "kview"):
        i, j = rng.randint(0, lm - 1), rng.randint(0, ln - 1)
        if rng.random() < 0.4:
            i, j = 0, 0
        c.update({"st": "lapack" if (kind == "2dbc" and rng.random() < 0.25) else "tile", "mb": mb, "nb": nb, "lm": lm,
                  "ln": ln, "i": i, "j": j, "m": rng.randint(1, lm - i), "n": rng.randint(1, ln - j), "P": P, "Q": Q,
                  "kp": rng.randint(1, 3), "kq": rng.randint(1, 3), "ip": rng.randint(0, P - 1), "jq": rng.randint(0, Q - 1)})
        if kind == "kview":
            c["ip"], c["jq"] = rng.randint(0, P - 1), rng.randint(0, Q - 1)
    elif kind == "sym":
        i = rng.randint(0, lm - 1) if rng.random() < 0.5 else 0
        c.update({"mb": mb, "nb": mb, "lm": lm, "ln": lm, "i": i, "j": i, "m": lm - i, "n": lm - i, "P": P, "Q": Q,
                  "uplo": rng.choice(["lower", "upper"])})
    elif kind == "band":
        nodes = P * Q
        bP = rng.choice([d for d in range(1, nodes + 1) if nodes % d == 0])
        c.update({"mb": mb, "nb": nb, "lm": lmt * mb, "ln": lnt * nb, "P": P, "Q": Q, "kp": rng.randint(1, 2),
                  "kq": rng.randint(1, 2), "band": rng.randint(1, 3), "bP": bP})
    elif kind == "tabular":
        P, Q = grid(rng, 6)
        i, j = rng.randint(0, lm - 1), rng.randint(0, ln - 1)
        c.update({"mb": mb, "nb": nb, "lm": lm, "ln": ln, "i": i, "j": j, "m": rng.randint(1, lm - i),
                  "n": rng.randint(1, ln - j), "P": P, "Q": Q, "seed": rng.randint(1, 10 ** 6)})
    elif kind == "vector":
        lmt = rng.randint(1, 14)
        lm = lmt * mb - rng.randint(0, mb - 1)
        i = rng.randint(0, lm - 1) if rng.random() < 0.5 else 0
        c.update({"mb": mb, "lm": lm, "i": i, "m": lm - i, "P": P, "Q": Q, "dist": rng.choice(["row", "col", "diag"])})
    return c


def known_class(c):
    """Input class (decided from the parameters only) of an open known defect, or None."""
    if c["kind"] in ("2dbc", "band") and (int(c.get("kp", 1)) > 1 or int(c.get("kq", 1)) > 1):
        return "kcyclic-stored-key"
    if c["kind"] == "vector" and c["dist"] == "diag" and c["P"] != c["Q"]:
        return "vector-diag-nonsquare"
    if c["kind"] == "vector" and c["dist"] in ("row", "col") and c["P"] * c["Q"] > 1:
        return "vector-rowcol-mismatch"
    return None


def run_harness(ctx, exe, cfgs, tag, env=None, timeout=300):
    """Run the harness on a list of configurations; returns one execution per configuration (Crash/Timeout appended)."""
    cp = os.path.join(ctx.scratch, "cfg-%s.txt" % tag)
    with open(cp, "w") as f:
        for c in cfgs:
            f.write(cfg_line(c) + "\n")
    tr = os.path.join(ctx.scratch, "bc-%s.ndjson" % tag)
    rc, out, err = ctx.run_cmd([exe, cp, tr, "8" if env else "1"], timeout=timeout, env=env)
    exs = tracecheck.split_executions(tracecheck.read_ndjson(tr)) if os.path.exists(tr) else []
    exs = [e for e in exs if e]
    if rc != 0:
        ev = {"e": "Timeout" if rc == "timeout" else "Crash", "rc": str(rc), "stderr": err[-300:]}
        if exs and exs[-1][-1].get("e") != "end":
            exs[-1].append(ev)                  # died while dumping this configuration
        elif len(exs) < len(cfgs):
            exs.append([{"e": "config", "nodes": cfgs[len(exs)]["P"] * cfgs[len(exs)]["Q"], "cfg": cfgs[len(exs)]}, ev])
    return exs


def run(ctx):
    d = ctx.stage("Dist")
    exe = ctx.harness("bc_dump", ["harness/blockcyclic/bc_dump.c"])
    rng = ctx.rng
    # ---- 1. the model on the box --------------------------------------------------------------------
    box = {"MaxP": 3, "MaxQ": 2, "MaxK": 2, "MaxLMT": 4, "MaxLNT": 3, "MaxOff": 1} if ctx.quick else \
          {"MaxP": 4, "MaxQ": 3, "MaxK": 2, "MaxLMT": 5, "MaxLNT": 4, "MaxOff": 1}
    mod, cfg = mcgen.write_mc(d, "bcbox", "BlockCyclic", box,
                              invariants=("ModelConsistent", "ModelCountsExact", "Emit"))
    r = ctx.tlc_check(d, mod, cfg, must_cover=("ChooseGrid", "InitPlain", "InitKCyclic"), workers=2, timeout=3000)
    model_cfgs = [c for c in (tlc._parse_tla_string_list(l) for l in r.printed) if c]
    model_cfgs.sort(key=lambda c: json.dumps(c, sort_keys=True))
    ctx.exhaustive = True
    ctx.extra["model_box_configurations"] = len(model_cfgs)
    if not model_cfgs:
        raise tlc.TLCError("the box printed no configuration")
    # ---- 2. configurations for the real code ----------------------------------------------------------
    n_box, n_rand = (90, 20) if ctx.quick else (700, 150)
    cfgs = [from_model(mc, rng) for mc in rng.sample(model_cfgs, min(n_box, len(model_cfgs)))]
    for kind in ("2dbc", "kview", "sym", "band", "tabular", "vector"):
        for _ in range(n_rand):
            cfgs.append(random_cfg(kind, rng, not ctx.quick))
    # known-defect input classes that hang or run for seconds are isolated in their own process (see below)
    slow = [c for c in cfgs if known_class(c) == "vector-diag-nonsquare"]
    cfgs = [c for c in cfgs if known_class(c) != "vector-diag-nonsquare"]
    probe = {"kind": "vector", "mb": 2, "lm": 10, "i": 0, "m": 10, "P": 1, "Q": 2, "dist": "diag"}
    slow = [probe] + slow[:(1 if ctx.quick else 4)]
    vp4 = cfgs[::3]                         # a third of them again under a 4-VP map
    res = {}

    def bg(tag, cs):
        res[tag] = [run_harness(ctx, exe, [c], "%s%d" % (tag, k), timeout=25) for k, c in enumerate(cs)]
    th = [threading.Thread(target=bg, args=("slowA", slow)), threading.Thread(target=bg, args=("slowB", slow))]
    for t in th:
        t.start()
    exs = run_harness(ctx, exe, cfgs, "vp1", timeout=600)
    cf1 = list(cfgs[:len(exs)])
    e4 = run_harness(ctx, exe, vp4, "vp4", timeout=600,
                     env={"HWLOC_SYNTHETIC": "pack:4 core:2 pu:1", "PARSEC_MCA_runtime_vpmap": "hwloc"})
    exs += e4
    cf1 += list(vp4[:len(e4)])
    for t in th:
        t.join()
    ctx.evaluations = len(exs) + len(slow)
    ctx.extra["configurations"] = len(cfgs)
    ctx.extra["configurations_4vp"] = len(vp4)
    ctx.extra["views"] = sum(1 for e in exs for ev in e if ev.get("e") == "view")
    nvp = set(ev.get("nvp") for e in e4 for ev in e if ev.get("e") == "view")
    ctx.extra["nvp_seen"] = sorted(x for x in nvp if x is not None)
    if exs:
        small = min(exs, key=lambda e: len(json.dumps(e)))
        ctx.sample({"configuration": small[0], "first_view": small[1] if len(small) > 1 else None})
        ctx.sample({"configuration": exs[0][0]})
    # ---- 3. verdict ---------------------------------------------------------------------------------
    classes = [known_class(c) for c in cf1]
    plain = [e for e, k in zip(exs, classes) if k is None]
    for f in ctx.validate("Dist", "BlockCyclicTrace", "BlockCyclicTrace.cfg", plain, batch=150, timeout=1500):
        ctx.violation("distribution tables of the real code are inconsistent: %s" % json.dumps(f.describe())[:1800],
                      {"events": f.execution, "detail": f.describe()})
    for key in sorted(set(k for k in classes if k)):
        grp = [e for e, k in zip(exs, classes) if k == key]
        fails = ctx.validate("Dist", "BlockCyclicTrace", "BlockCyclicTrace.cfg", grp, batch=150, timeout=1500,
                             max_failures=2)
        for f in fails:
            what = "distribution tables of the real code are inconsistent: %s" % json.dumps(f.describe())[:1800]
            waived = KNOWN.get(key)
            if waived and not ctx.validate("Dist", "BlockCyclicTrace", waived, [f.execution], confirm=False):
                ctx.traces -= 1
                ctx.violation(what, {"events": f.execution, "detail": f.describe()}, key=key)
            elif waived:
                ctx.violation(what, {"events": f.execution, "detail": f.describe()})      # a different failure
            else:
                ctx.violation(what, {"events": f.execution, "detail": f.describe()}, key=key)
    # isolated runs: a configuration is reported only when both independent runs agree (hang = Timeout in both)
    for k, c in enumerate(slow):
        a, b = res["slowA"][k], res["slowB"][k]
        bad = []
        for ex in (a, b):
            bad.append(bool(ctx.validate("Dist", "BlockCyclicTrace", "BlockCyclicTrace.cfg", ex, confirm=False)) if ex
                       else True)
        if all(bad):
            last = (a[0] if a else [{}])[-1]
            ctx.violation("vector DIAG distribution on a non-square grid: init hangs / tables inconsistent "
                          "(configuration %s, last event %s)" % (cfg_line(c), json.dumps(last)[:300]),
                          {"events": a[0] if a else [], "cfg": c}, key="vector-diag-nonsquare")
    ctx.assume("every rank's view is obtained by calling the init function with that rank in one process (the init "
               "functions take rank and grid as arguments and do not communicate)")


def replay(ctx, obj):
    for f in ctx.validate("Dist", "BlockCyclicTrace", "BlockCyclicTrace.cfg", [obj["events"]]):
        ctx.violation("recorded trace still rejected: %s" % json.dumps(f.describe())[:1000], obj)
