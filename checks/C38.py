"""C38  Runtime (MCA) parameters resolve by documented precedence.

spec/Util/McaParam.tla       the box of cases (which of override / --mca (x0..2) / --mca synonym / env / env synonym /
                             file / file synonym carry a value, for int, size_t and string parameters), the property
                             (AllowedTags: the sources of the winning level) and the transcription of the code's lookup
                             order (Predicted)
spec/Util/McaParamTrace.tla  validates the values and sources reported by the real mca_param.c

1. TLC evaluates the whole box (1584 cases: the 792 source combinations, each with the parameter registered once or
   registered again under the same name; + the pair box: two parameters whose names are in prefix relation with every
   sequence of <= 4 --mca options naming one or the other): Predicted is always an allowed source of the winning level.
2. every case gets its own parameter name verif_c<id> (synonym verif_s<id>) and distinct values per source; ONE process
   per entry path evaluates all cases: `api` = parsec_mca_param_init + the command-line path of parsec_init called
   directly, `init` = MPI_Init + the real parsec_init(argc, argv) - with the environment, $HOME/.parsec/mca-params.conf
   and the --mca options of all cases prepared beforehand (harness/mca/mca_eval.c registers, looks up value + source,
   applies the override, looks up again).
3. TLC validates every reported (value, source) pair, before and after the override, against McaParamTrace.
"""
import json
import os

from lib import mcgen, tlc, tracecheck

META = {
    "level": "model_checking",
    "text": "TLC evaluates McaParam.tla over the complete finite box of source combinations (override, --mca given 0-2 "
            "times, --mca on a synonym, environment variable of the name and of a synonym, parameter-file entry for the "
            "name and for a synonym in both orders; int, size_t and string parameters; the parameter registered once or "
            "re-registered under the same name before and after the override; and pairs of parameters whose names are in "
            "prefix relation with every sequence of <= 4 --mca options naming one or the other) and proves the transcribed lookup "
            "order stays inside the documented precedence; every case is then evaluated on the real mca_param.c - through "
            "the command-line API and through parsec_init - and TLC validates each reported value and source (before and "
            "after the override, after each registration) against the property: winning level, a source of that level, "
            "comma-joined repeated --mca of exactly that parameter name.",
    "note": "Exhaustive over the box (1584 cases + 186 name-prefix pairs, x 2 entry paths). Between sources of the same level (--mca vs environment, "
            "name vs synonym, order of file entries) the property leaves the choice open; the code's choice is compared "
            "with the transcription and only counted as a divergence. Parameter file through $HOME; system-wide file, "
            "read-only/deprecated parameters and '~/' expansion are not exercised.",
    "technique": "TLA+ oracle evaluated by TLC over the finite case box + execution of every case on the real code + trace validation (TLC)",
}

MAX_ORDER = 4
BASE = {"dflt": 1, "fileP": 2, "fileS": 3, "envP": 4, "envS": 5, "cmdP1": 6, "cmdP2": 7, "cmdS": 8, "ovr": 9}


def value(kind, tag, cid):
    if kind == "string":
        return "%s_%d" % (tag, cid)
    return str(BASE[tag] * 100000 + cid)


def pair_value(kind, i, cid):
    return "po%d_%d" % (i, cid) if kind == "string" else str((20 + i) * 100000 + cid)


def prepare(cases):
    """-> (case lines, env, file text, argv, per-case vals)"""
    lines, env, ftxt, argv, vals = [], {}, [], [], {}
    for cid, c in cases:
        k = c["type"]
        if "order" in c:          # a pair of parameters: A = verif_q<cid>, B = verif_q<cid>_x
            names = {"A": "verif_q%d" % cid, "B": "verif_q%d_x" % cid}
            v = {"cmd": [pair_value(k, i + 1, cid) for i in range(len(c["order"]))],
                 "dflt": {"A": pair_value(k, 11, cid), "B": pair_value(k, 12, cid)},
                 "file": {"A": "", "B": pair_value(k, 13, cid) if c["fileB"] else ""}}
            vals[cid] = v
            lines.append("P %d %s %s %s" % (cid, k, v["dflt"]["A"], v["dflt"]["B"]))
            if c["fileB"]:
                ftxt.append("%s = %s" % (names["B"], v["file"]["B"]))
            for w, x in zip(c["order"], v["cmd"]):
                argv += ["--mca", names[w], x]
            continue
        v = {t: value(k, t, cid) for t in ("dflt", "fileP", "fileS", "envP", "envS", "cmdS", "ovr")}
        v["cmdP"] = [value(k, "cmdP%d" % (i + 1), cid) for i in range(c["cmdP"])]
        vals[cid] = v
        lines.append("%d %s %s %d %s %d" % (cid, k, v["dflt"], 1 if c["syn"] else 0, v["ovr"] if c["ovr"] else "-",
                                            1 if c.get("rereg") else 0))
        if c["envP"]:
            env["PARSEC_MCA_verif_c%d" % cid] = v["envP"]
        if c["envS"]:
            env["PARSEC_MCA_verif_s%d" % cid] = v["envS"]
        entries = []
        if c["fileP"]:
            entries.append("verif_c%d = %s" % (cid, v["fileP"]))
        if c["fileS"]:
            entries.append("verif_s%d = %s" % (cid, v["fileS"]))
        if c["fileSfirst"]:
            entries.reverse()
        ftxt.extend(entries)
        for x in v["cmdP"]:
            argv += ["--mca", "verif_c%d" % cid, x]
        if c["cmdS"]:
            argv += ["--mca", "verif_s%d" % cid, v["cmdS"]]
    return lines, env, "\n".join(ftxt) + "\n", argv, vals


def evaluate(ctx, exe, via, cases, tag):
    lines, env, ftxt, argv, vals = prepare(cases)
    home = os.path.join(ctx.scratch, "home_%s_%s" % (via, tag))
    os.makedirs(os.path.join(home, ".parsec"), exist_ok=True)
    with open(os.path.join(home, ".parsec", "mca-params.conf"), "w") as f:
        f.write(ftxt)
    cf = os.path.join(ctx.scratch, "cases_%s_%s.txt" % (via, tag))
    with open(cf, "w") as f:
        f.write("\n".join(lines) + "\n")
    out = os.path.join(ctx.scratch, "out_%s_%s.ndjson" % (via, tag))
    env = dict(env)
    env["HOME"] = home
    rc, so, se = ctx.run_cmd([exe, via, cf, out] + argv, timeout=600, env=env)
    got = {}
    if os.path.exists(out):
        for ev in tracecheck.read_ndjson(out):
            if ev.get("e") in ("case", "pair"):
                got[ev["id"]] = ev
    events = []
    for cid, c in cases:
        ev = got.get(cid)
        if ev is None:
            events.append({"e": "Crash", "id": cid, "via": via, "rc": str(rc), "stderr": se[-300:]})
            continue
        ev = dict(ev)
        if "order" in c:
            ev.update({"via": via, "p": c})
            ev.update(vals[cid])
        else:
            ev.update({"via": via, "c": c, "vals": vals[cid]})
        events.append(ev)
    return events


def trace_cfg(d, level):
    return mcgen.write_mc(d, "tr_" + level, "McaParamTrace", {"Types": {"int", "sizet", "string"}, "MaxOrder": MAX_ORDER, "Level_": level},
                          spec="TSpec", invariants=("AcceptExit",))


def run(ctx):
    d = ctx.stage("Util")
    exe = ctx.harness("mca_eval", ["harness/mca/mca_eval.c"])
    mod, cfg = mcgen.write_mc(d, "box", "McaParam", {"Types": {"int", "sizet", "string"}, "MaxOrder": MAX_ORDER},
                              invariants=("TypeOK", "PredictedAllowed", "Precedence", "PairIndependent", "Emit"))
    r = ctx.tlc_check(d, mod, cfg, must_cover=("Resolve",), workers=2, timeout=900)
    box = [c for c in (tlc._parse_tla_string_list(l) for l in r.printed) if c]
    box.sort(key=lambda c: json.dumps(c, sort_keys=True))
    npairs = sum(1 for c in box if "order" in c)
    if len(box) - npairs < 1500 or npairs < 100:
        raise tlc.TLCError("the case box was not enumerated (%d cases, %d pairs)" % (len(box) - npairs, npairs))
    ctx.exhaustive = True
    ctx.extra["cases"] = len(box) - npairs
    ctx.extra["prefix_name_pairs"] = npairs
    cases = list(enumerate(box, start=1))
    events = []
    for via in ("api", "init"):
        events += evaluate(ctx, exe, via, cases, "all")
    ctx.evaluations = len(events)
    ctx.sample(next(e for e in events if e.get("c", {}).get("cmdP") == 2 and e["c"]["type"] == "string" and not e["c"]["ovr"]))
    ctx.sample(next(e for e in events if e.get("c", {}).get("fileS") and not e["c"]["envP"] and e.get("via") == "init"))
    ctx.sample(next(e for e in events if e.get("p", {}).get("order") == ["A", "B", "A"] and e["p"]["type"] == "string"))
    # each case is an execution of its own (a rejected case must not hide the others)
    executions = [[e] for e in events]
    tmod, tcfg = trace_cfg(d, "prop")
    fails = ctx.validate(d, tmod, tcfg, executions, batch=100000, timeout=900, max_failures=6)
    for f in fails:
        ev = f.execution[0]
        if ev.get("e") == "pair":
            ctx.violation("parameters with names in prefix relation %s (via %s), --mca values %s: resolved to %s; each one must "
                          "resolve from the options naming exactly it" % (json.dumps(ev.get("p")), ev.get("via"),
                                                                         json.dumps(ev.get("cmd")), json.dumps(ev.get("res"))),
                          {"event": ev, "detail": f.describe()})
            continue
        what = ("MCA parameter case %s (via %s) resolved to value %r from %r (before override: %r from %r): not an allowed "
                "source of the winning level" % (json.dumps(ev.get("c")), ev.get("via"), ev.get("val"), ev.get("src"),
                                                 ev.get("val0"), ev.get("src0")))
        if ev.get("c", {}).get("rereg"):
            what += "; registered again: %r / %r from %r, and after the override %r from %r" % (
                ev.get("curr"), ev.get("valr"), ev.get("srcr"), ev.get("val2"), ev.get("src2"))
        ctx.violation(what, {"event": ev, "detail": f.describe()})
    tmod, tcfg = trace_cfg(d, "code")
    cf = ctx.validate(d, tmod, tcfg, executions, batch=100000, timeout=900, max_failures=1, confirm=False)
    ctx.traces = len(executions)
    for f in cf:
        ctx.divergences += 1
        ctx.sample({"divergence": f.execution[0]}, limit=6)
    ctx.assume("a second registration of a parameter uses the same type and default as the first one")
    ctx.assume("every case uses its own parameter and synonym names; all sources are in place before the parameter is "
               "registered, as for the runtime's own parameters")
    ctx.assume("between sources of one level (--mca vs environment variable, name vs synonym, order of file entries) any "
               "present source is accepted")


def replay(ctx, obj):
    d = ctx.stage("Util")
    exe = ctx.harness("mca_eval", ["harness/mca/mca_eval.c"])
    ev = obj["event"]
    events = evaluate(ctx, exe, ev.get("via", "api"), [(ev["id"], ev["c"] if "c" in ev else ev["p"])], "replay")
    tmod, tcfg = trace_cfg(d, "prop")
    for f in ctx.validate(d, tmod, tcfg, [[e] for e in events]):
        ctx.violation("case still rejected on the current tree: %s" % json.dumps(f.execution[0])[:800], {"event": f.execution[0]})
