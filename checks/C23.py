"""C23  PTG task keys identify task instances uniquely.

spec/PTG/KeySem.tla    the key scheme of jdf2c.c: per-parameter min / range as internal_init collects them, mixed-radix
                       key (make_key), its inverse (key_print)
spec/PTG/KeyModel.tla  TLC evaluates the scheme over all generated parameter-space shapes: injective on the space of
                       each class; inverse = parameters (except for parameters defined by an expression, see below)
spec/PTG/KeyTrace.tla  validation of the real make_key / key_print results: instance in Space(prog), key not seen for
                       another instance of the class, printed text = "<class>(<parameter values>)", all instances seen

The driver builds the generated taskpool, lets its internal_init tasks run (they compute min / range), then calls the
generated task_class->make_key and task_class->key_functions->key_print for every instance of the space.
"""
import json
import os

from harness.ptg import ptgrun
from lib import jdfgen, tlc

META = {
    "level": "model_checking",
    "text": "TLC evaluates the mixed-radix key scheme of the PTG compiler (min/range collection of internal_init, make_key, "
            "key_print inversion) on every generated parameter-space shape and checks it is injective; the real generated "
            "make_key / key_print are then called for every instance of the same shapes (1-4 parameters: ascending, "
            "descending, stepped, expression steps, negative bounds, triangular, derived locals, parameters defined by "
            "expressions, declaration order different from definition order; both dependency back-ends) and TLC validates "
            "uniqueness per class and that the printed key names the class and the parameter values.",
    "note": "quick: 120 task classes (~900 instances), thorough: 1500 classes; ranges bounded by N<=4, M<=3. Keys are "
            "observed right after internal_init (independent of whether the tasks then run). Trusted: the space enumeration "
            "is re-derived by TLC from the AST (KeysDone demands done = Space).",
    "technique": "TLA+ model of the key scheme (TLC) + real make_key/key_print over the enumerated space + trace validation",
}


def run(ctx):
    n = 120 if ctx.quick else 1500
    ents = jdfgen.key_programs(2300 + ctx.seed, n)
    ctx.extra["classes"] = sum(len(e["tags"]) for e in ents)
    ctx.extra["instances"] = sum(e["ntasks"] for e in ents)
    # ---- 1. the model of the scheme, on exactly these shapes
    pf = os.path.join(ctx.scratch, "keyprogs.ndjson")
    with open(pf, "w") as f:
        for e in ents:
            f.write(jdfgen.to_json(e["prog"]) + "\n")
    r = ctx.tlc_check("PTG", "KeyModel", "KeyModel.cfg", workers=1, env={"PROGS": pf}, timeout=1500, heap="4g",
                      jvm=ptgrun.JVM_SHORT)
    model = {}
    for line in r.printed:
        h = tlc._parse_tla_string_list(line)
        if h:
            model[h["name"]] = h
    if len(model) != len(ents) or r.distinct != len(ents) + 1:
        raise tlc.TLCError("vacuity guard: KeyModel evaluated %d of %d programs" % (len(model), len(ents)))
    if sum(len(h["keys"]) for h in model.values()) != ctx.extra["instances"]:
        raise tlc.TLCError("the generator and JDFSem disagree on the size of the spaces")
    ctx.exhaustive = True
    ctx.extra["model_predicts_print_defect"] = sorted(nm for nm, h in model.items() if not h["names"])
    # ---- 2. the real functions
    backs = {e["prog"]["name"]: ("dynamic-hash-table" if i % 2 else "index-array") for i, e in enumerate(ents)}
    groups = [(ents, backs, "k")]
    if not ctx.quick:
        import copy
        other = []
        for e in ents:
            e2 = copy.deepcopy(e)
            e2["prog"]["name"] = e["prog"]["name"] + "b"
            other.append(e2)
        backs2 = {e2["prog"]["name"]: ("index-array" if backs[e["prog"]["name"]] != "index-array" else "dynamic-hash-table")
                  for e, e2 in zip(ents, other)}
        groups = []
        allp = [(e, backs) for e in ents] + [(e, backs2) for e in other]
        for s in range(0, len(allp), 50):
            sl = allp[s:s + 50]
            b = {}
            for e, bk in sl:
                b[e["prog"]["name"]] = bk[e["prog"]["name"]]
            groups.append(([e for e, _ in sl], b, "k%d" % s))
    executions, metas = [], []
    for gents, gb, tag in groups:
        exe = ptgrun.build_driver(ctx, [e["prog"] for e in gents], tag, backends=gb)
        runs = []
        for e in gents:
            sf = os.path.join(ctx.scratch, e["prog"]["name"] + ".space")
            jdfgen.space_file(e["prog"], sf)
            runs.append({"prog": e["prog"], "keys": sf, "maxev": 2 * e["ntasks"] + 10})
        per, info = ptgrun.run_config(ctx, exe, runs, {"sched": "lfq", "cores": 2, "conc": 64}, tag, window_ms=1500)
        for e, evs in zip(gents, per):
            have_done = any(ev.get("e") == "KeysDone" for ev in (evs or []))
            for ci, c in enumerate(e["prog"]["classes"]):
                # one execution per task class
                ex = [{"e": "Prog", "prog": e["prog"]}]
                if evs is None:
                    ex.append({"e": "Crash", "what": "driver died", "info": info["stderr"][-200:]})
                else:
                    ex.append({"e": "Run"})
                    for ev in evs:
                        if ev.get("e") == "Key" and ev.get("cn") == c["name"]:
                            ex.append({k: v for k, v in ev.items() if k not in ("s", "tp")})
                        elif ev.get("e") == "ToolError" and "Final event" in str(ev.get("what", "")):
                            continue      # the recorder could not log the final collection: C23 does not use it
                        elif ev.get("e") in ("ToolError", "Crash", "BadIndex"):
                            ex.append({k: v for k, v in ev.items() if k not in ("s", "tp")})
                    ex.append({"e": "KeysDone", "cn": c["name"]} if have_done else
                              {"e": "Crash", "what": "keys never produced", "info": info["stderr"][-200:]})
                executions.append(ex)
                order = [l["name"] for l in c["locals"] if l["name"] in c["params"]]
                metas.append({"program": e["prog"]["name"], "class": c["name"], "shape": e["tags"][ci],
                              "backend": gb[e["prog"]["name"]],
                              "expr_param": any(l["kind"] == "def" and l["name"] in c["params"] for l in c["locals"]),
                              "declared_order_differs": order != c["params"]})
            # conformance of the real keys with the model of the scheme (not a verdict)
            base = e["prog"]["name"][:5]
            mk = {(c, tuple(p)): k for c, p, k in model[base]["keys"]} if base in model else {}
            cidx = {c["name"]: i for i, c in enumerate(e["prog"]["classes"])}
            for ev in evs or []:
                if ev.get("e") == "Key":
                    real = ev["k0"] + (ev["k1"] << 30) + (ev["k2"] << 60)
                    want = mk.get((cidx[ev["cn"]], tuple(ev["p"])))
                    if want is not None and want >= 0 and real != want:
                        ctx.divergences += 1
                        ctx.sample({"divergence": {"program": e["prog"]["name"], "class": ev["cn"], "p": ev["p"],
                                                   "real_key": real, "model_key": want}}, limit=6)
    ctx.evaluations = sum(1 for ex in executions for ev in ex if ev.get("e") == "Key")
    ctx.extra["key_calls"] = ctx.evaluations
    if executions:
        ctx.sample({"class": metas[0], "events": executions[0][2:8]})
    # classes whose printed key is expected to be at risk (parameter defined by an expression, declaration order
    # different from the definition order) are validated apart, so that the other shapes are always all checked
    plain = [i for i, m in enumerate(metas) if not (m["expr_param"] or m["declared_order_differs"])]
    risky = [i for i, m in enumerate(metas) if (m["expr_param"] or m["declared_order_differs"])]
    ctx.extra["classes_plain"] = len(plain)
    ctx.extra["classes_expr_param_or_reordered"] = len(risky)
    for grp, maxf in ((plain, 3), (risky, 2)):
        fails = ctx.validate("PTG", "KeyTrace", "KeyTrace.cfg", [executions[i] for i in grp], batch=200, timeout=1500,
                             max_failures=maxf)
        for f in fails:
            m = metas[grp[f.index]]
            nxt = f.describe().get("next_event") or {}
            ctx.violation("make_key / key_print of task class %s (shape %s) of generated program %s (%s) rejected by "
                          "KeyTrace: %s" % (m["class"], m["shape"], m["program"], m["backend"],
                                            json.dumps(f.describe())[:700]),
                          {"meta": m, "events": f.execution, "detail": f.describe()},
                          key=("key-print-parameters" if (nxt.get("e") == "Key" and _print_only(f.execution, nxt)) else None))
    if not ctx.violations:        # (the plain classes were all accepted)
        cands = [executions[i] for i in plain if sum(1 for ev in executions[i] if ev.get("e") == "Key") >= 2]
        if cands:
            def dup_key(ex):
                ks = [ev for ev in ex if ev.get("e") == "Key"]
                ks[1]["k0"], ks[1]["k1"], ks[1]["k2"] = ks[0]["k0"], ks[0]["k1"], ks[0]["k2"]
                return ex

            def bad_txt(ex):
                ks = [ev for ev in ex if ev.get("e") == "Key"]
                ks[0]["txt"] = ks[0]["txt"].replace("(", "(1")
                return ex
            ptgrun.corruption_selftest(ctx, "PTG", "KeyTrace", "KeyTrace.cfg", cands[0], dup_key, "two instances with the same key")
            ptgrun.corruption_selftest(ctx, "PTG", "KeyTrace", "KeyTrace.cfg", cands[0], bad_txt, "printed key names another value")
    ctx.assume("uniqueness is demanded among the instances of one task class of one taskpool")


def _print_only(execution, ev):
    """True when the rejected Key event is unique and only its printed text is wrong (the key itself did not collide)
    and the class has a parameter defined by an expression or declared in another order than defined."""
    prog = execution[0]["prog"]
    c = [x for x in prog["classes"] if x["name"] == ev["cn"]][0]
    order = [l["name"] for l in c["locals"] if l["name"] in c["params"]]
    exprp = any(l["kind"] == "def" and l["name"] in c["params"] for l in c["locals"])
    if not (exprp or order != c["params"]):
        return False
    seen = [(e["cn"], e["k0"], e["k1"], e["k2"]) for e in execution if e.get("e") == "Key"]
    return seen.count((ev["cn"], ev["k0"], ev["k1"], ev["k2"])) == 1


def replay(ctx, obj):
    for f in ctx.validate("PTG", "KeyTrace", "KeyTrace.cfg", [obj["events"]]):
        ctx.violation("recorded key trace still rejected: %s" % json.dumps(f.describe())[:700], obj)
