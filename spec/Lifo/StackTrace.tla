---------------------------- MODULE StackTrace ----------------------------
(* Trace validation for C30: is a recorded inv/res history of the real LIFO linearizable with respect
   to Stack.tla ?   Events (ndjson, in stamp order):
     {"e":"init","st":[..]}                         initial content (top first)
     {"e":"inv","t":T,"op":"push","x":I} | "op":"chain","ring":[..] | "op":"pop" | "op":"trypop"
     {"e":"res","t":T,"op":..,"r":R}                R = popped item, 0 = NULL
     {"e":"Reset"}                                  next execution
   Between a call's inv and res the silent action Lin(t) applies the call's effect to the abstract stack:
   any linearization consistent with the recorded real-time order is accepted, nothing else.
   try_pop may return NULL on a non-empty stack only if another call took effect while it was pending
   (its compare-and-swap can fail only then). *)
EXTENDS Stack, Json, IOUtils, TLC
CONSTANTS Thr
VARIABLES l, pend
tvars == <<st, l, pend>>

TraceLog == ndJsonDeserialize(IOEnv.TRACE)
None == [op |-> "none"]
Ev == TraceLog[l]
IsEv(e) == l <= Len(TraceLog) /\ Ev.e = e /\ l' = l + 1

TInit == st = <<>> /\ l = 1 /\ pend = [t \in Thr |-> None]

TSetInit == /\ IsEv("init") /\ \A t \in Thr : pend[t] = None
            /\ st' = Ev.st /\ UNCHANGED pend
TReset == /\ IsEv("Reset")
          /\ st' = <<>> /\ pend' = [t \in Thr |-> None]

TInv == /\ IsEv("inv") /\ Ev.t \in Thr /\ pend[Ev.t] = None
        /\ pend' = [pend EXCEPT ![Ev.t] =
                      [op |-> Ev.op, x |-> IF Ev.op = "push" THEN Ev.x ELSE 0,
                       ring |-> IF Ev.op = "chain" THEN Ev.ring ELSE <<>>,
                       lin |-> FALSE, r |-> 0, itf |-> FALSE]]
        /\ UNCHANGED st

\* a call takes effect; every other pending, not yet linearized call has been interfered with
Interfere(t, f) == [u \in Thr |-> IF u # t /\ f[u] # None /\ ~f[u].lin /\ st' # st THEN [f[u] EXCEPT !.itf = TRUE] ELSE f[u]]
Lin(t) == /\ pend[t] # None /\ ~pend[t].lin /\ UNCHANGED l
          /\ CASE pend[t].op = "push"  -> /\ Push(pend[t].x)
                                          /\ pend' = Interfere(t, [pend EXCEPT ![t].lin = TRUE])
               [] pend[t].op = "chain" -> /\ Chain(pend[t].ring)
                                          /\ pend' = Interfere(t, [pend EXCEPT ![t].lin = TRUE])
               [] pend[t].op = "pop"   -> /\ Pop
                                          /\ pend' = Interfere(t, [pend EXCEPT ![t].lin = TRUE, ![t].r = PopRes])
               [] pend[t].op = "trypop" -> \/ /\ Pop
                                              /\ pend' = Interfere(t, [pend EXCEPT ![t].lin = TRUE, ![t].r = PopRes])
                                           \/ /\ pend[t].itf /\ UNCHANGED st
                                              /\ pend' = [pend EXCEPT ![t].lin = TRUE, ![t].r = 0]

TRes == /\ IsEv("res") /\ Ev.t \in Thr /\ pend[Ev.t] # None /\ pend[Ev.t].lin
        /\ pend[Ev.t].op = Ev.op /\ pend[Ev.t].r = Ev.r
        /\ pend' = [pend EXCEPT ![Ev.t] = None]
        /\ UNCHANGED st

TNext == TSetInit \/ TReset \/ TInv \/ TRes \/ \E t \in Thr : Lin(t)
TSpec == TInit /\ [][TNext]_tvars

NotAccepted == l <= Len(TraceLog)
\* cheap acceptance for long traces: stop TLC as soon as the cursor passed the last line (no counter-example printing)
AcceptExit == (l > Len(TraceLog)) => (PrintT("VERIF-ACCEPTED") /\ TLCSet("exit", TRUE))
NoElementTwice == NoDup(st)
===========================================================================
