---- MODULE MC_aba_TTrace_1790032095 ----
EXTENDS Sequences, TLCExt, MC_aba, Toolbox, Naturals, TLC

_expression ==
    LET MC_aba_TEExpression == INSTANCE MC_aba_TEExpression
    IN MC_aba_TEExpression!expression
----

_trace ==
    LET MC_aba_TETrace == INSTANCE MC_aba_TETrace
    IN MC_aba_TETrace!trace
----

_inv ==
    ~(
        TLCGet("level") = Len(_TETrace)
        /\
        ret = (<<<<>>, <<1, 2, 0>>>>)
        /\
        loc = (<<[next |-> 0, item |-> 1, ctr |-> 0, nx |-> 2], [next |-> 3, item |-> 2, ctr |-> 1, nx |-> 3]>>)
        /\
        pc = (<<"o_wmb", "idle">>)
        /\
        abs = (<<3>>)
        /\
        headCtr = (3)
        /\
        opi = (<<1, 4>>)
        /\
        popBad = (TRUE)
        /\
        headItem = (2)
        /\
        nxt = (<<3, 0, 0>>)
    )
----

_init ==
    /\ nxt = _TETrace[1].nxt
    /\ loc = _TETrace[1].loc
    /\ pc = _TETrace[1].pc
    /\ ret = _TETrace[1].ret
    /\ abs = _TETrace[1].abs
    /\ headCtr = _TETrace[1].headCtr
    /\ opi = _TETrace[1].opi
    /\ popBad = _TETrace[1].popBad
    /\ headItem = _TETrace[1].headItem
----

_next ==
    /\ \E i,j \in DOMAIN _TETrace:
        /\ \/ /\ j = i + 1
              /\ i = TLCGet("level")
        /\ nxt  = _TETrace[i].nxt
        /\ nxt' = _TETrace[j].nxt
        /\ loc  = _TETrace[i].loc
        /\ loc' = _TETrace[j].loc
        /\ pc  = _TETrace[i].pc
        /\ pc' = _TETrace[j].pc
        /\ ret  = _TETrace[i].ret
        /\ ret' = _TETrace[j].ret
        /\ abs  = _TETrace[i].abs
        /\ abs' = _TETrace[j].abs
        /\ headCtr  = _TETrace[i].headCtr
        /\ headCtr' = _TETrace[j].headCtr
        /\ opi  = _TETrace[i].opi
        /\ opi' = _TETrace[j].opi
        /\ popBad  = _TETrace[i].popBad
        /\ popBad' = _TETrace[j].popBad
        /\ headItem  = _TETrace[i].headItem
        /\ headItem' = _TETrace[j].headItem

\* Uncomment the ASSUME below to write the states of the error trace
\* to the given file in Json format. Note that you can pass any tuple
\* to `JsonSerialize`. For example, a sub-sequence of _TETrace.
    \* ASSUME
    \*     LET J == INSTANCE Json
    \*         IN J!JsonSerialize("MC_aba_TTrace_1790032095.json", _TETrace)

=============================================================================

 Note that you can extract this module `MC_aba_TEExpression`
  to a dedicated file to reuse `expression` (the module in the 
  dedicated `MC_aba_TEExpression.tla` file takes precedence 
  over the module `MC_aba_TEExpression` below).

---- MODULE MC_aba_TEExpression ----
EXTENDS Sequences, TLCExt, MC_aba, Toolbox, Naturals, TLC

expression == 
    [
        \* To hide variables of the `MC_aba` spec from the error trace,
        \* remove the variables below.  The trace will be written in the order
        \* of the fields of this record.
        nxt |-> nxt
        ,loc |-> loc
        ,pc |-> pc
        ,ret |-> ret
        ,abs |-> abs
        ,headCtr |-> headCtr
        ,opi |-> opi
        ,popBad |-> popBad
        ,headItem |-> headItem
        
        \* Put additional constant-, state-, and action-level expressions here:
        \* ,_stateNumber |-> _TEPosition
        \* ,_nxtUnchanged |-> nxt = nxt'
        
        \* Format the `nxt` variable as Json value.
        \* ,_nxtJson |->
        \*     LET J == INSTANCE Json
        \*     IN J!ToJson(nxt)
        
        \* Lastly, you may build expressions over arbitrary sets of states by
        \* leveraging the _TETrace operator.  For example, this is how to
        \* count the number of times a spec variable changed up to the current
        \* state in the trace.
        \* ,_nxtModCount |->
        \*     LET F[s \in DOMAIN _TETrace] ==
        \*         IF s = 1 THEN 0
        \*         ELSE IF _TETrace[s].nxt # _TETrace[s-1].nxt
        \*             THEN 1 + F[s-1] ELSE F[s-1]
        \*     IN F[_TEPosition - 1]
    ]

=============================================================================



Parsing and semantic processing can take forever if the trace below is long.
 In this case, it is advised to uncomment the module below to deserialize the
 trace from a generated binary file.

\*
\*---- MODULE MC_aba_TETrace ----
\*EXTENDS IOUtils, MC_aba, TLC
\*
\*trace == IODeserialize("MC_aba_TTrace_1790032095.bin", TRUE)
\*
\*=============================================================================
\*

---- MODULE MC_aba_TETrace ----
EXTENDS MC_aba, TLC

trace == 
    <<
    ([ret |-> <<<<>>, <<>>>>,loc |-> <<[next |-> 0, item |-> 0, ctr |-> 0, nx |-> 0], [next |-> 0, item |-> 0, ctr |-> 0, nx |-> 0]>>,pc |-> <<"idle", "idle">>,abs |-> <<1, 2, 3>>,headCtr |-> 0,opi |-> <<1, 1>>,popBad |-> FALSE,headItem |-> 1,nxt |-> <<2, 3, 0>>]),
    ([ret |-> <<<<>>, <<>>>>,loc |-> <<[next |-> 0, item |-> 0, ctr |-> 0, nx |-> 0], [next |-> 0, item |-> 0, ctr |-> 0, nx |-> 0]>>,pc |-> <<"o_rmb", "idle">>,abs |-> <<1, 2, 3>>,headCtr |-> 0,opi |-> <<1, 1>>,popBad |-> FALSE,headItem |-> 1,nxt |-> <<2, 3, 0>>]),
    ([ret |-> <<<<>>, <<>>>>,loc |-> <<[next |-> 0, item |-> 1, ctr |-> 0, nx |-> 2], [next |-> 0, item |-> 0, ctr |-> 0, nx |-> 0]>>,pc |-> <<"o_cas", "idle">>,abs |-> <<1, 2, 3>>,headCtr |-> 0,opi |-> <<1, 1>>,popBad |-> FALSE,headItem |-> 1,nxt |-> <<2, 3, 0>>]),
    ([ret |-> <<<<>>, <<>>>>,loc |-> <<[next |-> 0, item |-> 1, ctr |-> 0, nx |-> 2], [next |-> 0, item |-> 0, ctr |-> 0, nx |-> 0]>>,pc |-> <<"o_cas", "o_rmb">>,abs |-> <<1, 2, 3>>,headCtr |-> 0,opi |-> <<1, 1>>,popBad |-> FALSE,headItem |-> 1,nxt |-> <<2, 3, 0>>]),
    ([ret |-> <<<<>>, <<>>>>,loc |-> <<[next |-> 0, item |-> 1, ctr |-> 0, nx |-> 2], [next |-> 0, item |-> 1, ctr |-> 0, nx |-> 2]>>,pc |-> <<"o_cas", "o_cas">>,abs |-> <<1, 2, 3>>,headCtr |-> 0,opi |-> <<1, 1>>,popBad |-> FALSE,headItem |-> 1,nxt |-> <<2, 3, 0>>]),
    ([ret |-> <<<<>>, <<>>>>,loc |-> <<[next |-> 0, item |-> 1, ctr |-> 0, nx |-> 2], [next |-> 0, item |-> 1, ctr |-> 0, nx |-> 2]>>,pc |-> <<"o_cas", "o_wmb">>,abs |-> <<2, 3>>,headCtr |-> 1,opi |-> <<1, 1>>,popBad |-> FALSE,headItem |-> 2,nxt |-> <<2, 3, 0>>]),
    ([ret |-> <<<<>>, <<1>>>>,loc |-> <<[next |-> 0, item |-> 1, ctr |-> 0, nx |-> 2], [next |-> 0, item |-> 1, ctr |-> 0, nx |-> 2]>>,pc |-> <<"o_cas", "idle">>,abs |-> <<2, 3>>,headCtr |-> 1,opi |-> <<1, 2>>,popBad |-> FALSE,headItem |-> 2,nxt |-> <<0, 3, 0>>]),
    ([ret |-> <<<<>>, <<1>>>>,loc |-> <<[next |-> 0, item |-> 1, ctr |-> 0, nx |-> 2], [next |-> 0, item |-> 1, ctr |-> 1, nx |-> 2]>>,pc |-> <<"o_cas", "o_rmb">>,abs |-> <<2, 3>>,headCtr |-> 1,opi |-> <<1, 2>>,popBad |-> FALSE,headItem |-> 2,nxt |-> <<0, 3, 0>>]),
    ([ret |-> <<<<>>, <<1>>>>,loc |-> <<[next |-> 0, item |-> 1, ctr |-> 0, nx |-> 2], [next |-> 0, item |-> 2, ctr |-> 1, nx |-> 3]>>,pc |-> <<"o_cas", "o_cas">>,abs |-> <<2, 3>>,headCtr |-> 1,opi |-> <<1, 2>>,popBad |-> FALSE,headItem |-> 2,nxt |-> <<0, 3, 0>>]),
    ([ret |-> <<<<>>, <<1>>>>,loc |-> <<[next |-> 0, item |-> 1, ctr |-> 0, nx |-> 2], [next |-> 0, item |-> 2, ctr |-> 1, nx |-> 3]>>,pc |-> <<"o_cas", "o_wmb">>,abs |-> <<3>>,headCtr |-> 2,opi |-> <<1, 2>>,popBad |-> FALSE,headItem |-> 3,nxt |-> <<0, 3, 0>>]),
    ([ret |-> <<<<>>, <<1, 2>>>>,loc |-> <<[next |-> 0, item |-> 1, ctr |-> 0, nx |-> 2], [next |-> 0, item |-> 2, ctr |-> 1, nx |-> 3]>>,pc |-> <<"o_cas", "idle">>,abs |-> <<3>>,headCtr |-> 2,opi |-> <<1, 3>>,popBad |-> FALSE,headItem |-> 3,nxt |-> <<0, 0, 0>>]),
    ([ret |-> <<<<>>, <<1, 2>>>>,loc |-> <<[next |-> 0, item |-> 1, ctr |-> 0, nx |-> 2], [next |-> 3, item |-> 2, ctr |-> 1, nx |-> 3]>>,pc |-> <<"o_cas", "p_wmb">>,abs |-> <<3>>,headCtr |-> 2,opi |-> <<1, 3>>,popBad |-> FALSE,headItem |-> 3,nxt |-> <<3, 0, 0>>]),
    ([ret |-> <<<<>>, <<1, 2>>>>,loc |-> <<[next |-> 0, item |-> 1, ctr |-> 0, nx |-> 2], [next |-> 3, item |-> 2, ctr |-> 1, nx |-> 3]>>,pc |-> <<"o_cas", "p_cas">>,abs |-> <<3>>,headCtr |-> 2,opi |-> <<1, 3>>,popBad |-> FALSE,headItem |-> 3,nxt |-> <<3, 0, 0>>]),
    ([ret |-> <<<<>>, <<1, 2, 0>>>>,loc |-> <<[next |-> 0, item |-> 1, ctr |-> 0, nx |-> 2], [next |-> 3, item |-> 2, ctr |-> 1, nx |-> 3]>>,pc |-> <<"o_cas", "idle">>,abs |-> <<1, 3>>,headCtr |-> 2,opi |-> <<1, 4>>,popBad |-> FALSE,headItem |-> 1,nxt |-> <<3, 0, 0>>]),
    ([ret |-> <<<<>>, <<1, 2, 0>>>>,loc |-> <<[next |-> 0, item |-> 1, ctr |-> 0, nx |-> 2], [next |-> 3, item |-> 2, ctr |-> 1, nx |-> 3]>>,pc |-> <<"o_wmb", "idle">>,abs |-> <<3>>,headCtr |-> 3,opi |-> <<1, 4>>,popBad |-> TRUE,headItem |-> 2,nxt |-> <<3, 0, 0>>])
    >>
----


=============================================================================

---- CONFIG MC_aba_TTrace_1790032095 ----
CONSTANTS
    Items <- MCItems
    Thr <- MCThr
    Prog <- MCProg
    InitStack <- MCInit
    SplitReads = FALSE
    PtrOnlyPop = TRUE

INVARIANT
    _inv

CHECK_DEADLOCK
    \* CHECK_DEADLOCK off because of PROPERTY or INVARIANT above.
    FALSE

INIT
    _init

NEXT
    _next

CONSTANT
    _TETrace <- _trace

ALIAS
    _expression
=============================================================================
\* Generated on Mon Sep 21 23:08:16 UTC 2026