---------------------------- MODULE Stack ----------------------------
(* Abstract sequential stack: the meaning of parsec_lifo_{push,chain,pop,try_pop}  (property C30).
   Items are positive naturals, 0 stands for NULL.  The head of the sequence is the top. *)
EXTENDS Naturals, Sequences, FiniteSets
CONSTANTS Items
VARIABLES st

Elems(s) == {s[i] : i \in 1..Len(s)}
NoDup(s) == \A i, j \in 1..Len(s) : i # j => s[i] # s[j]

SInit == st = <<>>
Push(x)  == /\ x \in Items /\ x \notin Elems(st)
            /\ st' = <<x>> \o st
Chain(r) == /\ Len(r) > 0 /\ NoDup(r) /\ Elems(r) \subseteq Items /\ Elems(r) \cap Elems(st) = {}
            /\ st' = r \o st                       \* the ring keeps its internal order, its first element on top
PopRes   == IF st = <<>> THEN 0 ELSE Head(st)      \* what a pop returns in the current state
Pop      == st' = IF st = <<>> THEN st ELSE Tail(st)

\* bounded "all sequential histories" model used to model-check the abstract invariants
SNext == \/ \E x \in Items : Push(x)
         \/ \E a, b \in Items : a # b /\ Chain(<<a, b>>)
         \/ Pop
SSpec == SInit /\ [][SNext]_st
TypeOK == st \in Seq(Items) /\ NoDup(st)
======================================================================
