---------------------------- MODULE LifoImpl ----------------------------
(* Implementation-shaped model of parsec/class/lifo.h (128-bit CAS flavour), one action per segment of
   code between two yield points of the hooked build (SplitReads = FALSE) or per shared access
   (SplitReads = TRUE).  Names follow the C code.

   push:    next = head.item ; item->next = next ; wmb ; CAS_ptr(&head.item, next, item)      (retry on failure)
   chain:   same with tail->next and the ring's first element
   pop:     ctr = head.counter ; rmb ; item = head.item ; if NULL return ; nx = item->next ;
            CAS128(&head, <ctr,item>, <ctr+1,nx>) (retry on failure) ; wmb ; item->next = NULL
   try_pop: as pop, but a failed CAS returns NULL

   `abs` is the abstract stack, updated at the linearization points (successful CAS, or the read of a NULL
   head).  Refinement of Stack.tla = invariants Lin (the linked list reachable from head is abs) and
   PopsTop (a successful pop removed the top of abs). *)
EXTENDS Naturals, Sequences, FiniteSets, TLC
CONSTANTS Items, Thr, Prog, InitStack, SplitReads, PtrOnlyPop
(* Prog[t] = sequence of [op |-> "push", x |-> i] | [op |-> "repush", k |-> n] | [op |-> "chain", r |-> <<i,j>>] | [op |-> "pop"] | [op |-> "trypop"]
   PtrOnlyPop = TRUE models the classic ABA-prone variant (pop compares only the pointer); used to show the
   model can tell the difference. *)
VARIABLES headItem, headCtr, nxt, pc, opi, loc, ret, abs, popBad
vars == <<headItem, headCtr, nxt, pc, opi, loc, ret, abs, popBad>>

Last(s) == s[Len(s)]
CurOp(t) == Prog[t][opi[t]]
HasOp(t) == opi[t] <= Len(Prog[t])

RECURSIVE LinkInit(_, _)
LinkInit(s, f) == IF Len(s) = 0 THEN f
                  ELSE LinkInit(Tail(s), [f EXCEPT ![Head(s)] = IF Len(s) = 1 THEN 0 ELSE s[2]])

Init == /\ headItem = IF InitStack = <<>> THEN 0 ELSE Head(InitStack)
        /\ headCtr = 0
        /\ nxt = LinkInit(InitStack, [i \in Items |-> 0])
        /\ pc = [t \in Thr |-> "idle"]
        /\ opi = [t \in Thr |-> 1]
        /\ loc = [t \in Thr |-> [next |-> 0, item |-> 0, ctr |-> 0, nx |-> 0]]
        /\ ret = [t \in Thr |-> <<>>]
        /\ abs = InitStack
        /\ popBad = FALSE

Done(t, r) == /\ ret' = [ret EXCEPT ![t] = Append(@, r)]
              /\ opi' = [opi EXCEPT ![t] = @ + 1]
              /\ pc' = [pc EXCEPT ![t] = "idle"]

\* ---------------------------------------------------------------- push / chain
\* "repush" k = push again the item returned by this thread's k-th operation (nothing to do if that was NULL):
\* a thread may only push an item it owns
Ring(t) == CASE CurOp(t).op = "push" -> <<CurOp(t).x>>
             [] CurOp(t).op = "repush" -> <<ret[t][CurOp(t).k]>>
             [] OTHER -> CurOp(t).r
First(t) == Head(Ring(t))
TailOf(t) == Last(Ring(t))
IsPush(t) == \/ CurOp(t).op \in {"push", "chain"}
             \/ (CurOp(t).op = "repush" /\ ret[t][CurOp(t).k] # 0)
Skip(t) == /\ pc[t] = "idle" /\ HasOp(t) /\ CurOp(t).op = "repush" /\ ret[t][CurOp(t).k] = 0
           /\ Done(t, 0)
           /\ UNCHANGED <<headItem, headCtr, nxt, loc, abs, popBad>>
RingLinks(t, f) == [i \in Items |->
                     IF \E k \in 1..(Len(Ring(t)) - 1) : Ring(t)[k] = i
                     THEN Ring(t)[(CHOOSE k \in 1..(Len(Ring(t)) - 1) : Ring(t)[k] = i) + 1]
                     ELSE f[i]]

\* next = head.item ; tail->next = next            (ends at the wmb yield point)
PushReadLink(t) == /\ pc[t] = "idle" /\ HasOp(t) /\ IsPush(t) /\ ~SplitReads
                   /\ loc' = [loc EXCEPT ![t].next = headItem]
                   /\ nxt' = [RingLinks(t, nxt) EXCEPT ![TailOf(t)] = headItem]
                   /\ pc' = [pc EXCEPT ![t] = "p_wmb"]
                   /\ UNCHANGED <<headItem, headCtr, opi, ret, abs, popBad>>
PushRead(t) == /\ pc[t] = "idle" /\ HasOp(t) /\ IsPush(t) /\ SplitReads
               /\ loc' = [loc EXCEPT ![t].next = headItem]
               /\ nxt' = RingLinks(t, nxt)
               /\ pc' = [pc EXCEPT ![t] = "p_link"]
               /\ UNCHANGED <<headItem, headCtr, opi, ret, abs, popBad>>
PushLink(t) == /\ pc[t] = "p_link"
               /\ nxt' = [nxt EXCEPT ![TailOf(t)] = loc[t].next]
               /\ pc' = [pc EXCEPT ![t] = "p_wmb"]
               /\ UNCHANGED <<headItem, headCtr, opi, loc, ret, abs, popBad>>
PushWmb(t) == /\ pc[t] = "p_wmb"
              /\ pc' = [pc EXCEPT ![t] = "p_cas"]
              /\ UNCHANGED <<headItem, headCtr, nxt, opi, loc, ret, abs, popBad>>
\* CAS_ptr(&head.item, next, first): the counter is not touched by push
PushCas(t) == /\ pc[t] = "p_cas"
              /\ IF headItem = loc[t].next
                 THEN /\ headItem' = First(t)
                      /\ abs' = Ring(t) \o abs
                      /\ Done(t, 0)
                      /\ UNCHANGED <<headCtr, nxt, loc, popBad>>
                 ELSE IF SplitReads
                      THEN /\ loc' = [loc EXCEPT ![t].next = headItem]
                           /\ pc' = [pc EXCEPT ![t] = "p_link"]
                           /\ UNCHANGED <<headItem, headCtr, nxt, opi, ret, abs, popBad>>
                      ELSE /\ loc' = [loc EXCEPT ![t].next = headItem]
                           /\ nxt' = [nxt EXCEPT ![TailOf(t)] = headItem]
                           /\ pc' = [pc EXCEPT ![t] = "p_wmb"]
                           /\ UNCHANGED <<headItem, headCtr, opi, ret, abs, popBad>>

\* ---------------------------------------------------------------- pop / try_pop
PopReadCtr(t) == /\ pc[t] = "idle" /\ HasOp(t) /\ CurOp(t).op \in {"pop", "trypop"}
                 /\ loc' = [loc EXCEPT ![t].ctr = headCtr]
                 /\ pc' = [pc EXCEPT ![t] = "o_rmb"]
                 /\ UNCHANGED <<headItem, headCtr, nxt, opi, ret, abs, popBad>>
\* rmb ; item = head.item ; NULL => return NULL ; nx = item->next        (ends at the CAS128 yield point)
PopReadItem(t) == /\ pc[t] = "o_rmb" /\ ~SplitReads
                  /\ IF headItem = 0
                     THEN /\ Done(t, 0) /\ UNCHANGED <<loc, popBad>>
                     ELSE /\ loc' = [loc EXCEPT ![t].item = headItem, ![t].nx = nxt[headItem]]
                          /\ pc' = [pc EXCEPT ![t] = "o_cas"]
                          /\ UNCHANGED <<opi, ret, popBad>>
                  /\ UNCHANGED <<headItem, headCtr, nxt, abs>>
PopReadItemS(t) == /\ pc[t] = "o_rmb" /\ SplitReads
                   /\ IF headItem = 0
                      THEN /\ Done(t, 0) /\ UNCHANGED <<loc, popBad>>
                      ELSE /\ loc' = [loc EXCEPT ![t].item = headItem]
                           /\ pc' = [pc EXCEPT ![t] = "o_rdnext"]
                           /\ UNCHANGED <<opi, ret, popBad>>
                   /\ UNCHANGED <<headItem, headCtr, nxt, abs>>
PopReadNext(t) == /\ pc[t] = "o_rdnext"
                  /\ loc' = [loc EXCEPT ![t].nx = nxt[loc[t].item]]
                  /\ pc' = [pc EXCEPT ![t] = "o_cas"]
                  /\ UNCHANGED <<headItem, headCtr, nxt, opi, ret, abs, popBad>>
PopCas(t) == /\ pc[t] = "o_cas"
             /\ IF headItem = loc[t].item /\ (PtrOnlyPop \/ headCtr = loc[t].ctr)
                THEN /\ headItem' = loc[t].nx
                     /\ headCtr' = headCtr + 1
                     /\ popBad' = (popBad \/ abs = <<>> \/ (abs # <<>> /\ Head(abs) # loc[t].item)
                                          \/ (abs # <<>> /\ loc[t].nx # (IF Len(abs) > 1 THEN abs[2] ELSE 0)))
                     /\ abs' = IF abs = <<>> THEN abs ELSE Tail(abs)
                     /\ pc' = [pc EXCEPT ![t] = "o_wmb"]
                     /\ UNCHANGED <<nxt, opi, loc, ret>>
                ELSE IF CurOp(t).op = "trypop"
                     THEN /\ Done(t, 0) /\ UNCHANGED <<headItem, headCtr, nxt, loc, abs, popBad>>
                     ELSE /\ loc' = [loc EXCEPT ![t].ctr = headCtr]
                          /\ pc' = [pc EXCEPT ![t] = "o_rmb"]
                          /\ UNCHANGED <<headItem, headCtr, nxt, opi, ret, abs, popBad>>
\* wmb ; item->next = NULL ; return item
PopWmb(t) == /\ pc[t] = "o_wmb"
             /\ nxt' = [nxt EXCEPT ![loc[t].item] = 0]
             /\ Done(t, loc[t].item)
             /\ UNCHANGED <<headItem, headCtr, loc, abs, popBad>>

Step(t) == \/ Skip(t) \/ PushReadLink(t) \/ PushRead(t) \/ PushLink(t) \/ PushWmb(t) \/ PushCas(t)
           \/ PopReadCtr(t) \/ PopReadItem(t) \/ PopReadItemS(t) \/ PopReadNext(t) \/ PopCas(t) \/ PopWmb(t)
Next == \E t \in Thr : Step(t)
Spec == Init /\ [][Next]_vars

\* ---------------------------------------------------------------- refinement of Stack
RECURSIVE Walk(_, _)
Walk(h, n) == IF h = 0 \/ n = 0 THEN <<>> ELSE <<h>> \o Walk(nxt[h], n - 1)
Lin == Walk(headItem, Cardinality(Items) + 1) = abs
PopsTop == ~popBad
NoDupAbs == \A i, j \in 1..Len(abs) : i # j => abs[i] # abs[j]
AllDone == \A t \in Thr : ~HasOp(t)
=========================================================================
