SPECIFICATION TSpec
CONSTANTS Items = {1,2,3,4,5,6,7,8}
 Thr = {1,2,3,4,5,6,7,8}
INVARIANTS AcceptExit NoElementTwice
CHECK_DEADLOCK FALSE
