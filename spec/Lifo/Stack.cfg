SPECIFICATION SSpec
CONSTANTS Items = {1,2,3,4}
INVARIANTS TypeOK
CHECK_DEADLOCK FALSE
