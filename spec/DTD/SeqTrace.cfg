SPECIFICATION TSpec
CONSTANTS ND = 8
 Ranks = {0}
 MaxTasks = 64
 MaxAcc = 4
 Modes = {"R", "W", "RW"}
 WithFlush = TRUE
 DupData = TRUE
INVARIANTS AcceptExit TraceInv
CHECK_DEADLOCK FALSE
