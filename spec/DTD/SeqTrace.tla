---------------------------- MODULE SeqTrace ----------------------------
(* Trace validation of ONE-PROCESS DTD executions against Seq.tla (C03 values + C04 ordering + C17 owner copy).
   Events, consumed strictly in stamp order (harness/dtd/run_prog.c):
     {"e":"Insert","t":T,"rank":R,"accs":[{"d":D,"m":"R"|"W"|"RW"},..]}   stamped before parsec_dtd_insert_task(T)
     {"e":"Start","t":T,"rk":K,"reads":[[D,V],..]}      stamped inside the body, after the inputs were read
     {"e":"End","t":T,"rk":K,"writes":[[D,V],..]}       stamped inside the body, after the outputs were written
     {"e":"Flush","d":D}                                stamped before parsec_dtd_data_flush(_all) covering D
     {"e":"Wait"}                                       stamped after parsec_taskpool_wait returned
     {"e":"Owner","d":D,"v":V,"rk":K}                   content of the owner's copy of the flushed datum D, read after Wait
   Start / End are stamped INSIDE the body, so Start(t) preceding End(u) in stamp order proves that t was in its
   body while u had not left (or not yet entered) its own: the Start guard of Seq.tla (the C04 statement) is
   evaluated exactly on what happened.  Every value is compared with the state of Seq (C03, C17). *)
EXTENDS Seq, IOUtils
VARIABLES l
tvars == <<vars, l>>
TraceLog == ndJsonDeserialize(IOEnv.TRACE)
Ev == TraceLog[l]
IsEv(e) == l <= Len(TraceLog) /\ Ev.e = e /\ l' = l + 1

\* [[d, v], ...]  ->  function over Data (0 where absent)
PairData(ps) == {ps[i][1] : i \in 1..Len(ps)}
PairVal(ps, d) == IF d \in PairData(ps) THEN ps[CHOOSE i \in 1..Len(ps) : ps[i][1] = d][2] ELSE 0
AccsOf(ev) == [i \in 1..Len(ev.accs) |-> [d |-> ev.accs[i].d, m |-> ev.accs[i].m]]

TInit == Init /\ l = 1
TReset == /\ IsEv("Reset")
          /\ prog' = <<>> /\ status' = <<>> /\ reads' = <<>>
          /\ val' = [d \in Data |-> Init0(d)] /\ fl' = {} /\ own' = [d \in Data |-> -1]
TInsert == /\ IsEv("Insert") /\ Ev.t = Len(prog) + 1
           /\ \A i \in 1..Len(Ev.accs) : Ev.accs[i].d \in Data /\ Ev.accs[i].m \in {"R", "W", "RW"}
           /\ Insert(AccsOf(Ev), Ev.rank)
\* the body was entered: allowed by the ordering guard, and it saw the current values
TStart == /\ IsEv("Start")
          /\ Start(Ev.t)
          /\ PairData(Ev.reads) = {d \in Data : RdT(prog[Ev.t], d)}
          /\ \A d \in PairData(Ev.reads) : PairVal(Ev.reads, d) = val[d]
\* the body returns: it wrote F(what it read)
TEnd == /\ IsEv("End")
        /\ End(Ev.t)
        /\ PairData(Ev.writes) = {d \in Data : WrT(prog[Ev.t], d)}
        /\ \A d \in PairData(Ev.writes) : PairVal(Ev.writes, d) = val'[d]
TFlush == /\ IsEv("Flush") /\ Flush(Ev.d)
\* parsec_taskpool_wait returned: everything inserted is done
TWait == /\ IsEv("Wait") /\ AllDone /\ UNCHANGED vars
\* C17: the owner's copy holds the value of the last inserted writer
TOwner == /\ IsEv("Owner") /\ AllDone
          /\ FlushRun(Ev.d)
          /\ Ev.v = val[Ev.d]
TNext == TReset \/ TInsert \/ TStart \/ TEnd \/ TFlush \/ TWait \/ TOwner
TSpec == TInit /\ [][TNext]_tvars
AcceptExit == (l > Len(TraceLog)) => (PrintT("VERIF-ACCEPTED") /\ TLCSet("exit", TRUE))
\* the invariants of Seq keep being evaluated on the states reconstructed from the trace
TraceInv == ReadsSequential /\ FinalSequential /\ NoConflictRunning /\ WriterAfterReaders /\ FlushReturnsLast
==========================================================================
