---------------------------- MODULE SeqTraceValues ----------------------------
(* Value-only trace validation of DTD executions on ANY NUMBER OF PROCESSES against Seq.tla (C03, C17).
   The check concatenates the per-rank traces of one execution: the Insert and Flush events of rank 0 (every rank
   inserts the same program: DTD is SPMD), then the Start / End events of every rank (each rank's in its own stamp
   order), one Wait, then the Owner events of every rank.  No ordering between ranks is demanded (a remote reader
   works on its own received copy); demanded is:
     * every inserted task is executed exactly once, by one process;
     * what each task read and wrote are the values of the sequential execution in insertion order (C03);
     * after flush + wait the owner's copy of each flushed datum is the value of the last inserted writer (C17). *)
EXTENDS Seq, IOUtils
VARIABLES l
tvars == <<vars, l>>
TraceLog == ndJsonDeserialize(IOEnv.TRACE)
Ev == TraceLog[l]
IsEv(e) == l <= Len(TraceLog) /\ Ev.e = e /\ l' = l + 1

PairData(ps) == {ps[i][1] : i \in 1..Len(ps)}
PairVal(ps, d) == IF d \in PairData(ps) THEN ps[CHOOSE i \in 1..Len(ps) : ps[i][1] = d][2] ELSE 0
AccsOf(ev) == [i \in 1..Len(ev.accs) |-> [d |-> ev.accs[i].d, m |-> ev.accs[i].m]]

TInit == Init /\ l = 1
TReset == /\ IsEv("Reset")
          /\ prog' = <<>> /\ status' = <<>> /\ reads' = <<>>
          /\ val' = [d \in Data |-> Init0(d)] /\ fl' = {} /\ own' = [d \in Data |-> -1]
TInsert == /\ IsEv("Insert") /\ Ev.t = Len(prog) + 1
           /\ \A i \in 1..Len(Ev.accs) : Ev.accs[i].d \in Data /\ Ev.accs[i].m \in {"R", "W", "RW"}
           /\ Insert(AccsOf(Ev), Ev.rank)
TStart == /\ IsEv("Start")
          /\ Ev.t \in 1..Len(prog) /\ status[Ev.t] = "pending"
          /\ PairData(Ev.reads) = {d \in Data : RdT(prog[Ev.t], d)}
          /\ \A d \in PairData(Ev.reads) : PairVal(Ev.reads, d) = SeqReads(prog, Ev.t)[d]
          \* tiles several ints wide (two arena datatypes): "rt" = the value held by the first element of the tile that
          \* disagrees with element 0 (the same value when the whole tile was transferred)
          /\ ("rt" \in DOMAIN Ev) => /\ PairData(Ev.rt) = PairData(Ev.reads)
                                     /\ \A d \in PairData(Ev.rt) : PairVal(Ev.rt, d) = SeqReads(prog, Ev.t)[d]
          /\ status' = [status EXCEPT ![Ev.t] = "running"]
          /\ UNCHANGED <<prog, val, reads, fl, own>>
TEnd == /\ IsEv("End")
        /\ Ev.t \in 1..Len(prog) /\ status[Ev.t] = "running"
        /\ PairData(Ev.writes) = {d \in Data : WrT(prog[Ev.t], d)}
        /\ \A d \in PairData(Ev.writes) : PairVal(Ev.writes, d) = SeqWrites(prog, Ev.t)[d]
        /\ status' = [status EXCEPT ![Ev.t] = "done"]
        /\ UNCHANGED <<prog, val, reads, fl, own>>
TFlush == /\ IsEv("Flush") /\ Flush(Ev.d)
TWait == /\ IsEv("Wait") /\ AllDone /\ UNCHANGED vars
TOwner == /\ IsEv("Owner") /\ AllDone
          /\ Ev.d \in fl /\ own[Ev.d] = -1
          /\ Ev.v = SeqVal(prog, Len(prog))[Ev.d]
          \* "vs": the value held by every element of the owner's tile (tiles several ints wide)
          /\ ("vs" \in DOMAIN Ev) => /\ Len(Ev.vs) >= 1
                                     /\ \A i \in 1..Len(Ev.vs) : Ev.vs[i] = SeqVal(prog, Len(prog))[Ev.d]
          /\ own' = [own EXCEPT ![Ev.d] = Ev.v]
          /\ UNCHANGED <<prog, status, val, reads, fl>>
TNext == TReset \/ TInsert \/ TStart \/ TEnd \/ TFlush \/ TWait \/ TOwner
TSpec == TInit /\ [][TNext]_tvars
AcceptExit == (l > Len(TraceLog)) => (PrintT("VERIF-ACCEPTED") /\ TLCSet("exit", TRUE))
================================================================================
