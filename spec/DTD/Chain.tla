---------------------------- MODULE Chain ----------------------------
(* Implementation-shaped model of the per-tile access chain of DTD (one tile, one flow per task, local tasks):
   parsec_insert_dtd_task + parsec_dtd_set_descendant (insert_function.c), parsec_dtd_ordering_correctly with
   release_ownership_of_data / made_sure_nextinline_is_null (overlap_strategies.c), the reader counter of the data
   copy and data_lookup_of_dtd_task returning AGAIN while it is positive.  Property C04 (= the Start guard of Seq.tla).

   The inserting thread and the thread completing a writer run concurrently; every step below is one critical
   section (tile lock) or one atomic operation / pointer store of the code:
     InsLock(t)      parsec_insert_dtd_task, under parsec_dtd_last_user_lock: read last_user / last_writer, install t
     InsLink(t)      last_user was alive: parsec_dtd_set_descendant(last_user.task -> t)
     InsParent(t)    last_user was not alive: parsec_dtd_set_descendant(last_writer -> t), then release_deps(last_writer):
     InsWalk* (t)    ... the inserting thread itself runs parsec_dtd_ordering_correctly on last_writer for t
     Lookup(t)       data_lookup_of_dtd_task of a ready writer: AGAIN while readers > 0, else the body starts
     BodyR / End     bodies; a reader's completion does parsec_dtd_data_copy_reader_release
     Complete(w)     a writer's body ended: complete_hook_of_dtd -> parsec_dtd_ordering_correctly(w):
     Own(w)          desc = NULL: release_ownership_of_data (lock; still last user => alive := FALSE, no successor;
                     otherwise spin until the inserting thread stored desc)
     Visit(w)        look at the current descendant c: a writer is activated and the walk stops; a reader:
     Next(w)         look_for_next: successor known => clear the link and go on; unknown =>
     MadeSure(w)     made_sure_nextinline_is_null (lock; c still last user => alive := FALSE = the end of the chain is
                     RELEASED: later insertions go through InsParent; otherwise spin until desc(c) is stored)
     Retain(w)       parsec_dtd_data_copy_reader_retain;  Activate(w): ontask(c): c becomes ready
   RetainFirst = FALSE is the order of the code (MadeSure, then Retain): between the two a writer inserted behind the
   released reader is activated by InsParent, sees readers = 0 and runs before that reader: TLC finds it (finding
   dtd-reader-count-after-chain-release, reproduced on the real code by the noise runs of checks/C04.py).
   RetainFirst = TRUE (fixes/dtd-reader-count-before-chain-release.diff) counts the reader before looking for its
   successor: the guard holds. *)
EXTENDS Naturals, Integers, Sequences, FiniteSets, TLC
CONSTANTS N,            \* number of tasks inserted (task 1 is a writer: the tile has an owner from the start)
          RetainFirst
VARIABLES mode,         \* t -> "R" | "W" | "-" (not inserted)
          ins,          \* number of completely inserted tasks
          ipc,          \* inserting thread: <<"idle">> | <<"lock", t>> done, next step: <<"link", t, lu>> | <<"parent", t, lw>> | <<"iw..", t>>
          status,       \* t -> "none" | "linked" | "ready" | "running" | "walking" | "done"
          desc,         \* t -> successor (0 = NULL)
          lastUser, lastWriter,
          readers,
          walk          \* w -> [pc, cur] for writers whose completion walk is in progress
vars == <<mode, ins, ipc, status, desc, lastUser, lastWriter, readers, walk>>
T == 1..N
Idle == [pc |-> "idle", cur |-> 0, nxt |-> 0]

Init == /\ mode = [t \in T |-> "-"] /\ ins = 0 /\ ipc = <<"idle">>
        /\ status = [t \in T |-> "none"] /\ desc = [t \in T |-> 0]
        /\ lastUser = [task |-> 0, alive |-> FALSE] /\ lastWriter = 0
        /\ readers = 0 /\ walk = [t \in T |-> Idle]

\* ---- the inserting thread -------------------------------------------------------------------------------------------
InsLock(m) == /\ ipc = <<"idle">> /\ ins < N /\ (ins = 0 => m = "W")
              /\ LET t == ins + 1 IN
                   /\ mode' = [mode EXCEPT ![t] = m]
                   /\ status' = [status EXCEPT ![t] = "linked"]
                   /\ lastUser' = [task |-> t, alive |-> TRUE]
                   /\ lastWriter' = IF m = "W" THEN t ELSE lastWriter
                   /\ ipc' = IF lastUser.task = 0 THEN <<"first", t>>
                             ELSE IF lastUser.alive THEN <<"link", t, lastUser.task>>
                             ELSE <<"parent", t, lastWriter>>
              /\ UNCHANGED <<ins, desc, readers, walk>>
\* no predecessor at all: the task is ready when its insertion ends
InsFirst == /\ ipc[1] = "first"
            /\ status' = [status EXCEPT ![ipc[2]] = "ready"] /\ ins' = ins + 1 /\ ipc' = <<"idle">>
            /\ UNCHANGED <<mode, desc, lastUser, lastWriter, readers, walk>>
InsLink == /\ ipc[1] = "link"
           /\ desc' = [desc EXCEPT ![ipc[3]] = ipc[2]]
           /\ ins' = ins + 1 /\ ipc' = <<"idle">>
           /\ UNCHANGED <<mode, status, lastUser, lastWriter, readers, walk>>
InsParent == /\ ipc[1] = "parent"
             /\ desc' = [desc EXCEPT ![ipc[3]] = ipc[2]]
             /\ ipc' = IF mode[ipc[2]] = "W" THEN <<"iwact", ipc[2]>>
                       ELSE IF RetainFirst THEN <<"iwretain", ipc[2]>> ELSE <<"iwsure", ipc[2]>>
             /\ UNCHANGED <<mode, ins, status, lastUser, lastWriter, readers, walk>>
\* the inserting thread's own walk for the new reader t (t has no successor: it is the one inserting)
InsSure == /\ ipc[1] = "iwsure"
           /\ lastUser' = IF lastUser.task = ipc[2] THEN [lastUser EXCEPT !.alive = FALSE] ELSE lastUser
           /\ ipc' = IF RetainFirst THEN <<"iwact", ipc[2]>> ELSE <<"iwretain", ipc[2]>>
           /\ UNCHANGED <<mode, ins, status, desc, lastWriter, readers, walk>>
InsRetain == /\ ipc[1] = "iwretain"
             /\ readers' = readers + 1
             /\ ipc' = IF RetainFirst THEN <<"iwsure", ipc[2]>> ELSE <<"iwact", ipc[2]>>
             /\ UNCHANGED <<mode, ins, status, desc, lastUser, lastWriter, walk>>
InsActivate == /\ ipc[1] = "iwact"
               /\ status' = [status EXCEPT ![ipc[2]] = "ready"]
               /\ ins' = ins + 1 /\ ipc' = <<"idle">>
               /\ UNCHANGED <<mode, desc, lastUser, lastWriter, readers, walk>>

\* ---- execution ----------------------------------------------------------------------------------------------------------
\* a task is schedulable once it is ready AND its insertion is over (the +1 on flow_count)
Schedulable(t) == status[t] = "ready" /\ t <= ins
Lookup(t) == /\ Schedulable(t) /\ mode[t] = "W" /\ readers = 0          \* otherwise PARSEC_HOOK_RETURN_AGAIN
             /\ status' = [status EXCEPT ![t] = "running"]
             /\ UNCHANGED <<mode, ins, ipc, desc, lastUser, lastWriter, readers, walk>>
BodyR(t) == /\ Schedulable(t) /\ mode[t] = "R"
            /\ status' = [status EXCEPT ![t] = "running"]
            /\ UNCHANGED <<mode, ins, ipc, desc, lastUser, lastWriter, readers, walk>>
EndR(t) == /\ status[t] = "running" /\ mode[t] = "R"
           /\ status' = [status EXCEPT ![t] = "done"] /\ readers' = readers - 1
           /\ UNCHANGED <<mode, ins, ipc, desc, lastUser, lastWriter, walk>>
Complete(w) == /\ status[w] = "running" /\ mode[w] = "W"
               /\ status' = [status EXCEPT ![w] = "walking"]
               /\ walk' = [walk EXCEPT ![w] = IF desc[w] = 0 THEN [pc |-> "own", cur |-> 0, nxt |-> 0] ELSE [pc |-> "visit", cur |-> desc[w], nxt |-> 0]]
               /\ UNCHANGED <<mode, ins, ipc, desc, lastUser, lastWriter, readers>>
Finish(w) == /\ status' = [status EXCEPT ![w] = "done"] /\ walk' = [walk EXCEPT ![w] = Idle]
\* release_ownership_of_data
Own(w) == /\ walk[w].pc = "own"
          /\ IF lastUser.task = w
             THEN /\ lastUser' = [lastUser EXCEPT !.alive = FALSE] /\ Finish(w)
             ELSE /\ desc[w] # 0                                         \* spin until the descendant is stored
                  /\ walk' = [walk EXCEPT ![w] = [pc |-> "visit", cur |-> desc[w], nxt |-> 0]]
                  /\ UNCHANGED <<lastUser, status>>
          /\ UNCHANGED <<mode, ins, ipc, desc, lastWriter, readers>>
Visit(w) == /\ walk[w].pc = "visit"
            /\ LET c == walk[w].cur IN
                 IF mode[c] = "W"
                 THEN /\ status' = [status EXCEPT ![c] = "ready", ![w] = "done"] /\ walk' = [walk EXCEPT ![w] = Idle]
                 ELSE /\ walk' = [walk EXCEPT ![w].pc = IF RetainFirst THEN "retain" ELSE "next"]
                      /\ UNCHANGED status
            /\ UNCHANGED <<mode, ins, ipc, desc, lastUser, lastWriter, readers>>
\* look_for_next on the reader c
Next(w) == /\ walk[w].pc = "next"
           /\ LET c == walk[w].cur IN
                IF desc[c] # 0
                THEN /\ walk' = [walk EXCEPT ![w] = [pc |-> IF RetainFirst THEN "act" ELSE "retain", cur |-> c, nxt |-> desc[c]]]
                     /\ desc' = [desc EXCEPT ![c] = 0]
                ELSE /\ walk' = [walk EXCEPT ![w].pc = "sure"] /\ UNCHANGED desc
           /\ UNCHANGED <<mode, ins, ipc, status, lastUser, lastWriter, readers>>
MadeSure(w) == /\ walk[w].pc = "sure"
               /\ LET c == walk[w].cur IN
                    IF lastUser.task = c
                    THEN /\ lastUser' = [lastUser EXCEPT !.alive = FALSE]
                         /\ walk' = [walk EXCEPT ![w] = [pc |-> IF RetainFirst THEN "act" ELSE "retain", cur |-> c, nxt |-> 0]]
                    ELSE /\ desc[c] # 0                                  \* spin until desc(c) is stored, then look again
                         /\ walk' = [walk EXCEPT ![w].pc = "next"] /\ UNCHANGED lastUser
               /\ UNCHANGED <<mode, ins, ipc, status, desc, lastWriter, readers>>
Retain(w) == /\ walk[w].pc = "retain"
             /\ readers' = readers + 1
             /\ walk' = [walk EXCEPT ![w].pc = IF RetainFirst THEN "next" ELSE "act"]
             /\ UNCHANGED <<mode, ins, ipc, status, desc, lastUser, lastWriter>>
Activate(w) == /\ walk[w].pc = "act"
               /\ LET c == walk[w].cur
                      n == walk[w].nxt IN
                    IF n = 0
                    THEN /\ status' = [status EXCEPT ![c] = "ready", ![w] = "done"] /\ walk' = [walk EXCEPT ![w] = Idle]
                    ELSE /\ status' = [status EXCEPT ![c] = "ready"] /\ walk' = [walk EXCEPT ![w] = [pc |-> "visit", cur |-> n, nxt |-> 0]]
               /\ UNCHANGED <<mode, ins, ipc, desc, lastUser, lastWriter, readers>>

Next_ == \/ \E m \in {"R", "W"} : InsLock(m)
         \/ InsFirst \/ InsLink \/ InsParent \/ InsSure \/ InsRetain \/ InsActivate
         \/ \E t \in T : Lookup(t) \/ BodyR(t) \/ EndR(t) \/ Complete(t)
         \/ \E w \in T : Own(w) \/ Visit(w) \/ Next(w) \/ MadeSure(w) \/ Retain(w) \/ Activate(w)
Spec == Init /\ [][Next_]_vars

\* ---- C04: the Start guard of Seq.tla on one datum ---------------------------------------------------------------
InBody(t) == status[t] = "running"
Over(t) == status[t] \in {"walking", "done"}
Guard == \A t \in T : InBody(t) =>
            \A u \in 1..(t - 1) : (mode[u] = "W" \/ mode[t] = "W") => Over(u)
ReadersNonNeg == readers >= 0
\* nothing is lost: when all is inserted and nothing can move every task is done
AllDoneAtEnd == (ins = N /\ ~ENABLED Next_) => \A t \in T : status[t] = "done"
======================================================================
