---------------------------- MODULE Seq ----------------------------
(* Insertion-order semantics of the DTD interface (parsec/interfaces/dtd), properties C03, C04, C17.

   A program is the sequence of tasks in the order parsec_dtd_insert_task was called.  A task is
       [accs |-> <<[d |-> datum, m |-> "R"|"W"|"RW"], ...>>, rank |-> affinity rank]
   The same datum may appear in several parameters of one task: this is ONE logical access whose mode is the
   join of the parameter modes (it reads if some parameter reads, it writes if some parameter writes).

   Insert(accs, r)   parsec_dtd_insert_task: appends the task (status pending).  Runs concurrently with execution.
   Start(t)          the body of t is entered.  THE GUARD IS THE PROPERTY (C04): every earlier-inserted writer of
                     each accessed datum is done and, if t writes the datum, every earlier-inserted accessor of it
                     is done.  The values observed are the current ones.
   End(t)            the body returns: every written datum d receives F(t, values read, d).
   Flush(d)          parsec_dtd_data_flush / flush_all requested for d (d may not be used by later insertions)
   FlushRun(d)       the flush of d takes effect once every accessor of d is done: owner copy := current value
   The theorem checked by TLC: with this guard, what every task reads (ReadsSequential), what the data finally
   hold (FinalSequential) and what the owner holds after flush + wait (FlushReturnsLast) are the values of the
   one-task-at-a-time execution in insertion order (C03, C17), and conflicting tasks never run together (C04).

   F (mirrored in harness/dtd/run_prog.c):   h := 17; for d = 1..ND read by t (increasing d): h := (h*31 + v[d]) % P
                                             new[d] := (h*31 + t*131 + d) % P           P = 1000003
   Initial contents: Init0(d) = d * 1009. *)
EXTENDS Naturals, Integers, Sequences, FiniteSets, TLC, Json
CONSTANTS ND,          \* data are 1..ND
          Ranks,       \* set of affinity ranks
          MaxTasks,    \* bound on the number of insertions
          MaxAcc,      \* bound on the number of data parameters of one task
          Modes,       \* subset of {"R", "W", "RW"}
          WithFlush,   \* TRUE: Flush / FlushRun actions enabled (C17)
          DupData      \* TRUE: one datum may be given to several parameters of a task
VARIABLES prog, status, val, reads, fl, own
vars == <<prog, status, val, reads, fl, own>>

Data == 1..ND
P == 1000003
Init0(d) == d * 1009

\* ---- logical accesses -------------------------------------------------------------------------------
Params(task, d) == {i \in 1..Len(task.accs) : task.accs[i].d = d}
Touches(task, d) == Params(task, d) # {}
RdT(task, d) == \E i \in Params(task, d) : task.accs[i].m \in {"R", "RW"}
WrT(task, d) == \E i \in Params(task, d) : task.accs[i].m \in {"W", "RW"}
Conflict(a, b) == \E d \in Data : Touches(a, d) /\ Touches(b, d) /\ (WrT(a, d) \/ WrT(b, d))

\* ---- the body function F ------------------------------------------------------------------------------
RECURSIVE HashIn(_, _, _)
\* hash of the values v[d] of the data read by `task`, d = 1..k in increasing order
HashIn(task, v, k) == IF k = 0 THEN 17
                      ELSE IF RdT(task, k) THEN (HashIn(task, v, k - 1) * 31 + v[k]) % P
                      ELSE HashIn(task, v, k - 1)
NewVal(t, task, v, d) == (HashIn(task, v, ND) * 31 + t * 131 + d) % P
ReadsOf(task, v) == [d \in Data |-> IF RdT(task, d) THEN v[d] ELSE 0]
Apply(t, task, rd, v) == [d \in Data |-> IF WrT(task, d) THEN NewVal(t, task, rd, d) ELSE v[d]]

\* ---- sequential interpretation of a program --------------------------------------------------------------
RECURSIVE SeqVal(_, _)
SeqVal(p, k) == IF k = 0 THEN [d \in Data |-> Init0(d)]
                ELSE LET v == SeqVal(p, k - 1) IN Apply(k, p[k], ReadsOf(p[k], v), v)
SeqReads(p, t) == ReadsOf(p[t], SeqVal(p, t - 1))
SeqWrites(p, t) == LET v == SeqVal(p, t - 1) IN [d \in Data |-> IF WrT(p[t], d) THEN NewVal(t, p[t], ReadsOf(p[t], v), d) ELSE 0]

\* ---- the ordering guard (C04) ---------------------------------------------------------------------------------
\* u (inserted before t) must be done before t may start
MustPrecede(p, u, t) == \E d \in Data : Touches(p[u], d) /\ Touches(p[t], d) /\ (WrT(p[u], d) \/ WrT(p[t], d))
MayStart(p, st, t) == \A u \in 1..(t - 1) : MustPrecede(p, u, t) => st[u] = "done"

AccLists == {a \in UNION {[1..n -> [d : Data, m : Modes]] : n \in 1..MaxAcc} :
                DupData \/ \A i, j \in 1..Len(a) : i # j => a[i].d # a[j].d}

Init == /\ prog = <<>> /\ status = <<>> /\ reads = <<>>
        /\ val = [d \in Data |-> Init0(d)]
        /\ fl = {} /\ own = [d \in Data |-> -1]

Insert(accs, r) == /\ Len(prog) < MaxTasks
                   /\ \A i \in 1..Len(accs) : accs[i].d \notin fl
                   /\ prog' = Append(prog, [accs |-> accs, rank |-> r])
                   /\ status' = Append(status, "pending")
                   /\ reads' = Append(reads, [d \in Data |-> 0])
                   /\ UNCHANGED <<val, fl, own>>

Start(t) == /\ t \in 1..Len(prog) /\ status[t] = "pending"
            /\ MayStart(prog, status, t)
            /\ status' = [status EXCEPT ![t] = "running"]
            /\ reads' = [reads EXCEPT ![t] = ReadsOf(prog[t], val)]
            /\ UNCHANGED <<prog, val, fl, own>>

End(t) == /\ t \in 1..Len(prog) /\ status[t] = "running"
          /\ status' = [status EXCEPT ![t] = "done"]
          /\ val' = Apply(t, prog[t], reads[t], val)
          /\ UNCHANGED <<prog, reads, fl, own>>

Flush(d) == /\ WithFlush /\ d \in Data /\ d \notin fl
            /\ fl' = fl \cup {d}
            /\ UNCHANGED <<prog, status, val, reads, own>>

FlushRun(d) == /\ d \in fl /\ own[d] = -1
               /\ \A t \in 1..Len(prog) : Touches(prog[t], d) => status[t] = "done"
               /\ own' = [own EXCEPT ![d] = val[d]]
               /\ UNCHANGED <<prog, status, val, reads, fl>>

Next == \/ \E a \in AccLists, r \in Ranks : Insert(a, r)
        \/ \E t \in 1..MaxTasks : Start(t)
        \/ \E t \in 1..MaxTasks : End(t)
        \/ \E d \in Data : Flush(d)
        \/ \E d \in Data : FlushRun(d)
Spec == Init /\ [][Next]_vars

\* ---- properties ------------------------------------------------------------------------------------------------
AllDone == \A t \in 1..Len(prog) : status[t] = "done"
Quiet == AllDone /\ \A d \in fl : own[d] # -1
TypeOK == /\ Len(status) = Len(prog) /\ Len(reads) = Len(prog) /\ fl \subseteq Data
\* C03: every task observes the values of the sequential execution in insertion order ...
ReadsSequential == \A t \in 1..Len(prog) : status[t] # "pending" => reads[t] = SeqReads(prog, t)
\* ... and the data finally hold them
FinalSequential == AllDone => val = SeqVal(prog, Len(prog))
\* C04: conflicting tasks never run at the same time; a writer is not running while an earlier reader is pending
NoConflictRunning == \A t, u \in 1..Len(prog) :
                        (t # u /\ status[t] = "running" /\ status[u] = "running") => ~Conflict(prog[t], prog[u])
WriterAfterReaders == \A t, u \in 1..Len(prog) :
                        (u < t /\ status[t] # "pending" /\ MustPrecede(prog, u, t)) => status[u] = "done"
\* C17: after flush + wait the owner holds the value of the last inserted writer
FlushReturnsLast == Quiet => \A d \in fl : own[d] = SeqVal(prog, Len(prog))[d]
\* readers between the same two writers may overlap (vacuity: reachable)
TwoReadersOverlap == \E t, u \in 1..Len(prog) : t # u /\ status[t] = "running" /\ status[u] = "running"

\* hand complete programs to the replay harness (simulation mode)
Emit == (Len(prog) = MaxTasks /\ AllDone) => PrintT(<<"VH", ToJson(prog)>>)
====================================================================
