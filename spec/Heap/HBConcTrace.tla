---------------------------- MODULE HBConcTrace ----------------------------
(* Trace validation for C35 (hbbuffer), concurrent part.  The property promises, under concurrency, that no pushed
   task is lost (or duplicated), and a best-priority answer only when the buffer is quiescent.  Events:
     {"e":"inv","t":T,"op":"push_all"|"push_prio","r":[ring],"d":D,"pp":[tasks this call handed to the parent],"pr":0}
     {"e":"inv","t":T,"op":"pop"|"qpop","r":[],"d":0,"pp":[],"pr":returned task|0}
     {"e":"res","t":T,"op":OP,"ret":task|0,"par":[tasks this call handed to the parent]}
     {"e":"final","slots":[..],"par":[..]}      after all threads finished; followed by quiescent pops ("qpop")
   ("pp"/"pr" are copied from the call's own res event by the checker: prophecy values that keep the search small.)
   A push of several tasks is NOT atomic in hbbuffer.c (one compare-and-swap per task, nothing is promised about the
   group), so between its inv and res a push takes one silent step per task: the task enters the buffer (Enter), a
   task of the buffer is ejected to the parent store (Eject: it must be in the buffer at that moment - it may have
   been popped and pushed again by others meanwhile), or a task of the ring goes straight to the parent (Overflow).
   A concurrent pop takes a task that is in the buffer, or nothing; a quiescent pop takes a task of highest priority
   and returns NULL only from an empty buffer.  The final buffer and parent store must be the abstract ones: every
   pushed task is in exactly one place. *)
EXTENDS HBBuffer, IOUtils
CONSTANTS Thr
VARIABLES l, pend
tvars == <<buf, parent, hist, l, pend>>
TraceLog == ndJsonDeserialize(IOEnv.TRACE)
None == [op |-> "none"]
Ev == TraceLog[l]
IsEv(e) == l <= Len(TraceLog) /\ Ev.e = e /\ l' = l + 1
IsPush(op) == op \in {"push_all", "push_prio"}

TInit == Init /\ l = 1 /\ pend = [t \in Thr |-> None]
TReset == IsEv("Reset") /\ buf' = {} /\ parent' = {} /\ pend' = [t \in Thr |-> None] /\ UNCHANGED hist
TInv == /\ IsEv("inv") /\ Ev.t \in Thr /\ pend[Ev.t] = None
        /\ NoDup(Ev.r) /\ NoDup(Ev.pp) /\ Elems(Ev.r) \subseteq Items
        /\ (IsPush(Ev.op) /\ Ev.d # 0) => Elems(Ev.pp) = Elems(Ev.r)        \* pushed upstream: everything to the parent
        /\ pend' = [pend EXCEPT ![Ev.t] = [op |-> Ev.op, pr |-> Ev.pr, pp |-> Ev.pp,
                                           todo |-> Elems(Ev.r),              \* tasks of the ring not yet placed
                                           ej |-> Elems(Ev.pp),               \* tasks still to be handed to the parent
                                           lin |-> FALSE]]
        /\ UNCHANGED <<buf, parent, hist>>
\* ---- silent steps of a pending push ----
Enter(t, x) == /\ pend[t] # None /\ IsPush(pend[t].op) /\ x \in pend[t].todo /\ x \notin pend[t].ej
               /\ x \notin buf \cup parent
               /\ buf' = buf \cup {x} /\ UNCHANGED parent
               /\ pend' = [pend EXCEPT ![t].todo = @ \ {x}]
Overflow(t, x) == /\ pend[t] # None /\ IsPush(pend[t].op) /\ x \in pend[t].todo \cap pend[t].ej
                  /\ x \notin buf \cup parent
                  /\ parent' = parent \cup {x} /\ UNCHANGED buf
                  /\ pend' = [pend EXCEPT ![t].todo = @ \ {x}, ![t].ej = @ \ {x}]
\* (a task of the ring may also enter the buffer first and be ejected later by the same call)
EnterThenEject(t, x) == /\ pend[t] # None /\ IsPush(pend[t].op) /\ x \in pend[t].todo \cap pend[t].ej
                        /\ x \notin buf \cup parent
                        /\ buf' = buf \cup {x} /\ UNCHANGED parent
                        /\ pend' = [pend EXCEPT ![t].todo = @ \ {x}]
Eject(t, y) == /\ pend[t] # None /\ IsPush(pend[t].op) /\ y \in pend[t].ej /\ y \notin pend[t].todo
               /\ y \in buf
               /\ buf' = buf \ {y} /\ parent' = parent \cup {y}
               /\ pend' = [pend EXCEPT ![t].ej = @ \ {y}]
\* ---- pops ----
LinPop(t) ==
    /\ pend[t] # None /\ ~pend[t].lin
    /\ pend' = [pend EXCEPT ![t].lin = TRUE]
    /\ LET p == pend[t] IN
       CASE p.op = "pop" ->
              /\ IF p.pr = 0 THEN UNCHANGED buf ELSE p.pr \in buf /\ buf' = buf \ {p.pr}
              /\ UNCHANGED parent
         [] p.op = "qpop" ->
              /\ IF buf = {} THEN p.pr = 0 /\ UNCHANGED buf ELSE p.pr \in Best(buf) /\ buf' = buf \ {p.pr}
              /\ UNCHANGED parent
         [] OTHER -> FALSE
Silent(t) == /\ UNCHANGED <<l, hist>>
             /\ \/ LinPop(t)
                \/ \E x \in Items : Enter(t, x) \/ Overflow(t, x) \/ EnterThenEject(t, x) \/ Eject(t, x)
TRes == /\ IsEv("res") /\ Ev.t \in Thr /\ pend[Ev.t] # None
        /\ pend[Ev.t].op = Ev.op /\ pend[Ev.t].pr = Ev.ret /\ pend[Ev.t].pp = Ev.par
        /\ IF IsPush(Ev.op) THEN pend[Ev.t].todo = {} /\ pend[Ev.t].ej = {} ELSE pend[Ev.t].lin
        /\ pend' = [pend EXCEPT ![Ev.t] = None]
        /\ UNCHANGED <<buf, parent, hist>>
TFinal == /\ IsEv("final") /\ \A t \in Thr : pend[t] = None
          /\ Len(Ev.slots) = Size /\ ({Ev.slots[i] : i \in 1..Len(Ev.slots)} \ {0}) = buf
          /\ \A i, j \in 1..Len(Ev.slots) : (i # j /\ Ev.slots[i] # 0) => Ev.slots[i] # Ev.slots[j]
          /\ NoDup(Ev.par) /\ Elems(Ev.par) = parent
          /\ UNCHANGED <<buf, parent, hist, pend>>
TNext == TReset \/ TInv \/ TRes \/ TFinal \/ \E t \in Thr : Silent(t)
TSpec == TInit /\ [][TNext]_tvars
AcceptExit == (l > Len(TraceLog)) => (PrintT("VERIF-ACCEPTED") /\ TLCSet("exit", TRUE))
NothingTwice == buf \cap parent = {}
============================================================================
