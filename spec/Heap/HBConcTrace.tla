---------------------------- MODULE HBConcTrace ----------------------------
(* Trace validation for C35 (hbbuffer), concurrent part.  The property promises, under concurrency, that no pushed
   task is lost (or duplicated), and a best-priority answer only when the buffer is quiescent.  Events:
     {"e":"inv","t":T,"op":"push_all"|"push_prio","r":[ring],"d":D,"pp":[tasks this call handed to the parent],"pr":0}
     {"e":"inv","t":T,"op":"pop"|"qpop","r":[],"d":0,"pp":[],"pr":returned task|0}
     {"e":"res","t":T,"op":OP,"ret":task|0,"par":[tasks this call handed to the parent]}
     {"e":"final","slots":[..],"par":[..]}      after all threads finished; followed by quiescent pops ("qpop")
   ("pp"/"pr" are copied from the call's own res event by the checker: prophecy values that keep Lin deterministic.)
   Lin(t): a push moves its ring into the buffer and the tasks it handed to the parent out of it (they must be there);
   a concurrent pop takes a task that is in the buffer, or nothing; a quiescent pop takes a task of highest priority
   and returns NULL only from an empty buffer.  The final buffer and parent store must be the abstract ones. *)
EXTENDS HBBuffer, IOUtils
CONSTANTS Thr
VARIABLES l, pend
tvars == <<buf, parent, hist, l, pend>>
TraceLog == ndJsonDeserialize(IOEnv.TRACE)
None == [op |-> "none"]
Ev == TraceLog[l]
IsEv(e) == l <= Len(TraceLog) /\ Ev.e = e /\ l' = l + 1

TInit == Init /\ l = 1 /\ pend = [t \in Thr |-> None]
TReset == IsEv("Reset") /\ buf' = {} /\ parent' = {} /\ pend' = [t \in Thr |-> None] /\ UNCHANGED hist
TInv == /\ IsEv("inv") /\ Ev.t \in Thr /\ pend[Ev.t] = None
        /\ pend' = [pend EXCEPT ![Ev.t] = [op |-> Ev.op, r |-> Ev.r, d |-> Ev.d, pp |-> Ev.pp, pr |-> Ev.pr, lin |-> FALSE]]
        /\ UNCHANGED <<buf, parent, hist>>
Lin(t) ==
    /\ pend[t] # None /\ ~pend[t].lin /\ UNCHANGED <<l, hist>>
    /\ pend' = [pend EXCEPT ![t].lin = TRUE]
    /\ LET p == pend[t] IN
       CASE p.op \in {"push_all", "push_prio"} ->
              /\ NoDup(p.r) /\ Elems(p.r) \subseteq Items \ (buf \cup parent)
              /\ NoDup(p.pp) /\ Elems(p.pp) \subseteq buf \cup Elems(p.r)
              /\ (p.d # 0 => Elems(p.pp) = Elems(p.r))
              /\ buf' = (buf \cup Elems(p.r)) \ Elems(p.pp)
              /\ parent' = parent \cup Elems(p.pp)
         [] p.op = "pop" ->
              /\ IF p.pr = 0 THEN UNCHANGED buf ELSE p.pr \in buf /\ buf' = buf \ {p.pr}
              /\ UNCHANGED parent
         [] p.op = "qpop" ->
              /\ IF buf = {} THEN p.pr = 0 /\ UNCHANGED buf ELSE p.pr \in Best(buf) /\ buf' = buf \ {p.pr}
              /\ UNCHANGED parent
TRes == /\ IsEv("res") /\ Ev.t \in Thr /\ pend[Ev.t] # None /\ pend[Ev.t].lin
        /\ pend[Ev.t].op = Ev.op /\ pend[Ev.t].pr = Ev.ret /\ pend[Ev.t].pp = Ev.par
        /\ pend' = [pend EXCEPT ![Ev.t] = None]
        /\ UNCHANGED <<buf, parent, hist>>
TFinal == /\ IsEv("final") /\ \A t \in Thr : pend[t] = None
          /\ Len(Ev.slots) = Size /\ ({Ev.slots[i] : i \in 1..Len(Ev.slots)} \ {0}) = buf
          /\ \A i, j \in 1..Len(Ev.slots) : (i # j /\ Ev.slots[i] # 0) => Ev.slots[i] # Ev.slots[j]
          /\ NoDup(Ev.par) /\ Elems(Ev.par) = parent
          /\ UNCHANGED <<buf, parent, hist, pend>>
TNext == TReset \/ TInv \/ TRes \/ TFinal \/ \E t \in Thr : Lin(t)
TSpec == TInit /\ [][TNext]_tvars
AcceptExit == (l > Len(TraceLog)) => (PrintT("VERIF-ACCEPTED") /\ TLCSet("exit", TRUE))
NothingTwice == buf \cap parent = {}
============================================================================
