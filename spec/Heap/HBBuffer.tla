---------------------------- MODULE HBBuffer ----------------------------
(* Abstract meaning of parsec/hbbuffer.c (property C35, first half): a bounded buffer of Size slots in front of
   a parent store.
     buf     the tasks held by the buffer (at most Size)
     parent  the tasks handed to the parent store (overflow)
   parsec_hbbuffer_push_all / _push_all_by_priority(ring, distance): with distance # 0 everything goes to the
   parent; otherwise every task of the ring ends up in the buffer or (overflow) in the parent store - none is
   lost, none is duplicated - and something overflows only if the buffer is full afterwards.  WHICH tasks stay
   is not part of the property (by_priority keeps higher priorities, depending on the ring order).
   parsec_hbbuffer_pop_best on a quiescent buffer returns a task of highest priority, NULL iff the buffer is empty.
   `hist` = the operations, handed to the replay harness. *)
EXTENDS Naturals, Integers, Sequences, FiniteSets, TLC, Json
CONSTANTS Items, Prio, Size, MaxLen, MaxChain
VARIABLES buf, parent, hist
vars == <<buf, parent, hist>>

Elems(s) == {s[i] : i \in 1..Len(s)}
NoDup(s) == \A i, j \in 1..Len(s) : i # j => s[i] # s[j]
Free == Items \ (buf \cup parent)
Chains(F) == UNION {{r \in [1..n -> F] : NoDup(r)} : n \in 1..MaxChain}
Best(B) == {x \in B : \A y \in B : Prio[x] >= Prio[y]}
\* legal outcomes of a push of the tasks R into buffer content B: <<new buffer content, overflow>>
PushOutcomes(B, R, dist) ==
    IF dist # 0 THEN {<<B, R>>}
    ELSE {<<nb, (B \cup R) \ nb>> : nb \in {s \in SUBSET (B \cup R) :
              /\ Cardinality(s) <= Size
              /\ (s # B \cup R => Cardinality(s) = Size)}}

Init == buf = {} /\ parent = {} /\ hist = <<>>
PushAll(r, dist) ==
    /\ Len(hist) < MaxLen /\ Elems(r) \subseteq Free
    /\ \E o \in PushOutcomes(buf, Elems(r), dist) : buf' = o[1] /\ parent' = parent \cup o[2]
    /\ hist' = Append(hist, [op |-> "push_all", r |-> r, d |-> dist])
PushPrio(r, dist) ==
    /\ Len(hist) < MaxLen /\ Elems(r) \subseteq Free
    /\ \E o \in PushOutcomes(buf, Elems(r), dist) : buf' = o[1] /\ parent' = parent \cup o[2]
    /\ hist' = Append(hist, [op |-> "push_prio", r |-> r, d |-> dist])
PopBest == /\ Len(hist) < MaxLen
           /\ IF buf = {} THEN UNCHANGED buf ELSE \E x \in Best(buf) : buf' = buf \ {x}
           /\ hist' = Append(hist, [op |-> "pop", r |-> <<>>, d |-> 0])
           /\ UNCHANGED parent
\* (constant quantifier domains, so that TLC reports coverage per action)
Next == \/ \E r \in Chains(Items), dist \in {0, 1} : PushAll(r, dist)
        \/ \E r \in Chains(Items), dist \in {0, 1} : PushPrio(r, dist)
        \/ PopBest
Spec == Init /\ [][Next]_vars

TypeOK == buf \subseteq Items /\ parent \subseteq Items /\ buf \cap parent = {} /\ Cardinality(buf) <= Size
Emit == (Len(hist) = MaxLen) => PrintT(<<"VH", ToJson(hist)>>)
=========================================================================
