---------------------------- MODULE HeapTrace ----------------------------
(* Trace validation for C35 (maxheap).  After every operation the harness logs
     {"e":"op","op":"ins"|"rem"|"split","h":H,"x":X,"ret":task|0,"nh":new handle|0,
      "heaps":[{"h":H,"size":S,"prio":P,"top":T,"nodes":[{"k":task,"l":left|0,"r":right|0,"pos":level-order position},..]},..]}
   (every live heap, its tree walked from the top; pos = 1 for the top, 2p / 2p+1 for the children of position p)
   TLC checks: (a) the property - the returned task is one of highest priority of the heap, every task is in exactly
   one heap until it is returned, a split leaves the other tasks in the old and the new heap; the top of every heap
   is a task of highest priority and the heap's priority field is the top's priority; (b) structure - parent >= child
   everywhere, the size field counts the nodes, and the nodes occupy the level-order positions 1..size (complete
   tree: heap_insert finds its place from the size). *)
EXTENDS MaxHeap, IOUtils
VARIABLES l
TraceLog == ndJsonDeserialize(IOEnv.TRACE)
Ev == TraceLog[l]
IsEv(e) == l <= Len(TraceLog) /\ Ev.e = e /\ l' = l + 1

LogHeap(ev, h) == CHOOSE g \in {ev.heaps[i] : i \in 1..Len(ev.heaps)} : g.h = h
LogHandles(ev) == {ev.heaps[i].h : i \in 1..Len(ev.heaps)}
NodeSet(g) == {g.nodes[i] : i \in 1..Len(g.nodes)}
Keys(g) == {n.k : n \in NodeSet(g)}
NodeOf(g, k) == CHOOSE n \in NodeSet(g) : n.k = k
HeapOK(g) ==
    /\ Cardinality(Keys(g)) = Len(g.nodes)                                  \* no task twice in the tree
    /\ g.size = Len(g.nodes) /\ g.size >= 1
    /\ {n.pos : n \in NodeSet(g)} = 1..g.size                               \* complete tree
    /\ g.top \in Keys(g) /\ NodeOf(g, g.top).pos = 1
    /\ g.prio = Prio[g.top]
    /\ \A n \in NodeSet(g) :
          /\ n.l # 0 => n.l \in Keys(g) /\ Prio[n.k] >= Prio[n.l]           \* max-heap order
          /\ n.r # 0 => n.r \in Keys(g) /\ Prio[n.k] >= Prio[n.r]
\* the logged heaps are exactly the abstract ones
StateOK(ev, hp) ==
    /\ LogHandles(ev) = {h \in H : hp[h] # {}}
    /\ Cardinality(LogHandles(ev)) = Len(ev.heaps)
    /\ \A h \in LogHandles(ev) : Keys(LogHeap(ev, h)) = hp[h] /\ HeapOK(LogHeap(ev, h))

TInit == Init /\ l = 1
TReset == IsEv("Reset") /\ heaps' = [h \in H |-> {}] /\ nh' = 1 /\ UNCHANGED hist
TIns == /\ IsEv("op") /\ Ev.op = "ins" /\ Ev.h \in H /\ Ev.x \in Items \ InHeaps
        /\ heaps' = [heaps EXCEPT ![Ev.h] = @ \cup {Ev.x}] /\ UNCHANGED nh
TRem == /\ IsEv("op") /\ Ev.op = "rem" /\ Ev.h \in H /\ heaps[Ev.h] # {}
        /\ Ev.ret \in Best(heaps[Ev.h])
        /\ heaps' = [heaps EXCEPT ![Ev.h] = @ \ {Ev.ret}] /\ UNCHANGED nh
\* the partition of the remaining tasks between the old and the new heap is read from the log
TSplit == /\ IsEv("op") /\ Ev.op = "split" /\ Ev.h \in H /\ heaps[Ev.h] # {}
          /\ Ev.ret \in Best(heaps[Ev.h])
          /\ IF Ev.nh = 0 THEN heaps' = [heaps EXCEPT ![Ev.h] = @ \ {Ev.ret}] /\ UNCHANGED nh
             ELSE /\ Ev.nh \in H /\ heaps[Ev.nh] = {} /\ Ev.nh \in LogHandles(Ev)
                  /\ LET lft == Keys(LogHeap(Ev, Ev.nh)) IN
                       /\ lft \subseteq heaps[Ev.h] \ {Ev.ret}
                       /\ heaps' = [heaps EXCEPT ![Ev.h] = (@ \ {Ev.ret}) \ lft, ![Ev.nh] = lft]
                  /\ nh' = Ev.nh
TOp == (TIns \/ TRem \/ TSplit) /\ StateOK(Ev, heaps') /\ UNCHANGED hist
TNext == TReset \/ TOp
TSpec == TInit /\ [][TNext]_<<vars, l>>
AcceptExit == (l > Len(TraceLog)) => (PrintT("VERIF-ACCEPTED") /\ TLCSet("exit", TRUE))
==========================================================================
