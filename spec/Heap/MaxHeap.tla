---------------------------- MODULE MaxHeap ----------------------------
(* Abstract meaning of parsec/maxheap.c (property C35, second half): a collection of max-heaps of tasks.
     heaps[h]  the set of tasks of heap handle h ({} = no such heap / destroyed)
   heap_insert(h, x) adds x; heap_remove(h) returns a task of highest priority of h; heap_split_and_steal(h)
   returns a task of highest priority and leaves the other tasks in at most two heaps (h and a new one) - the
   left and right subtree of the removed root: the sizes follow from the shape of a complete binary tree, which
   tasks go where does not matter for the property.  Every inserted task is returned exactly once.
   `hist` = the operations, handed to the replay harness (which skips an insert of a task still in a heap). *)
EXTENDS Naturals, Integers, Sequences, FiniteSets, TLC, Json
CONSTANTS Items, Prio, MaxHeaps, MaxLen,
          InsHeaps    \* handles the behaviours insert into (1..MaxHeaps, or {1} to grow one large heap that is then split)
VARIABLES heaps, nh, hist
vars == <<heaps, nh, hist>>

H == 1..MaxHeaps
InHeaps == UNION {heaps[h] : h \in H}
Best(B) == {x \in B : \A y \in B : Prio[x] >= Prio[y]}
RECURSIVE Pow2(_)
Pow2(k) == IF k = 0 THEN 1 ELSE 2 * Pow2(k - 1)
\* number of nodes of the left subtree of a complete binary tree of n >= 2 nodes
Height(n) == CHOOSE k \in 0..12 : Pow2(k) <= n /\ n < Pow2(k + 1)
LeftSize(n) == LET hh == Height(n)
                   last == n - (Pow2(hh) - 1)
                   half == Pow2(hh - 1)
               IN (half - 1) + (IF last < half THEN last ELSE half)
RightSize(n) == n - 1 - LeftSize(n)

Init == heaps = [h \in H |-> {}] /\ nh = 1 /\ hist = <<>>
\* handle 1 exists from the start; heap_create is implicit in the first insert into an empty handle
Insert(h, x) == /\ Len(hist) < MaxLen /\ h \in 1..nh /\ h \in InsHeaps /\ x \in Items \ InHeaps
                /\ heaps' = [heaps EXCEPT ![h] = @ \cup {x}]
                /\ hist' = Append(hist, [op |-> "ins", h |-> h, x |-> x])
                /\ UNCHANGED nh
Remove(h) == /\ Len(hist) < MaxLen /\ h \in 1..nh /\ heaps[h] # {}
             /\ \E x \in Best(heaps[h]) : heaps' = [heaps EXCEPT ![h] = @ \ {x}]
             /\ hist' = Append(hist, [op |-> "rem", h |-> h, x |-> 0])
             /\ UNCHANGED nh
Split(h) == /\ Len(hist) < MaxLen /\ h \in 1..nh /\ heaps[h] # {}
            /\ hist' = Append(hist, [op |-> "split", h |-> h, x |-> 0])
            /\ LET n == Cardinality(heaps[h]) IN
               \E x \in Best(heaps[h]) :
                 IF n <= 2 THEN heaps' = [heaps EXCEPT ![h] = @ \ {x}] /\ UNCHANGED nh
                 ELSE /\ nh < MaxHeaps
                      \* (which tasks form the left subtree is not constrained; the behaviour generator takes the
                      \*  LeftSize(n) smallest ones - the trace specification reads the real partition from the log)
                      /\ LET rest == heaps[h] \ {x}
                             lft == {y \in rest : Cardinality({z \in rest : z < y}) < LeftSize(n)}
                         IN heaps' = [heaps EXCEPT ![h] = rest \ lft, ![nh + 1] = lft]
                      /\ nh' = nh + 1
Next == \/ \E h \in H, x \in Items : Insert(h, x)
        \/ \E h \in H : Remove(h)
        \/ \E h \in H : Split(h)
Spec == Init /\ [][Next]_vars
TypeOK == \A g, h \in H : g # h => heaps[g] \cap heaps[h] = {}
Emit == (Len(hist) = MaxLen) => PrintT(<<"VH", ToJson(hist)>>)
========================================================================
