---------------------------- MODULE HBTrace ----------------------------
(* Trace validation for C35 (hbbuffer), sequential part.  After every operation the harness logs
     {"e":"op","op":"push_all"|"push_prio","r":[ring],"d":distance,"ret":0,
      "slots":[s1..sSize]  (0 = empty slot), "par":[everything the parent store received so far, in order],
      "ringbad":0|1}       (1: a ring handed to the parent was not the same walked forwards and backwards)
     {"e":"op","op":"pop","ret":task|0,...}
   and TLC checks conservation (buffer + parent = what was pushed and not popped, nothing twice), the size bound,
   "overflow only when full", and that pop_best returns a task of highest priority / NULL iff empty. *)
EXTENDS HBBuffer, IOUtils
VARIABLES l
TraceLog == ndJsonDeserialize(IOEnv.TRACE)
Ev == TraceLog[l]
IsEv(e) == l <= Len(TraceLog) /\ Ev.e = e /\ l' = l + 1
SlotSet(ev) == {ev.slots[i] : i \in 1..Len(ev.slots)} \ {0}
SlotsOK(ev) == /\ Len(ev.slots) = Size
               /\ \A i, j \in 1..Size : (i # j /\ ev.slots[i] # 0) => ev.slots[i] # ev.slots[j]
ParOK(ev) == NoDup(ev.par) /\ ev.ringbad = 0

TInit == Init /\ l = 1
TReset == IsEv("Reset") /\ buf' = {} /\ parent' = {} /\ UNCHANGED hist
TPush == /\ IsEv("op") /\ Ev.op \in {"push_all", "push_prio"}
         /\ NoDup(Ev.r) /\ Elems(Ev.r) \subseteq Items \ (buf \cup parent)
         /\ buf' = SlotSet(Ev) /\ parent' = Elems(Ev.par)
         /\ <<buf', parent' \ parent>> \in PushOutcomes(buf, Elems(Ev.r), Ev.d)
         /\ parent \subseteq parent'
TPop == /\ IsEv("op") /\ Ev.op = "pop"
        /\ IF buf = {} THEN Ev.ret = 0 /\ buf' = buf ELSE Ev.ret \in Best(buf) /\ buf' = buf \ {Ev.ret}
        /\ SlotSet(Ev) = buf' /\ parent' = parent /\ Elems(Ev.par) = parent
TOp == (TPush \/ TPop) /\ SlotsOK(Ev) /\ ParOK(Ev) /\ UNCHANGED hist
TNext == TReset \/ TOp
TSpec == TInit /\ [][TNext]_<<vars, l>>
AcceptExit == (l > Len(TraceLog)) => (PrintT("VERIF-ACCEPTED") /\ TLCSet("exit", TRUE))
========================================================================
