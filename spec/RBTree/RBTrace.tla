---------------------------- MODULE RBTrace ----------------------------
(* Trace validation for C36.  After every operation on the real tree the harness logs the whole tree
     {"e":"op","op":"ins"|"rem"|"upd","k":K,"nk":NK,"rc":RC,"root":R,
      "nodes":[{"k":..,"c":0|1,"l":..,"r":..,"p":..},...],        (0 = nil; c: 0 red, 1 black)
      "find":[f(0),f(1),..,f(Q)],  "fol":[g(0),..,g(Q)]}           (exact lookup 0/1, lookup-or-larger key or 0)
   and TLC checks that (a) the operation is the abstract one, (b) the logged tree is a valid red-black
   binary search tree whose key set is the abstract set, (c) every lookup result is the abstract one. *)
EXTENDS RB, IOUtils
VARIABLES l
TraceLog == ndJsonDeserialize(IOEnv.TRACE)
Ev == TraceLog[l]
IsEv(e) == l <= Len(TraceLog) /\ Ev.e = e /\ l' = l + 1

\* ---- structural validity of a logged tree ------------------------------------------------------------
NodeSet(ev) == {ev.nodes[i] : i \in 1..Len(ev.nodes)}
KeySet(ev) == {n.k : n \in NodeSet(ev)}
NodeOf(ev, k) == CHOOSE n \in NodeSet(ev) : n.k = k
RECURSIVE SubKeys(_, _, _), BlackHeight(_, _, _)
\* keys of the subtree rooted at k (fuel-bounded so that a corrupted, cyclic structure is still evaluated)
SubKeys(ev, k, fuel) == IF k = 0 \/ fuel = 0 \/ k \notin KeySet(ev) THEN {}
                        ELSE {k} \cup SubKeys(ev, NodeOf(ev, k).l, fuel - 1) \cup SubKeys(ev, NodeOf(ev, k).r, fuel - 1)
\* black height, -1 when the two sides disagree
BlackHeight(ev, k, fuel) == IF k = 0 \/ fuel = 0 \/ k \notin KeySet(ev) THEN 1
                            ELSE LET n == NodeOf(ev, k)
                                     a == BlackHeight(ev, n.l, fuel - 1)
                                     b == BlackHeight(ev, n.r, fuel - 1)
                                 IN IF a = -1 \/ b = -1 \/ a # b THEN -1 ELSE a + n.c
Fuel(ev) == Len(ev.nodes) + 1
ValidTree(ev) ==
    /\ Cardinality(KeySet(ev)) = Len(ev.nodes)                                     \* distinct keys
    /\ (ev.root = 0) = (ev.nodes = <<>>)
    /\ ev.root # 0 => /\ ev.root \in KeySet(ev)
                      /\ NodeOf(ev, ev.root).c = 1                                 \* root is black
                      /\ NodeOf(ev, ev.root).p = 0
    /\ SubKeys(ev, ev.root, Fuel(ev)) = KeySet(ev)                                 \* everything reachable
    /\ \A n \in NodeSet(ev) :
          /\ n.l # 0 => n.l \in KeySet(ev) /\ NodeOf(ev, n.l).p = n.k              \* parent links
          /\ n.r # 0 => n.r \in KeySet(ev) /\ NodeOf(ev, n.r).p = n.k
          /\ \A j \in SubKeys(ev, n.l, Fuel(ev)) : j < n.k                         \* search-tree order
          /\ \A j \in SubKeys(ev, n.r, Fuel(ev)) : j > n.k
          /\ n.c = 0 => /\ (n.l # 0 => NodeOf(ev, n.l).c = 1)                      \* no red node has a red child
                        /\ (n.r # 0 => NodeOf(ev, n.r).c = 1)
    /\ BlackHeight(ev, ev.root, Fuel(ev)) # -1                                     \* equal black heights

LookupsOK(ev, K) == /\ \A q \in 1..Len(ev.find) : (ev.find[q] = 1) = Find(K, q - 1)
                    /\ \A q \in 1..Len(ev.fol) : ev.fol[q] = FindOrLarger(K, q - 1)

TInit == keys = {} /\ hist = <<>> /\ l = 1
TReset == IsEv("Reset") /\ keys' = {} /\ hist' = <<>>
TOp == /\ IsEv("op")
       /\ CASE Ev.op = "ins" -> Ev.k \notin keys /\ keys' = keys \cup {Ev.k}
            [] Ev.op = "rem" -> Ev.k \in keys /\ keys' = keys \ {Ev.k}
            [] Ev.op = "upd" -> /\ Ev.k \in keys /\ keys' = UpdateKeys(keys, Ev.k, Ev.nk)
                                /\ (Ev.rc # 0) = UpdateRefused(keys, Ev.k, Ev.nk)
       /\ KeySet(Ev) = keys'
       /\ ValidTree(Ev)
       /\ LookupsOK(Ev, keys')
       /\ hist' = <<>>
TNext == TReset \/ TOp
TSpec == TInit /\ [][TNext]_<<keys, hist, l>>
AcceptExit == (l > Len(TraceLog)) => (PrintT("VERIF-ACCEPTED") /\ TLCSet("exit", TRUE))
========================================================================
