---------------------------- MODULE RB ----------------------------
(* Abstract meaning of parsec/class/parsec_rbtree.c (property C36): an ordered set of integer keys.
   `hist` records the operations applied; it is the behaviour handed to the replay harness. *)
EXTENDS Naturals, Integers, Sequences, FiniteSets, TLC, Json
CONSTANTS Keys, MaxLen
VARIABLES keys, hist
vars == <<keys, hist>>

Init == keys = {} /\ hist = <<>>
Insert(k) == /\ Len(hist) < MaxLen /\ k \notin keys
             /\ keys' = keys \cup {k}
             /\ hist' = Append(hist, [op |-> "ins", k |-> k, nk |-> 0])
Remove(k) == /\ Len(hist) < MaxLen /\ k \in keys
             /\ keys' = keys \ {k}
             /\ hist' = Append(hist, [op |-> "rem", k |-> k, nk |-> 0])
\* update_node(k -> nk): refused (tree unchanged) when another node already has key nk
UpdateKeys(K, k, nk) == IF nk \in K \ {k} THEN K ELSE (K \ {k}) \cup {nk}
UpdateRefused(K, k, nk) == nk \in K \ {k}
Update(k, nk) == /\ Len(hist) < MaxLen /\ k \in keys
                 /\ keys' = UpdateKeys(keys, k, nk)
                 /\ hist' = Append(hist, [op |-> "upd", k |-> k, nk |-> nk])
\* (Next is a plain disjunction so that TLC reports coverage per action)
Next == \/ \E k \in Keys : Insert(k) \/ Remove(k)
        \/ \E k, nk \in Keys : Update(k, nk)
Spec == Init /\ [][Next]_vars

\* queries (functions of the abstract state)
Find(K, q) == q \in K
FindOrLarger(K, q) == IF \E k \in K : k >= q THEN CHOOSE k \in K : k >= q /\ \A j \in K : j >= q => k <= j ELSE 0

TypeOK == keys \subseteq Keys
\* hand complete behaviours to the harness
Emit == (Len(hist) = MaxLen) => PrintT(<<"VH", ToJson(hist)>>)
===================================================================
