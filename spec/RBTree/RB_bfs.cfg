SPECIFICATION Spec
CONSTANTS Keys = {1,2,3,4}
 MaxLen = 4
INVARIANTS TypeOK Emit
CHECK_DEADLOCK FALSE
