SPECIFICATION TSpec
CONSTANTS Keys = {1} 
 MaxLen = 0
INVARIANT AcceptExit
CHECK_DEADLOCK FALSE
