---------------------------- MODULE ArenaPlace ----------------------------
(* Implementation-shaped model of where parsec_arena_allocate_device_private puts the data of a block (arena.c):
       size  = PARSEC_ALIGN(elem_size * count + alignment + sizeof(parsec_arena_chunk_t), alignment)   asked from data_malloc
       data  = PARSEC_ALIGN_PTR(chunk + sizeof(parsec_arena_chunk_t), alignment)
   against the placement part of Arena.tla, for every residue r of the address returned by data_malloc modulo the
   alignment that malloc may produce (multiples of 16), every chunk-header size h in a range around the real one,
   element sizes around the multiples of the alignment and counts 1, 2, 3, 7.  Checked by TLC as ASSUMEs (constant
   level: there is no state), in the same run as the abstract arena.
   The last ASSUME is the vacuity guard of this model: the tempting shorter size "elements + header rounded up to the
   alignment" is NOT enough as soon as the backing address is not aligned to the alignment. *)
EXTENDS Arena, Integers

Up(x, a) == ((x + a - 1) \div a) * a
Size(a, h, es, c) == Up(es * c + a + h, a)
DataOff(a, h, r) == Up(r + h, a) - r               \* data - chunk, for a chunk at an address = r modulo a
ShortSize(a, h, es, c) == Up(es * c + Up(h, a), a)
Placed(a, h, es, c, r, size) == LET d == DataOff(a, h, r)
                                IN  Aligned(r + d, a) /\ d >= h /\ Inside(r + d, es * c, r, size)

Hdrs == {48, 64, 72, 80}
Counts == {1, 2, 3, 7}
ElemSizes(a) == {k * a + d : k \in 1..2, d \in {0 - 16, 0 - 8, 0 - 1, 0, 1, 8, 16}} \ {0}
Residues(a) == IF a <= 128 THEN {16 * i : i \in 0..((a \div 16) - 1)}
                           ELSE {0, 16, 32, 48, a \div 2 - 16, a \div 2, a \div 2 + 16, a - 64, a - 32, a - 16}
Aligns == {16, 32, 64, 128, 4096}

ASSUME \A a \in Aligns, h \in Hdrs, c \in Counts : \A es \in ElemSizes(a), r \in Residues(a) :
           Placed(a, h, es, c, r, Size(a, h, es, c))
ASSUME \A a \in {8}, h \in Hdrs, c \in Counts : \A es \in {1, 7, 8, 9, 24, 100} : Placed(a, h, es, c, 0, Size(a, h, es, c)) /\ Placed(a, h, es, c, 8, Size(a, h, es, c))
ASSUME \E a \in Aligns, h \in Hdrs, c \in Counts : \E es \in ElemSizes(a), r \in Residues(a) :
           ~ Placed(a, h, es, c, r, ShortSize(a, h, es, c))
ASSUME \A a \in Aligns, h \in Hdrs, c \in Counts : \A es \in ElemSizes(a) :
           Placed(a, h, es, c, 0, ShortSize(a, h, es, c))     \* ... and is enough when it is (why nothing notices)
===========================================================================
