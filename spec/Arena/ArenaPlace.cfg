SPECIFICATION ASpec
CONSTANTS Inf = 1000000
INVARIANTS OneOwner WithinLimits
CHECK_DEADLOCK FALSE
