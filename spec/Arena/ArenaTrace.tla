---------------------------- MODULE ArenaTrace ----------------------------
(* Trace validation for C27 (arena part): is a recorded history of the real arena a behaviour of Arena.tla ?
   Events (ndjson, in stamp order; numbers < 2^31; Inf = 1000000 stands for "no limit"):
     {"e":"init","mu":MU,"mc":MC,"al":ALIGN,"es":ELEMSIZE,"hd":sizeof(chunk header) (not used here)}
     {"e":"inv","t":T,"op":"alloc","c":C}
     {"e":"malloc","t":T,"b":B,"sz":BYTES,"base":ADDR}     the arena's data_malloc callback, logged inside it (B = new
                                               block id, ADDR = the address it returns, BYTES = the size asked from it)
     {"e":"res","t":T,"op":"alloc","b":B,"data":D,"ext":N,"al":A}     B = 0: refused; D = address of the data handed
                                               out (-1: not even in the harness' memory), N = count * elem_size = what
                                               the caller is entitled to use, A = the alignment of the arena
     {"e":"inv","t":T,"op":"rel","b":B,"tag":1|0}               tag = the owner's mark over its N bytes is intact
     {"e":"free","t":T,"b":B,"can":1|0}        the arena's data_free callback, logged inside it (T = 0: arena destructor);
                                               can = the guard bytes before and after the block are intact
   Addresses are offsets in the harness' backing region (the harness' data_malloc returns every residue modulo the
   alignment that malloc may return).  geo = where the memory of each block obtained from the system lies, ext = the
   extents currently handed out (Arena!Aligned / Inside / Apart: the placement part of the property).
     {"e":"res","t":T,"op":"rel"}
     {"e":"final"}                             arena destroyed
   Silent steps between inv and res: TakeS (a cached block is handed out), RefuseS (the refusal is justified by the
   allocation limit, counting the attempts of the other callers that are in flight), KeepS (the block enters the
   cache: only below the cache limit), DropS (the block is given up: it stops counting, then must be freed). *)
EXTENDS Arena, Sequences, Json, IOUtils, TLC
CONSTANTS Thr
VARIABLES l, pend, align, esize, geo, ext
tvars == <<owner, cached, cnt, dying, maxUsed, maxCached, l, pend, align, esize, geo, ext>>

TraceLog == ndJsonDeserialize(IOEnv.TRACE)
None == [op |-> "none"]
Ev == TraceLog[l]
IsEv(e) == l <= Len(TraceLog) /\ Ev.e = e /\ l' = l + 1
Idle == \A t \in Thr : pend[t] = None

TInit == /\ AInit(Inf, Inf) /\ l = 1 /\ pend = [t \in Thr |-> None] /\ align = 1 /\ esize = 1 /\ geo = <<>> /\ ext = <<>>
TSetInit == /\ IsEv("init") /\ Idle
            /\ owner' = <<>> /\ cached' = {} /\ cnt' = <<>> /\ dying' = {}
            /\ maxUsed' = Ev.mu /\ maxCached' = Ev.mc /\ align' = Ev.al /\ esize' = Ev.es
            /\ geo' = <<>> /\ ext' = <<>>
            /\ UNCHANGED pend
TReset == /\ IsEv("Reset")
          /\ owner' = <<>> /\ cached' = {} /\ cnt' = <<>> /\ dying' = {}
          /\ maxUsed' = Inf /\ maxCached' = Inf /\ align' = 1 /\ esize' = 1
          /\ geo' = <<>> /\ ext' = <<>>
          /\ pend' = [t \in Thr |-> None]

TInv == /\ IsEv("inv") /\ Ev.t \in Thr /\ pend[Ev.t] = None
        /\ IF Ev.op = "alloc"
           THEN pend' = [pend EXCEPT ![Ev.t] = [op |-> "alloc", c |-> Ev.c, b |-> 0, st |-> "wait"]]
           ELSE /\ Ev.op = "rel" /\ Ev.b \in Owned /\ owner[Ev.b] = Ev.t /\ Ev.tag = 1
                /\ pend' = [pend EXCEPT ![Ev.t] = [op |-> "rel", c |-> 0, b |-> Ev.b, st |-> "wait"]]
        /\ ext' = IF Ev.op = "rel" THEN Restrict(ext, DOMAIN ext \ {Ev.b}) ELSE ext     \* the owner gives its extent up
        /\ UNCHANGED <<avars, align, esize, geo>>

\* ---- alloc
\* block b is handed out as the n bytes at address d: aligned as requested, at least as large as asked (all of it inside
\* the memory obtained for b), sharing no byte with the extent of another block that is handed out at this moment
Placement(b, d, n) == /\ d >= 0 /\ Aligned(d, align)
                      /\ b \in DOMAIN geo /\ Inside(d, n, geo[b].base, geo[b].sz)
                      /\ \A o \in DOMAIN ext \ {b} : Apart(d, n, ext[o].d, ext[o].n)
TMalloc == /\ IsEv("malloc") /\ Ev.t \in Thr /\ pend[Ev.t] # None /\ pend[Ev.t].op = "alloc" /\ pend[Ev.t].st = "wait"
           /\ Ev.sz >= pend[Ev.t].c * esize /\ Ev.base >= 0
           /\ Fresh(Ev.t, Ev.b, pend[Ev.t].c)
           /\ pend' = [pend EXCEPT ![Ev.t].st = "got", ![Ev.t].b = Ev.b]
           /\ geo' = Extend(geo, Ev.b, [base |-> Ev.base, sz |-> Ev.sz])
           /\ UNCHANGED <<align, esize, ext>>
TakeS(t) == /\ pend[t] # None /\ pend[t].op = "alloc" /\ pend[t].st = "wait" /\ pend[t].c = 1
            /\ \E b \in cached : Take(t, b) /\ pend' = [pend EXCEPT ![t].st = "got", ![t].b = b]
            /\ UNCHANGED <<l, align, esize, geo, ext>>
InFlight(t) == Sum([u \in Thr |-> IF u # t /\ pend[u] # None /\ pend[u].op = "alloc" /\ pend[u].st \in {"wait", "refused"}
                                  THEN pend[u].c ELSE 0], Thr)
RefuseS(t) == /\ pend[t] # None /\ pend[t].op = "alloc" /\ pend[t].st = "wait"
              /\ maxUsed # Inf /\ Elems + pend[t].c + InFlight(t) > maxUsed
              /\ pend' = [pend EXCEPT ![t].st = "refused"]
              /\ UNCHANGED <<avars, l, align, esize, geo, ext>>
\* ---- release
KeepS(t) == /\ pend[t] # None /\ pend[t].op = "rel" /\ pend[t].st = "wait"
            /\ Keep(t, pend[t].b) /\ pend' = [pend EXCEPT ![t].st = "kept"]
            /\ UNCHANGED <<l, align, esize, geo, ext>>
DropS(t) == /\ pend[t] # None /\ pend[t].op = "rel" /\ pend[t].st = "wait"
            /\ Drop(t, pend[t].b) /\ pend' = [pend EXCEPT ![t].st = "dropped"]
            /\ UNCHANGED <<l, align, esize, geo, ext>>
TFree == /\ IsEv("free") /\ Ev.can = 1                       \* nobody wrote outside the memory of the block
         /\ IF Ev.t = 0
            THEN \* the destructor empties the cache
                 /\ Idle /\ Ev.b \in cached
                 /\ cached' = cached \ {Ev.b} /\ cnt' = Restrict(cnt, DOMAIN cnt \ {Ev.b})
                 /\ UNCHANGED <<owner, dying, maxUsed, maxCached, pend>>
            ELSE /\ Ev.t \in Thr /\ pend[Ev.t] # None /\ pend[Ev.t].op = "rel" /\ pend[Ev.t].st = "dropped"
                 /\ pend[Ev.t].b = Ev.b /\ Freed(Ev.b)
                 /\ pend' = [pend EXCEPT ![Ev.t].st = "freed"]
         /\ geo' = Restrict(geo, DOMAIN geo \ {Ev.b})
         /\ UNCHANGED <<align, esize, ext>>
TRes == /\ IsEv("res") /\ Ev.t \in Thr /\ pend[Ev.t] # None /\ pend[Ev.t].op = Ev.op
        /\ IF Ev.op = "alloc"
           THEN \/ /\ pend[Ev.t].st = "got" /\ Ev.b = pend[Ev.t].b
                   /\ Placement(Ev.b, Ev.data, pend[Ev.t].c * esize)
                   /\ Ev.ext = pend[Ev.t].c * esize /\ Ev.al = align
                   /\ ext' = Extend(ext, Ev.b, [d |-> Ev.data, n |-> pend[Ev.t].c * esize])
                \/ /\ pend[Ev.t].st = "refused" /\ Ev.b = 0 /\ UNCHANGED ext
           ELSE pend[Ev.t].st \in {"kept", "freed"} /\ UNCHANGED ext
        /\ pend' = [pend EXCEPT ![Ev.t] = None]
        /\ UNCHANGED <<avars, align, esize, geo>>
TFinal == /\ IsEv("final") /\ Idle /\ cached = {} /\ dying = {}
          /\ UNCHANGED <<avars, pend, align, esize, geo, ext>>

Waiting == {t \in Thr : pend[t] # None /\ pend[t].st = "wait"}       \* only these can take a silent step
TNext == \/ TSetInit \/ TReset \/ TInv \/ TMalloc \/ TFree \/ TRes \/ TFinal
         \/ \E t \in Waiting : TakeS(t) \/ RefuseS(t) \/ KeepS(t) \/ DropS(t)
TSpec == TInit /\ [][TNext]_tvars
AcceptExit == (l > Len(TraceLog)) => (PrintT("VERIF-ACCEPTED") /\ TLCSet("exit", TRUE))
Limits == OneOwner /\ WithinLimits
===========================================================================
