---------------------------- MODULE ArenaTrace ----------------------------
(* Trace validation for C27 (arena part): is a recorded history of the real arena a behaviour of Arena.tla ?
   Events (ndjson, in stamp order; numbers < 2^31; Inf = 1000000 stands for "no limit"):
     {"e":"init","mu":MU,"mc":MC,"al":ALIGN,"es":ELEMSIZE}
     {"e":"inv","t":T,"op":"alloc","c":C}
     {"e":"malloc","t":T,"b":B,"sz":BYTES}     the arena's data_malloc callback, logged inside it (B = new block id)
     {"e":"res","t":T,"op":"alloc","b":B,"mod":M,"room":R}     B = 0: refused; M = data address mod alignment;
                                                               R = bytes between the data address and the block's end
     {"e":"inv","t":T,"op":"rel","b":B,"tag":1|0}               tag = the owner's mark in the block is intact
     {"e":"free","t":T,"b":B}                  the arena's data_free callback, logged inside it (T = 0: arena destructor)
     {"e":"res","t":T,"op":"rel"}
     {"e":"final"}                             arena destroyed
   Silent steps between inv and res: TakeS (a cached block is handed out), RefuseS (the refusal is justified by the
   allocation limit, counting the attempts of the other callers that are in flight), KeepS (the block enters the
   cache: only below the cache limit), DropS (the block is given up: it stops counting, then must be freed). *)
EXTENDS Arena, Sequences, Json, IOUtils, TLC
CONSTANTS Thr
VARIABLES l, pend, align, esize
tvars == <<owner, cached, cnt, dying, maxUsed, maxCached, l, pend, align, esize>>

TraceLog == ndJsonDeserialize(IOEnv.TRACE)
None == [op |-> "none"]
Ev == TraceLog[l]
IsEv(e) == l <= Len(TraceLog) /\ Ev.e = e /\ l' = l + 1
Idle == \A t \in Thr : pend[t] = None

TInit == /\ AInit(Inf, Inf) /\ l = 1 /\ pend = [t \in Thr |-> None] /\ align = 1 /\ esize = 1
TSetInit == /\ IsEv("init") /\ Idle
            /\ owner' = <<>> /\ cached' = {} /\ cnt' = <<>> /\ dying' = {}
            /\ maxUsed' = Ev.mu /\ maxCached' = Ev.mc /\ align' = Ev.al /\ esize' = Ev.es
            /\ UNCHANGED pend
TReset == /\ IsEv("Reset")
          /\ owner' = <<>> /\ cached' = {} /\ cnt' = <<>> /\ dying' = {}
          /\ maxUsed' = Inf /\ maxCached' = Inf /\ align' = 1 /\ esize' = 1
          /\ pend' = [t \in Thr |-> None]

TInv == /\ IsEv("inv") /\ Ev.t \in Thr /\ pend[Ev.t] = None
        /\ IF Ev.op = "alloc"
           THEN pend' = [pend EXCEPT ![Ev.t] = [op |-> "alloc", c |-> Ev.c, b |-> 0, st |-> "wait"]]
           ELSE /\ Ev.op = "rel" /\ Ev.b \in Owned /\ owner[Ev.b] = Ev.t /\ Ev.tag = 1
                /\ pend' = [pend EXCEPT ![Ev.t] = [op |-> "rel", c |-> 0, b |-> Ev.b, st |-> "wait"]]
        /\ UNCHANGED <<avars, align, esize>>

\* ---- alloc
TMalloc == /\ IsEv("malloc") /\ Ev.t \in Thr /\ pend[Ev.t] # None /\ pend[Ev.t].op = "alloc" /\ pend[Ev.t].st = "wait"
           /\ Ev.sz >= pend[Ev.t].c * esize
           /\ Fresh(Ev.t, Ev.b, pend[Ev.t].c)
           /\ pend' = [pend EXCEPT ![Ev.t].st = "got", ![Ev.t].b = Ev.b]
           /\ UNCHANGED <<align, esize>>
TakeS(t) == /\ pend[t] # None /\ pend[t].op = "alloc" /\ pend[t].st = "wait" /\ pend[t].c = 1
            /\ \E b \in cached : Take(t, b) /\ pend' = [pend EXCEPT ![t].st = "got", ![t].b = b]
            /\ UNCHANGED <<l, align, esize>>
InFlight(t) == Sum([u \in Thr |-> IF u # t /\ pend[u] # None /\ pend[u].op = "alloc" /\ pend[u].st \in {"wait", "refused"}
                                  THEN pend[u].c ELSE 0], Thr)
RefuseS(t) == /\ pend[t] # None /\ pend[t].op = "alloc" /\ pend[t].st = "wait"
              /\ maxUsed # Inf /\ Elems + pend[t].c + InFlight(t) > maxUsed
              /\ pend' = [pend EXCEPT ![t].st = "refused"]
              /\ UNCHANGED <<avars, l, align, esize>>
\* ---- release
KeepS(t) == /\ pend[t] # None /\ pend[t].op = "rel" /\ pend[t].st = "wait"
            /\ Keep(t, pend[t].b) /\ pend' = [pend EXCEPT ![t].st = "kept"]
            /\ UNCHANGED <<l, align, esize>>
DropS(t) == /\ pend[t] # None /\ pend[t].op = "rel" /\ pend[t].st = "wait"
            /\ Drop(t, pend[t].b) /\ pend' = [pend EXCEPT ![t].st = "dropped"]
            /\ UNCHANGED <<l, align, esize>>
TFree == /\ IsEv("free")
         /\ IF Ev.t = 0
            THEN \* the destructor empties the cache
                 /\ Idle /\ Ev.b \in cached
                 /\ cached' = cached \ {Ev.b} /\ cnt' = Restrict(cnt, DOMAIN cnt \ {Ev.b})
                 /\ UNCHANGED <<owner, dying, maxUsed, maxCached, pend>>
            ELSE /\ Ev.t \in Thr /\ pend[Ev.t] # None /\ pend[Ev.t].op = "rel" /\ pend[Ev.t].st = "dropped"
                 /\ pend[Ev.t].b = Ev.b /\ Freed(Ev.b)
                 /\ pend' = [pend EXCEPT ![Ev.t].st = "freed"]
         /\ UNCHANGED <<align, esize>>
TRes == /\ IsEv("res") /\ Ev.t \in Thr /\ pend[Ev.t] # None /\ pend[Ev.t].op = Ev.op
        /\ IF Ev.op = "alloc"
           THEN \/ /\ pend[Ev.t].st = "got" /\ Ev.b = pend[Ev.t].b
                   /\ Ev.mod = 0 /\ Ev.room >= pend[Ev.t].c * esize          \* aligned as requested, large enough
                \/ /\ pend[Ev.t].st = "refused" /\ Ev.b = 0
           ELSE pend[Ev.t].st \in {"kept", "freed"}
        /\ pend' = [pend EXCEPT ![Ev.t] = None]
        /\ UNCHANGED <<avars, align, esize>>
TFinal == /\ IsEv("final") /\ Idle /\ cached = {} /\ dying = {}
          /\ UNCHANGED <<avars, pend, align, esize>>

TNext == \/ TSetInit \/ TReset \/ TInv \/ TMalloc \/ TFree \/ TRes \/ TFinal
         \/ \E t \in Thr : TakeS(t) \/ RefuseS(t) \/ KeepS(t) \/ DropS(t)
TSpec == TInit /\ [][TNext]_tvars
AcceptExit == (l > Len(TraceLog)) => (PrintT("VERIF-ACCEPTED") /\ TLCSet("exit", TRUE))
Limits == OneOwner /\ WithinLimits
===========================================================================
