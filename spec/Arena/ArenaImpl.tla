---------------------------- MODULE ArenaImpl ----------------------------
(* Implementation-shaped model of parsec/arena.c (parsec_arena_allocate_device_private / parsec_arena_get_chunk /
   parsec_arena_release_chunk over the lock-free LIFO of lifo.h), one action per segment of code between two yield
   points of the hooked build (atomic operations, fences, and the marked plain read of `released`).

   alloc, count = 1:  item = lifo_pop(cache)
                        hit  : limited cache => fetch_dec(released)
                        miss : limited use => { cur = fetch_inc(used)+1 ; cur > max_used => fetch_dec(used), refuse } ; data_malloc
   alloc, count > 1:  limited use => { cur = fetch_add(used,count)+count ; cur > max_used => fetch_sub(used,count), refuse } ; data_malloc
   release:           [hook] count = 1 and released < max_released => { limited cache => fetch_inc(released) ; lifo_push }
                      else { limited use (and max_used # 0) => fetch_sub(used,count) ; data_free }
   FixedRelease = TRUE models the repaired release: count = 1 => { limited cache => { fetch_inc(released) >= max_released
                      => fetch_dec(released), give the block back } ; else lifo_push }
   lifo_pop:  ctr = head.counter ; rmb ; item = head.item ; NULL => miss ; nx = item->next ; CAS128 ; wmb ; item->next = NULL
   lifo_push: next = head.item ; item->next = next ; wmb ; CAS(head.item, next, item)

   Refinement of Arena.tla: OneOwner, UseLimit (elements obtained and not given up <= max_used), CacheLimit
   (blocks in the LIFO <= max_released), CountersExact (at quiescence the two counters are exact). *)
EXTENDS Integers, Sequences, FiniteSets, TLC
CONSTANTS Thr, Prog, MaxBlk, MaxUsed, MaxCached, Inf, FixedRelease
(* Prog[t] = sequence of [op |-> "alloc", c |-> n] | [op |-> "rel", j |-> k]   (release the block of own operation k) *)
VARIABLES used, released, headItem, headCtr, nxt,      \* the arena
          holder, cnt, counted, freed, nid,            \* blocks: owner (0 = none), elements, counted in `used`, given back
          pc, opi, loc, ret, bad
vars == <<used, released, headItem, headCtr, nxt, holder, cnt, counted, freed, nid, pc, opi, loc, ret, bad>>
Blk == 1..MaxBlk
UseLimited == MaxUsed # Inf
CacheLimited == MaxCached # Inf
NoLoc == [c |-> 0, b |-> 0, next |-> 0, item |-> 0, ctr |-> 0, nx |-> 0]
Init == /\ used = 0 /\ released = 0 /\ headItem = 0 /\ headCtr = 0 /\ nxt = [b \in Blk |-> 0]
        /\ holder = [b \in Blk |-> 0] /\ cnt = [b \in Blk |-> 0] /\ counted = {} /\ freed = {} /\ nid = 1
        /\ pc = [t \in Thr |-> "idle"] /\ opi = [t \in Thr |-> 1] /\ loc = [t \in Thr |-> NoLoc]
        /\ ret = [t \in Thr |-> <<>>] /\ bad = FALSE
CurOp(t) == Prog[t][opi[t]]
HasOp(t) == opi[t] <= Len(Prog[t])
RelBlk(t) == ret[t][CurOp(t).j]
Done(t, r) == /\ ret' = [ret EXCEPT ![t] = Append(@, r)]
              /\ opi' = [opi EXCEPT ![t] = @ + 1]
              /\ pc' = [pc EXCEPT ![t] = "idle"]
arena == <<used, released, headItem, headCtr, nxt>>
blocks == <<holder, cnt, counted, freed, nid>>

\* data_malloc: the next block id (ids are handed out in the order of the malloc calls)
Fresh(t, c) == /\ nid <= MaxBlk
               /\ holder' = [holder EXCEPT ![nid] = t] /\ cnt' = [cnt EXCEPT ![nid] = c]
               /\ counted' = counted \cup {nid} /\ nid' = nid + 1 /\ UNCHANGED freed
               /\ Done(t, nid)
\* a block popped from the LIFO is handed to t
Take(t, b) == /\ holder' = [holder EXCEPT ![b] = t]
              /\ bad' = (bad \/ holder[b] # 0 \/ b \in freed)
              /\ Done(t, b)

\* ---------------------------------------------------------------- alloc
BeginAlloc1(t) == /\ pc[t] = "idle" /\ HasOp(t) /\ CurOp(t).op = "alloc" /\ CurOp(t).c = 1
                  /\ loc' = [loc EXCEPT ![t] = [NoLoc EXCEPT !.c = 1, !.ctr = headCtr]]
                  /\ pc' = [pc EXCEPT ![t] = "o_rmb"]
                  /\ UNCHANGED <<arena, blocks, opi, ret, bad>>
PopReadItem(t) == /\ pc[t] = "o_rmb"
                  /\ IF headItem = 0
                     THEN IF UseLimited
                          THEN /\ pc' = [pc EXCEPT ![t] = "a_inc"] /\ UNCHANGED <<blocks, opi, ret, loc>>
                          ELSE /\ Fresh(t, 1) /\ UNCHANGED loc
                     ELSE /\ loc' = [loc EXCEPT ![t].item = headItem, ![t].nx = nxt[headItem]]
                          /\ pc' = [pc EXCEPT ![t] = "o_cas"]
                          /\ UNCHANGED <<blocks, opi, ret>>
                  /\ UNCHANGED <<arena, bad>>
PopCas(t) == /\ pc[t] = "o_cas"
             /\ IF headItem = loc[t].item /\ headCtr = loc[t].ctr
                THEN /\ headItem' = loc[t].nx /\ headCtr' = headCtr + 1
                     /\ pc' = [pc EXCEPT ![t] = "o_wmb"] /\ UNCHANGED loc
                ELSE /\ loc' = [loc EXCEPT ![t].ctr = headCtr]
                     /\ pc' = [pc EXCEPT ![t] = "o_rmb"] /\ UNCHANGED <<headItem, headCtr>>
             /\ UNCHANGED <<used, released, nxt, blocks, opi, ret, bad>>
PopWmb(t) == /\ pc[t] = "o_wmb"
             /\ nxt' = [nxt EXCEPT ![loc[t].item] = 0]
             /\ IF CacheLimited
                THEN /\ pc' = [pc EXCEPT ![t] = "a_dec"] /\ UNCHANGED <<blocks, opi, ret, bad>>
                ELSE /\ Take(t, loc[t].item) /\ UNCHANGED <<cnt, counted, freed, nid>>
             /\ UNCHANGED <<used, released, headItem, headCtr, loc>>
ADec(t) == /\ pc[t] = "a_dec"
           /\ released' = released - 1
           /\ Take(t, loc[t].item)
           /\ UNCHANGED <<used, headItem, headCtr, nxt, cnt, counted, freed, nid, loc>>
AInc(t) == /\ pc[t] = "a_inc"
           /\ used' = used + 1
           /\ IF used + 1 > MaxUsed
              THEN /\ pc' = [pc EXCEPT ![t] = "a_undo"] /\ UNCHANGED <<blocks, opi, ret>>
              ELSE Fresh(t, 1)
           /\ UNCHANGED <<released, headItem, headCtr, nxt, freed, loc, bad>>
AUndo(t) == /\ pc[t] = "a_undo"
            /\ used' = used - 1
            /\ Done(t, 0)
            /\ UNCHANGED <<released, headItem, headCtr, nxt, blocks, loc, bad>>
BeginAllocN(t) == /\ pc[t] = "idle" /\ HasOp(t) /\ CurOp(t).op = "alloc" /\ CurOp(t).c > 1
                  /\ IF UseLimited
                     THEN /\ loc' = [loc EXCEPT ![t] = [NoLoc EXCEPT !.c = CurOp(t).c]]
                          /\ pc' = [pc EXCEPT ![t] = "n_add"] /\ UNCHANGED <<blocks, opi, ret>>
                     ELSE /\ Fresh(t, CurOp(t).c) /\ UNCHANGED loc
                  /\ UNCHANGED <<arena, freed, bad>>
NAdd(t) == /\ pc[t] = "n_add"
           /\ used' = used + loc[t].c
           /\ IF used + loc[t].c > MaxUsed
              THEN /\ pc' = [pc EXCEPT ![t] = "n_undo"] /\ UNCHANGED <<blocks, opi, ret>>
              ELSE Fresh(t, loc[t].c)
           /\ UNCHANGED <<released, headItem, headCtr, nxt, freed, loc, bad>>
NUndo(t) == /\ pc[t] = "n_undo"
            /\ used' = used - loc[t].c
            /\ Done(t, 0)
            /\ UNCHANGED <<released, headItem, headCtr, nxt, blocks, loc, bad>>

\* ---------------------------------------------------------------- release
SkipRel(t) == /\ pc[t] = "idle" /\ HasOp(t) /\ CurOp(t).op = "rel" /\ RelBlk(t) = 0
              /\ Done(t, 0)
              /\ UNCHANGED <<arena, blocks, loc, bad>>
BeginRel(t) == /\ pc[t] = "idle" /\ HasOp(t) /\ CurOp(t).op = "rel" /\ RelBlk(t) # 0
               /\ loc' = [loc EXCEPT ![t] = [NoLoc EXCEPT !.b = RelBlk(t), !.c = cnt[RelBlk(t)]]]
               /\ pc' = [pc EXCEPT ![t] = "r_read"]
               /\ UNCHANGED <<arena, blocks, opi, ret, bad>>
\* first part of lifo_push, up to the wmb
PushStart(t) == /\ loc' = [loc EXCEPT ![t].next = headItem]
                /\ nxt' = [nxt EXCEPT ![loc[t].b] = headItem]
                /\ pc' = [pc EXCEPT ![t] = "p_wmb"]
\* the block is given back: uncount (limited use), then data_free
GiveBack(t) == IF UseLimited /\ MaxUsed # 0
               THEN /\ pc' = [pc EXCEPT ![t] = "r_sub"] /\ UNCHANGED <<blocks, opi, ret>>
               ELSE /\ freed' = freed \cup {loc[t].b} /\ counted' = counted \ {loc[t].b}
                    /\ holder' = [holder EXCEPT ![loc[t].b] = 0]
                    /\ Done(t, 0) /\ UNCHANGED <<cnt, nid>>
RRead(t) == /\ pc[t] = "r_read"
            /\ IF FixedRelease
               THEN IF loc[t].c = 1
                    THEN IF CacheLimited
                         THEN /\ pc' = [pc EXCEPT ![t] = "r_inc"] /\ UNCHANGED <<nxt, blocks, opi, ret, loc>>
                         ELSE /\ PushStart(t) /\ UNCHANGED <<blocks, opi, ret>>
                    ELSE /\ GiveBack(t) /\ UNCHANGED <<nxt, loc>>
               ELSE IF loc[t].c = 1 /\ (~CacheLimited \/ released < MaxCached)
                    THEN IF CacheLimited
                         THEN /\ pc' = [pc EXCEPT ![t] = "r_inc"] /\ UNCHANGED <<nxt, blocks, opi, ret, loc>>
                         ELSE /\ PushStart(t) /\ UNCHANGED <<blocks, opi, ret>>
                    ELSE /\ GiveBack(t) /\ UNCHANGED <<nxt, loc>>
            /\ UNCHANGED <<used, released, headItem, headCtr, bad>>
RInc(t) == /\ pc[t] = "r_inc"
           /\ released' = released + 1
           /\ IF FixedRelease /\ released >= MaxCached
              THEN /\ pc' = [pc EXCEPT ![t] = "r_undo"] /\ UNCHANGED <<nxt, loc>>
              ELSE PushStart(t)
           /\ UNCHANGED <<used, headItem, headCtr, blocks, opi, ret, bad>>
RUndo(t) == /\ pc[t] = "r_undo"
            /\ released' = released - 1
            /\ GiveBack(t)
            /\ UNCHANGED <<used, headItem, headCtr, nxt, loc, bad>>
PushWmb(t) == /\ pc[t] = "p_wmb"
              /\ pc' = [pc EXCEPT ![t] = "p_cas"]
              /\ UNCHANGED <<arena, blocks, opi, loc, ret, bad>>
PushCas(t) == /\ pc[t] = "p_cas"
              /\ IF headItem = loc[t].next
                 THEN /\ headItem' = loc[t].b
                      /\ holder' = [holder EXCEPT ![loc[t].b] = 0]
                      /\ Done(t, 0) /\ UNCHANGED <<nxt, loc>>
                 ELSE /\ loc' = [loc EXCEPT ![t].next = headItem]
                      /\ nxt' = [nxt EXCEPT ![loc[t].b] = headItem]
                      /\ pc' = [pc EXCEPT ![t] = "p_wmb"]
                      /\ UNCHANGED <<headItem, holder, opi, ret>>
              /\ UNCHANGED <<used, released, headCtr, cnt, counted, freed, nid, bad>>
RSub(t) == /\ pc[t] = "r_sub"
           /\ used' = used - loc[t].c
           /\ freed' = freed \cup {loc[t].b} /\ counted' = counted \ {loc[t].b}
           /\ holder' = [holder EXCEPT ![loc[t].b] = 0]
           /\ Done(t, 0)
           /\ UNCHANGED <<released, headItem, headCtr, nxt, cnt, nid, loc, bad>>

Step(t) == \/ BeginAlloc1(t) \/ PopReadItem(t) \/ PopCas(t) \/ PopWmb(t) \/ ADec(t) \/ AInc(t) \/ AUndo(t)
           \/ BeginAllocN(t) \/ NAdd(t) \/ NUndo(t)
           \/ SkipRel(t) \/ BeginRel(t) \/ RRead(t) \/ RInc(t) \/ RUndo(t) \/ PushWmb(t) \/ PushCas(t) \/ RSub(t)
Next == \E t \in Thr : Step(t)
Spec == Init /\ [][Next]_vars

\* ---------------------------------------------------------------- refinement of Arena
RECURSIVE Walk(_, _), SumCnt(_)
Walk(h, n) == IF h = 0 \/ n = 0 THEN <<>> ELSE <<h>> \o Walk(nxt[h], n - 1)
Cache == Walk(headItem, MaxBlk + 1)
CacheSet == {Cache[i] : i \in 1..Len(Cache)}
SumCnt(S) == IF S = {} THEN 0 ELSE LET b == CHOOSE x \in S : TRUE IN cnt[b] + SumCnt(S \ {b})
Quiet == \A t \in Thr : pc[t] = "idle"
OneOwner == /\ ~bad
            /\ \A b \in CacheSet : holder[b] = 0 /\ b \notin freed /\ cnt[b] = 1
            /\ Len(Cache) = Cardinality(CacheSet)
            /\ \A b \in Blk : holder[b] # 0 => b \notin freed
UseLimit == UseLimited => SumCnt(counted) <= MaxUsed
CacheLimit == CacheLimited => Len(Cache) <= MaxCached
CountersExact == Quiet => /\ (UseLimited /\ MaxUsed # 0 => used = SumCnt(counted))
                          /\ (CacheLimited => released = Len(Cache))
==========================================================================
