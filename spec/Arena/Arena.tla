---------------------------- MODULE Arena ----------------------------
(* Abstract meaning of parsec/arena.c (property C27): blocks of `count` elements obtained from the system allocator,
   owned by at most one caller at a time, cached on release (single-element blocks only, at most MaxCached of them)
   or given back, never more than MaxUsed elements obtained from the system and not yet given up.
   Inf stands for "no limit" (INT32_MAX in the code).  Blocks are positive naturals. *)
EXTENDS Naturals, FiniteSets
CONSTANTS Inf
VARIABLES owner,      \* block -> owning caller (function over the blocks currently owned)
          cached,     \* blocks kept by the arena for reuse
          cnt,        \* block -> number of elements (function over owned, cached and dying blocks)
          dying,      \* blocks the arena decided to give back to the system, not freed yet
          maxUsed, maxCached
avars == <<owner, cached, cnt, dying, maxUsed, maxCached>>

Owned == DOMAIN owner
RECURSIVE Sum(_, _)
Sum(f, S) == IF S = {} THEN 0 ELSE LET b == CHOOSE x \in S : TRUE IN f[b] + Sum(f, S \ {b})
Elems == Sum(cnt, Owned \cup cached)          \* elements obtained from the system and still in use or cached

AInit(mu, mc) == /\ owner = <<>> /\ cached = {} /\ cnt = <<>> /\ dying = {} /\ maxUsed = mu /\ maxCached = mc
Extend(f, b, v) == [x \in DOMAIN f \cup {b} |-> IF x = b THEN v ELSE f[x]]
Restrict(f, S) == [x \in S |-> f[x]]

\* a new block of c elements is obtained from the system for caller t: refused beyond the allocation limit
Fresh(t, b, c) == /\ b \notin Owned \cup cached \cup dying /\ c >= 1
                  /\ (maxUsed = Inf \/ Elems + c <= maxUsed)
                  /\ owner' = Extend(owner, b, t) /\ cnt' = Extend(cnt, b, c)
                  /\ UNCHANGED <<cached, dying, maxUsed, maxCached>>
\* a cached block is handed out again
Take(t, b) == /\ b \in cached
              /\ cached' = cached \ {b} /\ owner' = Extend(owner, b, t)
              /\ UNCHANGED <<cnt, dying, maxUsed, maxCached>>
\* the owner releases b: kept (one element, room in the cache) ...
Keep(t, b) == /\ b \in Owned /\ owner[b] = t /\ cnt[b] = 1
              /\ (maxCached = Inf \/ Cardinality(cached) < maxCached)
              /\ cached' = cached \cup {b} /\ owner' = Restrict(owner, Owned \ {b})
              /\ UNCHANGED <<cnt, dying, maxUsed, maxCached>>
\* ... or given back to the system
Drop(t, b) == /\ b \in Owned /\ owner[b] = t
              /\ dying' = dying \cup {b} /\ owner' = Restrict(owner, Owned \ {b})
              /\ UNCHANGED <<cached, cnt, maxUsed, maxCached>>
Freed(b) == /\ b \in dying
            /\ dying' = dying \ {b} /\ cnt' = Restrict(cnt, DOMAIN cnt \ {b})
            /\ UNCHANGED <<owner, cached, maxUsed, maxCached>>

\* bounded model of all sequential histories, used to model-check the abstract invariants
ANext == \E t \in 1..2, b \in 1..3 : \/ \E c \in 1..2 : Fresh(t, b, c)
                                     \/ Take(t, b) \/ Keep(t, b) \/ Drop(t, b) \/ Freed(b)
ASpec == AInit(3, 1) /\ [][ANext]_avars
OneOwner == Owned \cap cached = {} /\ Owned \cap dying = {} /\ cached \cap dying = {}

(* Placement: the part of the property about addresses ("aligned as requested, at least as large as asked", and no
   byte belongs to two owners).  A block handed out is the extent [d, d + n) of n = count * elem_size bytes; it must
   be aligned to the arena's alignment, lie inside the memory [base, base + sz) that the arena obtained from the
   system for this block, and be apart from the extent of every other block that is owned at the same time. *)
Aligned(d, a) == d % a = 0
Inside(d, n, base, sz) == base <= d /\ d + n <= base + sz
Apart(d1, n1, d2, n2) == d1 + n1 <= d2 \/ d2 + n2 <= d1
WithinLimits == /\ (maxUsed # Inf => Elems <= maxUsed)
                /\ (maxCached # Inf => Cardinality(cached) <= maxCached)
                /\ \A b \in cached : cnt[b] = 1
======================================================================
