---------------------------- MODULE PoolTrace ----------------------------
(* Abstract thread memory pool (parsec/mempool.c, mempool.h) and trace validation of recorded histories (C27, pool part).
   A mempool has one LIFO of free elements per thread; thread p allocates only from its own pool (fresh element
   when it is empty), anybody may free an element: it goes back to the pool recorded in the element (its owner).
   Events (ndjson, in stamp order):
     {"e":"init","np":P,"es":ELEMSIZE,"al":ALIGN}
     {"e":"inv","t":T,"op":"palloc"}
     {"e":"res","t":T,"op":"palloc","b":B,"fresh":0|1,"own":P,"mod":M,"room":R}   B = element id, own = owner pool written
                                in the element, M = address mod alignment, R = usable bytes of the element
     {"e":"inv","t":T,"op":"pfree","b":B,"tag":1|0}      tag = the holder's mark in the element is intact
     {"e":"res","t":T,"op":"pfree"}
     {"e":"final","n":N}       N = sum of the pools' allocation counters after everything was freed
   Silent steps between inv and res: TakeS (an element leaves the caller's own pool), PutS (the element is back in
   its owner's pool). *)
EXTENDS Naturals, Sequences, FiniteSets, Json, IOUtils, TLC
CONSTANTS Thr
VARIABLES free,       \* pool -> set of elements available in it
          live,       \* elements held by a caller
          poolOf,     \* element -> owner pool (function over all elements ever created)
          l, pend, esize, align
tvars == <<free, live, poolOf, l, pend, esize, align>>

TraceLog == ndJsonDeserialize(IOEnv.TRACE)
None == [op |-> "none"]
Ev == TraceLog[l]
IsEv(e) == l <= Len(TraceLog) /\ Ev.e = e /\ l' = l + 1
Idle == \A t \in Thr : pend[t] = None
Known == DOMAIN poolOf
Extend(f, b, v) == [x \in DOMAIN f \cup {b} |-> IF x = b THEN v ELSE f[x]]

TInit == /\ free = [p \in Thr |-> {}] /\ live = {} /\ poolOf = <<>> /\ l = 1 /\ pend = [t \in Thr |-> None]
         /\ esize = 1 /\ align = 1
Clear == /\ free' = [p \in Thr |-> {}] /\ live' = {} /\ poolOf' = <<>> /\ pend' = [t \in Thr |-> None]
TSetInit == IsEv("init") /\ Clear /\ esize' = Ev.es /\ align' = Ev.al
TReset == IsEv("Reset") /\ Clear /\ esize' = 1 /\ align' = 1

TInv == /\ IsEv("inv") /\ Ev.t \in Thr /\ pend[Ev.t] = None
        /\ IF Ev.op = "palloc"
           THEN /\ pend' = [pend EXCEPT ![Ev.t] = [op |-> "palloc", b |-> 0, st |-> "wait"]]
                /\ UNCHANGED live
           ELSE /\ Ev.op = "pfree" /\ Ev.b \in live /\ Ev.tag = 1        \* held, and nobody else wrote into it
                /\ live' = live \ {Ev.b}
                /\ pend' = [pend EXCEPT ![Ev.t] = [op |-> "pfree", b |-> Ev.b, st |-> "wait"]]
        /\ UNCHANGED <<free, poolOf, esize, align>>
TakeS(t) == /\ pend[t] # None /\ pend[t].op = "palloc" /\ pend[t].st = "wait"
            /\ \E b \in free[t] : /\ free' = [free EXCEPT ![t] = @ \ {b}] /\ live' = live \cup {b}
                                  /\ pend' = [pend EXCEPT ![t].st = "got", ![t].b = b]
            /\ UNCHANGED <<poolOf, l, esize, align>>
PutS(t) == /\ pend[t] # None /\ pend[t].op = "pfree" /\ pend[t].st = "wait"
           /\ free' = [free EXCEPT ![poolOf[pend[t].b]] = @ \cup {pend[t].b}]
           /\ pend' = [pend EXCEPT ![t].st = "put"]
           /\ UNCHANGED <<live, poolOf, l, esize, align>>
TRes == /\ IsEv("res") /\ Ev.t \in Thr /\ pend[Ev.t] # None /\ pend[Ev.t].op = Ev.op
        /\ IF Ev.op = "palloc"
           THEN /\ Ev.mod = 0 /\ Ev.room >= esize /\ Ev.own = Ev.t          \* aligned, large enough, owner recorded
                /\ IF Ev.fresh = 1
                   THEN /\ pend[Ev.t].st = "wait" /\ Ev.b \notin Known         \* a new element: never seen before
                        /\ poolOf' = Extend(poolOf, Ev.b, Ev.t) /\ live' = live \cup {Ev.b}
                   ELSE /\ pend[Ev.t].st = "got" /\ pend[Ev.t].b = Ev.b       \* taken from the caller's own pool
                        /\ UNCHANGED <<poolOf, live>>
           ELSE pend[Ev.t].st = "put" /\ UNCHANGED <<poolOf, live>>
        /\ pend' = [pend EXCEPT ![Ev.t] = None]
        /\ UNCHANGED <<free, esize, align>>
TFinal == /\ IsEv("final") /\ Idle /\ live = {}
          /\ Ev.n = Cardinality(Known)                \* every element was created by exactly one counted allocation
          /\ UNCHANGED <<free, live, poolOf, pend, esize, align>>

TNext == TSetInit \/ TReset \/ TInv \/ TRes \/ TFinal \/ \E t \in Thr : TakeS(t) \/ PutS(t)
TSpec == TInit /\ [][TNext]_tvars
AcceptExit == (l > Len(TraceLog)) => (PrintT("VERIF-ACCEPTED") /\ TLCSet("exit", TRUE))
==========================================================================
