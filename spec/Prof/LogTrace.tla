---------------------------- MODULE LogTrace ----------------------------
(* Trace validation for C42 (see harness/prof/prof_rw.c for the events).  Writes on a stream are appended to
   written[s] (the specification of what must be read); every event the real reader (dbpreader.c) returns for
   stream s must be the next one of written[s] with the same key (number and dictionary name), flags, event id,
   taskpool id, info length and info checksum; at the end every stream must have been read completely and the
   file must contain exactly the streams that were created.                                                 *)
EXTENDS Naturals, Integers, Sequences, FiniteSets, TLC, Json, IOUtils
VARIABLES l, nstreams, infolen, written, rd, dumped
TraceLog == ndJsonDeserialize(IOEnv.TRACE)
Ev == TraceLog[l]
IsEv(e) == l <= Len(TraceLog) /\ Ev.e = e /\ l' = l + 1
MaxS == 48
Rec(ev) == [key |-> ev.key, kn |-> ev.kn, flags |-> ev.flags, id |-> ev.id, tp |-> ev.tp, len |-> ev.len, h |-> ev.h]

TInit == /\ l = 1 /\ nstreams = 0 /\ infolen = <<>> /\ dumped = FALSE
         /\ written = [s \in 1..MaxS |-> <<>>] /\ rd = [s \in 1..MaxS |-> 0]
TReset == /\ IsEv("Reset") /\ nstreams' = 0 /\ infolen' = <<>> /\ dumped' = FALSE
          /\ written' = [s \in 1..MaxS |-> <<>>] /\ rd' = [s \in 1..MaxS |-> 0]
\* parsec_profiling_init + dbp_start + add_dictionary_keyword + stream_init
TOpen == /\ IsEv("open") /\ nstreams = 0
         /\ Ev.streams \in 1..MaxS
         /\ nstreams' = Ev.streams /\ infolen' = Ev.infolen
         /\ UNCHANGED <<written, rd, dumped>>
\* parsec_profiling_trace_flags(stream s, key, id, tp, info, flags)
TWrite == /\ IsEv("w") /\ nstreams > 0 /\ ~dumped
          /\ Ev.s \in 1..nstreams /\ Ev.rc = 0
          /\ Ev.key >= 2 /\ (Ev.key \div 2) <= Len(infolen)
          /\ Ev.len = (IF Ev.flags % 2 = 1 THEN infolen[Ev.key \div 2] ELSE 0)    \* HAS_INFO <=> the key's info length
          /\ written' = [written EXCEPT ![Ev.s] = Append(@, Rec(Ev))]
          /\ UNCHANGED <<nstreams, infolen, rd, dumped>>
\* parsec_profiling_dbp_dump
TDump == /\ IsEv("dump") /\ nstreams > 0 /\ ~dumped /\ Ev.rc = 0
         /\ dumped' = TRUE /\ UNCHANGED <<nstreams, infolen, written, rd>>
\* dbp_iterator_current / dbp_iterator_next on the thread whose id is S<s>
TRead == /\ IsEv("r") /\ dumped
         /\ Ev.s \in 1..nstreams
         /\ rd[Ev.s] < Len(written[Ev.s])
         /\ Rec(Ev) = written[Ev.s][rd[Ev.s] + 1]                 \* same event, in the same per-stream order
         /\ rd' = [rd EXCEPT ![Ev.s] = @ + 1]
         /\ UNCHANGED <<nstreams, infolen, written, dumped>>
\* the reader reached the end of every thread of the file
TEnd == /\ IsEv("end") /\ dumped
        /\ Ev.threads = nstreams
        /\ \A s \in 1..nstreams : rd[s] = Len(written[s])        \* nothing lost
        /\ nstreams' = 0 /\ dumped' = FALSE /\ infolen' = <<>>
        /\ written' = [s \in 1..MaxS |-> <<>>] /\ rd' = [s \in 1..MaxS |-> 0]
TNext == TReset \/ TOpen \/ TWrite \/ TDump \/ TRead \/ TEnd
TSpec == TInit /\ [][TNext]_<<l, nstreams, infolen, written, rd, dumped>>
AcceptExit == (l > Len(TraceLog)) => (PrintT("VERIF-ACCEPTED") /\ TLCSet("exit", TRUE))
=========================================================================
