---------------------------- MODULE Log ----------------------------
(* Property C42: the binary profiling trace written through parsec/profiling.c is read back by
   tools/profiling/dbpreader.c with the same events, per-stream order and payloads.

   Model of the writer: every stream (one per thread) owns a current events buffer of Avail bytes;
   parsec_profiling_trace_flags_info_fn appends an event of EventLen(key, info) bytes, after
   switch_event_buffer when it does not fit; parsec_profiling_dbp_dump flushes the current buffers; the reader
   (dbp_iterator_first / dbp_iterator_next) walks the chain of buffers of a stream.
     written[s]  what the application traced on stream s, in order              (the specification of Read)
     file[s]     the closed buffers of stream s, each a sequence of events
     cur[s]      the events in the current buffer, pos[s] the bytes used in it
   Invariant: reading the chain (Flatten(file[s]) \o cur[s]) yields exactly written[s] and no buffer overflows.
   `hist` is the behaviour handed to the harness (TLC -simulate): the sequence of Trace steps.               *)
EXTENDS Naturals, Integers, Sequences, FiniteSets, TLC, Json
CONSTANTS Streams,      \* set of stream ids 1..N
          InfoLen,      \* sequence: InfoLen[k] = info bytes of dictionary entry k (keys 2k, 2k+1)
          Avail,        \* event_avail_space: payload bytes of one events buffer
          MaxLen,       \* number of Trace steps of a behaviour
          FlagSet       \* user flags passed to trace_flags (RESCHEDULED = 2, COUNTER = 4)
VARIABLES written, file, cur, pos, dumped, hist
vars == <<written, file, cur, pos, dumped, hist>>

BaseLen == 24                                   \* sizeof(parsec_profiling_output_base_event_t)
Keys == 1..Len(InfoLen)                         \* dictionary entries (0 is reserved by the profiling system)
EventLen(k, info) == BaseLen + (IF info = 1 THEN InfoLen[k] ELSE 0)       \* EVENT_LENGTH(key, has_info)
RECURSIVE Flatten(_)
Flatten(ss) == IF ss = <<>> THEN <<>> ELSE Head(ss) \o Flatten(Tail(ss))

Init == /\ written = [s \in Streams |-> <<>>] /\ file = [s \in Streams |-> <<>>]
        /\ cur = [s \in Streams |-> <<>>] /\ pos = [s \in Streams |-> Avail]    \* stream_init: no buffer yet
        /\ dumped = FALSE /\ hist = <<>>
Event(s, k, endk, info, flags) ==
    [s |-> s, key |-> 2 * k + endk, info |-> info, flags |-> flags, id |-> Len(written[s]) + 1, tp |-> s * 7 + k]
\* parsec_profiling_trace_flags: the event fits in the current buffer
TraceFits(s, k, endk, info, flags) ==
    /\ ~dumped /\ Len(hist) < MaxLen
    /\ pos[s] + EventLen(k, info) <= Avail
    /\ LET e == Event(s, k, endk, info, flags) IN
         /\ cur' = [cur EXCEPT ![s] = Append(@, e)]
         /\ pos' = [pos EXCEPT ![s] = @ + EventLen(k, info)]
         /\ written' = [written EXCEPT ![s] = Append(@, e)]
         /\ hist' = Append(hist, e)
    /\ UNCHANGED <<file, dumped>>
\* parsec_profiling_trace_flags -> switch_event_buffer: the current buffer is closed (written down), a new one starts
TraceSwitch(s, k, endk, info, flags) ==
    /\ ~dumped /\ Len(hist) < MaxLen
    /\ pos[s] + EventLen(k, info) > Avail
    /\ LET e == Event(s, k, endk, info, flags) IN
         /\ file' = [file EXCEPT ![s] = IF cur[s] = <<>> THEN @ ELSE Append(@, cur[s])]
         /\ cur' = [cur EXCEPT ![s] = <<e>>]
         /\ pos' = [pos EXCEPT ![s] = EventLen(k, info)]
         /\ written' = [written EXCEPT ![s] = Append(@, e)]
         /\ hist' = Append(hist, e)
    /\ UNCHANGED dumped
\* parsec_profiling_dbp_dump: every stream's current buffer is written down
Dump == /\ ~dumped /\ Len(hist) = MaxLen
        /\ file' = [s \in Streams |-> IF cur[s] = <<>> THEN file[s] ELSE Append(file[s], cur[s])]
        /\ cur' = [s \in Streams |-> <<>>]
        /\ dumped' = TRUE /\ UNCHANGED <<written, pos, hist>>
Next == \/ \E s \in Streams, k \in Keys, endk \in {0, 1}, info \in {0, 1}, flags \in FlagSet : TraceFits(s, k, endk, info, flags)
        \/ \E s \in Streams, k \in Keys, endk \in {0, 1}, info \in {0, 1}, flags \in FlagSet : TraceSwitch(s, k, endk, info, flags)
        \/ Dump
Spec == Init /\ [][Next]_vars

\* what the reader sees on stream s
Read(s) == Flatten(file[s]) \o cur[s]
ReadIsWritten == \A s \in Streams : Read(s) = written[s]
NoOverflow == \A s \in Streams : cur[s] # <<>> => pos[s] <= Avail
TypeOK == \A s \in Streams : \A i \in 1..Len(written[s]) : written[s][i].id = i
Emit == dumped => PrintT(<<"VH", ToJson(hist)>>)
====================================================================
