SPECIFICATION TSpec
CONSTANTS Thr = {0,1,2,3,4,5,6,7,8}
 Objs = {1,2,3,4,5,6,7,8}
INVARIANTS AcceptExit DtorsOnlyWhenDead
CHECK_DEADLOCK FALSE
