---------------------------- MODULE RefCount ----------------------------
(* Abstract meaning of PaRSEC's reference-counted objects (property C34).
   An object of a class hierarchy has a destructor chain Chain[o] (levels of the classes that have a destructor,
   most derived first, base last).  It starts with one reference (its creator's).  Retain adds a reference (only a
   holder of a reference may do that), Release drops one; the Release that drops the last one runs the whole
   destructor chain, in that order, exactly once.  dlog[o] = levels whose destructor ran, in order. *)
EXTENDS Naturals, Integers, Sequences
CONSTANTS Objs, Chain
VARIABLES refs, dlog
ovars == <<refs, dlog>>

\* refs[o] = -1: not created yet
OInit == refs = [o \in Objs |-> -1] /\ dlog = [o \in Objs |-> <<>>]
New(o) == /\ refs[o] = -1
          /\ refs' = [refs EXCEPT ![o] = 1] /\ UNCHANGED dlog
Retain(o) == /\ refs[o] >= 1
             /\ refs' = [refs EXCEPT ![o] = @ + 1] /\ UNCHANGED dlog
Release(o) == /\ refs[o] >= 1
              /\ refs' = [refs EXCEPT ![o] = @ - 1]
              /\ dlog' = IF refs[o] = 1 THEN [dlog EXCEPT ![o] = Chain[o]] ELSE dlog
RetainB(o) == refs[o] < 3 /\ Retain(o)          \* bounded, for model checking the abstract object alone
ONext == \E o \in Objs : New(o) \/ RetainB(o) \/ Release(o)
OSpec == OInit /\ [][ONext]_ovars

\* the same without the bounds, for refinement checking (objects may exist initially)
OInit2 == dlog = [o \in Objs |-> <<>>] /\ \A o \in Objs : refs[o] = -1 \/ refs[o] >= 1
ONext2 == \E o \in Objs : New(o) \/ Retain(o) \/ Release(o)

Dead(o) == refs[o] = 0
DtorsExactlyOnce == \A o \in Objs : dlog[o] = IF Dead(o) THEN Chain[o] ELSE <<>>
======================================================================
