---------------------------- MODULE RefTrace ----------------------------
(* Trace validation for C34: is a recorded history of PARSEC_OBJ_NEW/CONSTRUCT, PARSEC_OBJ_RETAIN and
   PARSEC_OBJ_RELEASE calls on real objects, with the destructor invocations logged by the (test-owned) class
   destructors, a behaviour of RefCount.tla ?   Events (ndjson, in stamp order):
     {"e":"new","t":T,"o":O,"chain":[l1,l2,..]}   object O exists (reference count 1); its class hierarchy has
                                                  destructors at levels l1 > l2 > .. (most derived first)
     {"e":"inv","t":T,"op":"retain"|"release","o":O}     {"e":"res","t":T,"op":..,"o":O}
     {"e":"dtor","t":T,"o":O,"lvl":L}             the destructor of level L runs on O, called by thread T
     {"e":"end"}      {"e":"Reset"}
   Between inv and res the silent action Lin(t) applies the call to the abstract reference count.  The release
   that takes the count to zero must run the whole destructor chain, in order, before it returns; no destructor
   runs otherwise (so: exactly once, most derived to base, only when the count dropped to zero). *)
EXTENDS Naturals, Integers, Sequences, Json, IOUtils, TLC
CONSTANTS Thr, Objs
VARIABLES l, refs, chain, pend, killer, nextd
tvars == <<l, refs, chain, pend, killer, nextd>>

TraceLog == ndJsonDeserialize(IOEnv.TRACE)
Ev == TraceLog[l]
IsEv(e) == l <= Len(TraceLog) /\ Ev.e = e /\ l' = l + 1
None == [op |-> "none", o |-> 0, lin |-> FALSE]

Fresh == /\ refs = [o \in Objs |-> -1] /\ chain = [o \in Objs |-> <<>>] /\ pend = [t \in Thr |-> None]
         /\ killer = [o \in Objs |-> -1] /\ nextd = [o \in Objs |-> 1]
TInit == l = 1 /\ Fresh
TReset == /\ IsEv("Reset")
          /\ refs' = [o \in Objs |-> -1] /\ chain' = [o \in Objs |-> <<>>] /\ pend' = [t \in Thr |-> None]
          /\ killer' = [o \in Objs |-> -1] /\ nextd' = [o \in Objs |-> 1]

TNew == /\ IsEv("new") /\ Ev.o \in Objs /\ refs[Ev.o] = -1
        /\ refs' = [refs EXCEPT ![Ev.o] = 1]
        /\ chain' = [chain EXCEPT ![Ev.o] = Ev.chain]
        /\ UNCHANGED <<pend, killer, nextd>>
TInv == /\ IsEv("inv") /\ Ev.t \in Thr /\ pend[Ev.t] = None /\ Ev.o \in Objs /\ Ev.op \in {"retain", "release"}
        /\ pend' = [pend EXCEPT ![Ev.t] = [op |-> Ev.op, o |-> Ev.o, lin |-> FALSE]]
        /\ UNCHANGED <<refs, chain, killer, nextd>>
Lin(t) == /\ pend[t] # None /\ ~pend[t].lin /\ UNCHANGED <<l, chain, nextd>>
          /\ pend' = [pend EXCEPT ![t].lin = TRUE]
          /\ LET o == pend[t].o IN
               /\ refs[o] >= 1                                  \* only a live object can be retained / released
               /\ IF pend[t].op = "retain"
                  THEN /\ refs' = [refs EXCEPT ![o] = @ + 1] /\ UNCHANGED killer
                  ELSE /\ refs' = [refs EXCEPT ![o] = @ - 1]
                       /\ killer' = IF refs[o] = 1 THEN [killer EXCEPT ![o] = t] ELSE killer
TDtor == /\ IsEv("dtor") /\ Ev.t \in Thr /\ Ev.o \in Objs
         /\ killer[Ev.o] = Ev.t /\ pend[Ev.t] # None /\ pend[Ev.t].lin /\ pend[Ev.t].op = "release" /\ pend[Ev.t].o = Ev.o
         /\ nextd[Ev.o] <= Len(chain[Ev.o]) /\ chain[Ev.o][nextd[Ev.o]] = Ev.lvl
         /\ nextd' = [nextd EXCEPT ![Ev.o] = @ + 1]
         /\ UNCHANGED <<refs, chain, pend, killer>>
TRes == /\ IsEv("res") /\ Ev.t \in Thr /\ pend[Ev.t] # None /\ pend[Ev.t].lin /\ pend[Ev.t].op = Ev.op /\ pend[Ev.t].o = Ev.o
        /\ (killer[Ev.o] = Ev.t /\ Ev.op = "release") => nextd[Ev.o] = Len(chain[Ev.o]) + 1
        /\ pend' = [pend EXCEPT ![Ev.t] = None]
        /\ UNCHANGED <<refs, chain, killer, nextd>>
TEnd == /\ IsEv("end") /\ \A t \in Thr : pend[t] = None
        /\ \A o \in Objs : killer[o] # -1 => nextd[o] = Len(chain[o]) + 1
        /\ UNCHANGED <<refs, chain, pend, killer, nextd>>

TNext == TReset \/ TNew \/ TInv \/ TDtor \/ TRes \/ TEnd \/ \E t \in Thr : Lin(t)
TSpec == TInit /\ [][TNext]_tvars

AcceptExit == (l > Len(TraceLog)) => (PrintT("VERIF-ACCEPTED") /\ TLCSet("exit", TRUE))
\* RefCount.tla's invariant, on the part of the chain already run
DtorsOnlyWhenDead == \A o \in Objs : nextd[o] > 1 => refs[o] = 0
===========================================================================
