---------------------------- MODULE RefImpl ----------------------------
(* Implementation-shaped model of parsec/class/parsec_object.h (property C34), one action per segment of code
   between two yield points of the hooked build:
     PARSEC_OBJ_RETAIN(o):   parsec_obj_update(o, +1) = fetch_add(&o->obj_reference_count, 1)            RetainRmw
     PARSEC_OBJ_RELEASE(o):  if( 0 == parsec_obj_update(o, -1) ) o->obj_release(o)                       ReleaseRmw
                             obj_release = parsec_obj_destruct[_and_free]: parsec_obj_run_destructors walks
                             cls_destruct_array (most derived class first) [and frees the storage]
     PARSEC_OBJ_NEW / PARSEC_OBJ_CONSTRUCT: reference count 1, constructors run; no yield point once the class
                             descriptor is initialized (the race on the lazy parsec_class_initialize is explored
                             on the real code only)                                                       New
   Environment = fixed thread programs over reference tokens (a thread retains / releases an object only through a
   reference it holds):
     [op |-> "new", obj |-> o, tok |-> r]       create object o, the creator holds reference r
     [op |-> "retain", tok |-> r, ntok |-> r2]  retain through held reference r: new reference r2, held by the caller
     [op |-> "release", tok |-> r]              give reference r back
     [op |-> "pass", tok |-> r] / [op |-> "take", tok |-> r]   hand a reference to another thread (harness only)
   TokObj[r] = the object reference r points to; PreRefs[o] = references created before the threads start (those
   tokens are initially available). *)
EXTENDS Naturals, Integers, Sequences, FiniteSets, TLC
CONSTANTS Thr, Prog, Objs, Chain, TokObj, PreTok, Mut
VARIABLES ref, dlog, pc, opi, avail, live
vars == <<ref, dlog, pc, opi, avail, live>>

CurOp(t) == Prog[t][opi[t]]
HasOp(t) == opi[t] <= Len(Prog[t])
IsOp(t, k) == pc[t] = "idle" /\ HasOp(t) /\ CurOp(t).op = k
PreRefs(o) == Cardinality({r \in PreTok : TokObj[r] = o})

Init == /\ ref = [o \in Objs |-> IF PreRefs(o) > 0 THEN PreRefs(o) ELSE -1]
        /\ dlog = [o \in Objs |-> <<>>]
        /\ pc = [t \in Thr |-> "idle"] /\ opi = [t \in Thr |-> 1]
        /\ avail = PreTok /\ live = PreTok

Next1(t) == opi' = [opi EXCEPT ![t] = @ + 1]
Take(t) == /\ IsOp(t, "take") /\ CurOp(t).tok \in avail
           /\ avail' = avail \ {CurOp(t).tok} /\ Next1(t) /\ UNCHANGED <<ref, dlog, pc, live>>
Pass(t) == /\ IsOp(t, "pass")
           /\ avail' = avail \cup {CurOp(t).tok} /\ Next1(t) /\ UNCHANGED <<ref, dlog, pc, live>>
New(t) == /\ IsOp(t, "new")
          /\ ref' = [ref EXCEPT ![CurOp(t).obj] = 1]
          /\ live' = live \cup {CurOp(t).tok}
          /\ Next1(t) /\ UNCHANGED <<dlog, pc, avail>>
\* from the operation boundary to the fetch_add
Begin(t) == /\ (IsOp(t, "retain") \/ IsOp(t, "release"))
            /\ pc' = [pc EXCEPT ![t] = "rmw"]
            /\ UNCHANGED <<ref, dlog, opi, avail, live>>
RetainRmw(t) == /\ pc[t] = "rmw" /\ CurOp(t).op = "retain"
                /\ ref' = [ref EXCEPT ![TokObj[CurOp(t).tok]] = @ + 1]
                /\ live' = live \cup {CurOp(t).ntok}
                /\ pc' = [pc EXCEPT ![t] = "idle"] /\ Next1(t) /\ UNCHANGED <<dlog, avail>>
IsLast(n) == IF Mut = "le1" THEN n <= 1 ELSE n = 0
ReleaseRmw(t) == /\ pc[t] = "rmw" /\ CurOp(t).op = "release"
                 /\ LET o == TokObj[CurOp(t).tok] IN
                      /\ ref' = [ref EXCEPT ![o] = @ - 1]
                      /\ dlog' = IF IsLast(ref[o] - 1) THEN [dlog EXCEPT ![o] = @ \o Chain[o]] ELSE dlog
                 /\ live' = live \ {CurOp(t).tok}
                 /\ pc' = [pc EXCEPT ![t] = "idle"] /\ Next1(t) /\ UNCHANGED avail

Step(t) == Take(t) \/ Pass(t) \/ New(t) \/ Begin(t) \/ RetainRmw(t) \/ ReleaseRmw(t)
Next == \E t \in Thr : Step(t)
Spec == Init /\ [][Next]_vars

AllDone == \A t \in Thr : ~HasOp(t)
NoStuck == AllDone \/ ENABLED Next
\* the reference count is the number of references in existence
RefMatches == \A o \in Objs : ref[o] >= 0 => ref[o] = Cardinality({r \in live : TokObj[r] = o})
Abs == INSTANCE RefCount WITH refs <- ref
DtorsExactlyOnce == Abs!DtorsExactlyOnce
Refines == Abs!OInit2 /\ [][Abs!ONext2]_(Abs!ovars)
=========================================================================
