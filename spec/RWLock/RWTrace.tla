---------------------------- MODULE RWTrace ----------------------------
(* Trace validation for C33: does a recorded history of critical sections protected by the real
   parsec_atomic_rwlock_* functions satisfy RW.tla ?   Events (ndjson, in stamp order):
     {"e":"req","t":T,"m":"r"|"w"}    thread T is about to call rdlock / wrlock
     {"e":"acq","t":T,"m":M}          stamped by T inside its critical section, right after the lock function returned
     {"e":"rel","t":T,"m":M}          stamped by T inside its critical section, right before it calls the unlock function
     {"e":"end"}                      every thread has finished all its lock cycles
     {"e":"Reset"}
   Because acq / rel are stamped inside the critical sections, a correct lock orders them: a writer's acq can only
   appear when nobody holds the lock, a reader's when no writer does.  "Timeout" (deadlock or step budget exhausted under
   the cooperative scheduler, watchdog in free-running mode) is never enabled: it rejects, as does an `end` with a
   request still waiting (the liveness half, for bounded lock cycles). *)
EXTENDS RW, Sequences, Json, IOUtils, TLC
VARIABLES l
tvars == <<readers, writers, waiting, l>>

TraceLog == ndJsonDeserialize(IOEnv.TRACE)
Ev == TraceLog[l]
IsEv(e) == l <= Len(TraceLog) /\ Ev.e = e /\ l' = l + 1

TInit == WInit /\ l = 1
TReset == IsEv("Reset") /\ readers' = {} /\ writers' = {} /\ waiting' = {}
TReq == IsEv("req") /\ Ev.t \in Thr /\ Ev.m \in {"r", "w"} /\ Request(Ev.t, Ev.m)
TAcq == /\ IsEv("acq") /\ Ev.t \in Thr
        /\ IF Ev.m = "r" THEN RdAcquire(Ev.t) ELSE Ev.m = "w" /\ WrAcquire(Ev.t)
TRel == /\ IsEv("rel") /\ Ev.t \in Thr
        /\ IF Ev.m = "r" THEN RdRelease(Ev.t) ELSE Ev.m = "w" /\ WrRelease(Ev.t)
TEnd == IsEv("end") /\ waiting = {} /\ readers = {} /\ writers = {} /\ UNCHANGED wvars

TNext == TReset \/ TReq \/ TAcq \/ TRel \/ TEnd
TSpec == TInit /\ [][TNext]_tvars

AcceptExit == (l > Len(TraceLog)) => (PrintT("VERIF-ACCEPTED") /\ TLCSet("exit", TRUE))
TraceExclusion == Exclusion
===========================================================================
