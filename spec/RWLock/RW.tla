---------------------------- MODULE RW ----------------------------
(* Abstract read-write lock (property C33): no writer holds the lock together with another writer or any reader,
   readers may share it; every waiting thread eventually acquires it when the others keep releasing it. *)
EXTENDS Naturals, FiniteSets
CONSTANTS Thr
VARIABLES readers, writers, waiting
wvars == <<readers, writers, waiting>>

WInit == readers = {} /\ writers = {} /\ waiting = {}
Idle(t) == t \notin readers /\ t \notin writers /\ t \notin {w[1] : w \in waiting}
Request(t, m) == /\ Idle(t) /\ waiting' = waiting \cup {<<t, m>>} /\ UNCHANGED <<readers, writers>>
RdAcquire(t) == /\ <<t, "r">> \in waiting /\ writers = {}
                /\ readers' = readers \cup {t} /\ waiting' = waiting \ {<<t, "r">>} /\ UNCHANGED writers
WrAcquire(t) == /\ <<t, "w">> \in waiting /\ writers = {} /\ readers = {}
                /\ writers' = {t} /\ waiting' = waiting \ {<<t, "w">>} /\ UNCHANGED readers
RdRelease(t) == t \in readers /\ readers' = readers \ {t} /\ UNCHANGED <<writers, waiting>>
WrRelease(t) == t \in writers /\ writers' = {} /\ UNCHANGED <<readers, waiting>>
WNext == \E t \in Thr : Request(t, "r") \/ Request(t, "w") \/ RdAcquire(t) \/ WrAcquire(t) \/ RdRelease(t) \/ WrRelease(t)
WSpec == WInit /\ [][WNext]_wvars

Exclusion == /\ Cardinality(writers) <= 1
             /\ writers # {} => readers = {}
\* Progress ("every waiting thread eventually acquires it when the others keep releasing it") depends on the
\* admission policy, which this abstract lock leaves open: it is stated and checked on the implementation model
\* (RWTicket.tla: Progress, under weak fairness of every thread).
======================================================================
