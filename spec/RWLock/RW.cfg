SPECIFICATION WSpec
CONSTANTS Thr = {1, 2, 3}
INVARIANTS Exclusion
CHECK_DEADLOCK FALSE
