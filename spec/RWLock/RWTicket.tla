---------------------------- MODULE RWTicket ----------------------------
(* Implementation-shaped model of parsec/class/parsec_rwlock.c, PARSEC_RWLOCK_IMPL_TICKET (the configured, phase-fair
   ticket implementation; property C33), one action per segment of code between two yield points of the hooked build
   (atomic operations, fences, the PARSEC_VERIF_SPIN hooks in the three spin loops, and the harness' yield inside
   the critical section / between operations).   RINC = 256, WBITS = 3, PRES = 2, PHID = 1.

   rdlock:    w = fetch_add(&rin, RINC) & WBITS                                   RdIn
              if( w != 0 ) while( w == (rin & WBITS) ) spin                        RdSpin
              rmb                                                                  LockFence
   rdunlock:  wmb                                                                  UnlockFence
              fetch_add(&rout, RINC)                                               RdOut
   wrlock:    ticket = fetch_inc(&win) ; while( wout != ticket ) spin              WrWin / WrSpin1
              w = PRES | (ticket & PHID) ; ticket = fetch_add(&rin, w)             WrRin
              while( rout != ticket ) spin                                         WrSpin2
              rmb                                                                  LockFence
   wrunlock:  wmb                                                                  UnlockFence
              fetch_and(&rin, 0xFFFFFF00) ; wout = wout + 1                        WrAnd

   Prog[t] = sequence of "r" / "w": lock cycles of thread t.  A spin step that finds its condition unchanged is a
   stuttering step (the cooperative scheduler does not run a spinning thread until somebody else moved). *)
EXTENDS Naturals, Integers, Sequences, FiniteSets, TLC
CONSTANTS Thr, Prog, Mut
VARIABLES rin, rout, win, wout, pc, opi, loc
vars == <<rin, rout, win, wout, pc, opi, loc>>

RINC == 256
WB(x) == x % 4                       \* x & WBITS
CurOp(t) == Prog[t][opi[t]]
HasOp(t) == opi[t] <= Len(Prog[t])

Init == /\ rin = 0 /\ rout = 0 /\ win = 0 /\ wout = 0
        /\ pc = [t \in Thr |-> "idle"] /\ opi = [t \in Thr |-> 1]
        /\ loc = [t \in Thr |-> [w |-> 0, ticket |-> 0]]
Goto(t, p) == pc' = [pc EXCEPT ![t] = p]

\* operation boundary -> first atomic of the lock function
Begin(t) == /\ pc[t] = "idle" /\ HasOp(t)
            /\ Goto(t, IF CurOp(t) = "r" THEN "r_in" ELSE "w_win")
            /\ UNCHANGED <<rin, rout, win, wout, opi, loc>>
\* ---------------------------------------------------------------- reader
RdBlocked(t, w) == IF Mut = "fullword" THEN w = rin ELSE w = WB(rin)
RdIn(t) == /\ pc[t] = "r_in"
           /\ rin' = rin + RINC
           /\ loc' = [loc EXCEPT ![t].w = WB(rin)]
           /\ Goto(t, IF WB(rin) # 0 /\ (IF Mut = "fullword" THEN WB(rin) = rin + RINC ELSE WB(rin) = WB(rin + RINC)) THEN "r_spin" ELSE "l_fence")
           /\ UNCHANGED <<rout, win, wout, opi>>
RdSpin(t) == /\ pc[t] = "r_spin" /\ ~RdBlocked(t, loc[t].w)
             /\ Goto(t, "l_fence")
             /\ UNCHANGED <<rin, rout, win, wout, opi, loc>>
\* ---------------------------------------------------------------- writer
WrWin(t) == /\ pc[t] = "w_win"
            /\ win' = win + 1
            /\ loc' = [loc EXCEPT ![t].ticket = win]
            /\ Goto(t, IF wout # win THEN "w_spin1" ELSE "w_rin")
            /\ UNCHANGED <<rin, rout, wout, opi>>
WrSpin1(t) == /\ pc[t] = "w_spin1" /\ wout = loc[t].ticket
              /\ Goto(t, "w_rin")
              /\ UNCHANGED <<rin, rout, win, wout, opi, loc>>
WrRin(t) == /\ pc[t] = "w_rin"
            /\ rin' = rin + 2 + (loc[t].ticket % 2)
            /\ loc' = [loc EXCEPT ![t].ticket = rin]
            /\ Goto(t, IF rout # rin THEN "w_spin2" ELSE "l_fence")
            /\ UNCHANGED <<rout, win, wout, opi>>
WrSpin2(t) == /\ pc[t] = "w_spin2" /\ rout = loc[t].ticket
              /\ Goto(t, "l_fence")
              /\ UNCHANGED <<rin, rout, win, wout, opi, loc>>
\* ---------------------------------------------------------------- common
\* rmb ; the lock function returns ; the thread is in its critical section (the harness yields there)
LockFence(t) == /\ pc[t] = "l_fence"
                /\ Goto(t, "cs")
                /\ UNCHANGED <<rin, rout, win, wout, opi, loc>>
\* leave the critical section, call the unlock function: up to its wmb
CsLeave(t) == /\ pc[t] = "cs"
              /\ Goto(t, "u_fence")
              /\ UNCHANGED <<rin, rout, win, wout, opi, loc>>
\* wmb  (Mut = "woutfirst": wout is incremented here, before the writer bits of rin are cleared)
UnlockFence(t) == /\ pc[t] = "u_fence"
                  /\ Goto(t, IF CurOp(t) = "r" THEN "r_out" ELSE "w_and")
                  /\ wout' = IF Mut = "woutfirst" /\ CurOp(t) = "w" THEN wout + 1 ELSE wout
                  /\ UNCHANGED <<rin, rout, win, opi, loc>>
Fin(t) == pc' = [pc EXCEPT ![t] = "idle"] /\ opi' = [opi EXCEPT ![t] = @ + 1]
RdOut(t) == /\ pc[t] = "r_out"
            /\ rout' = rout + RINC
            /\ Fin(t) /\ UNCHANGED <<rin, win, wout, loc>>
WrAnd(t) == /\ pc[t] = "w_and"
            /\ rin' = rin - (rin % 256)
            /\ wout' = IF Mut = "woutfirst" THEN wout ELSE wout + 1
            /\ Fin(t) /\ UNCHANGED <<rout, win, loc>>

Step(t) == \/ Begin(t) \/ RdIn(t) \/ RdSpin(t) \/ WrWin(t) \/ WrSpin1(t) \/ WrRin(t) \/ WrSpin2(t)
           \/ LockFence(t) \/ CsLeave(t) \/ UnlockFence(t) \/ RdOut(t) \/ WrAnd(t)
Next == \E t \in Thr : Step(t)
Spec == Init /\ [][Next]_vars
FairSpec == Spec /\ \A t \in Thr : WF_vars(Step(t))

\* ---------------------------------------------------------------- the property
Holds(t, m) == pc[t] \in {"cs", "u_fence"} /\ CurOp(t) = m          \* between the return of lock and the call of unlock
Readers == {t \in Thr : Holds(t, "r")}
Writers == {t \in Thr : Holds(t, "w")}
Exclusion == /\ Cardinality(Writers) <= 1
             /\ Writers # {} => Readers = {}
Waiting(t) == pc[t] \in {"r_in", "r_spin", "w_win", "w_spin1", "w_rin", "w_spin2", "l_fence"}
AllDone == \A t \in Thr : ~HasOp(t)
\* liveness half: every thread that asked for the lock gets it (the others release after finitely many steps)
Progress == \A t \in Thr : Waiting(t) ~> (pc[t] = "cs")
Terminates == <>AllDone
NoDeadlock == AllDone \/ ENABLED Next
=========================================================================
