SPECIFICATION TSpec
CONSTANTS Thr = {1,2,3,4,5,6,7,8,9,10,11,12,13,14,15,16}
INVARIANTS AcceptExit TraceExclusion
CHECK_DEADLOCK FALSE
