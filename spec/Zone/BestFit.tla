---------------------------- MODULE BestFit ----------------------------
(* Abstract meaning of parsec/utils/zone_malloc.c (property C28): a zone of N units of Unit bytes.
     live   set of live allocations, records [s |-> first unit, n |-> number of units]
     hnd    handle (position of the malloc in the history) -> first unit, for the live allocations
   zone_malloc(bytes) rounds up to units and takes the BEGINNING of a free run of minimal sufficient length
   (best fit; which one among equally long runs is not specified) or fails iff there is no such run;
   zone_free gives the units back (adjacent free runs are one run in this representation).
   `hist` records the operations (malloc by size, free by handle): the behaviour handed to the replay harness. *)
EXTENDS Naturals, Integers, Sequences, FiniteSets, TLC, Json
CONSTANTS N,        \* number of units of the zone
          Unit,     \* bytes per unit
          Bytes,    \* request sizes (bytes) used by the behaviours
          MaxLen
VARIABLES live, hnd, hist
vars == <<live, hnd, hist>>

Units(b) == (b + Unit - 1) \div Unit
UsedUnits(L) == UNION {a.s .. (a.s + a.n - 1) : a \in L}
FreeUnit(L, u) == u \in 0..(N - 1) /\ u \notin UsedUnits(L)
\* maximal runs of free units
FreeRuns(L) == LET used == UsedUnits(L)
                   free(u) == u \in 0..(N - 1) /\ u \notin used
                   starts == {s \in 0..(N - 1) : free(s) /\ ~free(s - 1)}
                   endof(s) == CHOOSE e \in (s + 1)..N : ~free(e) /\ \A u \in s..(e - 1) : free(u)
               IN {[s |-> s, n |-> endof(s) - s] : s \in starts}
Fits(L, n) == {r \in FreeRuns(L) : r.n >= n}
BestFits(L, n) == {r \in Fits(L, n) : \A q \in Fits(L, n) : r.n <= q.n}
InUse(L) == Unit * Cardinality(UsedUnits(L))

Init == live = {} /\ hnd = <<>> /\ hist = <<>>

\* hnd is a sequence parallel to hist: first unit of the allocation made by that operation, -1 = none / freed
Malloc(b) ==
    /\ Len(hist) < MaxLen
    /\ LET n == Units(b) IN
       IF n = 0 \/ Fits(live, n) = {}
       THEN /\ hist' = Append(hist, [op |-> "m", b |-> b, h |-> 0])
            /\ hnd' = Append(hnd, -1)
            /\ UNCHANGED live
       ELSE \E r \in BestFits(live, n) :
            /\ live' = live \cup {[s |-> r.s, n |-> n]}
            /\ hist' = Append(hist, [op |-> "m", b |-> b, h |-> 0])
            /\ hnd' = Append(hnd, r.s)
Free(h) ==
    /\ Len(hist) < MaxLen /\ h \in 1..Len(hnd) /\ hnd[h] # -1
    /\ live' = {a \in live : a.s # hnd[h]}
    /\ hist' = Append(hist, [op |-> "f", b |-> 0, h |-> h])
    /\ hnd' = Append([hnd EXCEPT ![h] = -1], -1)
Next == \/ \E b \in Bytes : Malloc(b)
        \/ \E h \in 1..MaxLen : Free(h)
Spec == Init /\ [][Next]_vars

\* ---- the property on the abstract state ---------------------------------------------------------------------
NoOverlap == \A a, c \in live : a # c => (a.s + a.n <= c.s \/ c.s + c.n <= a.s)
Inside == \A a \in live : a.s >= 0 /\ a.n >= 1 /\ a.s + a.n <= N
TypeOK == Inside /\ NoOverlap
Emit == (Len(hist) = MaxLen) => PrintT(<<"VH", ToJson(hist)>>)
========================================================================
