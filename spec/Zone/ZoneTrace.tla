---------------------------- MODULE ZoneTrace ----------------------------
(* Trace validation for C28.  After every operation on the real allocator the harness logs
     {"e":"op","op":"m","b":BYTES,"h":H,"r":FIRST_UNIT | -1 (NULL) | -2 (not unit aligned),"inuse":BYTES,
      "segs":[[tid,nb_units,status,nb_prev],...],           (segment table walked from unit 0; status 1 free, 2 full)
      "root":K,"nodes":[{"k":K,"c":0|1,"l":K,"r":K,"p":K,"segs":[tid,...]},...]}   (tree of free-run sizes, 0 = nil)
     {"e":"op","op":"f","h":H,"r":FIRST_UNIT,...}
   TLC checks
   (a) the property: a returned block lies inside the zone, is unit aligned, overlaps no live block, is the beginning
       of a free run of minimal sufficient length; NULL is returned iff no free run is long enough (or 0 bytes were
       asked); zone_in_use = sum of the live blocks;
   (b) the logged segment table is exactly the abstract state: full segments = live blocks, free segments = the
       MAXIMAL free runs (freeing merged the neighbours), back pointers nb_prev consistent;
   (c) the logged tree is a valid red-black search tree (operators as in spec/RBTree/RBTrace.tla) whose nodes hold,
       per size, exactly the free segments of that size. *)
EXTENDS BestFit, IOUtils
VARIABLES l
TraceLog == ndJsonDeserialize(IOEnv.TRACE)
Ev == TraceLog[l]
IsEv(e) == l <= Len(TraceLog) /\ Ev.e = e /\ l' = l + 1

\* ---- segment table -------------------------------------------------------------------------------------------
SegSet(ev) == {ev.segs[i] : i \in 1..Len(ev.segs)}
SegsOK(ev, L, runs) ==
    /\ Len(ev.segs) >= 1 /\ ev.segs[1][1] = 0
    /\ \A i \in 1..Len(ev.segs) : ev.segs[i][2] >= 1 /\ ev.segs[i][3] \in {1, 2}
    /\ \A i \in 1..(Len(ev.segs) - 1) : /\ ev.segs[i + 1][1] = ev.segs[i][1] + ev.segs[i][2]     \* tiling
                                        /\ ev.segs[i + 1][4] = ev.segs[i][2]                     \* back pointer
    /\ ev.segs[Len(ev.segs)][1] + ev.segs[Len(ev.segs)][2] = N
    /\ {[s |-> g[1], n |-> g[2]] : g \in {x \in SegSet(ev) : x[3] = 2}} = L                       \* full = live
    /\ {[s |-> g[1], n |-> g[2]] : g \in {x \in SegSet(ev) : x[3] = 1}} = runs             \* free = maximal runs

\* ---- the tree (structure as in RBTrace.tla) ------------------------------------------------------------------
NodeSet(ev) == {ev.nodes[i] : i \in 1..Len(ev.nodes)}
KeySet(ev) == {n.k : n \in NodeSet(ev)}
NodeOf(ev, k) == CHOOSE n \in NodeSet(ev) : n.k = k
RECURSIVE SubKeys(_, _, _), BlackHeight(_, _, _)
SubKeys(ev, k, fuel) == IF k = 0 \/ fuel = 0 \/ k \notin KeySet(ev) THEN {}
                        ELSE {k} \cup SubKeys(ev, NodeOf(ev, k).l, fuel - 1) \cup SubKeys(ev, NodeOf(ev, k).r, fuel - 1)
BlackHeight(ev, k, fuel) == IF k = 0 \/ fuel = 0 \/ k \notin KeySet(ev) THEN 1
                            ELSE LET n == NodeOf(ev, k)
                                     a == BlackHeight(ev, n.l, fuel - 1)
                                     b == BlackHeight(ev, n.r, fuel - 1)
                                 IN IF a = -1 \/ b = -1 \/ a # b THEN -1 ELSE a + n.c
Fuel(ev) == Len(ev.nodes) + 1
ValidTree(ev) ==
    /\ Cardinality(KeySet(ev)) = Len(ev.nodes)
    /\ (ev.root = 0) = (ev.nodes = <<>>)
    /\ ev.root # 0 => /\ ev.root \in KeySet(ev)
                      /\ NodeOf(ev, ev.root).c = 1
                      /\ NodeOf(ev, ev.root).p = 0
    /\ SubKeys(ev, ev.root, Fuel(ev)) = KeySet(ev)
    /\ \A n \in NodeSet(ev) :
          /\ n.l # 0 => n.l \in KeySet(ev) /\ NodeOf(ev, n.l).p = n.k
          /\ n.r # 0 => n.r \in KeySet(ev) /\ NodeOf(ev, n.r).p = n.k
          /\ \A j \in SubKeys(ev, n.l, Fuel(ev)) : j < n.k
          /\ \A j \in SubKeys(ev, n.r, Fuel(ev)) : j > n.k
          /\ n.c = 0 => /\ (n.l # 0 => NodeOf(ev, n.l).c = 1)
                        /\ (n.r # 0 => NodeOf(ev, n.r).c = 1)
    /\ BlackHeight(ev, ev.root, Fuel(ev)) # -1
\* per size, the node's list holds exactly the free runs of that size (each once)
TreeHoldsFreeRuns(ev, runs) ==
    /\ KeySet(ev) = {r.n : r \in runs}
    /\ \A n \in NodeSet(ev) :
          /\ {n.segs[i] : i \in 1..Len(n.segs)} = {r.s : r \in {q \in runs : q.n = n.k}}
          /\ Cardinality({n.segs[i] : i \in 1..Len(n.segs)}) = Len(n.segs)

TInit == Init /\ l = 1
TReset == IsEv("Reset") /\ live' = {} /\ UNCHANGED <<hnd, hist>>
TMalloc == /\ IsEv("op") /\ Ev.op = "m"
           /\ LET n == Units(Ev.b)
                  fits == {r \in FreeRuns(live) : r.n >= n}
                  best == {r \in fits : \A q \in fits : r.n <= q.n}
              IN
              IF n = 0 \/ fits = {}
              THEN Ev.r = -1 /\ live' = live                                        \* fails only then ...
              ELSE /\ Ev.r >= 0 /\ Ev.r + n <= N                                    \* ... inside the zone, unit aligned
                   /\ \A u \in Ev.r..(Ev.r + n - 1) : FreeUnit(live, u)            \* overlaps no live block
                   /\ \E r \in best : r.s = Ev.r                                   \* beginning of a best-fitting run
                   /\ live' = live \cup {[s |-> Ev.r, n |-> n]}
TFree == /\ IsEv("op") /\ Ev.op = "f"
         /\ \E a \in live : a.s = Ev.r
         /\ live' = {a \in live : a.s # Ev.r}
TOp == /\ (TMalloc \/ TFree)
       /\ Ev.inuse = InUse(live')
       /\ LET runs == FreeRuns(live') IN
            /\ SegsOK(Ev, live', runs)
            /\ ValidTree(Ev)
            /\ TreeHoldsFreeRuns(Ev, runs)
       /\ UNCHANGED <<hnd, hist>>
TNext == TReset \/ TOp
TSpec == TInit /\ [][TNext]_<<vars, l>>
AcceptExit == (l > Len(TraceLog)) => (PrintT("VERIF-ACCEPTED") /\ TLCSet("exit", TRUE))
==========================================================================
