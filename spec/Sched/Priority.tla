---------------------------- MODULE Priority ----------------------------
(* C09  Priority schedulers honour task priorities (sequential use, one stream).

   Property level (what properties.jsonl demands):
     pend            the multiset of pending tasks [id, p, d]; ids are handed out in scheduling order
                     (ring order inside one schedule call), so "scheduling order" = id order
     Allowed(pend)   the tasks a select may return:
        ap   a task of highest priority, the earliest scheduled among equals
        ip   a task of lowest priority
        spq  among the tasks pending at the smallest distance: highest priority, earliest scheduled among equals
                     (so a task re-scheduled with a larger distance is never selected before one pending at a
                      smaller distance)
     a select returns NULL exactly when nothing is pending.

   Implementation level (transcription of the C code, kept next to the property so that TLC proves the
   transcription refines the property, invariant ImplRefines):
     ap/ip  q = the shared parsec_list_t, head first.
            sched_ap_schedule  = parsec_list_chain_sorted (any distance)
            sched_ip_schedule  = parsec_list_chain_sorted (any distance); before the repair "inverse-priority scheduler
                                 keeps its list sorted when tasks are rescheduled with a distance" it was chain_sorted
                                 only for distance 0 and parsec_list_chain_back otherwise (IpChainBack = TRUE)
            sched_ap_select    = pop_front          sched_ip_select = pop_back
     spq    q = list of [d, tasks] priority lists kept in ascending d (never removed once created);
            sched_spq_schedule = find/insert the list of that distance, chain_sorted into it
            sched_spq_select   = pop_front of the first non-empty list
     ChainSorted transcribes parsec_list_nolock_chain_sorted literally, including the `pos` shortcut
     (restart from the head only when the new element is larger than the last inserted one).

   hist = the operation sequence; complete sequences are printed for the replay harness. *)
EXTENDS Naturals, Integers, Sequences, FiniteSets, TLC, Json
CONSTANTS Modes,       \* subset of {"ap", "ip", "spq"}: the module is chosen in Init and fixed for the behaviour
          Prios,       \* set of integers
          Dists,       \* set of naturals (ap and ip only use the distances <= 1 of it: larger ones behave the same)
          MaxRing,     \* longest ring handed to one schedule call
          MaxTasks,    \* total number of tasks scheduled in one behaviour
          MaxLen,      \* number of operations in one behaviour
          IpChainBack, \* TRUE: ip appends re-scheduled (distance > 0) rings at the back (the code before its repair)
          KeepHist     \* TRUE: record the operation sequence (behaviours for replay); FALSE: state graph only
VARIABLES mode, pend, q, nsched, hist
vars == <<mode, pend, q, nsched, hist>>

\* ---------------------------------------------------------------- property level
MinD(P) == CHOOSE d \in {t.d : t \in P} : \A t \in P : d <= t.d
Best(P) == {t \in P : \A u \in P : t.p > u.p \/ (t.p = u.p /\ t.id <= u.id)}
Allowed(P) == CASE mode = "ap"  -> Best(P)
                [] mode = "ip"  -> {t \in P : \A u \in P : t.p <= u.p}
                [] mode = "spq" -> IF P = {} THEN {} ELSE Best({t \in P : t.d = MinD(P)})

\* tasks created by one schedule call: ring = sequence of priorities, ids follow the ring order
NewTasks(n, ring, d) == [i \in 1..Len(ring) |-> [id |-> n + i, p |-> ring[i], d |-> d]]
Range(s) == {s[i] : i \in 1..Len(s)}

\* ---------------------------------------------------------------- implementation level
InsertAt(L, i, x) == SubSeq(L, 1, i - 1) \o <<x>> \o SubSeq(L, i, Len(L))
RECURSIVE Scan(_, _, _), ChainFrom(_, _, _)
\* for(; pos != GHOST; pos = pos->next) if( A_HIGHER_PRIORITY_THAN_B(newel, pos) ) break;
Scan(L, i, p) == IF i > Len(L) \/ p > L[i].p THEN i ELSE Scan(L, i + 1, p)
ChainFrom(L, pos, items) ==
    IF items = <<>> THEN L
    ELSE LET x == Head(items)
             start == IF x.p > L[pos].p THEN 1 ELSE pos      \* "reboot and insert from the beginning"
             i == Scan(L, start, x.p)
         IN ChainFrom(InsertAt(L, i, x), i, Tail(items))     \* add_before(pos, newel); pos = newel
ChainSorted(L, items) ==
    IF items = <<>> THEN L
    ELSE IF L = <<>> THEN ChainFrom(<<Head(items)>>, 1, Tail(items))
    ELSE ChainFrom(L, Len(L), items)                         \* pos = TAIL(list)

\* spq: index of the priority list for distance d, creating it when missing
RECURSIVE SpqFind(_, _, _)
SpqFind(Q, i, d) == IF i > Len(Q) \/ Q[i].d >= d THEN i ELSE SpqFind(Q, i + 1, d)
SpqSchedule(Q, items, d) ==
    LET i == SpqFind(Q, 1, d)
        Q1 == IF i <= Len(Q) /\ Q[i].d = d THEN Q ELSE InsertAt(Q, i, [d |-> d, tasks |-> <<>>])
    IN [Q1 EXCEPT ![i].tasks = ChainSorted(@, items)]
RECURSIVE SpqFirst(_, _)
SpqFirst(Q, i) == IF i > Len(Q) THEN 0 ELSE IF Q[i].tasks # <<>> THEN i ELSE SpqFirst(Q, i + 1)

ImplSchedule(Q, items, d) ==
    CASE mode = "ap"  -> ChainSorted(Q, items)
      [] mode = "ip"  -> IF d = 0 \/ ~IpChainBack THEN ChainSorted(Q, items) ELSE Q \o items
      [] mode = "spq" -> SpqSchedule(Q, items, d)
\* <<selected task or NoTask, queue afterwards>>
NoTask == [id |-> 0, p |-> 0, d |-> 0]
ImplSelect(Q) ==
    CASE mode = "ap"  -> IF Q = <<>> THEN <<NoTask, Q>> ELSE <<Head(Q), Tail(Q)>>
      [] mode = "ip"  -> IF Q = <<>> THEN <<NoTask, Q>> ELSE <<Q[Len(Q)], SubSeq(Q, 1, Len(Q) - 1)>>
      [] mode = "spq" -> LET i == SpqFirst(Q, 1)
                         IN IF i = 0 THEN <<NoTask, Q>> ELSE <<Head(Q[i].tasks), [Q EXCEPT ![i].tasks = Tail(@)]>>

\* ---------------------------------------------------------------- behaviours
Rings == UNION {[1..n -> Prios] : n \in 1..MaxRing}
DistsOf(m) == IF m = "spq" THEN Dists ELSE {d \in Dists : d <= 1}
Init == mode \in Modes /\ pend = {} /\ q = <<>> /\ nsched = 0 /\ hist = <<>>
Schedule(ring, d) ==
    /\ (KeepHist => Len(hist) < MaxLen) /\ nsched + Len(ring) <= MaxTasks /\ d \in DistsOf(mode)
    /\ LET items == NewTasks(nsched, ring, d)
       IN /\ pend' = pend \cup Range(items)
          /\ q' = ImplSchedule(q, items, d)
    /\ nsched' = nsched + Len(ring)
    /\ hist' = IF KeepHist THEN Append(hist, [op |-> "S", d |-> d, ps |-> ring]) ELSE hist
    /\ UNCHANGED mode
Select ==
    /\ (KeepHist => Len(hist) < MaxLen)
    /\ LET r == ImplSelect(q)
       IN /\ q' = r[2]
          /\ pend' = {t \in pend : t.id # r[1].id}
    /\ hist' = IF KeepHist THEN Append(hist, [op |-> "X", d |-> 0, ps |-> <<>>]) ELSE hist
    /\ UNCHANGED <<nsched, mode>>
Next == \/ \E ring \in Rings, d \in Dists : Schedule(ring, d)
        \/ Select
Spec == Init /\ [][Next]_vars
\* long random walks (TLC -simulate): one or two random schedule candidates and the select per step, so that selects
\* are not drowned by the number of possible rings
\* (the sets depend on the state only to keep TLC from evaluating RandomElement once and for all)
SimNext == \/ \E k \in 1..2 : \E ring \in {RandomElement({r \in Rings : nsched + k > 0})},
                               d \in {RandomElement({x \in DistsOf(mode) : nsched + k > 0})} : Schedule(ring, d)
           \/ Select
SimSpec == Init /\ [][SimNext]_vars

TypeOK == /\ nsched \in 0..MaxTasks
          /\ \A t \in pend : t.id \in 1..nsched /\ t.p \in Prios /\ t.d \in Dists
\* the transcription of the code selects a task the property allows, and NULL exactly when nothing is pending
ImplRefines == LET r == ImplSelect(q)
               IN IF pend = {} THEN r[1] = NoTask ELSE r[1] \in Allowed(pend)
\* the implementation state holds exactly the pending tasks
ImplHolds == LET all == IF mode = "spq" THEN UNION {Range(q[i].tasks) : i \in 1..Len(q)} ELSE Range(q)
             IN all = pend
\* ap and spq leave no choice
Deterministic == mode \in {"ap", "spq"} /\ pend # {} => Cardinality(Allowed(pend)) = 1
Emit == (KeepHist /\ Len(hist) = MaxLen) => PrintT(<<"VH", ToJson([m |-> mode, ops |-> hist])>>)
=========================================================================
