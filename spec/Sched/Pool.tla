---------------------------- MODULE Pool ----------------------------
(* C08  Schedulers never lose or duplicate a ready task: abstract specification shared by the 11 modules.

   One multiset of pending tasks per virtual process.  A schedule call on a stream of VP v hands a ring of new
   tasks to the scheduler: from the call's invocation on, every task of the ring may be returned by a select
   on any stream of the same VP (the ring becomes visible piecewise inside the call).  A select returns one pending
   task of its VP and removes it, or NULL.  NULL is always possible while other calls are in progress (try-locks,
   bounded buffers in transit); the terminal rule: once every call has returned, a full round of selects - one on
   every stream of the VP - that all return NULL means that nothing is pending in that VP.

   Operations (history `hist` = behaviours handed to the harness):
     Sched(t, v, s, n, d)   thread t schedules a ring of n new tasks on stream s of VP v with distance d
     Sel(t, v, s)           thread t calls select on stream s of VP v
   In the abstract behaviours every call is atomic; which pending task a select returns is the module's choice
   (Take = any pending task of the VP), so the behaviours only fix the operations, not their results.
   Invariants: a task is never in two places (pending in one VP, or returned once), nothing appears from nowhere,
   scheduled = pending + returned (conservation). *)
EXTENDS Naturals, Integers, Sequences, FiniteSets, TLC, Json
CONSTANTS NVP,        \* virtual processes 0..NVP-1
          NStreams,   \* streams per VP 0..NStreams-1
          NThreads,   \* harness threads issuing the calls (1 = sequential behaviours)
          RingSizes,  \* set of ring sizes
          Dists,      \* set of distances
          MaxTasks, MaxLen,
          Owned,      \* TRUE (concurrent programs): the runtime's discipline - thread t is execution stream Own(t): it
                      \* selects on its own stream only and schedules on its own stream or on stream 0 of any VP (foreign
                      \* schedule; threads beyond the number of streams model the communication thread);
                      \* FALSE (one thread, sequential): any stream may be used for any call
          TakeAny     \* TRUE: a select may return any pending task of the VP (the specification);
                      \* FALSE: the smallest id (one representative per operation sequence, for behaviour generation)
VARIABLES pending,    \* [VP -> set of task ids]
          returned,   \* set of task ids returned by a select
          nsched, hist
vars == <<pending, returned, nsched, hist>>
VP == 0..(NVP - 1)
Streams == 0..(NStreams - 1)
Thr == 1..NThreads

\* thread t is stream Own(t) = <<vp, stream>> (threads 1..NVP*NStreams), none beyond
HasOwn(t) == t <= NVP * NStreams
Own(t) == <<(t - 1) \div NStreams, (t - 1) % NStreams>>
MaySched(t, v, s) == ~Owned \/ s = 0 \/ (HasOwn(t) /\ Own(t) = <<v, s>>)
MaySel(t, v, s) == ~Owned \/ (HasOwn(t) /\ Own(t) = <<v, s>>)

Init == pending = [v \in VP |-> {}] /\ returned = {} /\ nsched = 0 /\ hist = <<>>
Sched(t, v, s, n, d) ==
    /\ Len(hist) < MaxLen /\ nsched + n <= MaxTasks /\ MaySched(t, v, s)
    /\ pending' = [pending EXCEPT ![v] = @ \cup ((nsched + 1)..(nsched + n))]
    /\ nsched' = nsched + n
    /\ hist' = Append(hist, [op |-> "S", t |-> t, v |-> v, s |-> s, n |-> n, d |-> d])
    /\ UNCHANGED returned
\* the module's choice: any pending task of the VP (NULL when there is none)
Sel(t, v, s) ==
    /\ Len(hist) < MaxLen /\ MaySel(t, v, s)
    /\ \/ \E x \in pending[v] : /\ (TakeAny \/ \A y \in pending[v] : x <= y)
                                /\ pending' = [pending EXCEPT ![v] = @ \ {x}]
                                /\ returned' = returned \cup {x}
       \/ pending[v] = {} /\ UNCHANGED <<pending, returned>>
    /\ hist' = Append(hist, [op |-> "X", t |-> t, v |-> v, s |-> s, n |-> 0, d |-> 0])
    /\ UNCHANGED nsched
Next == \/ \E t \in Thr, v \in VP, s \in Streams, n \in RingSizes, d \in Dists : Sched(t, v, s, n, d)
        \/ \E t \in Thr, v \in VP, s \in Streams : Sel(t, v, s)
Spec == Init /\ [][Next]_vars

AllPending == UNION {pending[v] : v \in VP}
TypeOK == /\ nsched \in 0..MaxTasks /\ returned \subseteq 1..nsched /\ AllPending \subseteq 1..nsched
ExactlyOnce == /\ \A v, w \in VP : v # w => pending[v] \cap pending[w] = {}
               /\ AllPending \cap returned = {}
Conservation == AllPending \cup returned = 1..nsched
\* operation sequences are independent of the task a select happens to return: print each sequence once
Emit == (Len(hist) = MaxLen) => PrintT(<<"VH", ToJson(hist)>>)
\* (for -simulate) balanced random steps: see Priority.tla
Targets(t) == {vs \in VP \X Streams : MaySched(t, vs[1], vs[2])}
SelTargets(t) == {vs \in VP \X Streams : MaySel(t, vs[1], vs[2])}
SimNext == \/ \E k \in 1..2 : \E t \in {RandomElement({x \in Thr : nsched + k > 0})} :
                              \E vs \in {RandomElement(Targets(t))},
                                 n \in {RandomElement({x \in RingSizes : nsched + k > 0})},
                                 d \in {RandomElement({x \in Dists : nsched + k > 0})} : Sched(t, vs[1], vs[2], n, d)
           \/ \E t \in {RandomElement({x \in Thr : SelTargets(x) # {} /\ nsched >= 0})} :
                 \E vs \in {RandomElement(SelTargets(t))} : Sel(t, vs[1], vs[2])
SimSpec == Init /\ [][SimNext]_vars
=====================================================================
