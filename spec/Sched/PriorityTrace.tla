---------------------------- MODULE PriorityTrace ----------------------------
(* Trace validation for C09: operations executed on the real scheduler module (harness/sched/sched_drive.c, mode seq,
   one stream) against Priority.tla.
     {"e":"Mode","m":"ap"|"ip"|"spq"}              first event of an execution: the installed module
     {"e":"S","es":0,"d":D,"ids":[..],"ps":[..]}   schedule(ring, D); ids must continue the scheduling order
     {"e":"X","es":0,"id":N,"rd":RD}               select returned task N (0 = NULL)
     {"e":"End","n":1}  {"e":"Reset"}
   Level = "prop":   only what the property demands - the returned task is in Allowed(pend), NULL iff nothing pending
                     (the verdict).
   Level = "code":   only conformance - the returned task is the one the transcription of the C code (q) selects
                     (used to count model/code divergences and to recognise a known defect class; never a verdict).
   Level = "report": as "prop", but a select that breaks the demand does not stop the validation: its execution number
                     is collected in rej (the first 40; nrej counts all) and printed at the end (cheap location of
                     rejected executions in a batch; reported executions are then validated alone with Level "prop"). *)
EXTENDS Priority, IOUtils
CONSTANTS Level
VARIABLES l, nex, rej, nrej, flagged
tvars == <<mode, pend, q, nsched, hist, l, nex, rej, nrej, flagged>>
TraceLog == ndJsonDeserialize(IOEnv.TRACE)
Ev == TraceLog[l]
IsEv(e) == l <= Len(TraceLog) /\ Ev.e = e /\ l' = l + 1

TInit == mode = "none" /\ pend = {} /\ q = <<>> /\ nsched = 0 /\ hist = <<>> /\ l = 1 /\ nex = 1 /\ rej = {} /\ nrej = 0 /\ flagged = FALSE
TMode == /\ IsEv("Mode") /\ mode = "none" /\ Ev.m \in {"ap", "ip", "spq"}
         /\ mode' = Ev.m /\ UNCHANGED <<pend, q, nsched, hist, nex, rej, nrej, flagged>>
TReset == /\ IsEv("Reset")
          /\ mode' = "none" /\ pend' = {} /\ q' = <<>> /\ nsched' = 0 /\ nex' = nex + 1 /\ flagged' = FALSE /\ UNCHANGED <<hist, rej, nrej>>
TEnd == /\ IsEv("End") /\ mode # "none" /\ (Level = "prop" => pend = {})
        /\ UNCHANGED <<mode, pend, q, nsched, hist, nex, rej, nrej, flagged>>
TSchedule == /\ IsEv("S") /\ mode # "none"
             /\ Len(Ev.ids) = Len(Ev.ps) /\ Len(Ev.ids) >= 1
             /\ \A i \in 1..Len(Ev.ids) : Ev.ids[i] = nsched + i
             /\ LET items == NewTasks(nsched, Ev.ps, Ev.d)
                IN /\ pend' = pend \cup Range(items)
                   /\ q' = IF Level = "code" THEN ImplSchedule(q, items, Ev.d) ELSE q
             /\ nsched' = nsched + Len(Ev.ids)
             /\ UNCHANGED <<mode, hist, nex, rej, nrej, flagged>>
Demand == IF pend = {} THEN Ev.id = 0 ELSE \E t \in Allowed(pend) : t.id = Ev.id
TSelect == /\ IsEv("X") /\ mode # "none"
           /\ Level = "prop" => Demand
           /\ LET bad == Level = "report" /\ ~Demand /\ ~flagged
              IN /\ rej' = IF bad /\ nrej < 40 THEN rej \cup {nex} ELSE rej
                 /\ nrej' = IF bad THEN nrej + 1 ELSE nrej
                 /\ flagged' = (flagged \/ bad)
           /\ pend' = {t \in pend : t.id # Ev.id}
           /\ IF Level = "code"
              THEN LET r == ImplSelect(q) IN r[1].id = Ev.id /\ q' = r[2]
              ELSE q' = q
           /\ UNCHANGED <<mode, nsched, hist, nex>>
TNext == TMode \/ TReset \/ TEnd \/ TSchedule \/ TSelect
TSpec == TInit /\ [][TNext]_tvars
AcceptExit == (l > Len(TraceLog)) =>
                 (PrintT("VERIF-REJECTS " \o ToJson([n |-> nrej, first |-> rej])) /\ PrintT("VERIF-ACCEPTED") /\ TLCSet("exit", TRUE))
==============================================================================
