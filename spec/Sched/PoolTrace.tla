---------------------------- MODULE PoolTrace ----------------------------
(* Trace validation for C08 (harness/sched/sched_drive.c): histories of schedule/select calls executed on the real
   scheduler module against Pool.tla.  Sequential histories (one harness thread):
     {"e":"Mode","m":"<module>","nvp":V,"ns":S}
     {"e":"S","vp":V,"es":S,"d":D,"ids":[..],..}     schedule returned
     {"e":"X","vp":V,"es":S,"id":N,..}               select returned task N (0 = NULL)
   Concurrent histories (several threads, events in the order of their atomic stamps):
     {"e":"Sinv","t":T,"vp":V,"es":S,"d":D,"ids":[..]}  {"e":"Sres","t":T}
     {"e":"Xinv","t":T,"vp":V,"es":S}                   {"e":"Xres","t":T,"id":N}
     {"e":"Join"}                                        all threads have finished
   Terminal part (sequential, after the last call returned): X events = rounds of one select on every stream of every
   VP until a full round returned NULL, then {"e":"End"}.
   Demands: a returned task was handed to the scheduler (its schedule call has at least been invoked), in the SAME
   virtual process, and has not been returned before; at End nothing is pending (every task returned exactly once).
   When no other call is in progress (sequential part) a NULL select is always acceptable on its own - several
   modules only look at a subset of the queues from a given stream - it is the full NULL round before End that must
   leave nothing pending.  *)
EXTENDS Pool, IOUtils
VARIABLES l, open       \* open[t]: the call of thread t in progress ("S", "X" or "none")
tvars == <<pending, returned, nsched, hist, l, open>>
TraceLog == ndJsonDeserialize(IOEnv.TRACE)
Ev == TraceLog[l]
IsEv(e) == l <= Len(TraceLog) /\ Ev.e = e /\ l' = l + 1
MaxT == 64
NoCalls == [t \in 1..MaxT |-> "none"]
IdSet(ids) == {ids[i] : i \in 1..Len(ids)}

TInit == Init /\ l = 1 /\ open = NoCalls
TMode == IsEv("Mode") /\ Ev.nvp = NVP /\ Ev.ns = NStreams /\ nsched = 0 /\ UNCHANGED <<pending, returned, nsched, hist, open>>
TReset == /\ IsEv("Reset") /\ pending' = [v \in VP |-> {}] /\ returned' = {} /\ nsched' = 0 /\ open' = NoCalls
          /\ UNCHANGED hist
\* new tasks carry fresh ids (never handed to the scheduler before)
Hand(v, ids) == /\ v \in VP /\ Len(ids) >= 1 /\ Cardinality(IdSet(ids)) = Len(ids)
                /\ IdSet(ids) \cap (AllPending \cup returned) = {}
                /\ pending' = [pending EXCEPT ![v] = @ \cup IdSet(ids)]
                /\ nsched' = nsched + Len(ids)
Take(v, id) == /\ v \in VP
               /\ IF id = 0 THEN UNCHANGED <<pending, returned>>
                  ELSE /\ id \in pending[v]
                       /\ pending' = [pending EXCEPT ![v] = @ \ {id}]
                       /\ returned' = returned \cup {id}
\* sequential calls
TS == IsEv("S") /\ Hand(Ev.vp, Ev.ids) /\ UNCHANGED <<returned, hist, open>>
TX == IsEv("X") /\ Take(Ev.vp, Ev.id) /\ UNCHANGED <<nsched, hist, open>>
\* concurrent calls: a ring is takeable from the invocation of its schedule call on
TSinv == /\ IsEv("Sinv") /\ open[Ev.t] = "none" /\ Hand(Ev.vp, Ev.ids)
         /\ open' = [open EXCEPT ![Ev.t] = "S"] /\ UNCHANGED <<returned, hist>>
TSres == /\ IsEv("Sres") /\ open[Ev.t] = "S" /\ open' = [open EXCEPT ![Ev.t] = "none"]
         /\ UNCHANGED <<pending, returned, nsched, hist>>
TXinv == /\ IsEv("Xinv") /\ open[Ev.t] = "none" /\ Ev.vp \in VP
         /\ open' = [open EXCEPT ![Ev.t] = "X" \o ToString(Ev.vp)] /\ UNCHANGED <<pending, returned, nsched, hist>>
TXres == /\ IsEv("Xres") /\ \E v \in VP : open[Ev.t] = "X" \o ToString(v) /\ Take(v, Ev.id)
         /\ open' = [open EXCEPT ![Ev.t] = "none"] /\ UNCHANGED <<nsched, hist>>
TJoin == IsEv("Join") /\ open = NoCalls /\ UNCHANGED <<pending, returned, nsched, hist, open>>
\* terminal rule: the harness ends with a full NULL round; nothing may be left
TEnd == /\ IsEv("End") /\ open = NoCalls /\ AllPending = {} /\ returned = 1..nsched
        /\ UNCHANGED <<pending, returned, nsched, hist, open>>
TNext == TMode \/ TReset \/ TS \/ TX \/ TSinv \/ TSres \/ TXinv \/ TXres \/ TJoin \/ TEnd
TSpec == TInit /\ [][TNext]_tvars
AcceptExit == (l > Len(TraceLog)) => (PrintT("VERIF-ACCEPTED") /\ TLCSet("exit", TRUE))
NoDuplicate == ExactlyOnce
==========================================================================
