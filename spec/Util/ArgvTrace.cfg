SPECIFICATION TSpec
INVARIANT AcceptExit
CHECK_DEADLOCK FALSE
