---------------------------- MODULE McaParamTrace ----------------------------
(* Trace validation for C38: results of the real parsec_mca_param_lookup functions and lookup_source (harness/mca/mca_eval.c).
     {"e":"case","id":N,"via":"api"|"init","c":{type,syn,ovr,cmdP,cmdS,envP,envS,fileP,fileS,fileSfirst},
      "vals":{"dflt":s,"fileP":s,"fileS":s,"envP":s,"envS":s,"cmdS":s,"ovr":s,"cmdP":[s,..]},
      "val":s,"src":s,"val0":s,"src0":s}
   c and vals are what the check handed to the process (environment, parameter file, --mca options, override); val/src
   = value and source reported after the override was applied, val0/src0 before.
   Level "prop": the value is the one of an allowed source of the winning level and the reported source is that level;
   Level "code": the value is exactly the one the transcription of the lookup order selects (conformance only). *)
EXTENDS McaParam, IOUtils
CONSTANTS Level_
VARIABLES l
TraceLog == ndJsonDeserialize(IOEnv.TRACE)
Ev == TraceLog[l]
\* repeated --mca options are joined with commas; a numeric parameter reads the leading number of the joined text
RECURSIVE Join(_)
Join(seq) == IF Len(seq) = 1 THEN seq[1] ELSE seq[1] \o "," \o Join(Tail(seq))
Concrete(ev, tag) == IF tag = "cmdP" THEN (IF ev.c.type = "string" THEN Join(ev.vals.cmdP) ELSE ev.vals.cmdP[1])
                     ELSE ev.vals[tag]
Ok(ev, c, val, src) ==
    IF Level_ = "prop" THEN /\ \E tag \in AllowedTags(c) : val = Concrete(ev, tag)
                            /\ src = Level(c)
    ELSE val = Concrete(ev, Predicted(c)) /\ src = SourceOf(Predicted(c))
TInit == case = (CHOOSE c \in Cases : TRUE) /\ done = FALSE /\ l = 1
TCase == /\ l <= Len(TraceLog) /\ Ev.e = "case" /\ l' = l + 1
         /\ Ev.c \in Cases /\ Len(Ev.vals.cmdP) = Ev.c.cmdP
         /\ Ok(Ev, Ev.c, Ev.val, Ev.src)
         /\ Ok(Ev, [Ev.c EXCEPT !.ovr = FALSE], Ev.val0, Ev.src0)
         /\ case' = Ev.c /\ UNCHANGED done
TReset == l <= Len(TraceLog) /\ Ev.e = "Reset" /\ l' = l + 1 /\ UNCHANGED <<case, done>>
TNext == TCase \/ TReset
TSpec == TInit /\ [][TNext]_<<case, done, l>>
AcceptExit == (l > Len(TraceLog)) => (PrintT("VERIF-ACCEPTED") /\ TLCSet("exit", TRUE))
==============================================================================
