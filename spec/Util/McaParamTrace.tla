---------------------------- MODULE McaParamTrace ----------------------------
(* Trace validation for C38: results of the real parsec_mca_param_lookup functions and lookup_source (harness/mca/mca_eval.c).
     {"e":"case","id":N,"via":"api"|"init","c":{type,syn,ovr,cmdP,cmdS,envP,envS,fileP,fileS,fileSfirst},
      "vals":{"dflt":s,"fileP":s,"fileS":s,"envP":s,"envS":s,"cmdS":s,"ovr":s,"cmdP":[s,..]},
      "val":s,"src":s,"val0":s,"src0":s}
   c and vals are what the check handed to the process (environment, parameter file, --mca options, override); val/src
   = value and source reported after the override was applied, val0/src0 before.  When c.rereg the event also has
   "curr","valr","srcr" (the parameter registered a second time before the override: the current value returned by that
   registration, then value and source looked up) and "val2","src2" (registered once more after the override).
     {"e":"pair","id":N,"via":..,"p":{order,type,fileB},"cmd":[value of the i-th --mca option],"dflt":{"A":s,"B":s},
      "file":{"A":"","B":s},"res":{"A":{"val":s,"src":s},"B":{"val":s,"src":s}}}
   two parameters with names N and N_x: each must resolve from its own options only (OwnCase / OwnPositions).
   Level "prop": the value is the one of an allowed source of the winning level and the reported source is that level;
   Level "code": the value is exactly the one the transcription of the lookup order selects (conformance only). *)
EXTENDS McaParam, IOUtils
CONSTANTS Level_
VARIABLES l
TraceLog == ndJsonDeserialize(IOEnv.TRACE)
Ev == TraceLog[l]
\* repeated --mca options are joined with commas; a numeric parameter reads the leading number of the joined text
RECURSIVE Join(_)
Join(seq) == IF Len(seq) = 1 THEN seq[1] ELSE seq[1] \o "," \o Join(Tail(seq))
Concrete(ev, tag) == IF tag = "cmdP" THEN (IF ev.c.type = "string" THEN Join(ev.vals.cmdP) ELSE ev.vals.cmdP[1])
                     ELSE ev.vals[tag]
Ok(ev, c, val, src) ==
    IF Level_ = "prop" THEN /\ \E tag \in AllowedTags(c) : val = Concrete(ev, tag)
                            /\ src = Level(c)
    ELSE val = Concrete(ev, Predicted(c)) /\ src = SourceOf(Predicted(c))
TInit == case = (CHOOSE c \in Cases : TRUE) /\ pair = NoPair /\ done = FALSE /\ l = 1
TCase == /\ l <= Len(TraceLog) /\ Ev.e = "case" /\ l' = l + 1
         /\ Ev.c \in Cases /\ Len(Ev.vals.cmdP) = Ev.c.cmdP
         /\ Ok(Ev, Ev.c, Ev.val, Ev.src)
         /\ Ok(Ev, [Ev.c EXCEPT !.ovr = FALSE], Ev.val0, Ev.src0)
         \* a second registration under the same name does not change the effective value
         /\ Ev.c.rereg => /\ Ok(Ev, [Ev.c EXCEPT !.ovr = FALSE], Ev.valr, Ev.srcr)
                           /\ Ok(Ev, [Ev.c EXCEPT !.ovr = FALSE], Ev.curr, Ev.srcr)
                           /\ Ok(Ev, Ev.c, Ev.val2, Ev.src2)
         /\ case' = Ev.c /\ UNCHANGED <<pair, done>>
\* the value a parameter of a pair gets from a source: its own --mca options joined in the order given
OwnValues(ev, w) == [k \in 1..Len(OwnPositions(ev.p, w)) |-> ev.cmd[OwnPositions(ev.p, w)[k]]]
PairConcrete(ev, w, tag) == IF tag = "cmdP" THEN (IF ev.p.type = "string" THEN Join(OwnValues(ev, w)) ELSE OwnValues(ev, w)[1])
                            ELSE IF tag = "fileP" THEN ev.file[w] ELSE ev.dflt[w]
PairOk(ev, w) == LET c == OwnCase(ev.p, w)
                 IN IF Level_ = "prop" THEN /\ \E tag \in AllowedTags(c) : ev.res[w].val = PairConcrete(ev, w, tag)
                                            /\ ev.res[w].src = Level(c)
                    ELSE ev.res[w].val = PairConcrete(ev, w, Predicted(c)) /\ ev.res[w].src = SourceOf(Predicted(c))
TPair == /\ l <= Len(TraceLog) /\ Ev.e = "pair" /\ l' = l + 1
         /\ Ev.p \in PairBox /\ Len(Ev.cmd) = Len(Ev.p.order)
         /\ \A w \in Who : PairOk(Ev, w)
         /\ pair' = Ev.p /\ UNCHANGED <<case, done>>
TReset == l <= Len(TraceLog) /\ Ev.e = "Reset" /\ l' = l + 1 /\ UNCHANGED <<case, pair, done>>
TNext == TCase \/ TPair \/ TReset
TSpec == TInit /\ [][TNext]_<<case, pair, done, l>>
AcceptExit == (l > Len(TraceLog)) => (PrintT("VERIF-ACCEPTED") /\ TLCSet("exit", TRUE))
==============================================================================
