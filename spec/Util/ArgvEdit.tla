---------------------------- MODULE ArgvEdit ----------------------------
(* Behaviour generator for the editing half of C39: every sequence of up to MaxLen editing operations on an
   argument vector of words (a word = a string, see Words); `hist` is handed to the replay harness. *)
EXTENDS Argv, TLC, Json
CONSTANTS Words,      \* set of strings (sequences of naturals)
          Sources,    \* set of source vectors for parsec_argv_insert
          Dels,       \* numbers of elements parsec_argv_delete is asked to delete
          MaxLen, MaxArgc
VARIABLES v, hist
vars == <<v, hist>>
Rec(op, a, b, w, src) == [op |-> op, a |-> a, b |-> b, w |-> w, src |-> src]
Init == v = <<>> /\ hist = <<>>
Step(r) == Len(hist) < MaxLen /\ hist' = Append(hist, r)
Positions == 0..(MaxArgc + 1)
DoAppend(w) == Len(v) < MaxArgc /\ Step(Rec("append", 0, 0, w, <<>>)) /\ v' = AppendArg(v, w)
DoPrepend(w) == Len(v) < MaxArgc /\ Step(Rec("prepend", 0, 0, w, <<>>)) /\ v' = PrependArg(v, w)
DoAppendUnique(w, ow) == Len(v) < MaxArgc /\ Step(Rec("append_unique", ow, 0, w, <<>>)) /\ v' = AppendUnique(v, w)
DoInsert(a, src) == v # <<>> /\ Len(v) + Len(src) <= MaxArgc + 1 /\ Step(Rec("insert", a, 0, <<>>, src)) /\ v' = Insert(v, a, src)
DoInsertElement(a, w) == v # <<>> /\ Len(v) < MaxArgc + 1 /\ Step(Rec("insert_element", a, 0, w, <<>>)) /\ v' = Insert(v, a, <<w>>)
DoDelete(a, n) == v # <<>> /\ Step(Rec("delete", a, n, <<>>, <<>>)) /\ v' = Delete(v, a, n)
Next == \/ \E w \in Words : DoAppend(w)
        \/ \E w \in Words : DoPrepend(w)
        \/ \E w \in Words, ow \in {0, 1} : DoAppendUnique(w, ow)
        \/ \E a \in Positions, src \in Sources : DoInsert(a, src)
        \/ \E a \in Positions, w \in Words : DoInsertElement(a, w)
        \/ \E a \in Positions, n \in Dels : DoDelete(a, n)
Spec == Init /\ [][Next]_vars
TypeOK == Len(v) <= MaxArgc + 2
Emit == (Len(hist) = MaxLen) => PrintT(<<"VH", ToJson(hist)>>)
=========================================================================
