---------------------------- MODULE CmdLine ----------------------------
(* Abstract meaning of parsec_cmd_line_parse (parsec/utils/cmd_line.c, property C39) on a token alphabet:
     1..NOpt   the long option token "--o<k>"  (declared iff np[k] >= 0, np[k] = number of parameters)
     TShort    the short option token "-s"     (short name of option `short`, 0 = of no option)
     TP, TQ    plain words "p", "q"
     TEnd      the special token "--"
   argv[1] is the program name (not parsed).  Parsing (ignore_unknown = TRUE) scans from the left: "--" ends the
   options and sends the rest to the tail; a plain word that is not a parameter sends itself and the rest to the
   tail; a declared option takes its np following tokens (whatever they are) as parameters - too few is an error;
   an undeclared option is an error and goes to the tail with the rest.
   Result: [ok, insts (sequence of <<option, parameters>> in order of appearance), tail]. *)
EXTENDS Naturals, Integers, Sequences, FiniteSets, TLC, Json
CONSTANTS NOpt, MaxArgs, Tables      \* Tables: set of records [np |-> <<..>>, short |-> k]
TShort == NOpt + 1
TP == NOpt + 2
TQ == NOpt + 3
TEnd == NOpt + 4
Tokens == 1..TEnd
\* the option a token names under a table (0 = none / not an option token)
OptOf(t, tab) == IF t \in 1..NOpt THEN (IF tab.np[t] >= 0 THEN t ELSE 0)
                 ELSE IF t = TShort THEN (IF tab.short # 0 /\ tab.np[tab.short] >= 0 THEN tab.short ELSE 0) ELSE 0
IsOptToken(t) == t \in 1..NOpt \/ t = TShort

RECURSIVE ParseFrom(_, _, _, _)
ParseFrom(a, tab, i, insts) ==
    IF i > Len(a) THEN [ok |-> TRUE, insts |-> insts, tail |-> <<>>]
    ELSE IF a[i] = TEnd THEN [ok |-> TRUE, insts |-> insts, tail |-> SubSeq(a, i + 1, Len(a))]
    ELSE IF ~IsOptToken(a[i]) THEN [ok |-> TRUE, insts |-> insts, tail |-> SubSeq(a, i, Len(a))]       \* plain word
    ELSE IF OptOf(a[i], tab) = 0 THEN [ok |-> FALSE, insts |-> insts, tail |-> SubSeq(a, i, Len(a))]   \* unknown option
    ELSE LET o == OptOf(a[i], tab)
             n == tab.np[o]
         IN IF i + n > Len(a) THEN [ok |-> FALSE, insts |-> insts, tail |-> <<>>]                      \* too few parameters
            ELSE ParseFrom(a, tab, i + n + 1, Append(insts, <<o, SubSeq(a, i + 1, i + n)>>))
Parse(a, tab) == ParseFrom(a, tab, 2, <<>>)
InstsOf(res, o) == SelectSeq(res.insts, LAMBDA x : x[1] = o)
ParamsOf(res, o) == [k \in 1..Len(InstsOf(res, o)) |-> InstsOf(res, o)[k][2]]

\* ---- input generator: every argument vector of <= MaxArgs tokens with every table ---------------------------
VARIABLES argv, tab, res
Argvs == UNION {[1..n -> Tokens] : n \in 0..MaxArgs}
Init == argv \in Argvs /\ tab \in Tables /\ res = [ok |-> TRUE, insts |-> <<>>, tail |-> <<0>>]
ParseStep == res.tail = <<0>> /\ res' = Parse(<<0>> \o argv, tab) /\ UNCHANGED <<argv, tab>>
Next == ParseStep
Spec == Init /\ [][Next]_<<argv, tab, res>>
Parsed == res.tail # <<0>>
\* sanity of the specification itself: when parsing succeeds every token is an option, one of its parameters, the
\* "--" or in the tail: the lengths add up
Accounted == (Parsed /\ res.ok) =>
    LET used == Len(res.insts) + (IF res.insts = <<>> THEN 0 ELSE
                    LET S[k \in 0..Len(res.insts)] == IF k = 0 THEN 0 ELSE S[k - 1] + Len(res.insts[k][2]) IN S[Len(res.insts)])
    IN used + Len(res.tail) \in {Len(argv), Len(argv) - 1}
Emit == Parsed => PrintT(<<"VH", ToJson([argv |-> argv, np |-> tab.np, short |-> tab.short])>>)
========================================================================
