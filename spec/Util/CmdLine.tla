---------------------------- MODULE CmdLine ----------------------------
(* Abstract meaning of parsec_cmd_line_parse (parsec/utils/cmd_line.c, property C39) on a token alphabet:
     1..NOpt     the long option token "--o<k>"  (declared iff np[k] >= 0, np[k] = number of parameters)
     TShort      the short option token "-s"     (short name of option `short`, 0 = of no option)
     TP, TQ      plain words "p", "q"
     TEnd        the special token "--"
     LBase + n   a single dash followed by letters, one per decimal digit of n (1 = 'a', 2 = 'b', ..): LBase + 1 = "-a",
                 LBase + 132 = "-acb".  Under a table with short = -1 every declared option k has the letter k as its
                 short name (under the other tables no option has a letter).
   argv[1] is the program name (not parsed).  Parsing (ignore_unknown = TRUE) scans from the left: "--" ends the
   options and sends the rest to the tail; a plain word that is not a parameter sends itself and the rest to the
   tail; a declared option takes its np following tokens (whatever they are) as parameters - too few is an error;
   an undeclared option is an error and goes to the tail with the rest.
   Several short names combined in one argument (cmd_line.h: "-abc" can be equivalent to "-a -b -c"; split_shorts):
   the argument stands for its letters given separately, in order, each declared one followed by its parameters, which
   are taken in that order from the tokens following the argument ("-acb A0 B0 B1 r" with a: 1, b: 2, c: 0 parameters
   = "-a A0 -c -b B0 B1 r"); when the tokens run out the missing parameters are an error (TEmpty = the placeholder
   split_shorts inserts); a group whose FIRST letter is no short name is an unknown option.
   Result: [ok, insts (sequence of <<option, parameters>> in order of appearance), tail, exact].  exact = FALSE: a
   parse error after a group was expanded - what the tail holds then (rewritten tokens) is promised nowhere and is not
   compared. *)
EXTENDS Naturals, Integers, Sequences, FiniteSets, TLC, Json
CONSTANTS NOpt, Tables, ArgvSet,     \* Tables: set of records [np |-> <<..>>, short |-> k]; ArgvSet: argument vectors
          Tables2, ArgvSet2          \* a second family (groups of short names) with its own tables
TShort == NOpt + 1
TP == NOpt + 2
TQ == NOpt + 3
TEnd == NOpt + 4
Tokens == 1..TEnd
TEmpty == 999
LBase == 1000
RECURSIVE Digits(_)
Digits(n) == IF n < 10 THEN <<n>> ELSE Append(Digits(n \div 10), n % 10)
Letters(t) == Digits(t - LBase)                       \* for t > LBase
\* the option a letter names under a table (0 = none)
LetterOpt(d, tab) == IF tab.short = -1 /\ d \in 1..NOpt THEN (IF tab.np[d] >= 0 THEN d ELSE 0) ELSE 0
\* the option a token names under a table (0 = none / not an option token)
OptOf(t, tab) == IF t \in 1..NOpt THEN (IF tab.np[t] >= 0 THEN t ELSE 0)
                 ELSE IF t = TShort THEN (IF tab.short \in 1..NOpt /\ tab.np[tab.short] >= 0 THEN tab.short ELSE 0)
                 ELSE IF t > LBase /\ Len(Letters(t)) = 1 THEN LetterOpt(t - LBase, tab) ELSE 0
IsOptToken(t) == t \in 1..NOpt \/ t = TShort \/ t > LBase
IsGroup(t) == t > LBase /\ Len(Letters(t)) >= 2

RECURSIVE Expand(_, _, _, _)
\* split_shorts: the letters ls of a group and the tokens args following it -> the letters given separately, each
\* declared one followed by its parameters taken from args starting at `used`; [out, used]
Expand(ls, args, tab, used) ==
    IF ls = <<>> THEN [out |-> <<>>, used |-> used]
    ELSE LET o == LetterOpt(Head(ls), tab)
             n == IF o = 0 THEN 0 ELSE tab.np[o]
             take == IF n <= Len(args) - used THEN n ELSE Len(args) - used
             rest == Expand(Tail(ls), args, tab, used + take)
         IN [out |-> <<LBase + Head(ls)>> \o SubSeq(args, used + 1, used + take) \o (IF n = take THEN <<>> ELSE [k \in 1..(n - take) |-> TEmpty]) \o rest.out,
             used |-> rest.used]

RECURSIVE ParseFrom(_, _, _, _, _)
\* ex: a group has been expanded before
ParseFrom(a, tab, i, insts, ex) ==
    IF i > Len(a) THEN [ok |-> TRUE, insts |-> insts, tail |-> <<>>, exact |-> TRUE]
    ELSE IF a[i] = TEnd THEN [ok |-> TRUE, insts |-> insts, tail |-> SubSeq(a, i + 1, Len(a)), exact |-> TRUE]
    ELSE IF ~IsOptToken(a[i]) THEN [ok |-> TRUE, insts |-> insts, tail |-> SubSeq(a, i, Len(a)), exact |-> TRUE]   \* plain word
    ELSE IF IsGroup(a[i]) /\ LetterOpt(Letters(a[i])[1], tab) # 0 THEN                                             \* group of short names
         LET x == Expand(Letters(a[i]), SubSeq(a, i + 1, Len(a)), tab, 0)
         IN ParseFrom(SubSeq(a, 1, i - 1) \o x.out \o SubSeq(a, i + 1 + x.used, Len(a)), tab, i, insts, TRUE)
    ELSE IF OptOf(a[i], tab) = 0 THEN [ok |-> FALSE, insts |-> insts, tail |-> SubSeq(a, i, Len(a)), exact |-> ~ex]  \* unknown option
    ELSE LET o == OptOf(a[i], tab)
             n == tab.np[o]
         IN IF i + n > Len(a) THEN [ok |-> FALSE, insts |-> insts, tail |-> <<>>, exact |-> ~ex]                     \* too few parameters
            ELSE IF \E k \in 1..n : a[i + k] = TEmpty THEN [ok |-> FALSE, insts |-> insts, tail |-> <<>>, exact |-> FALSE]
            ELSE ParseFrom(a, tab, i + n + 1, Append(insts, <<o, SubSeq(a, i + 1, i + n)>>), ex)
Parse(a, tab) == ParseFrom(a, tab, 2, <<>>, FALSE)
InstsOf(res, o) == SelectSeq(res.insts, LAMBDA x : x[1] = o)
ParamsOf(res, o) == [k \in 1..Len(InstsOf(res, o)) |-> InstsOf(res, o)[k][2]]

\* ---- input generator: every argument vector of a set with every table (two families) -------------------------
VARIABLES argv, tab, res
\* every argument vector of <= n tokens of the basic alphabet
AllArgvs(n) == UNION {[1..k -> Tokens] : k \in 0..n}
\* a prefix, a group of short names, then every sequence of <= n tokens of `alpha`
GroupArgvs(pres, groups, alpha, n) == {p \o <<g>> \o s : p \in pres, g \in groups, s \in UNION {[1..k -> alpha] : k \in 0..n}}
Init == /\ res = [ok |-> TRUE, insts |-> <<>>, tail |-> <<0>>, exact |-> TRUE]
        /\ \/ argv \in ArgvSet /\ tab \in Tables
           \/ argv \in ArgvSet2 /\ tab \in Tables2
ParseStep == res.tail = <<0>> /\ res' = Parse(<<0>> \o argv, tab) /\ UNCHANGED <<argv, tab>>
Next == ParseStep
Spec == Init /\ [][Next]_<<argv, tab, res>>
Parsed == res.tail # <<0>>
\* sanity of the specification itself: when parsing succeeds every token is an option, one of its parameters, the
\* "--" or in the tail: the lengths add up (a group of k letters that is parsed stands for k options)
ParamCount(r) == IF r.insts = <<>> THEN 0 ELSE
                    LET S[k \in 0..Len(r.insts)] == IF k = 0 THEN 0 ELSE S[k - 1] + Len(r.insts[k][2]) IN S[Len(r.insts)]
Accounted == (Parsed /\ res.ok /\ \A k \in 1..Len(argv) : ~IsGroup(argv[k])) =>
    Len(res.insts) + ParamCount(res) + Len(res.tail) \in {Len(argv), Len(argv) - 1}
\* a successful parse never reports the placeholder of a missing parameter, and reports exact results
NoPlaceholder == (Parsed /\ res.ok) => /\ res.exact
                                       /\ \A k \in 1..Len(res.tail) : res.tail[k] # TEmpty
                                       /\ \A k \in 1..Len(res.insts) : \A j \in 1..Len(res.insts[k][2]) : res.insts[k][2][j] # TEmpty
\* "-xy.." is equivalent to "-x -y ..": a leading group of parameterless letters parses as the letters given separately
GroupOfFlags == \A k \in {j \in 1..Len(argv) : j = 1} :
    (IsGroup(argv[k]) /\ \A j \in 1..Len(Letters(argv[k])) : LetterOpt(Letters(argv[k])[j], tab) # 0 /\ tab.np[Letters(argv[k])[j]] = 0)
    => LET sep == SubSeq(argv, 1, k - 1) \o [j \in 1..Len(Letters(argv[k])) |-> LBase + Letters(argv[k])[j]] \o SubSeq(argv, k + 1, Len(argv))
           r1 == Parse(<<0>> \o argv, tab)
           r2 == Parse(<<0>> \o sep, tab)
       IN r1.ok = r2.ok /\ r1.insts = r2.insts /\ (r1.exact /\ r2.exact => r1.tail = r2.tail)
Emit == Parsed => PrintT(<<"VH", ToJson([argv |-> argv, np |-> tab.np, short |-> tab.short])>>)
========================================================================
