---------------------------- MODULE ArgvStr ----------------------------
(* Input generator for the split / join half of C39: EVERY string of length <= MaxStr over Chars (0 = delimiter),
   and the strings made of fields of given lengths (FieldLens: a set of sequences of field lengths; lengths around the
   size of the buffer parsec_argv_split copies short fields through, in first / middle / last position).
   One state per string; the action Check evaluates the specification operators on it, so that the invariants
   below (the property on the abstract level) are checked for every input before it is handed to the harness. *)
EXTENDS Argv, TLC, Json
CONSTANTS Chars, MaxStr, FieldLens
VARIABLES s, done
\* a field of n characters: a run of the letter 1 closed by the letter 2 (a lost or repeated last character shows)
Run(n) == IF n = 0 THEN <<>> ELSE [j \in 1..n |-> IF j = n THEN 2 ELSE 1]
FieldString(fl) == <<>> \o Join([i \in 1..Len(fl) |-> Run(fl[i])])
Strings == UNION {[1..n -> Chars] : n \in 0..MaxStr} \cup {FieldString(fl) : fl \in FieldLens}
Init == s \in Strings /\ done = FALSE
Check == ~done /\ done' = TRUE /\ UNCHANGED s
Next == Check
Spec == Init /\ [][Next]_<<s, done>>
\* the property, on the specification: join after split gives the string back (modulo dropped empty fields)
RoundTrip == Join(SplitWithEmpty(s)) = s
RoundTripNoEmpty == Join(Split(s)) = Join(NonEmpty(Fields(s))) /\ \A i \in 1..Len(Split(s)) : Split(s)[i] # <<>>
NoDelimInside == \A i \in 1..Len(Fields(s)) : \A j \in 1..Len(Fields(s)[i]) : Fields(s)[i][j] # D
Emit == done => PrintT(<<"VH", ToJson([s |-> s])>>)
========================================================================
