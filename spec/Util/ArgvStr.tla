---------------------------- MODULE ArgvStr ----------------------------
(* Input generator for the split / join half of C39: EVERY string of length <= MaxStr over Chars (0 = delimiter).
   One state per string; the action Check evaluates the specification operators on it, so that the invariants
   below (the property on the abstract level) are checked for every input before it is handed to the harness. *)
EXTENDS Argv, TLC, Json
CONSTANTS Chars, MaxStr
VARIABLES s, done
Strings == UNION {[1..n -> Chars] : n \in 0..MaxStr}
Init == s \in Strings /\ done = FALSE
Check == ~done /\ done' = TRUE /\ UNCHANGED s
Next == Check
Spec == Init /\ [][Next]_<<s, done>>
\* the property, on the specification: join after split gives the string back (modulo dropped empty fields)
RoundTrip == Join(SplitWithEmpty(s)) = s
RoundTripNoEmpty == Join(Split(s)) = Join(NonEmpty(Fields(s))) /\ \A i \in 1..Len(Split(s)) : Split(s)[i] # <<>>
NoDelimInside == \A i \in 1..Len(Fields(s)) : \A j \in 1..Len(Fields(s)[i]) : Fields(s)[i][j] # D
Emit == done => PrintT(<<"VH", ToJson([s |-> s])>>)
========================================================================
