---------------------------- MODULE Vpmap ----------------------------
(* C40  Virtual-process maps match their specification (parsec/vpmap.c, as used by parsec_init).

   A case = one map specification given through the MCA parameter runtime_vpmap, the number of cores the process
   sees (ncores) and the nb_cores argument of parsec_init (req, -1 = all):
     kind "flat"   form: "unset" (no parameter), "flat", "display:flat", "empty", "garbage" (unknown keyword),
                   "nofile" (file: naming a missing file), "rrbad" (rr: without its three numbers)
                   -> the flat map: one virtual process with T threads, T = req bounded by the visible cores
     kind "rr"     rr:n:p:c -> n virtual processes of p threads each
     kind "file"   lines = sequence of [who, nbth, bind]:  who "all" (":nbth:binding"), "me" ("0:..", this process
                   is rank 0), "other" ("1:..", another process), "junk" (a line without colon, malformed);
                   bind "list" | "range" | "mask" | "none" | "bad" (cores outside the machine)
                   -> one virtual process per line that applies to this process (all / me), with nbth threads, in file
                      order; when no line applies nothing is requested (any valid map is acceptable)
   Expected(c) is that specification; the trace module compares it with what parsec_init created and demands that
   every thread's binding lies within the visible cores (or the thread is left unbound) and that no case crashes.
   TLC enumerates the case box (Emit) and checks that Expected is well formed for every case. *)
EXTENDS Naturals, Integers, Sequences, FiniteSets, TLC, Json
CONSTANTS CoreCounts, Reqs, FlatForms, RRn, RRp, RRc, Whos, Nbths, Binds1, BindsN, MaxLines
VARIABLES case, done
vars == <<case, done>>

NoLines == <<>>
Line == [who : Whos, nbth : Nbths, bind : BindsN]
Line1 == [who : Whos, nbth : Nbths, bind : Binds1]
\* one-line files explore every binding form, longer files the forms of BindsN
Files == {<<x>> : x \in Line1} \cup UNION {[1..k -> Line] : k \in 2..MaxLines}
Mk(kind, form, n, p, c, lines, ncores, req) ==
    [kind |-> kind, form |-> form, n |-> n, p |-> p, c |-> c, lines |-> lines, ncores |-> ncores, req |-> req]
Cases == {Mk("flat", f, 0, 0, 0, NoLines, nc, r) : f \in FlatForms, nc \in CoreCounts, r \in Reqs}
         \cup {Mk("rr", "rr", n, p, c, NoLines, nc, -1) : n \in RRn, p \in RRp, c \in RRc, nc \in CoreCounts}
         \cup {Mk("file", "file", 0, 0, 0, ls, nc, -1) : ls \in Files, nc \in CoreCounts}

FlatThreads(c) == IF c.req <= 0 \/ c.req > c.ncores THEN c.ncores ELSE c.req
Applies(ln) == ln.who \in {"all", "me"}
Applicable(c) == SelectSeq(c.lines, Applies)
Requested(c) == c.kind # "file" \/ Applicable(c) # <<>>
Expected(c) == CASE c.kind = "flat" -> [nbvp |-> 1, threads |-> <<FlatThreads(c)>>]
                 [] c.kind = "rr"   -> [nbvp |-> c.n, threads |-> [i \in 1..c.n |-> c.p]]
                 [] c.kind = "file" -> [nbvp |-> Len(Applicable(c)),
                                        threads |-> [i \in 1..Len(Applicable(c)) |-> Applicable(c)[i].nbth]]

Init == case \in Cases /\ done = FALSE
Resolve == ~done /\ done' = TRUE /\ UNCHANGED case
Next == Resolve
Spec == Init /\ [][Next]_vars
WellFormed == Requested(case) => LET e == Expected(case)
                                 IN e.nbvp >= 1 /\ Len(e.threads) = e.nbvp /\ \A i \in 1..e.nbvp : e.threads[i] >= 1
Emit == done => PrintT(<<"VH", ToJson(case)>>)
=======================================================================
