---------------------------- MODULE CmdLineTrace ----------------------------
(* Trace validation for C39 (cmd_line.c).  One event per parsed command line:
     {"e":"parse","argv":[tokens],"np":[np1..npN] (-1 = not declared),"short":K,"rc":0|1 (1 = PARSEC_ERROR),
      "ninsts":[n1..nN] (parsec_cmd_line_get_ninsts per option, 0 if not declared),
      "taken":[0|1 ..] (parsec_cmd_line_is_taken),
      "params":[[[tok,..] per instance] per option] (parsec_cmd_line_get_param(opt, inst, idx)),
      "tail":[tokens] (parsec_cmd_line_get_tail)}
   tokens as in CmdLine.tla (LBase + n = "-<letters>"; short = -1: the declared options have their letter as short name);
   checked against Parse of CmdLine.tla: every declared option is reported with its instances and parameters, the
   remaining arguments are the tail, errors are flagged. *)
EXTENDS CmdLine, IOUtils
VARIABLES l
TraceLog == ndJsonDeserialize(IOEnv.TRACE)
Ev == TraceLog[l]
IsEv(e) == l <= Len(TraceLog) /\ Ev.e = e /\ l' = l + 1
TInit == l = 1 /\ argv = <<>> /\ tab = [np |-> <<>>, short |-> 0] /\ res = [ok |-> TRUE, insts |-> <<>>, tail |-> <<>>, exact |-> TRUE]
TReset == IsEv("Reset") /\ UNCHANGED <<argv, tab, res>>
TParse == /\ IsEv("parse") /\ UNCHANGED <<argv, tab, res>>
          /\ LET t == [np |-> Ev.np, short |-> Ev.short]
                 r == Parse(<<0>> \o Ev.argv, t)
             IN /\ (Ev.rc = 0) = r.ok
                /\ r.exact => Ev.tail = r.tail
                /\ \A o \in 1..NOpt :
                      /\ Ev.ninsts[o] = Len(InstsOf(r, o))
                      /\ (Ev.taken[o] = 1) = (Len(InstsOf(r, o)) > 0)
                      /\ Ev.params[o] = ParamsOf(r, o)
TNext == TReset \/ TParse
TSpec == TInit /\ [][TNext]_<<l, argv, tab, res>>
AcceptExit == (l > Len(TraceLog)) => (PrintT("VERIF-ACCEPTED") /\ TLCSet("exit", TRUE))
=============================================================================
