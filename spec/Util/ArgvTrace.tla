---------------------------- MODULE ArgvTrace ----------------------------
(* Trace validation for C39 (argv.c).  Events logged by the harness:
     {"e":"split","s":[chars],"plain":[[..],..],"withempty":[[..],..],"jplain":[chars],"jwithempty":[chars],"count":N}
        plain = parsec_argv_split(s), withempty = parsec_argv_split_with_empty(s), j* = parsec_argv_join of them,
        count = parsec_argv_count(withempty)
     {"e":"edit","op":OP,"a":A,"b":B,"w":[chars],"src":[[..],..],"rc":RC,"argv":[[..],..],"argc":N,"copy":[[..],..],
      "range":[chars]}   the vector after the operation, the argc kept by the caller, parsec_argv_copy of it,
                         parsec_argv_join_range(argv, 1, 3)
   TLC checks every result against the operators of Argv.tla (split, split_with_empty, join: the round trip of the
   property; insert / delete / append / prepend change exactly the addressed positions). *)
EXTENDS Argv, TLC, Json, IOUtils
VARIABLES l, v
TraceLog == ndJsonDeserialize(IOEnv.TRACE)
Ev == TraceLog[l]
IsEv(e) == l <= Len(TraceLog) /\ Ev.e = e /\ l' = l + 1
TInit == l = 1 /\ v = <<>>
TReset == IsEv("Reset") /\ v' = <<>>
TSplit == /\ IsEv("split") /\ UNCHANGED v
          /\ Ev.plain = Split(Ev.s)
          /\ Ev.withempty = SplitWithEmpty(Ev.s)
          /\ Ev.jplain = Join(Ev.plain) /\ Ev.jwithempty = Join(Ev.withempty)
          /\ Ev.jwithempty = Ev.s                                  \* the round trip
          /\ Ev.count = Len(Ev.withempty)
TEdit == /\ IsEv("edit")
         /\ CASE Ev.op = "append" -> v' = AppendArg(v, Ev.w) /\ Ev.rc = 0
              [] Ev.op = "prepend" -> v' = PrependArg(v, Ev.w) /\ Ev.rc = 0
              [] Ev.op = "append_unique" -> v' = AppendUnique(v, Ev.w) /\ Ev.rc = 0
              [] Ev.op = "insert" -> v' = Insert(v, Ev.a, Ev.src) /\ Ev.rc = 0
              [] Ev.op = "insert_element" -> v' = Insert(v, Ev.a, <<Ev.w>>) /\ Ev.rc = 0
              [] Ev.op = "delete" -> v' = Delete(v, Ev.a, Ev.b) /\ Ev.rc = 0
         /\ Ev.argv = v' /\ Ev.copy = v'
         \* the caller's argc follows the vector (deleting beyond the end is outside the documented use)
         /\ (Ev.op = "delete" /\ Ev.a + Ev.b > Len(v)) \/ Ev.argc = Len(v')
         /\ Ev.range = JoinRange(v', 1, 3)
TNext == TReset \/ TSplit \/ TEdit
TSpec == TInit /\ [][TNext]_<<l, v>>
AcceptExit == (l > Len(TraceLog)) => (PrintT("VERIF-ACCEPTED") /\ TLCSet("exit", TRUE))
==========================================================================
