---------------------------- MODULE VpmapTrace ----------------------------
(* Trace validation for C40 (harness/vpmap/vpmap_probe.c, one process per case).
     {"e":"map","id":N,"c":<case>,"nbvp":V,"threads":[..],"vthreads":[..],"bind":[[..],..],"ncores":N,"total":T}
     {"e":"Crash","id":N,"c":<case>,"rc":..}          the process died or hung inside parsec_init
     {"e":"Reset"}
   Level_ "prop": a map event must satisfy Ok; a Crash event is never explainable (the verdict).
   Level_ "report": nothing blocks; the numbers of the executions that are not Ok / crashed are printed at the end
                   (cheap location of rejected cases; the reported ones are then validated alone with "prop"). *)
EXTENDS Vpmap, IOUtils
CONSTANTS Level_
VARIABLES l, nex, rej, nrej
tvars == <<case, done, l, nex, rej, nrej>>
TraceLog == ndJsonDeserialize(IOEnv.TRACE)
Ev == TraceLog[l]
Ok(ev) ==
    /\ ev.ncores = ev.c.ncores                                             \* the process saw the intended machine
    /\ ev.nbvp >= 1 /\ Len(ev.threads) = ev.nbvp /\ Len(ev.bind) = ev.nbvp /\ ev.vthreads = ev.threads
    /\ \A v \in 1..ev.nbvp : /\ ev.threads[v] >= 1 /\ Len(ev.bind[v]) = ev.threads[v]
                             /\ \A t \in 1..Len(ev.bind[v]) : ev.bind[v][t] \in -1..(ev.ncores - 1)
    \* the flat map itself only names cores that exist (a map file may name anything: those threads stay unbound)
    /\ ev.c.kind = "flat" => \A v \in 1..ev.nbvp : \A t \in 1..Len(ev.aff[v]) : ev.aff[v][t] \in -1..(ev.ncores - 1)
    /\ Requested(ev.c) => (ev.nbvp = Expected(ev.c).nbvp /\ ev.threads = Expected(ev.c).threads)
Flag(bad) == /\ rej' = IF bad /\ nrej < 40 THEN rej \cup {nex} ELSE rej
             /\ nrej' = IF bad THEN nrej + 1 ELSE nrej
TInit == case = (CHOOSE c \in Cases : TRUE) /\ done = FALSE /\ l = 1 /\ nex = 1 /\ rej = {} /\ nrej = 0
TMap == /\ l <= Len(TraceLog) /\ Ev.e = "map" /\ l' = l + 1
        /\ Level_ = "prop" => Ok(Ev)
        /\ Flag(Level_ = "report" /\ ~Ok(Ev))
        /\ UNCHANGED <<case, done, nex>>
TCrash == /\ l <= Len(TraceLog) /\ Ev.e = "Crash" /\ l' = l + 1 /\ Level_ = "report"
          /\ Flag(TRUE) /\ UNCHANGED <<case, done, nex>>
TReset == /\ l <= Len(TraceLog) /\ Ev.e = "Reset" /\ l' = l + 1 /\ nex' = nex + 1 /\ UNCHANGED <<case, done, rej, nrej>>
TNext == TMap \/ TCrash \/ TReset
TSpec == TInit /\ [][TNext]_tvars
AcceptExit == (l > Len(TraceLog)) =>
                 (PrintT("VERIF-REJECTS " \o ToJson([n |-> nrej, first |-> rej])) /\ PrintT("VERIF-ACCEPTED") /\ TLCSet("exit", TRUE))
===========================================================================
