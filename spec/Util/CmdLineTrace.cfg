SPECIFICATION TSpec
CONSTANTS NOpt = 3
 Tables = {}
 ArgvSet = {}
 Tables2 = {}
 ArgvSet2 = {}
INVARIANT AcceptExit
CHECK_DEADLOCK FALSE
