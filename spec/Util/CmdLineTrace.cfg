SPECIFICATION TSpec
CONSTANTS NOpt = 3
 MaxArgs = 0
 Tables = {}
INVARIANT AcceptExit
CHECK_DEADLOCK FALSE
