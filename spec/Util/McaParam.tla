---------------------------- MODULE McaParam ----------------------------
(* C38  Runtime (MCA) parameters resolve by documented precedence (parsec/utils/mca_param.c, mca_param_cmd_line.c).

   A case = which sources carry a value for one parameter:
      ovr            an explicit override (the parsec_mca_param_set_ functions)
      cmdP (0..2)    number of --mca options naming the parameter          cmdS (0..1)  --mca naming its synonym
      envP / envS    PARSEC_MCA_<name> / PARSEC_MCA_<synonym> present in the environment of the process
      fileP / fileS  entry for the name / the synonym in the parameter file; fileSfirst: the synonym's entry comes first
      (the default always exists); syn: a synonym is registered; type: int | sizet | string
      rereg          the parameter is registered a second time under the same name (same default), before and again after
                     the override: a second registration does not change the effective value (the sources are the same)
   Values are named by the tag of their source; the trace specification maps tags to the concrete strings.

   Property (properties.jsonl):  override  >  --mca or environment (incl. synonyms)  >  parameter file  >  default;
   repeated --mca options for one parameter are joined with commas.  Between the sources of one level the property
   does not choose: AllowedTags is the set of sources of the winning level that are present.

   Code (Predicted): parsec_init turns every --mca option into the environment variable (overwriting it, repeated
   options joined by process_arg); param_lookup tries lookup_override, lookup_env (primary name, then the synonyms in
   registration order), lookup_file (first entry of the file list matching the name or a synonym - but the lookup done
   by the registration itself, before any synonym exists, already caches the entry of the name), lookup_default.
   TLC evaluates both over the whole box: PredictedAllowed = the transcription resolves inside the property. *)
EXTENDS Naturals, Sequences, FiniteSets, TLC, Json
CONSTANTS Types, MaxOrder
VARIABLES case, pair, done
vars == <<case, pair, done>>

Box == [type : Types, syn : BOOLEAN, ovr : BOOLEAN, cmdP : 0..2, cmdS : 0..1,
        envP : BOOLEAN, envS : BOOLEAN, fileP : BOOLEAN, fileS : BOOLEAN, fileSfirst : BOOLEAN, rereg : BOOLEAN]
Wellformed(c) == /\ (~c.syn => (c.cmdS = 0 /\ ~c.envS /\ ~c.fileS))
                 /\ (c.fileSfirst => (c.fileP /\ c.fileS))
Cases == {c \in Box : Wellformed(c)}

\* ---- the property ----------------------------------------------------------------------------------------------
EnvTags(c) == (IF c.cmdP > 0 THEN {"cmdP"} ELSE {}) \cup (IF c.cmdS > 0 THEN {"cmdS"} ELSE {})
              \cup (IF c.envP THEN {"envP"} ELSE {}) \cup (IF c.envS THEN {"envS"} ELSE {})
FileTags(c) == (IF c.fileP THEN {"fileP"} ELSE {}) \cup (IF c.fileS THEN {"fileS"} ELSE {})
Level(c) == IF c.ovr THEN "override" ELSE IF EnvTags(c) # {} THEN "env" ELSE IF FileTags(c) # {} THEN "file" ELSE "default"
AllowedTags(c) == CASE Level(c) = "override" -> {"ovr"}
                    [] Level(c) = "env"      -> EnvTags(c)
                    [] Level(c) = "file"     -> FileTags(c)
                    [] OTHER                 -> {"dflt"}

\* ---- the code ----------------------------------------------------------------------------------------------------
\* environment after parsec_init processed the command line (setenv with overwrite)
EnvPrimary(c) == IF c.cmdP > 0 THEN "cmdP" ELSE IF c.envP THEN "envP" ELSE "none"
EnvSynonym(c) == IF c.cmdS > 0 THEN "cmdS" ELSE IF c.envS THEN "envS" ELSE "none"
LookupEnv(c) == IF EnvPrimary(c) # "none" THEN EnvPrimary(c) ELSE EnvSynonym(c)
\* the registration looks the parameter up (no synonym yet): unless the primary environment variable exists, the file
\* entry of the name is cached then, whatever the order of the entries (when the primary environment variable exists
\* the file level is never reached anyway)
LookupFile(c) == IF c.fileP THEN "fileP" ELSE IF c.fileS THEN "fileS" ELSE "none"
Predicted(c) == IF c.ovr THEN "ovr"
                ELSE IF LookupEnv(c) # "none" THEN LookupEnv(c)
                ELSE IF LookupFile(c) # "none" THEN LookupFile(c) ELSE "dflt"
SourceOf(tag) == CASE tag = "ovr" -> "override" [] tag \in {"cmdP", "cmdS", "envP", "envS"} -> "env"
                   [] tag \in {"fileP", "fileS"} -> "file" [] OTHER -> "default"

\* ---- two parameters whose names are in prefix relation ------------------------------------------------------------
\* A pair case: parameters "A" (name N) and "B" (name N_x, so that N is a proper prefix of it), the sequence of --mca
\* options of the command line (order[i] = which of the two the i-th option names: both orders, interleaved, repeated),
\* the type of both, fileB: B also has a parameter-file entry.  Two different names are two different parameters
\* whatever their spelling: each one resolves as the single-parameter case made of ITS OWN options (OwnCase), the joined
\* value being the one of its own options only (OwnPositions), in the order given.
Who == {"A", "B"}
PairBox == [order : UNION {[1..n -> Who] : n \in 0..MaxOrder}, type : Types, fileB : BOOLEAN]
NoPair == [order |-> <<>>, type |-> "none", fileB |-> FALSE]
OwnPositions(p, w) == SelectSeq([i \in 1..Len(p.order) |-> i], LAMBDA i : p.order[i] = w)
OwnCase(p, w) == [type |-> p.type, syn |-> FALSE, ovr |-> FALSE, cmdP |-> Len(OwnPositions(p, w)), cmdS |-> 0,
                  envP |-> FALSE, envS |-> FALSE, fileP |-> (w = "B" /\ p.fileB), fileS |-> FALSE, fileSfirst |-> FALSE,
                  rereg |-> FALSE]

\* ---- evaluation over the box ---------------------------------------------------------------------------------
Init == /\ done = FALSE
        /\ \/ case \in Cases /\ pair = NoPair
           \/ case = (CHOOSE c \in Cases : TRUE) /\ pair \in PairBox
Resolve == ~done /\ done' = TRUE /\ UNCHANGED <<case, pair>>
Next == Resolve
Spec == Init /\ [][Next]_vars
TypeOK == case \in Cases /\ pair \in PairBox \cup {NoPair}
\* every option of a pair's command line belongs to exactly one of the two parameters; each of them resolves from its own
\* options if it has any, else from its file entry, else from its default
PairIndependent == pair # NoPair =>
    /\ Len(OwnPositions(pair, "A")) + Len(OwnPositions(pair, "B")) = Len(pair.order)
    /\ \A w \in Who : LET c == OwnCase(pair, w) IN
          /\ AllowedTags(c) = (IF \E i \in 1..Len(pair.order) : pair.order[i] = w THEN {"cmdP"}
                               ELSE IF w = "B" /\ pair.fileB THEN {"fileP"} ELSE {"dflt"})
          /\ Predicted(c) \in AllowedTags(c)
PredictedAllowed == Predicted(case) \in AllowedTags(case) /\ SourceOf(Predicted(case)) = Level(case)
\* adding a source of a higher level always moves the result to that level; removing every source leaves the default
Precedence == /\ (case.ovr => Level(case) = "override")
              /\ (~case.ovr /\ (case.cmdP > 0 \/ case.cmdS > 0 \/ case.envP \/ case.envS) => Level(case) = "env")
              /\ (AllowedTags(case) # {})
Emit == done => PrintT(<<"VH", IF pair = NoPair THEN ToJson(case) ELSE ToJson(pair)>>)
=========================================================================
