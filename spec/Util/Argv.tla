---------------------------- MODULE Argv ----------------------------
(* Abstract meaning of parsec/utils/argv.c (property C39): strings are sequences of small naturals, the
   delimiter is the character 0; an argument vector is a sequence of strings.  Pure operators, shared by the
   behaviour generators (ArgvStr, ArgvEdit) and the trace specification (ArgvTrace). *)
EXTENDS Naturals, Integers, Sequences, FiniteSets
D == 0                                   \* the delimiter character

RECURSIVE Fields(_)
\* all fields of s: the maximal delimiter-free segments, empty ones included (#delimiters + 1 fields)
Fields(s) == IF \A i \in 1..Len(s) : s[i] # D THEN <<s>>
             ELSE LET k == CHOOSE i \in 1..Len(s) : s[i] = D /\ \A j \in 1..(i - 1) : s[j] # D
                  IN <<SubSeq(s, 1, k - 1)>> \o Fields(SubSeq(s, k + 1, Len(s)))
NonEmpty(v) == SelectSeq(v, LAMBDA f : f # <<>>)
\* parsec_argv_split: the non-empty fields; parsec_argv_split_with_empty: all fields (no field for the empty string)
Split(s) == NonEmpty(Fields(s))
SplitWithEmpty(s) == IF s = <<>> THEN <<>> ELSE Fields(s)
RECURSIVE Join(_)
\* parsec_argv_join: the strings separated by the delimiter
Join(v) == IF v = <<>> THEN <<>> ELSE IF Len(v) = 1 THEN v[1] ELSE v[1] \o <<D>> \o Join(Tail(v))
JoinRange(v, a, b) == IF a > Len(v) THEN <<>> ELSE Join(SubSeq(v, a + 1, IF b < Len(v) THEN b ELSE Len(v)))   \* 0-based [a, b)

\* ---- editing an argument vector (positions are 0-based as in C) ---------------------------------------------
AppendArg(v, w) == v \o <<w>>
PrependArg(v, w) == <<w>> \o v
AppendUnique(v, w) == IF \E i \in 1..Len(v) : v[i] = w THEN v ELSE v \o <<w>>
\* parsec_argv_insert(target, start, source): start beyond the end appends
Insert(v, start, src) == IF start > Len(v) THEN v \o src ELSE SubSeq(v, 1, start) \o src \o SubSeq(v, start + 1, Len(v))
\* parsec_argv_delete(argc, argv, start, num): exactly the positions start .. start+num-1 that exist
Delete(v, start, num) == IF num = 0 \/ start > Len(v) THEN v
                         ELSE SubSeq(v, 1, start) \o SubSeq(v, start + num + 1, Len(v))
=====================================================================
