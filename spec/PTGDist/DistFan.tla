---------------------------- MODULE DistFan ----------------------------
(* Semantics of the PTG program family harness/ptgdist/distfan.jdf (property C05).
   A configuration g is a record [np, w1, nq, s, nodes, pmul, poff]:
     P(k), k < np        RW X <- A(k)            -> U C(k*w1 .. k*w1+w1-1), -> A(k)
                         RW X2 <- A(x2base+k)    -> U2 C(k*w1 .. k*w1+w1-1), -> A(x2base+k)   (same remote destinations as X)
     Q(k), k < nq        RW Y <- A(np+k)         -> V C(m) for m = s*k, s*k + s*nq, ... < nc, -> A(np+k)
     C(m), m < nc        READ U <- X P(m / w1) ; READ U2 <- X2 P(m / w1) ; READ V <- (m % s = 0) ? Y Q((m/s) % nq) : NULL
                         RW Z <- A(np+nq+m)      -> Z D(m), -> A(np+nq+m)
     D(m), m < nc        READ Z <- Z C(m) ; RW T <- (m = 0) ? A(np+nq+nc) : T D(m-1)
                                                 -> (m < nc-1) ? T D(m+1) : A(np+nq+nc+m)
   A(i) initially holds 1000+i and lives on process (i*pmul + poff) % nodes; every task runs on the process of the
   element named after ':' in the JDF.  The VALUES are a function of the graph only: that is the property. *)
EXTENDS Naturals, Integers, Sequences, FiniteSets
Mod == 1000003
F(x, j, k) == (x * 31 + j * 7 + k * 13 + 5) % Mod
G(z, u, v, m) == (z * 17 + u * 3 + v * 5 + m * 11 + 1) % Mod

NC(g) == g.np * g.w1
X2Base(g) == ((g.np + g.nq + 2 * NC(g) + g.nodes - 1) \div g.nodes) * g.nodes   \* elements of P's second flow: X2Base+k lives where A(k) lives
NA(g) == X2Base(g) + g.np
T(c, k) == [c |-> c, k |-> k]
Tasks(g) == {T("P", k) : k \in 0..(g.np - 1)} \cup {T("Q", k) : k \in 0..(g.nq - 1)}
            \cup {T("C", m) : m \in 0..(NC(g) - 1)} \cup {T("D", m) : m \in 0..(NC(g) - 1)}
\* collection element naming the task's placement
Elem(g, t) == CASE t.c = "P" -> t.k
                [] t.c = "Q" -> g.np + t.k
                [] t.c = "C" -> g.np + g.nq + t.k
                [] t.c = "D" -> g.np + g.nq + NC(g) + t.k
Owner(g, i) == (i * g.pmul + g.poff) % g.nodes
Place(g, t) == Owner(g, Elem(g, t))
A0(i) == 1000 + i
X2Val(g, k) == F(A0(X2Base(g) + k), 3, k)      \* what P(k) writes on its second flow (a function of the initial value only)

UsesQ(g, m) == m % g.s = 0
QOf(g, m) == T("Q", (m \div g.s) % g.nq)
Preds(g, t) == CASE t.c \in {"P", "Q"} -> {}
                 [] t.c = "C" -> {T("P", t.k \div g.w1)} \cup (IF UsesQ(g, t.k) THEN {QOf(g, t.k)} ELSE {})
                 [] t.c = "D" -> {T("C", t.k)} \cup (IF t.k = 0 THEN {} ELSE {T("D", t.k - 1)})
\* the three values a task body reads, given the outputs `out` of the tasks that already ended
In(g, t, out) == CASE t.c = "P" -> <<A0(t.k), A0(X2Base(g) + t.k), 0, 0>>
                   [] t.c = "Q" -> <<A0(g.np + t.k), 0, 0, 0>>
                   [] t.c = "C" -> <<A0(g.np + g.nq + t.k), out[T("P", t.k \div g.w1)],
                                     IF UsesQ(g, t.k) THEN out[QOf(g, t.k)] ELSE 0, X2Val(g, t.k \div g.w1)>>
                   [] t.c = "D" -> <<IF t.k = 0 THEN A0(g.np + g.nq + NC(g)) ELSE out[T("D", t.k - 1)], out[T("C", t.k)], 0, 0>>
Out(t, in) == CASE t.c = "P" -> F(in[1], 1, t.k)
                [] t.c = "Q" -> F(in[1], 2, t.k)
                [] t.c = "C" -> G(in[1], in[2], in[3] + 7 * in[4], t.k)
                [] t.c = "D" -> G(in[1], in[2], 0, t.k)
\* elements with a declared write-back, and the task whose output they finally hold
HasFinal(g, i) == i < g.np + g.nq + NC(g) \/ i = g.np + g.nq + 2 * NC(g) - 1 \/ i >= X2Base(g)
Writer(g, i) == IF i < g.np THEN T("P", i)
                ELSE IF i < g.np + g.nq THEN T("Q", i - g.np)
                ELSE IF i < g.np + g.nq + NC(g) THEN T("C", i - g.np - g.nq)
                ELSE IF i < X2Base(g) THEN T("D", NC(g) - 1)
                ELSE T("P", i - X2Base(g))
\* final value of element i given the outputs
FinalVal(g, i, outOf(_)) == IF i >= X2Base(g) THEN X2Val(g, i - X2Base(g)) ELSE outOf(Writer(g, i))
========================================================================
