---------------------------- MODULE DistFanExec ----------------------------
(* Abstract execution machine of the distfan family: tasks start when their predecessors ended, in any order, on
   any number of processes.  TLC checks that every complete execution computes the same values (Deterministic)
   whatever the order -- hence whatever the process count, placement and message paths, which only restrict
   the orders -- and that tasks run once, after their predecessors. *)
EXTENDS DistFan, TLC
CONSTANTS Cfg
VARIABLES started, ended, out
vars == <<started, ended, out>>
Init == started = {} /\ ended = {} /\ out = [t \in Tasks(Cfg) |-> -1]
Start(t) == /\ t \notin started /\ Preds(Cfg, t) \subseteq ended
            /\ started' = started \cup {t} /\ UNCHANGED <<ended, out>>
End(t) == /\ t \in started \ ended
          /\ ended' = ended \cup {t}
          /\ out' = [out EXCEPT ![t] = Out(t, In(Cfg, t, out))]
          /\ UNCHANGED started
Next == \E t \in Tasks(Cfg) : Start(t) \/ End(t)
Spec == Init /\ [][Next]_vars
\* reference values: a fixed sequential order (P, Q, C, D by increasing index)
RECURSIVE SeqRun(_, _)
Order == [i \in 1..Cardinality(Tasks(Cfg)) |->
            LET np == Cfg.np  nq == Cfg.nq  nc == NC(Cfg) IN
            IF i <= np THEN T("P", i - 1) ELSE IF i <= np + nq THEN T("Q", i - np - 1)
            ELSE IF i <= np + nq + nc THEN T("C", i - np - nq - 1) ELSE T("D", i - np - nq - nc - 1)]
SeqRun(i, o) == IF i > Cardinality(Tasks(Cfg)) THEN o
                ELSE SeqRun(i + 1, [o EXCEPT ![Order[i]] = Out(Order[i], In(Cfg, Order[i], o))])
SeqVal == SeqRun(1, [t \in Tasks(Cfg) |-> -1])
Deterministic == \A t \in ended : out[t] = SeqVal[t]
OrderOK == \A t \in started : Preds(Cfg, t) \subseteq ended
============================================================================
