---------------------------- MODULE DistFanTrace ----------------------------
(* Trace validation for C05.  Each line of the trace file is ONE execution of the real runtime:
     {"cfg":{"np":..,"w1":..,"nq":..,"s":..,"nodes":..,"pmul":..,"poff":..}, "ranks":[[events of rank 0],[rank 1],...]}
   events (in the stamp order of their process):
     {"e":"Start","p":P,"c":"C","k":K,"in":[a,b,c]}  {"e":"End","p":P,"c":..,"k":..,"out":V}
     {"e":"Final","p":P,"i":I,"v":V}                 {"e":"Done","p":P}
   One cursor per process; the next event of a process is consumed when the specification allows it (a task starts
   only on its own process, once, after all its predecessors -- local or remote -- ended, having read exactly the values
   the graph determines; finals hold the writer's output; a process is done when all its tasks ran).  Consuming an event
   never disables another one, so always advancing the lowest process that can move is complete. *)
EXTENDS DistFan, Json, IOUtils, TLC
VARIABLES x, cur, started, ended, out, finals, done
tvars == <<x, cur, started, ended, out, finals, done>>
TraceLog == ndJsonDeserialize(IOEnv.TRACE)
Cfg == TraceLog[x].cfg
Ranks == 0..(Cfg.nodes - 1)
LogOf(p) == TraceLog[x].ranks[p + 1]
HasNext(p) == cur[p] <= Len(LogOf(p))
Ev(p) == LogOf(p)[cur[p]]

Fresh == /\ cur = [p \in 0..15 |-> 1] /\ started = {} /\ ended = {} /\ out = <<>> /\ finals = {} /\ done = {}
TInit == x = 1 /\ Fresh

OutOr(t) == IF t \in DOMAIN out THEN out[t] ELSE -1
OutFn == [t \in Tasks(Cfg) |-> OutOr(t)]

CanStart(p) == LET e == Ev(p)  t == T(e.c, e.k) IN
               /\ e.e = "Start" /\ e.p = p /\ t \in Tasks(Cfg) /\ t \notin started /\ Place(Cfg, t) = p
               /\ Preds(Cfg, t) \subseteq ended
               /\ e.in = In(Cfg, t, OutFn)
CanEnd(p) == LET e == Ev(p)  t == T(e.c, e.k) IN
             /\ e.e = "End" /\ e.p = p /\ t \in started \ ended /\ Place(Cfg, t) = p
             /\ e.out = Out(t, In(Cfg, t, OutFn))
CanFinal(p) == LET e == Ev(p) IN
               /\ e.e = "Final" /\ e.p = p /\ e.i \in 0..(NA(Cfg) - 1) /\ HasFinal(Cfg, e.i) /\ Owner(Cfg, e.i) = p
               /\ e.i \notin finals /\ Writer(Cfg, e.i) \in ended /\ e.v = FinalVal(Cfg, e.i, OutOr)
CanDone(p) == LET e == Ev(p) IN
              /\ e.e = "Done" /\ e.p = p /\ p \notin done
              /\ \A t \in Tasks(Cfg) : Place(Cfg, t) = p => t \in ended
              /\ \A i \in 0..(NA(Cfg) - 1) : (HasFinal(Cfg, i) /\ Owner(Cfg, i) = p) => i \in finals
Can(p) == HasNext(p) /\ (CanStart(p) \/ CanEnd(p) \/ CanFinal(p) \/ CanDone(p))

Consume(p) == LET e == Ev(p)  t == T(e.c, e.k) IN
    /\ cur' = [cur EXCEPT ![p] = @ + 1]
    /\ CASE e.e = "Start" -> started' = started \cup {t} /\ UNCHANGED <<ended, out, finals, done>>
         [] e.e = "End"   -> /\ ended' = ended \cup {t} /\ out' = [u \in DOMAIN out \cup {t} |-> IF u = t THEN e.out ELSE out[u]]
                             /\ UNCHANGED <<started, finals, done>>
         [] e.e = "Final" -> finals' = finals \cup {e.i} /\ UNCHANGED <<started, ended, out, done>>
         [] e.e = "Done"  -> done' = done \cup {p} /\ UNCHANGED <<started, ended, out, finals>>

TStep == /\ x <= Len(TraceLog)
         /\ \E p \in Ranks : /\ Can(p) /\ \A q \in Ranks : q < p => ~Can(q)
                             /\ Consume(p)
         /\ UNCHANGED x
\* next execution: every process terminated (logged Done) and every log is exhausted
TNextExec == /\ x <= Len(TraceLog)
             /\ Len(TraceLog[x].ranks) = Cfg.nodes
             /\ done = Ranks /\ \A p \in Ranks : ~HasNext(p)
             /\ x' = x + 1
             /\ cur' = [p \in 0..15 |-> 1] /\ started' = {} /\ ended' = {} /\ out' = <<>> /\ finals' = {} /\ done' = {}
TNext == TStep \/ TNextExec
TSpec == TInit /\ [][TNext]_tvars
AcceptExit == (x > Len(TraceLog)) => (PrintT("VERIF-ACCEPTED") /\ TLCSet("exit", TRUE))
\* every value consumed so far is the one the graph determines (redundant with the guards; kept as an explicit invariant)
NoDoubleRun == started \subseteq Tasks(IF x <= Len(TraceLog) THEN Cfg ELSE [np |-> 0, w1 |-> 0, nq |-> 0, s |-> 1, nodes |-> 1, pmul |-> 0, poff |-> 0])
=============================================================================
