SPECIFICATION TSpec
CONSTANTS CheckOrder = TRUE
 CheckValues = TRUE
INVARIANT AcceptExit
CHECK_DEADLOCK FALSE
