------------------------------- MODULE KeySem -------------------------------
(* Task keys of PTG task classes (C23), as jdf2c.c generates them.

   jdf_generate_internal_init (need_min_max): for every parameter defined by a range, each time the loop header is
     reached (once per assignment of the outer loops): min = imin(min, imin(start, end)), max = imax(max, imax(start,
     end)) with min initialised to 0x7fffffff and max to 0; afterwards  <class>_<param>_min = min and
     <class>_<param>_range = max - min + 1.  A parameter defined by an expression gets min = 0, range = 1.
   jdf_generate_hashfunction_for: key = sum over the parameters, in the order of the locals, of
     (value - min) * product of the ranges of the previous parameters.
   jdf_generate_deps_key_functions (key_print): the inverse: value = key % range + min ; key = key / range, printed as
     "<class>(v1, v2, ...)".

   KeyInjective is the property-level demand (two instances of a class never share a key); PrintNames says the
   inverse gives back the parameters, i.e. the printed key names the instance. *)
EXTENDS JDFSem

IMax == 2147483647
Min2(a, b) == IF a < b THEN a ELSE b
Max2(a, b) == IF a > b THEN a ELSE b
RECURSIVE FoldMin(_, _), FoldMax(_, _)
FoldMin(f, n) == IF n = 0 THEN IMax ELSE Min2(f[n], FoldMin(f, n - 1))
FoldMax(f, n) == IF n = 0 THEN 0 ELSE Max2(f[n], FoldMax(f, n - 1))

\* locals of the class that are parameters, in the order of the locals
KeyLocals(cls) == SelectSeq([i \in 1..Len(cls.locals) |-> i], LAMBDA i : IsParam(cls, cls.locals[i].name))

\* [min, range] collected for the local number li (a parameter) of class c
MinRange(prog, c, li) ==
    LET cls == Class(prog, c) L == cls.locals[li] IN
    IF L.kind # "range" THEN [min |-> 0, range |-> 1]
    ELSE LET outer == EnvSeq(SubSeq(cls.locals, 1, li - 1), 1, prog.globals)      \* every time the header is reached
             los == [j \in 1..Len(outer) |-> Min2(Eval(L.lo, outer[j]), Eval(L.hi, outer[j]))]
             his == [j \in 1..Len(outer) |-> Max2(Eval(L.lo, outer[j]), Eval(L.hi, outer[j]))]
             mn == FoldMin(los, Len(outer)) mx == FoldMax(his, Len(outer))
         IN [min |-> mn, range |-> mx - mn + 1]

ClassRadix(prog, c) == LET kl == KeyLocals(Class(prog, c)) IN [i \in 1..Len(kl) |-> MinRange(prog, c, kl[i])]

RECURSIVE KeySum(_, _, _, _, _)
KeySum(vals, radix, i, mult, acc) ==
    IF i > Len(vals) THEN acc
    ELSE KeySum(vals, radix, i + 1, mult * radix[i].range, acc + (vals[i] - radix[i].min) * mult)

\* values of the key locals of a task, in the order of the locals
KeyVals(prog, t) == LET cls == Class(prog, t[1]) kl == KeyLocals(cls) env == EnvOf(prog, t)
                    IN [i \in 1..Len(kl) |-> env[cls.locals[kl[i]].name]]
Key(prog, radix, t) == KeySum(KeyVals(prog, t), radix[t[1]], 1, 1, 0)

RECURSIVE Invert(_, _, _)
Invert(key, radix, i) == IF i > Len(radix) THEN <<>>
                         ELSE <<(key % radix[i].range) + radix[i].min>> \o Invert(key \div radix[i].range, radix, i + 1)

Radix(prog) == [c \in 0..(NClasses(prog) - 1) |->
                   IF Len(ClassEnvs(prog, c)) = 0 THEN <<>> ELSE ClassRadix(prog, c)]       \* empty classes have no keys

KeyInjective(prog) == LET S == Space(prog) r == Radix(prog) IN
                      \A t1, t2 \in S : (t1[1] = t2[1] /\ t1 # t2) => Key(prog, r, t1) # Key(prog, r, t2)
PrintNames(prog) == LET S == Space(prog) r == Radix(prog) IN
                    \A t \in S : Invert(Key(prog, r, t), r[t[1]], 1) = KeyVals(prog, t)
HasExprParam(prog) == \E c \in 0..(NClasses(prog) - 1) : \E i \in 1..Len(Class(prog, c).locals) :
                         Class(prog, c).locals[i].kind # "range" /\ IsParam(Class(prog, c), Class(prog, c).locals[i].name)

\* ---- the printed form ---------------------------------------------------------------------------------------------
RECURSIVE JoinInts(_, _)
JoinInts(p, i) == IF i > Len(p) THEN "" ELSE (IF i > 1 THEN ", " ELSE "") \o ToString(p[i]) \o JoinInts(p, i + 1)
\* the printed key must name the instance: class name and the values of the parameters as declared
PrintedName(prog, t) == Class(prog, t[1]).name \o "(" \o JoinInts(t[2], 1) \o ")"
=============================================================================
