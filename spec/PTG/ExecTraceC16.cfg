SPECIFICATION TSpec
CONSTANTS CheckOrder = TRUE
 CheckValues = FALSE
INVARIANT AcceptExit
CHECK_DEADLOCK FALSE
