SPECIFICATION TSpec
CONSTANTS CheckOrder = FALSE
 CheckValues = FALSE
INVARIANT AcceptExit
CHECK_DEADLOCK FALSE
