SPECIFICATION Spec
INVARIANTS Valid Emit
CHECK_DEADLOCK FALSE
