------------------------------ MODULE KeyModel ------------------------------
(* TLC evaluates the key scheme of KeySem over a list of generated programs (JSON lines in IOEnv.PROGS): one state
   per program; invariants: the mixed-radix key is injective on the space of every class, and its inverse names the
   parameters unless the class has a parameter defined by an expression (for which the generated key_print is known
   to print 0, see DESIGN / the C23 report).  The model keys are printed for the conformance comparison. *)
EXTENDS KeySem, Json, IOUtils
Progs == ndJsonDeserialize(IOEnv.PROGS)
VARIABLES i, res
\* everything about program number k, computed once
Analyse(p) == LET S == Space(p) r == Radix(p)
                  kv == [t \in S |-> KeyVals(p, t)]                     \* values of the key locals, once per task
                  keys == [t \in S |-> KeySum(kv[t], r[t[1]], 1, 1, 0)]   \* = KeySem.Key(p, r, t)
                  inj == \A c \in 0..(NClasses(p) - 1) :
                            LET Sc == {t \in S : t[1] = c} IN Cardinality({keys[t] : t \in Sc}) = Cardinality(Sc)
                  names == \A t \in S : Invert(keys[t], r[t[1]], 1) = kv[t]
              IN [name |-> p.name, exprparam |-> HasExprParam(p), inj |-> inj, names |-> names, n |-> Cardinality(S),
                  keys |-> {<<t[1], t[2], keys[t]>> : t \in S}]
Init == i = 0 /\ res = [name |-> "", exprparam |-> FALSE, inj |-> TRUE, names |-> TRUE, n |-> 0, keys |-> {}]
Step == i < Len(Progs) /\ i' = i + 1 /\ res' = Analyse(Progs[i + 1])
Done == i = Len(Progs) /\ UNCHANGED <<i, res>>
Next == Step \/ Done
Spec == Init /\ [][Next]_<<i, res>>
Injective == res.inj                                  \* KeySem.KeyInjective of the current program
Names == ~res.exprparam => res.names                  \* KeySem.PrintNames of the current program
Emit == i > 0 => PrintT(<<"VH", ToJson(res)>>)
=============================================================================
