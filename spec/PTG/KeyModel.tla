------------------------------ MODULE KeyModel ------------------------------
(* TLC evaluates the key scheme of KeySem over a list of generated programs (JSON lines in IOEnv.PROGS): one state
   per program; invariants: the mixed-radix key is injective on the space of every class, and its inverse names the
   parameters unless the class has a parameter defined by an expression (for which the generated key_print is known
   to print 0, see DESIGN / the C23 report).  The model keys are printed for the conformance comparison. *)
EXTENDS KeySem, Json, IOUtils
Progs == ndJsonDeserialize(IOEnv.PROGS)
VARIABLE i
Init == i = 0
Step == i < Len(Progs) /\ i' = i + 1
Done == i = Len(Progs) /\ UNCHANGED i
Next == Step \/ Done
Spec == Init /\ [][Next]_i
Cur == Progs[i]
Injective == i > 0 => KeyInjective(Cur)
Names == (i > 0 /\ ~HasExprParam(Cur)) => PrintNames(Cur)
Emit == i > 0 => PrintT(<<"VH", ToJson([name |-> Cur.name, exprparam |-> HasExprParam(Cur), names |-> PrintNames(Cur),
                                          n |-> Cardinality(Space(Cur)),
                                          keys |-> LET r == Radix(Cur) S == Space(Cur) IN
                                                   {<<t[1], t[2], Key(Cur, r, t)>> : t \in S}])>>)
=============================================================================
