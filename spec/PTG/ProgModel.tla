------------------------------ MODULE ProgModel ------------------------------
(* TLC evaluates JDFSem over the list of generated programs (JSON lines in IOEnv.PROGS), one state per program:
   every program must be well-formed and consistent (inputs and outputs name each other inside the space), and the
   size of its space and its sequential result are printed so that the check can compare them with the generator's
   own interpretation (a disagreement is a tool error, never a verdict about the code). *)
EXTENDS JDFSem, Json, IOUtils
Progs == ndJsonDeserialize(IOEnv.PROGS)
VARIABLES i, res
Analyse(p) == LET cp == Compile(p) IN
              [name |-> p.name, valid |-> WellFormed(p) /\ Consistent(p), n |-> Cardinality(cp.space),
               startup |-> Cardinality({t \in cp.space : cp.preds[t] = {}}), final |-> SeqFinalAsSeq(p, cp)]
Init == i = 0 /\ res = [name |-> "", valid |-> TRUE, n |-> 0, startup |-> 0, final |-> <<>>]
Step == i < Len(Progs) /\ i' = i + 1 /\ res' = Analyse(Progs[i + 1])
Done == i = Len(Progs) /\ UNCHANGED <<i, res>>
Next == Step \/ Done
Spec == Init /\ [][Next]_<<i, res>>
Valid == res.valid
Emit == i > 0 => PrintT(<<"VH", ToJson(res)>>)
=============================================================================
