------------------------------ MODULE ProgModel ------------------------------
(* TLC evaluates JDFSem over the list of generated programs (JSON lines in IOEnv.PROGS), one state per program:
   every program must be well-formed and consistent (inputs and outputs name each other inside the space), and the
   size of its space and its sequential result are printed so that the check can compare them with the generator's
   own interpretation (a disagreement is a tool error, never a verdict about the code). *)
EXTENDS JDFSem, Json, IOUtils
Progs == ndJsonDeserialize(IOEnv.PROGS)
VARIABLE i
Init == i = 0
Step == i < Len(Progs) /\ i' = i + 1
Done == i = Len(Progs) /\ UNCHANGED i
Next == Step \/ Done
Spec == Init /\ [][Next]_i
Cur == Progs[i]
Valid == i > 0 => (WellFormed(Cur) /\ Consistent(Cur))
Emit == i > 0 => LET cp == Compile(Cur) IN
                 PrintT(<<"VH", ToJson([name |-> Cur.name, n |-> Cardinality(cp.space),
                                          startup |-> Cardinality({t \in cp.space : cp.preds[t] = {}}),
                                          final |-> SeqFinalAsSeq(Cur, cp)])>>)
=============================================================================
