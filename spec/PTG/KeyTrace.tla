------------------------------ MODULE KeyTrace ------------------------------
(* Trace validation for C23.  The driver calls the generated make_key and key_functions->key_print for every
   instance of the space once the taskpool's internal_init tasks have run:
     {"e":"Prog","prog":{...}}  {"e":"Run",...}
     {"e":"Key","cn":"T","p":[..],"l":[..],"k0":..,"k1":..,"k2":..,"txt":"T(1, 2)"}   (key split in 30-bit chunks)
     {"e":"KeysDone","cn":"T"}        (one execution per task class)
   Demanded (the property): the instance belongs to Space(prog) and its locals are the defined ones; no other
   instance of the same class had the same key; the printed key is "<class>(<parameter values>)"; every instance of
   the space was presented.  Other events of the run (task bodies, completion) are filtered out by the check. *)
EXTENDS KeySem, Json, IOUtils
VARIABLES l, prog, space, seen, done, phase
vars == <<l, prog, space, seen, done, phase>>
TraceLog == ndJsonDeserialize(IOEnv.TRACE)
Ev == TraceLog[l]
IsEv(e) == l <= Len(TraceLog) /\ Ev.e = e /\ l' = l + 1
NoProg == [name |-> "", classes |-> <<>>]

TInit == l = 1 /\ prog = NoProg /\ space = {} /\ seen = {} /\ done = {} /\ phase = "reset"
TReset == IsEv("Reset") /\ phase' = "reset" /\ seen' = {} /\ done' = {} /\ UNCHANGED <<prog, space>>
TProg == /\ IsEv("Prog") /\ phase = "reset"
         /\ IF Ev.prog = prog THEN UNCHANGED <<prog, space>>
            ELSE WellFormed(Ev.prog) /\ prog' = Ev.prog /\ space' = Space(Ev.prog)
         /\ phase' = "prog" /\ UNCHANGED <<seen, done>>
TRun == IsEv("Run") /\ phase = "prog" /\ phase' = "run" /\ seen' = {} /\ done' = {} /\ UNCHANGED <<prog, space>>
TKey == /\ IsEv("Key") /\ phase = "run"
        /\ LET c == ClassIndex(prog, Ev.cn)
               t == <<c, Ev.p>>
               key == <<c, Ev.k0, Ev.k1, Ev.k2>>
           IN /\ t \in space /\ t \notin done
              /\ Ev.l = LocalsOf(Class(prog, c), EnvOf(prog, t))
              /\ key \notin seen                                         \* keys are unique inside a class
              /\ Ev.txt = PrintedName(prog, t)                           \* the printed key names the parameters
              /\ seen' = seen \cup {key} /\ done' = done \cup {t}
        /\ UNCHANGED <<prog, space, phase>>
\* all the instances of the class Ev.cn have been presented
TKeysDone == /\ IsEv("KeysDone") /\ phase = "run"
             /\ done = {t \in space : t[1] = ClassIndex(prog, Ev.cn)}
             /\ phase' = "done" /\ UNCHANGED <<prog, space, seen, done>>
TNext == TReset \/ TProg \/ TRun \/ TKey \/ TKeysDone
TSpec == TInit /\ [][TNext]_vars
AcceptExit == (l > Len(TraceLog)) => (PrintT("VERIF-ACCEPTED") /\ TLCSet("exit", TRUE))
=============================================================================
