----------------------------- MODULE ExecTrace -----------------------------
(* Trace validation of real executions of generated PTG programs (C01, C02, C16).

   One execution = one taskpool run:
     {"e":"Prog","prog":{...AST...}}        the program (same JSON the .jdf text was printed from)
     {"e":"Run", ...}                        taskpool created and added to the context
     {"e":"Start","c":C,"p":[..],"l":[..],"th":T,"a":A,"r":[[..],..]}   body entered (attempt A), values read per flow
     {"e":"Again","c":C,"p":[..],"a":A}                                 body returned PARSEC_HOOK_RETURN_AGAIN
     {"e":"End","c":C,"p":[..],"a":A,"w":[[..],..]}                     body done, values written per flow
     {"e":"TpDone"}                          termination of the taskpool detected (completion callback)
     {"e":"Final","coll":[[..],..]}          contents of the data collection afterwards
   Timeout / Crash / BadIndex / ToolError events are never enabled: they reject.

   The space, the dependencies and the values are computed by JDFSem from the AST in the Prog event.
   C01: Start only for members of Space(prog), never twice (st: idle -> running -> done), locals as defined,
        TpDone only when every member is done.
   CheckOrder (C02, C16): Start only after the End of every predecessor named by an active input dependency.
   CheckValues (C02): values read = values carried by the named predecessor / collection tile, values written =
        Body(reads), final collection = the model's collection = SeqFinal(prog).
   Again (C16): a body that asked to be re-run goes back to idle with its attempt counter incremented; it must be
        started again (TpDone requires done), and its successors only start after its End. *)
EXTENDS JDFSem, Json, IOUtils
CONSTANTS CheckOrder, CheckValues
VARIABLES l, prog, cp, space, seqfinal, st, att, cur, out, coll, phase

vars == <<l, prog, cp, space, seqfinal, st, att, cur, out, coll, phase>>
TraceLog == ndJsonDeserialize(IOEnv.TRACE)
Ev == TraceLog[l]
IsEv(e) == l <= Len(TraceLog) /\ Ev.e = e /\ l' = l + 1

NoProg == [name |-> "", classes |-> <<>>]
CollSeq(c, n) == [i \in 1..n |-> c[i - 1]]

TInit == /\ l = 1 /\ prog = NoProg /\ cp = <<>> /\ space = {} /\ seqfinal = <<>> /\ st = <<>> /\ att = <<>> /\ cur = <<>>
         /\ out = <<>> /\ coll = <<>> /\ phase = "reset"

\* between executions: the program (and what was computed from it) is kept as a cache, everything else is cleared
TReset == /\ IsEv("Reset")
          /\ phase' = "reset" /\ st' = <<>> /\ att' = <<>> /\ cur' = <<>> /\ out' = <<>> /\ coll' = <<>>
          /\ UNCHANGED <<prog, cp, space, seqfinal>>

TProg == /\ IsEv("Prog") /\ phase = "reset"
         /\ IF Ev.prog = prog THEN UNCHANGED <<prog, cp, space, seqfinal>>
            ELSE /\ WellFormed(Ev.prog)
                 /\ prog' = Ev.prog
                 /\ LET c == Compile(Ev.prog) IN
                    /\ cp' = c
                    /\ space' = c.space
                    /\ seqfinal' = IF CheckValues THEN SeqFinalAsSeq(Ev.prog, c) ELSE <<>>
         /\ phase' = "prog"
         /\ UNCHANGED <<st, att, cur, out, coll>>

TRun == /\ IsEv("Run") /\ phase = "prog"
        /\ st' = [t \in space |-> "idle"] /\ att' = [t \in space |-> 0] /\ cur' = <<>> /\ out' = <<>>
        /\ coll' = InitColl(prog)
        /\ phase' = "run"
        /\ UNCHANGED <<prog, cp, space, seqfinal>>

TStart == /\ IsEv("Start") /\ phase = "run"
          /\ LET t == <<Ev.c, Ev.p>> IN
             /\ t \in space                                                   \* only instances of the space run
             /\ st[t] = "idle"                                                \* not running, not already done
             /\ Ev.a = att[t]
             /\ Ev.l = cp.locs[t]
             /\ CheckOrder => \A q \in cp.preds[t] : q \in space /\ st[q] = "done"
             /\ CheckValues => Ev.r = Reads(prog, cp, t, out, coll)
             /\ st' = [st EXCEPT ![t] = "running"]
             /\ cur' = (t :> Ev.r) @@ cur
          /\ UNCHANGED <<prog, cp, space, seqfinal, att, out, coll, phase>>

TAgain == /\ IsEv("Again") /\ phase = "run"
          /\ LET t == <<Ev.c, Ev.p>> IN
             /\ t \in space /\ st[t] = "running" /\ Ev.a = att[t]
             /\ st' = [st EXCEPT ![t] = "idle"]
             /\ att' = [att EXCEPT ![t] = @ + 1]
          /\ UNCHANGED <<prog, cp, space, seqfinal, cur, out, coll, phase>>

TEnd == /\ IsEv("End") /\ phase = "run"
        /\ LET t == <<Ev.c, Ev.p>> IN
           /\ t \in space /\ st[t] = "running" /\ Ev.a = att[t]
           /\ CheckValues => Ev.w = Body(prog, t, cur[t])
           /\ st' = [st EXCEPT ![t] = "done"]
           /\ LET cr == Carried(prog, t, cur[t], Ev.w) IN
              /\ out' = (t :> cr) @@ out
              /\ coll' = IF CheckValues THEN WriteBack(prog, cp, t, cr, 1, coll) ELSE coll
        /\ UNCHANGED <<prog, cp, space, seqfinal, att, cur, phase>>

\* termination detected: every instance of the space has run (exactly once, by st)
TTpDone == /\ IsEv("TpDone") /\ phase = "run"
           /\ \A t \in space : st[t] = "done"
           /\ phase' = "done"
           /\ UNCHANGED <<prog, cp, space, seqfinal, st, att, cur, out, coll>>

TFinal == /\ IsEv("Final") /\ phase = "done"
          /\ CheckValues => /\ Ev.coll = CollSeq(coll, prog.ntiles)
                            /\ Ev.coll = seqfinal
          /\ phase' = "final"
          /\ UNCHANGED <<prog, cp, space, seqfinal, st, att, cur, out, coll>>

TNext == TReset \/ TProg \/ TRun \/ TStart \/ TAgain \/ TEnd \/ TTpDone \/ TFinal
TSpec == TInit /\ [][TNext]_vars
AcceptExit == (l > Len(TraceLog)) => (PrintT("VERIF-ACCEPTED") /\ TLCSet("exit", TRUE))
=============================================================================
