SPECIFICATION Spec
INVARIANTS Injective Names Emit
CHECK_DEADLOCK FALSE
