-------------------------------- MODULE Exec --------------------------------
(* Life cycle of the task instances of one PTG taskpool, as the generated code and the runtime implement it, for
   programs given as JDFSem records (C01, C02, C16).  Progs is a sequence of [prog, again, iter, chunk]: one TLC run
   explores every listed program (the initial state chooses it: variable pi) with its own bound on AGAIN returns and
   its own task_startup_iter / task_startup_chunk.

   jdf_generate_internal_init   counts the instances of the space: nb = |Space(Prog)| (initial state)
   jdf_generate_startup_tasks   one generator per task class walks the nested loops of the class in order
                                (StartupIterate); an instance without task predecessor is created and put in the
                                generator's ring; when the ring holds more than `reserved` tasks it is handed to the
                                scheduler (reserved doubles up to StartupIter) and, once more than StartupChunk tasks
                                were handed over during this invocation, the generator returns AGAIN and is resumed
                                later (StartupResume) from the saved iterator values
   __parsec_task_progress       Select(t): a ready task is taken from the scheduler, its inputs are looked up (the
                                values are those carried by its predecessors / held by the collection), the hook runs
   PARSEC_HOOK_RETURN_AGAIN     HookAgain(t): the task goes back to the scheduler, nothing is released
   __parsec_complete_execution  Complete(t): values written, write-backs to the collection, release_deps: every
                                successor named by an active output dependency records the activation
                                (parsec_release_local_OUT_dependencies / update_deps) and becomes ready when all the
                                activations its own input dependencies announce have arrived; nb is decremented and
                                termination detected at 0
   The scheduler is a plain set (its own properties are C08/C09).

   LoopLE = TRUE reproduces the generated loops that only test `iterator <= end` (the startup loop and the successor
   iteration of jdf2c.c): used as a sensitivity self-test of the model (a descending range then never terminates).

   Properties: RanOnce, OnlySpace, StartAfterPreds, StartupOnce, TermOK (termination only when every instance ran
   once, and the collection equals the sequential interpretation), no deadlock before termination. *)
EXTENDS JDFSem
CONSTANTS Progs, LoopLE

VARIABLES pi,       \* the program of this behaviour (index in Progs), never changes
          gen,      \* per class: startup generator [i, res, nbt, tot, ring, st]
          sched,    \* ready tasks held by the scheduler
          running,  \* tasks whose hook is executing -> values read at Select
          att,      \* number of AGAIN returns per task
          ran,      \* number of completed executions per task
          made,     \* number of times the startup generators created each task
          got,      \* activations received per task: set of <<predecessor, flow index of the receiver>>
          out, coll,\* values carried by completed tasks, collection
          nb,       \* tasks still to complete (termination detection counter)
          term, bad
vars == <<pi, gen, sched, running, att, ran, made, got, out, coll, nb, term, bad>>

\* the tables below only depend on the constant Progs: TLC evaluates these definitions once
NProgs == Len(Progs)
CPs == [i \in 1..NProgs |-> Compile(Progs[i].prog)]
CTasksFs == [i \in 1..NProgs |-> [c \in 0..(NClasses(Progs[i].prog) - 1) |-> ClassTasks(Progs[i].prog, c)]]
\* activations a task waits for: <<predecessor, own flow index>> for every active input dependency on a task
ExpectedFs == [i \in 1..NProgs |-> [t \in CPs[i].space |->
                 UNION {{<<ep.t, g>> : ep \in {x \in CPs[i].ins[t][g] : x.k = "task"}} : g \in 1..Len(CPs[i].ins[t])}]]
\* activations a completing task sends: <<successor, flow index of the successor>>
SendsFs == [i \in 1..NProgs |-> [t \in CPs[i].space |->
              UNION {{<<ep.t, FlowIndex(Progs[i].prog, ep.t[1], ep.f)>> : ep \in {x \in CPs[i].outs[t][g] : x.k = "task"}}
                     : g \in 1..Len(CPs[i].outs[t])}]]
SeqFins == [i \in 1..NProgs |-> SeqFinal(Progs[i].prog, CPs[i])]
\* the program of the current behaviour
Prog == Progs[pi].prog
AgainMax == Progs[pi].again
StartupIter == Progs[pi].iter
StartupChunk == Progs[pi].chunk
CP == CPs[pi]
S == CP.space
NC == NClasses(Prog)
CTasks(c) == CTasksFs[pi][c]
PredMap == CP.preds
Expected(t) == ExpectedFs[pi][t]
Sends(t) == SendsFs[pi][t]
SeqFin == SeqFins[pi]

\* ---- the `<=`-only loops of the generated code (sensitivity switch) -----------------------------------------------
\* a descending range lo .. hi .. st (st < 0, lo > hi) is never entered by `for(v = lo; v <= hi; v += st)`
Desc(L, env) == L.kind = "range" /\ Eval(L.st, env) < 0 /\ Eval(L.lo, env) > Eval(L.hi, env)
RECURSIVE SkippedLE(_, _, _, _)
SkippedLE(prog, cls, p, i) ==      \* TRUE when some loop around the instance with parameters p is descending
    IF i > Len(cls.locals) THEN FALSE
    ELSE Desc(cls.locals[i], BindLocals(cls, p, 1, prog.globals)) \/ SkippedLE(prog, cls, p, i + 1)
HiddenFs == [i \in 1..NProgs |->
               [t \in CPs[i].space \cup UNION {{x[1] : x \in SendsFs[i][u]} : u \in CPs[i].space} |->
                  LoopLE /\ SkippedLE(Progs[i].prog, Class(Progs[i].prog, t[1]), t[2], 1)]]
Hidden(t) == HiddenFs[pi][t]

Init == /\ pi \in 1..NProgs
        /\ gen = [c \in 0..(NC - 1) |-> [i |-> 1, res |-> 1, nbt |-> 0, tot |-> 0, ring |-> {}, st |-> "run"]]
        /\ sched = {} /\ running = <<>>
        /\ att = [t \in S |-> 0] /\ ran = [t \in S |-> 0] /\ made = [t \in S |-> 0] /\ got = [t \in S |-> {}]
        /\ out = <<>> /\ coll = InitColl(Prog)
        /\ nb = Cardinality(S)
        /\ term = (Cardinality(S) = 0) /\ bad = FALSE

\* one iteration of the nested startup loops of class c
StartupIterate(c) ==
    /\ gen[c].st = "run" /\ gen[c].i <= Len(CTasks(c))
    /\ LET g == gen[c]
           t == CTasks(c)[g.i]
           startup == PredMap[t] = {} /\ ~Hidden(t)
           ring1 == IF startup THEN g.ring \cup {t} ELSE g.ring
           nbt1 == IF startup THEN g.nbt + 1 ELSE g.nbt
           flush == startup /\ nbt1 > g.res                      \* `continue` skips the test for other instances
           tot1 == IF flush THEN g.tot + nbt1 ELSE g.tot
       IN /\ made' = IF startup THEN [made EXCEPT ![t] = @ + 1] ELSE made
          /\ sched' = IF flush THEN sched \cup ring1 ELSE sched
          /\ gen' = [gen EXCEPT ![c] = [i |-> g.i + 1,
                                        res |-> IF flush /\ g.res < StartupIter THEN 2 * g.res ELSE g.res,
                                        nbt |-> IF flush THEN 0 ELSE nbt1,
                                        tot |-> tot1,
                                        ring |-> IF flush THEN {} ELSE ring1,
                                        st |-> IF flush /\ tot1 > StartupChunk THEN "again" ELSE "run"]]
    /\ UNCHANGED <<pi, running, att, ran, got, out, coll, nb, term, bad>>

\* the generator was rescheduled: counters restart, the saved iterator values are kept
StartupResume(c) ==
    /\ gen[c].st = "again"
    /\ gen' = [gen EXCEPT ![c] = [@ EXCEPT !.st = "run", !.res = 1, !.tot = 0, !.nbt = 0]]
    /\ UNCHANGED <<pi, sched, running, att, ran, made, got, out, coll, nb, term, bad>>

\* end of the loops: the remaining ring goes to the scheduler
StartupEnd(c) ==
    /\ gen[c].st = "run" /\ gen[c].i > Len(CTasks(c))
    /\ sched' = sched \cup gen[c].ring
    /\ gen' = [gen EXCEPT ![c] = [@ EXCEPT !.st = "done", !.ring = {}, !.nbt = 0]]
    /\ UNCHANGED <<pi, running, att, ran, made, got, out, coll, nb, term, bad>>

Select(t) ==
    /\ t \in sched /\ t \notin DOMAIN running
    /\ sched' = sched \ {t}
    /\ running' = (t :> Reads(Prog, CP, t, out, coll)) @@ running
    /\ UNCHANGED <<pi, gen, att, ran, made, got, out, coll, nb, term, bad>>

HookAgain(t) ==
    /\ t \in DOMAIN running /\ att[t] < AgainMax
    /\ att' = [att EXCEPT ![t] = @ + 1]
    /\ running' = [x \in (DOMAIN running) \ {t} |-> running[x]]
    /\ sched' = sched \cup {t}
    /\ UNCHANGED <<pi, gen, ran, made, got, out, coll, nb, term, bad>>

Complete(t) ==
    /\ t \in DOMAIN running
    /\ LET r == running[t]
           w == Body(Prog, t, r)
           cr == Carried(Prog, t, r, w)
           sends == {x \in Sends(t) : ~Hidden(x[1])}          \* LoopLE: successors in descending loops are skipped
           inside == {x \in sends : x[1] \in S}
           got1 == [s \in S |-> got[s] \cup {<<t, x[2]>> : x \in {y \in inside : y[1] = s}}]
           ready == {s \in S : got1[s] # got[s] /\ got1[s] = Expected(s)}
       IN /\ bad' = (bad \/ inside # sends \/ \E s \in S : got1[s] # got[s] /\ ~(got1[s] \subseteq Expected(s)))
          /\ got' = got1
          /\ sched' = sched \cup ready
          /\ out' = (t :> cr) @@ out
          /\ coll' = WriteBack(Prog, CP, t, cr, 1, coll)
    /\ ran' = [ran EXCEPT ![t] = @ + 1]
    /\ running' = [x \in (DOMAIN running) \ {t} |-> running[x]]
    /\ nb' = nb - 1
    /\ term' = (nb - 1 = 0)
    /\ UNCHANGED <<pi, gen, att, made>>

\* the taskpool is complete: nothing more happens
Terminated == /\ term /\ \A c \in 0..(NC - 1) : gen[c].st = "done"
              /\ UNCHANGED vars

Next == \/ \E c \in 0..(NC - 1) : StartupIterate(c) \/ StartupResume(c) \/ StartupEnd(c)
        \/ \E t \in S : Select(t) \/ HookAgain(t) \/ Complete(t)
        \/ Terminated
Spec == Init /\ [][Next]_vars

\* ---- properties ---------------------------------------------------------------------------------------------------
RanOnce == \A t \in S : ran[t] <= 1                                      \* C01
OnlySpace == ~bad /\ sched \subseteq S /\ DOMAIN running \subseteq S       \* C01: nothing outside the space is activated
StartAfterPreds == \A t \in DOMAIN running : \A p \in PredMap[t] : ran[p] = 1    \* C02
NoRestart == \A t \in sched \cup DOMAIN running : ran[t] = 0                \* C16: never released / rescheduled after completion
StartupOnce == \A t \in S : made[t] <= 1                                  \* C16: chunked generation creates a task once
TermOK == term => /\ \A t \in S : ran[t] = 1                              \* C01: termination only when everything ran
                  /\ coll = SeqFin                                        \* C02: = sequential interpretation
                  /\ \A t \in S : made[t] = (IF PredMap[t] = {} THEN 1 ELSE 0)
ASSUME ProgsOK == \A i \in 1..NProgs : WellFormed(Progs[i].prog) /\ Consistent(Progs[i].prog)
=============================================================================
