---------------------------- MODULE ReshapeTrace ----------------------------
(* Trace validation for C18.  One line of the trace file = one execution of harness/reshape (all processes):
     {"cfg":{"nt":..,"mb":..,"nodes":..,"ann":[[ot,otr,it,itr] for consumer 1..3],"scrib":[0|1 x3]},
      "events":[ ... all processes, each process in its own stamp order ... ]}
   events: {"e":"Prod","p":P,"j":0,"k":K,"v":[..]}       the producer's view of tile K when it runs
           {"e":"ConsStart","p":P,"j":J,"k":K,"v":[..]}  consumer J's view when its body starts
           {"e":"ConsEnd",...}                          the same copy 300 us later (only for consumers that do not overwrite their copy)
           {"e":"Final","p":P,"j":0,"k":K,"v":[..]}      the collection tile after the taskpool completed
           {"e":"Done","p":P}
   Checked: every producer and consumer ran exactly once on the process its placement names; each consumer's view
   is the documented conversion of the producer's tile (Reshape!ViewOK); a copy that its consumer does not overwrite
   is unchanged at the end of the body (no other consumer's conversion or overwrite altered it); the producer's
   data is unchanged at the end. *)
EXTENDS Reshape, Json, IOUtils, TLC
VARIABLES x, i, seen
tvars == <<x, i, seen>>
TraceLog == ndJsonDeserialize(IOEnv.TRACE)
Cfg == TraceLog[x].cfg
Evs == TraceLog[x].events
Ev == Evs[i]
ProdRank(k) == k % Cfg.nodes
ConsRank(j) == (j - 1) % Cfg.nodes
Ann(j) == Cfg.ann[j]
IsLocal(j, k) == ProdRank(k) = ConsRank(j)
KOK(k) == k \in 0..(Cfg.nt - 1)

TInit == x = 1 /\ i = 1 /\ seen = {}
Key(e) == <<e.e, e.j, e.k>>
EvOK(e) ==
   CASE e.e = "Prod" -> /\ KOK(e.k) /\ e.p = ProdRank(e.k) /\ Key(e) \notin seen
                        /\ e.v = Tile(e.k, Cfg.mb)
     [] e.e = "ConsStart" -> /\ KOK(e.k) /\ e.j \in 1..3 /\ e.p = ConsRank(e.j) /\ Key(e) \notin seen
                             /\ Len(e.v) = Cfg.mb * Cfg.mb
                             /\ LET a == Ann(e.j)  loc == IsLocal(e.j, e.k) IN
                                ViewOK(e.v, Tile(e.k, Cfg.mb), SrcShape(loc, a[1], a[2], a[3], a[4]),
                                       DstShape(loc, a[1], a[2], a[3], a[4]), Cfg.mb)
     [] e.e = "ConsEnd" -> /\ Key(e) \notin seen /\ <<"ConsStart", e.j, e.k>> \in seen /\ Cfg.scrib[e.j] = 0
                           /\ \E q \in 1..(i - 1) : Evs[q].e = "ConsStart" /\ Evs[q].j = e.j /\ Evs[q].k = e.k /\ Evs[q].v = e.v
     [] e.e = "Final" -> /\ KOK(e.k) /\ e.p = ProdRank(e.k) /\ Key(e) \notin seen /\ e.v = Tile(e.k, Cfg.mb)
     [] e.e = "Done" -> <<"Done", e.p, 0>> \notin seen
     [] OTHER -> FALSE
TStep == /\ x <= Len(TraceLog) /\ i <= Len(Evs)
         /\ EvOK(Ev)
         /\ seen' = seen \cup {IF Ev.e = "Done" THEN <<"Done", Ev.p, 0>> ELSE Key(Ev)}
         /\ i' = i + 1 /\ UNCHANGED x
Complete == /\ \A k \in 0..(Cfg.nt - 1) : /\ <<"Prod", 0, k>> \in seen /\ <<"Final", 0, k>> \in seen
                                          /\ \A j \in 1..3 : /\ <<"ConsStart", j, k>> \in seen
                                                             /\ (Cfg.scrib[j] = 0 => <<"ConsEnd", j, k>> \in seen)
            /\ \A p \in 0..(Cfg.nodes - 1) : <<"Done", p, 0>> \in seen
TNextExec == /\ x <= Len(TraceLog) /\ i > Len(Evs) /\ Complete
             /\ x' = x + 1 /\ i' = 1 /\ seen' = {}
TNext == TStep \/ TNextExec
TSpec == TInit /\ [][TNext]_tvars
AcceptExit == (x > Len(TraceLog)) => (PrintT("VERIF-ACCEPTED") /\ TLCSet("exit", TRUE))
=============================================================================
