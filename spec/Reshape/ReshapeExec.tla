---------------------------- MODULE ReshapeExec ----------------------------
(* Abstract machine for C18: one producer tile, N successors; each successor's dependency converts (or not) the tile
   when the successor is released, successors owning a private converted copy may overwrite it; all orders.
   TLC checks that every view handed out is the documented conversion of the producer's tile and that the producer's
   data stays intact.  InPlace = TRUE models a runtime that would convert inside the producer's memory: it must fail
   (sensitivity of the model). *)
EXTENDS Reshape, TLC
CONSTANTS MB, Anns, Local, InPlace
N == Len(Anns)
VARIABLES prod, copy, state
vars == <<prod, copy, state>>
Tile0 == Tile(7, MB)
Src(j) == SrcShape(Local[j], Anns[j][1], Anns[j][2], Anns[j][3], Anns[j][4])
Dst(j) == DstShape(Local[j], Anns[j][1], Anns[j][2], Anns[j][3], Anns[j][4])
Conv(j) == Converts(Local[j], Anns[j][1], Anns[j][2], Anns[j][3], Anns[j][4])
\* the conversion: pack Src region of t, unpack into the Dst region of `into`
Converted(t, into, j) == LET ps == Pos(Src(j), MB)  pd == Pos(Dst(j), MB)  n == Min(Len(ps), Len(pd)) IN
    [e \in 1..(MB * MB) |-> IF \E i \in 1..n : pd[i] = e THEN t[ps[CHOOSE i \in 1..n : pd[i] = e]] ELSE into[e]]
Init == prod = Tile0 /\ copy = [j \in 1..N |-> <<>>] /\ state = [j \in 1..N |-> "waiting"]
Convert(j) == /\ state[j] = "waiting"
              /\ IF Conv(j) /\ ~InPlace
                 THEN /\ copy' = [copy EXCEPT ![j] = Converted(prod, [e \in 1..(MB * MB) |-> 0], j)]
                      /\ state' = [state EXCEPT ![j] = "private"] /\ UNCHANGED prod
                 ELSE IF Conv(j)    \* InPlace: converts inside the producer's memory and shares it
                      THEN /\ prod' = Converted(prod, prod, j) /\ copy' = [copy EXCEPT ![j] = <<>>]
                           /\ state' = [state EXCEPT ![j] = "shared"]
                      ELSE /\ state' = [state EXCEPT ![j] = "shared"] /\ UNCHANGED <<prod, copy>>
Overwrite(j) == /\ state[j] = "private"
                /\ copy' = [copy EXCEPT ![j] = [e \in 1..(MB * MB) |-> IF \E i \in 1..Len(Pos(Dst(j), MB)) : Pos(Dst(j), MB)[i] = e THEN 0 - j ELSE @[e]]]
                /\ state' = [state EXCEPT ![j] = "overwritten"] /\ UNCHANGED prod
Next == \E j \in 1..N : Convert(j) \/ Overwrite(j)
Spec == Init /\ [][Next]_vars
View(j) == IF state[j] = "shared" THEN prod ELSE copy[j]
ViewsOK == \A j \in 1..N : state[j] \in {"private", "shared"} => ViewOK(View(j), Tile0, Src(j), Dst(j), MB)
ProducerIntact == prod = Tile0
============================================================================
