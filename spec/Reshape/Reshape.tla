---------------------------- MODULE Reshape ----------------------------
(* Meaning of typed PTG dependencies (property C18), as documented in /repo/CHANGELOG.ptg.md:
     local successor :  (no type, no type)  no conversion, the consumer sees the producer's data
                        (-, t2)             Pack with the data copy's type (full tile), Unpack t2
                        (t1, t2)            Pack t1, Unpack t2
                        (t1, -)             Pack t1, Unpack t1
     remote successor:  Pack with [type_remote] of the output dependency (or the copy's type = full tile),
                        Unpack with [type_remote] of the input dependency (or the default type = full tile)
   Tiles are MB x MB, column major, element e = column * MB + row (0-based), shapes 0 = full, 1 = lower triangle
   with diagonal, 2 = upper triangle with diagonal, -1 = not declared.
   Pack(shape) takes the elements of the region in column-major order, Unpack(shape) stores them in that order
   into the region: the consumer's copy satisfies  view[Pos(dst)[i]] = tile[Pos(src)[i]]  for every transferred i;
   elements outside the destination region are not specified. *)
EXTENDS Naturals, Integers, Sequences, FiniteSets
InRegion(shape, r, c) == CASE shape = 0 -> TRUE [] shape = 1 -> r >= c [] shape = 2 -> r <= c
\* positions (1-based indices into the column-major sequence) of a shape, in column-major order
RECURSIVE PosFrom(_, _, _)
PosFrom(shape, mb, e) == IF e >= mb * mb THEN <<>>
                         ELSE (IF InRegion(shape, e % mb, e \div mb) THEN <<e + 1>> ELSE <<>>) \o PosFrom(shape, mb, e + 1)
Pos(shape, mb) == PosFrom(shape, mb, 0)
Min(a, b) == IF a < b THEN a ELSE b

Eff(s) == IF s = -1 THEN 0 ELSE s
\* source and destination shapes of the conversion on a dependency whose output side declares (ot, otr) and input side (it, itr)
SrcShape(local, ot, otr, it, itr) == IF local THEN Eff(ot) ELSE Eff(otr)
DstShape(local, ot, otr, it, itr) == IF local THEN (IF it # -1 THEN it ELSE Eff(ot)) ELSE Eff(itr)
Converts(local, ot, otr, it, itr) == IF local THEN (ot # -1 \/ it # -1) ELSE TRUE

\* the consumer's view is a correct conversion of the producer's tile
ViewOK(view, tile, src, dst, mb) ==
    LET ps == Pos(src, mb)  pd == Pos(dst, mb) IN
    \A i \in 1..Min(Len(ps), Len(pd)) : view[pd[i]] = tile[ps[i]]
\* the tile PROD(k) reads from the collection
Tile(k, mb) == [e \in 1..(mb * mb) |-> 1000 * k + e]
========================================================================
