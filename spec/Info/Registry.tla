---------------------------- MODULE Registry ----------------------------
(* Abstract meaning of parsec/class/info.c (property C41).
   An info collection (parsec_info_t) maps names to identifiers; every object array
   (parsec_info_object_array_t) holds one slot per identifier.
     reg[n]      identifier of name n, -1 = not registered
     ctor, dtor  registered names that were given a constructor / a destructor
     slots[o][i] value of slot i of object o, 0 = NULL
     inited      the object arrays on which parsec_info_object_array_init was called
     seen        names used so far (names and objects are interchangeable: they are introduced in a fixed order)
   Names, objects and values are small positive integers (the harness maps name k to the string "n<k>",
   value v to a pointer pattern).  `hist` records the operations; it is the behaviour handed to the replay
   harness.  The actions are named after the C functions. *)
EXTENDS Naturals, Integers, Sequences, FiniteSets, TLC, Json
CONSTANTS Names,      \* set of positive integers
          Objs,       \* set of positive integers
          Vals,       \* values that can be stored (0 = NULL may be a member)
          Flags,      \* set of <<c, d>> pairs (0/1): register with/without constructor, with/without destructor
          MaxLen
VARIABLES reg, ctor, dtor, slots, inited, seen, hist
vars == <<reg, ctor, dtor, slots, inited, seen, hist>>

IdMax == Cardinality(Names)
Ids == 0..IdMax
Used(r) == {r[n] : n \in Names} \ {-1}
\* info.c keeps the identifier space dense: a registration takes the smallest identifier not in use
FreeId(r) == CHOOSE i \in Ids : i \notin Used(r) /\ \A j \in 0..(i - 1) : j \in Used(r)
\* default object built by the constructor of name n (the harness uses the same encoding)
CtorVal(n) == 10 + n

Rec(op, n, o, v, old, c, d, r) == [op |-> op, n |-> n, o |-> o, v |-> v, old |-> old, c |-> c, d |-> d, r |-> r]

\* ---- effect and result of every function, as operators on the abstract state (shared with the trace specs) ----
RegisterRes(r, n, id) == IF r[n] # -1 THEN -1 ELSE id           \* registering a name twice is refused
RegisterReg(r, n, id) == IF r[n] # -1 THEN r ELSE [r EXCEPT ![n] = id]
RegisterFlag(F, r, n, f) == IF r[n] # -1 THEN F ELSE IF f = 1 THEN F \cup {n} ELSE F \ {n}
\* unregister runs the destructor on, and clears, the slot of every object array; without destructor the slot stays
UnregisterSlots(s, r, D, n) == IF n \in D THEN [o \in Objs |-> [s[o] EXCEPT ![r[n]] = 0]] ELSE s
SetRes(s, r, o, n) == s[o][r[n]]                                \* set returns the previous value
SetSlots(s, r, o, n, v) == [s EXCEPT ![o][r[n]] = v]
GetRes(s, r, C, o, n) == IF s[o][r[n]] # 0 THEN s[o][r[n]] ELSE IF n \in C THEN CtorVal(n) ELSE 0
GetSlots(s, r, C, o, n) == [s EXCEPT ![o][r[n]] = GetRes(s, r, C, o, n)]
TasHit(s, r, o, n, old) == s[o][r[n]] = old
TasRes(s, r, o, n, v, old) == IF TasHit(s, r, o, n, old) THEN v ELSE s[o][r[n]]
TasSlots(s, r, o, n, v, old) == IF TasHit(s, r, o, n, old) THEN [s EXCEPT ![o][r[n]] = v] ELSE s

Init == /\ reg = [n \in Names |-> -1]
        /\ ctor = {} /\ dtor = {}
        /\ slots = [o \in Objs |-> [i \in Ids |-> 0]]
        /\ inited = {} /\ seen = {}
        /\ hist = <<>>

InOrder(n) == \A m \in Names : m < n => m \in seen
Register(n, f) ==
    /\ Len(hist) < MaxLen /\ InOrder(n)
    /\ LET id == FreeId(reg) IN
         /\ hist' = Append(hist, Rec("reg", n, 0, 0, 0, f[1], f[2], RegisterRes(reg, n, id)))
         /\ reg' = RegisterReg(reg, n, id)
    /\ ctor' = RegisterFlag(ctor, reg, n, f[1])
    /\ dtor' = RegisterFlag(dtor, reg, n, f[2])
    /\ seen' = seen \cup {n}
    /\ UNCHANGED <<slots, inited>>
Unregister(n) ==
    /\ Len(hist) < MaxLen /\ reg[n] # -1
    /\ hist' = Append(hist, Rec("unr", n, 0, 0, 0, 0, 0, reg[n]))
    /\ slots' = UnregisterSlots(slots, reg, dtor, n)
    /\ reg' = [reg EXCEPT ![n] = -1]
    /\ UNCHANGED <<ctor, dtor, inited, seen>>
Lookup(n) ==
    /\ Len(hist) < MaxLen /\ InOrder(n)
    /\ hist' = Append(hist, Rec("lk", n, 0, 0, 0, 0, 0, reg[n]))
    /\ seen' = seen \cup {n}
    /\ UNCHANGED <<reg, ctor, dtor, slots, inited>>
ObjInit(o) ==
    /\ Len(hist) < MaxLen /\ o \notin inited
    /\ \A p \in Objs : p < o => p \in inited
    /\ hist' = Append(hist, Rec("obj", 0, o, 0, 0, 0, 0, 0))
    /\ inited' = inited \cup {o}
    /\ UNCHANGED <<reg, ctor, dtor, slots, seen>>
Set(o, n, v) ==
    /\ Len(hist) < MaxLen /\ o \in inited /\ reg[n] # -1
    /\ hist' = Append(hist, Rec("set", n, o, v, 0, 0, 0, SetRes(slots, reg, o, n)))
    /\ slots' = SetSlots(slots, reg, o, n, v)
    /\ UNCHANGED <<reg, ctor, dtor, inited, seen>>
Get(o, n) ==
    /\ Len(hist) < MaxLen /\ o \in inited /\ reg[n] # -1
    /\ hist' = Append(hist, Rec("get", n, o, 0, 0, 0, 0, GetRes(slots, reg, ctor, o, n)))
    /\ slots' = GetSlots(slots, reg, ctor, o, n)
    /\ UNCHANGED <<reg, ctor, dtor, inited, seen>>
TestAndSet(o, n, v, old) ==
    /\ Len(hist) < MaxLen /\ o \in inited /\ reg[n] # -1
    /\ hist' = Append(hist, Rec("tas", n, o, v, old, 0, 0, TasRes(slots, reg, o, n, v, old)))
    /\ slots' = TasSlots(slots, reg, o, n, v, old)
    /\ UNCHANGED <<reg, ctor, dtor, inited, seen>>

\* (Next is a plain disjunction so that TLC reports coverage per action)
Next == \/ \E n \in Names, f \in Flags : Register(n, f)
        \/ \E n \in Names : Unregister(n)
        \/ \E n \in Names : Lookup(n)
        \/ \E o \in Objs : ObjInit(o)
        \/ \E o \in Objs, n \in Names, v \in Vals : Set(o, n, v)
        \/ \E o \in Objs, n \in Names : Get(o, n)
        \/ \E o \in Objs, n \in Names, v \in Vals, old \in Vals \cup {0} : TestAndSet(o, n, v, old)
Spec == Init /\ [][Next]_vars

\* ---- the property, on the abstract state ----------------------------------------------------------------
TypeOK == /\ reg \in [Names -> Ids \cup {-1}]
          /\ inited \subseteq Objs /\ ctor \subseteq Names /\ dtor \subseteq Names
DistinctIds == \A m, n \in Names : (m # n /\ reg[m] # -1) => reg[m] # reg[n]
DenseIds == \A n \in Names : reg[n] # -1 => reg[n] < Cardinality(Names)
\* hand complete behaviours to the harness
Emit == (Len(hist) = MaxLen) => PrintT(<<"VH", ToJson(hist)>>)
=========================================================================
