---------------------------- MODULE RegTrace ----------------------------
(* Trace validation for C41, sequential part.  After every operation on the real parsec_info_* functions the
   harness logs the operation, its result and the whole real state:
     {"e":"op","op":"reg"|"unr"|"lk"|"obj"|"set"|"get"|"tas","n":N,"o":O,"v":V,"old":OLD,"c":0|1,"d":0|1,"r":R,
      "nd":<destructor calls so far>,
      "reg":[[name,id],...]  (the info list, in list order), "maxid":M,
      "objs":[{"o":O,"known":K,"slots":[v0,...,v(K-1)]},...]}     (info_objects[] read directly, 99 = not a value)
   TLC checks that (a) the operation is allowed and its result is the one of Registry.tla - for a registration the
   property only demands a fresh identifier, so the identifier is taken from the event and must be distinct from
   every identifier in use; (b) the logged registry is exactly the abstract name -> identifier map, identifiers
   pairwise distinct; (c) every slot of every object array holds the abstract value (slots beyond the array's
   current size are NULL in the abstract state). *)
EXTENDS Registry, IOUtils
VARIABLES l
TraceLog == ndJsonDeserialize(IOEnv.TRACE)
Ev == TraceLog[l]
IsEv(e) == l <= Len(TraceLog) /\ Ev.e = e /\ l' = l + 1

\* ---- the logged state against the abstract state -------------------------------------------------------
RegPairs(ev) == {<<ev.reg[i][1], ev.reg[i][2]>> : i \in 1..Len(ev.reg)}
RegistryOK(ev, r) ==
    /\ RegPairs(ev) = {<<n, r[n]>> : n \in {m \in Names : r[m] # -1}}
    /\ Cardinality(RegPairs(ev)) = Len(ev.reg)                                   \* no entry twice
    /\ \A i, j \in 1..Len(ev.reg) : i # j => ev.reg[i][2] # ev.reg[j][2]          \* distinct identifiers
    /\ \A i \in 1..Len(ev.reg) : ev.reg[i][2] <= ev.maxid                         \* arrays are sized by max_id
ObjOK(ob, s) ==
    /\ ob.known = Len(ob.slots)
    /\ \A i \in Ids : s[ob.o][i] = IF i < ob.known THEN ob.slots[i + 1] ELSE 0
ObjsOK(ev, s, I) ==
    /\ {ev.objs[i].o : i \in 1..Len(ev.objs)} = I
    /\ \A i \in 1..Len(ev.objs) : ObjOK(ev.objs[i], s)

TInit == Init /\ l = 1
TReset == /\ IsEv("Reset")
          /\ reg' = [n \in Names |-> -1] /\ ctor' = {} /\ dtor' = {}
          /\ slots' = [o \in Objs |-> [i \in Ids |-> 0]] /\ inited' = {}
          /\ UNCHANGED <<seen, hist>>

Known == Ev.n \in Names /\ reg[Ev.n] # -1 /\ Ev.o \in inited
TOp == /\ IsEv("op")
       /\ CASE Ev.op = "reg" ->
                 /\ Ev.n \in Names
                 /\ IF reg[Ev.n] # -1 THEN Ev.r = -1 ELSE Ev.r \in Ids /\ Ev.r \notin Used(reg)
                 /\ reg' = RegisterReg(reg, Ev.n, Ev.r)
                 /\ ctor' = RegisterFlag(ctor, reg, Ev.n, Ev.c) /\ dtor' = RegisterFlag(dtor, reg, Ev.n, Ev.d)
                 /\ UNCHANGED <<slots, inited>>
            [] Ev.op = "unr" ->
                 /\ Ev.n \in Names /\ reg[Ev.n] # -1 /\ Ev.r = reg[Ev.n]
                 /\ slots' = UnregisterSlots(slots, reg, dtor, Ev.n)
                 /\ reg' = [reg EXCEPT ![Ev.n] = -1]
                 /\ UNCHANGED <<ctor, dtor, inited>>
            [] Ev.op = "lk" ->
                 /\ Ev.n \in Names /\ Ev.r = reg[Ev.n]
                 /\ UNCHANGED <<reg, ctor, dtor, slots, inited>>
            [] Ev.op = "obj" ->
                 /\ Ev.o \in Objs \ inited /\ inited' = inited \cup {Ev.o}
                 /\ UNCHANGED <<reg, ctor, dtor, slots>>
            [] Ev.op = "set" ->
                 /\ Known /\ Ev.r = SetRes(slots, reg, Ev.o, Ev.n)
                 /\ slots' = SetSlots(slots, reg, Ev.o, Ev.n, Ev.v)
                 /\ UNCHANGED <<reg, ctor, dtor, inited>>
            [] Ev.op = "get" ->
                 /\ Known /\ Ev.r = GetRes(slots, reg, ctor, Ev.o, Ev.n)
                 /\ slots' = GetSlots(slots, reg, ctor, Ev.o, Ev.n)
                 /\ UNCHANGED <<reg, ctor, dtor, inited>>
            [] Ev.op = "tas" ->
                 /\ Known /\ Ev.r = TasRes(slots, reg, Ev.o, Ev.n, Ev.v, Ev.old)
                 /\ slots' = TasSlots(slots, reg, Ev.o, Ev.n, Ev.v, Ev.old)
                 /\ UNCHANGED <<reg, ctor, dtor, inited>>
       /\ RegistryOK(Ev, reg')
       /\ ObjsOK(Ev, slots', inited')
       /\ UNCHANGED <<seen, hist>>
TNext == TReset \/ TOp
TSpec == TInit /\ [][TNext]_<<vars, l>>
AcceptExit == (l > Len(TraceLog)) => (PrintT("VERIF-ACCEPTED") /\ TLCSet("exit", TRUE))
=========================================================================
