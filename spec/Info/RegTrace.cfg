SPECIFICATION TSpec
CONSTANTS Names = {1,2,3,4,5,6}
 Objs = {1,2,3}
 Vals = {0,1,2,3}
 Flags = {}
 MaxLen = 0
INVARIANT AcceptExit
CHECK_DEADLOCK FALSE
