---------------------------- MODULE RegLinTrace ----------------------------
(* Trace validation for C41, concurrent part: is a recorded inv/res history of the real parsec_info_* functions
   linearizable with respect to Registry.tla ?   Events (ndjson, in stamp order):
     {"e":"inv","t":T,"op":OP,"n":N,"o":O,"v":V,"old":OLD,"c":C,"d":D,"pr":R}     pr = result of the matching res
     {"e":"res","t":T,"op":OP,"r":R}
     {"e":"Reset"}
   ("pr" is copied from the call's own res event by the checker before validation: a prophecy that keeps Lin
   deterministic for the one result the property leaves open, the fresh identifier chosen by a registration.)
   Between a call's inv and res the silent action Lin(t) applies the call's effect to the abstract state; the
   result computed there must be the one the real call returned.
   Not constrained: the value returned by parsec_info_set (the property speaks of what get and test-and-set
   observe; the sequential part checks set's return value). *)
EXTENDS Registry, IOUtils
CONSTANTS Thr
VARIABLES l, pend
tvars == <<reg, ctor, dtor, slots, inited, seen, hist, l, pend>>

TraceLog == ndJsonDeserialize(IOEnv.TRACE)
None == [op |-> "none"]
Ev == TraceLog[l]
IsEv(e) == l <= Len(TraceLog) /\ Ev.e = e /\ l' = l + 1
Model == <<reg, ctor, dtor, slots, inited>>

TInit == Init /\ l = 1 /\ pend = [t \in Thr |-> None]
TReset == /\ IsEv("Reset")
          /\ reg' = [n \in Names |-> -1] /\ ctor' = {} /\ dtor' = {}
          /\ slots' = [o \in Objs |-> [i \in Ids |-> 0]] /\ inited' = {}
          /\ pend' = [t \in Thr |-> None]
          /\ UNCHANGED <<seen, hist>>

TInv == /\ IsEv("inv") /\ Ev.t \in Thr /\ pend[Ev.t] = None
        /\ pend' = [pend EXCEPT ![Ev.t] = [op |-> Ev.op, n |-> Ev.n, o |-> Ev.o, v |-> Ev.v, old |-> Ev.old,
                                           c |-> Ev.c, d |-> Ev.d, pr |-> Ev.pr, lin |-> FALSE, r |-> 0]]
        /\ UNCHANGED <<Model, seen, hist>>

Done(t, r) == pend' = [pend EXCEPT ![t].lin = TRUE, ![t].r = r]
Lin(t) ==
    /\ pend[t] # None /\ ~pend[t].lin /\ UNCHANGED <<l, seen, hist>>
    /\ LET p == pend[t]
           known == p.n \in Names /\ reg[p.n] # -1 /\ p.o \in inited
       IN CASE p.op = "reg" ->
                 /\ p.n \in Names
                 /\ reg[p.n] = -1 => (p.pr \in Ids /\ p.pr \notin Used(reg))       \* a fresh identifier
                 /\ reg' = RegisterReg(reg, p.n, p.pr)
                 /\ ctor' = RegisterFlag(ctor, reg, p.n, p.c) /\ dtor' = RegisterFlag(dtor, reg, p.n, p.d)
                 /\ Done(t, RegisterRes(reg, p.n, p.pr))
                 /\ UNCHANGED <<slots, inited>>
            [] p.op = "unr" ->
                 /\ p.n \in Names /\ reg[p.n] # -1
                 /\ slots' = UnregisterSlots(slots, reg, dtor, p.n)
                 /\ reg' = [reg EXCEPT ![p.n] = -1]
                 /\ Done(t, reg[p.n])
                 /\ UNCHANGED <<ctor, dtor, inited>>
            [] p.op = "lk" ->
                 /\ p.n \in Names /\ Done(t, reg[p.n])
                 /\ UNCHANGED Model
            [] p.op = "obj" ->
                 /\ p.o \in Objs \ inited /\ inited' = inited \cup {p.o} /\ Done(t, 0)
                 /\ UNCHANGED <<reg, ctor, dtor, slots>>
            [] p.op = "set" ->
                 /\ known /\ slots' = SetSlots(slots, reg, p.o, p.n, p.v) /\ Done(t, p.pr)
                 /\ UNCHANGED <<reg, ctor, dtor, inited>>
            [] p.op = "get" ->
                 /\ known /\ slots' = GetSlots(slots, reg, ctor, p.o, p.n)
                 /\ Done(t, GetRes(slots, reg, ctor, p.o, p.n))
                 /\ UNCHANGED <<reg, ctor, dtor, inited>>
            [] p.op = "tas" ->
                 /\ known /\ slots' = TasSlots(slots, reg, p.o, p.n, p.v, p.old)
                 /\ Done(t, TasRes(slots, reg, p.o, p.n, p.v, p.old))
                 /\ UNCHANGED <<reg, ctor, dtor, inited>>

TRes == /\ IsEv("res") /\ Ev.t \in Thr /\ pend[Ev.t] # None /\ pend[Ev.t].lin
        /\ pend[Ev.t].op = Ev.op /\ pend[Ev.t].r = Ev.r
        /\ pend' = [pend EXCEPT ![Ev.t] = None]
        /\ UNCHANGED <<Model, seen, hist>>

TNext == TReset \/ TInv \/ TRes \/ \E t \in Thr : Lin(t)
TSpec == TInit /\ [][TNext]_tvars
AcceptExit == (l > Len(TraceLog)) => (PrintT("VERIF-ACCEPTED") /\ TLCSet("exit", TRUE))
\* the property on the abstract state the history is explained by
DistinctInUse == DistinctIds
============================================================================
