SPECIFICATION TSpec
CONSTANTS Names = {1,2,3,4,5,6,7,8}
 Objs = {1,2,3}
 Vals = {0,1,2,3}
 Flags = {}
 MaxLen = 0
 Thr = {1,2,3,4,5,6,7,8,9}
INVARIANTS AcceptExit DistinctInUse
CHECK_DEADLOCK FALSE
