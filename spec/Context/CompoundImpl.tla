---------------------------- MODULE CompoundImpl ----------------------------
(* Implementation-shaped model of parsec/compound.c with the pieces of scheduling.c and of the local termination
   detector it relies on.

   parsec_context_add_taskpool(compound):  the compound has no termination-detection module: the "local" one is
       installed and taskpool_ready() is called (AddReady) -- with ReadyBeforeStartup = TRUE this happens, as in
       scheduling.c, BEFORE the startup hook gave the compound its runtime actions; then active_taskpools++ and
       parsec_compound_taskpool_startup (Startup): set_runtime_actions(NP), completion callbacks on the members,
       add_taskpool(member 1).  With ReadyBeforeStartup = FALSE the module is installed by parsec_compose and
       taskpool_ready() is called at the end of the startup hook (the proposed repair).
   member taskpool i: its tasks run once it was added (TaskStart/TaskEnd); when all are done its own detector calls
       parsec_composed_taskpool_cb (MemberDone): completed_taskpools++, addto_runtime_actions(-1), if some remain
       add_taskpool(member completed+1).
   local detector of the compound (Detect): when the pending actions are 0 while the monitor is BUSY the taskpool is
       declared terminated: on_complete of the compound (cdone++) and active_taskpools--.

   CompoundImpl refines Compound (cur = completed + 1): the two properties are checked as invariants. *)
EXTENDS Integers, Sequences, FiniteSets
CONSTANTS NP, NT, ReadyBeforeStartup
VARIABLES pc,         \* progress of add_taskpool(compound): "new" -> ("ready" ->) "started"
          mon,        \* monitor of the compound's detector: "not_ready" | "busy" | "terminated"
          pa,         \* nb_pending_actions of the compound
          completed,  \* compound->completed_taskpools
          added,      \* members added to the context
          state,      \* tasks
          cdone,      \* calls of the compound's completion callback
          active      \* context->active_taskpools (without the reference of parsec_context_start)
vars == <<pc, mon, pa, completed, added, state, cdone, active>>
Tasks == {t \in (1..NP) \X (1..3) : t[2] <= NT[t[1]]}

Init == /\ pc = "new" /\ mon = "not_ready" /\ pa = 0 /\ completed = 0 /\ added = {} /\ cdone = 0 /\ active = 0
        /\ state = [t \in Tasks |-> "idle"]

\* termdet_local: taskpool_ready / addto_runtime_actions detect termination when nothing is pending
Terminates(m, p) == m = "busy" /\ p = 0

\* scheduling.c: tp->tdm.module == NULL => open "local", monitor, taskpool_ready(tp)
AddReady == /\ pc = "new" /\ ReadyBeforeStartup
            /\ pc' = "ready"
            /\ IF pa = 0 THEN mon' = "terminated" /\ cdone' = cdone + 1 /\ active' = active - 1
               ELSE mon' = "busy" /\ UNCHANGED <<cdone, active>>
            /\ UNCHANGED <<pa, completed, added, state>>

\* active_taskpools++ ; parsec_compound_taskpool_startup
Startup == /\ pc = (IF ReadyBeforeStartup THEN "ready" ELSE "new")
           /\ pc' = "started"
           /\ pa' = NP                                    \* taskpool_set_runtime_actions(nb_taskpools)
           /\ added' = {1}                                \* parsec_context_add_taskpool(taskpool_array[0])
           /\ active' = active + 2                        \* the compound and its first member
           /\ mon' = IF ReadyBeforeStartup THEN mon ELSE "busy"     \* repaired: taskpool_ready() after the accounting
           /\ UNCHANGED <<completed, state, cdone>>

TaskStart(t) == /\ t[1] \in added /\ state[t] = "idle"
                /\ state' = [state EXCEPT ![t] = "run"]
                /\ UNCHANGED <<pc, mon, pa, completed, added, cdone, active>>
TaskEnd(t) == /\ state[t] = "run"
              /\ state' = [state EXCEPT ![t] = "done"]
              /\ UNCHANGED <<pc, mon, pa, completed, added, cdone, active>>

\* termination of member i: parsec_taskpool_termination_detected -> parsec_composed_taskpool_cb, active_taskpools--
MemberDone(i) ==
    /\ i \in added /\ i = completed + 1 /\ \A t \in Tasks : t[1] = i => state[t] = "done"
    /\ completed' = completed + 1
    /\ pa' = pa - 1
    /\ LET remaining == pa - 1 IN
       /\ added' = IF remaining > 0 THEN added \cup {completed + 2} ELSE added
       /\ IF Terminates(mon, remaining)
          THEN mon' = "terminated" /\ cdone' = cdone + 1 /\ active' = active - 1 + (IF remaining > 0 THEN 1 ELSE 0) - 1
          ELSE UNCHANGED <<mon, cdone>> /\ active' = active - 1 + (IF remaining > 0 THEN 1 ELSE 0)
    /\ UNCHANGED <<pc, state>>

Finished == completed = NP /\ UNCHANGED vars
Next == AddReady \/ Startup \/ (\E t \in Tasks : TaskStart(t) \/ TaskEnd(t)) \/ (\E i \in 1..NP : MemberDone(i)) \/ Finished
Spec == Init /\ [][Next]_vars

\* ---- refinement of Compound: cur = completed + 1 --------------------------------------------------------------------
OneAfterAnother == \A t \in Tasks : state[t] # "idle" => \A u \in Tasks : u[1] < t[1] => state[u] = "done"
CompletesOnceAfterLast == cdone <= 1 /\ (cdone = 1 => \A t \in Tasks : state[t] = "done")
CompletesAtEnd == completed = NP => cdone = 1
ContextCount == active >= 0 /\ (completed = NP => active = 0)
=============================================================================
