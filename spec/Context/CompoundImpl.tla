---------------------------- MODULE CompoundImpl ----------------------------
(* Implementation-shaped model of parsec/compound.c with the pieces of scheduling.c (parsec_context_add_taskpool,
   parsec_taskpool_termination_detected, parsec_context_start) and of the local termination detector it relies on.
   Every function is the sequence of steps the code performs; a thread executes the steps of the frame on top of
   its call stack, so that a completion callback can run NESTED inside parsec_context_add_taskpool (a member with
   nothing to do terminates synchronously in taskpool_ready()) or CONCURRENTLY on another thread (the member's
   tasks were given to the scheduler and a worker finished them while the enabling thread had not yet resumed).

   parsec_compound_taskpool_startup (frame "startup", run by the main thread inside add_taskpool(compound)):
       acct   taskpool_set_runtime_actions(nb_taskpools)             pa := NP
       ready  taskpool_ready()                                       mon := busy (terminated when pa = 0)
       add    parsec_context_add_taskpool(taskpool_array[0])         Enable(1)
       ret
   parsec_composed_taskpool_cb (frame "cb" of member m, run by the thread that detected the termination of m):
       inc    k = completed_taskpools++
       dec    remaining = addto_runtime_actions(-1)                  may terminate the compound: cdone++
       add    if remaining > 0: add_taskpool(taskpool_array[k+1])    Enable(k+2)   (members are numbered from 1)
       ret    back in parsec_taskpool_termination_detected: active_taskpools--
   Enable(m) = parsec_context_add_taskpool(member m): active_taskpools++, the tasks of m become runnable; a member
       without task either terminates inside the call (callback frame pushed on the same thread: e.g. a map operator
       over a matrix without local tile) or later (e.g. a PTG taskpool with an empty execution space, whose
       internal startup tasks still have to run).
   MemberTerminates(th, m): an idle thread detects the termination of member m (all its tasks done) and runs its
       completion callback.
   Usage "before": the compound is added before parsec_context_start (no task runs, no other thread works until the
   main thread has returned from add_taskpool); "running": the context was started first.

   Order selects the order of the steps:
       "code"                  the order of compound.c
       "cursor_after_enable"   the callback only reads the cursor at the top and increments it after add  (seeded)
       "account_after_enable"  the startup does add first, then acct, ready                                (seeded)
       "ready_before_account"  ready, acct, add: the order obtained when parsec_context_add_taskpool installs the
                               detector of a compound that has none (the defect repaired in compound.c)
   Only "code" refines Compound; each of the others violates an invariant or deadlocks (sensitivity self-tests).

   History variables (not read by any guard): sync = empty members that terminated inside Enable, win = members
   whose termination was detected while the frame that enabled them was still on a stack.  The terminal states give
   the scenarios (layout, usage, sync, win) that the check replays on the real code. *)
EXTENDS Integers, Sequences, FiniteSets, TLC, Json
CONSTANTS Layouts, NTH, Order, Usages
VARIABLES nt,         \* tasks per member
          usage,      \* "before" | "running"
          mainpc,     \* main thread: "begin" -> "adding" (inside add_taskpool(compound)) -> "wait" (parsec_context_wait)
          started,    \* parsec_context_start done: workers run
          stack,      \* per thread: sequence of frames
          mon,        \* monitor of the compound's detector: "not_ready" | "busy" | "terminated"
          pa,         \* nb_pending_actions of the compound
          completed,  \* compound->completed_taskpools
          enabled,    \* per member: number of parsec_context_add_taskpool calls
          term,       \* per member: termination detected
          state,      \* tasks
          cdone,      \* calls of the compound's completion callback
          active,     \* context->active_taskpools (without the reference of parsec_context_start)
          sync, win   \* history
vars == <<nt, usage, mainpc, started, stack, mon, pa, completed, enabled, term, state, cdone, active, sync, win>>
NP == Len(nt)
TasksOf(l) == {t \in (1..Len(l)) \X (1..3) : t[2] <= l[t[1]]}
Tasks == TasksOf(nt)
Th == 1..NTH
MaxMembers == 6                        \* constant supersets for the quantifiers of Next (per-action coverage)
AnyTask == (1..MaxMembers) \X (1..3)
AllDone(m) == \A t \in Tasks : t[1] = m => state[t] = "done"

Frame(f, m, pc) == [f |-> f, m |-> m, pc |-> pc, k |-> 0, rem |-> 0, en |-> 0]
SOrder == CASE Order = "account_after_enable" -> <<"add", "acct", "ready", "ret">>
            [] Order = "ready_before_account" -> <<"ready", "acct", "add", "ret">>
            [] OTHER -> <<"acct", "ready", "add", "ret">>
COrder == <<"inc", "dec", "add", "ret">>
After(seq, pc) == seq[(CHOOSE i \in 1..Len(seq) : seq[i] = pc) + 1]
Top(th) == stack[th][Len(stack[th])]
At(th, f, pc) == stack[th] # <<>> /\ Top(th).f = f /\ Top(th).pc = pc
Idle(th) == stack[th] = <<>> /\ started /\ (th = 1 => mainpc = "wait")

Init == /\ nt \in Layouts /\ usage \in Usages /\ mainpc = "begin" /\ started = (usage = "running")
        /\ stack = [th \in Th |-> <<>>] /\ mon = "not_ready" /\ pa = 0 /\ completed = 0
        /\ enabled = [m \in 1..Len(nt) |-> 0] /\ term = [m \in 1..Len(nt) |-> FALSE]
        /\ state = [t \in TasksOf(nt) |-> "idle"] /\ cdone = 0 /\ active = 0 /\ sync = {} /\ win = {}

\* ---- main thread -----------------------------------------------------------------------------------------------------
\* parsec_context_add_taskpool(compound): active_taskpools++, startup hook
AddCompound == /\ mainpc = "begin" /\ mainpc' = "adding"
               /\ stack' = [stack EXCEPT ![1] = <<Frame("startup", 0, SOrder[1])>>]
               /\ active' = active + 1
               /\ UNCHANGED <<nt, usage, started, mon, pa, completed, enabled, term, state, cdone, sync, win>>
\* add_taskpool returned; parsec_context_start (usage "before"), then parsec_context_wait
MainWait == /\ mainpc = "adding" /\ stack[1] = <<>> /\ mainpc' = "wait" /\ started' = TRUE
            /\ UNCHANGED <<nt, usage, stack, mon, pa, completed, enabled, term, state, cdone, active, sync, win>>

\* ---- parsec_context_add_taskpool(member m) called by the top frame of th (which moves to pc npc) -------------------
\* the new stack (a member that terminates inside the call runs its callback nested on the same thread)
EnableStack(th, m, npc, nested) ==
    LET me == [Top(th) EXCEPT !.pc = npc, !.en = m]
        base == [stack EXCEPT ![th] = [@ EXCEPT ![Len(@)] = me]] IN
    IF nested THEN [base EXCEPT ![th] = Append(@, Frame("cb", m, COrder[1]))] ELSE base
Enable(th, m, npc) ==
    /\ m \in 1..NP                       \* (taskpool_array[m-1] # NULL: invariant NextExists)
    /\ enabled' = [enabled EXCEPT ![m] = @ + 1]
    /\ active' = active + 1
    /\ \/ /\ nt[m] = 0 /\ ~term[m]       \* nothing to do: taskpool_ready() inside add_taskpool detects the termination
          /\ term' = [term EXCEPT ![m] = TRUE] /\ sync' = sync \cup {m}
          /\ stack' = EnableStack(th, m, npc, TRUE)
       \/ /\ stack' = EnableStack(th, m, npc, FALSE)
          /\ UNCHANGED <<term, sync>>

\* ---- parsec_compound_taskpool_startup ---------------------------------------------------------------------------------
Advance(th, seq) == stack' = [stack EXCEPT ![th] = [@ EXCEPT ![Len(@)] = [Top(th) EXCEPT !.pc = After(seq, Top(th).pc)]]]
SAcct(th) == /\ At(th, "startup", "acct") /\ pa' = NP /\ Advance(th, SOrder)
             /\ UNCHANGED <<nt, usage, mainpc, started, mon, completed, enabled, term, state, cdone, active, sync, win>>
SReady(th) == /\ At(th, "startup", "ready") /\ mon = "not_ready" /\ Advance(th, SOrder)
              /\ IF pa = 0 THEN mon' = "terminated" /\ cdone' = cdone + 1 /\ active' = active - 1
                 ELSE mon' = "busy" /\ UNCHANGED <<cdone, active>>
              /\ UNCHANGED <<nt, usage, mainpc, started, pa, completed, enabled, term, state, sync, win>>
SAdd(th) == /\ At(th, "startup", "add") /\ Enable(th, 1, After(SOrder, "add"))
            /\ UNCHANGED <<nt, usage, mainpc, started, mon, pa, completed, state, cdone, win>>
Ret(th) == /\ stack[th] # <<>> /\ Top(th).pc = "ret"
           /\ stack' = [stack EXCEPT ![th] = SubSeq(@, 1, Len(@) - 1)]
           /\ IF Top(th).f = "cb"
              THEN /\ active' = active - 1          \* parsec_taskpool_termination_detected of the member
                   /\ completed' = IF Order = "cursor_after_enable" /\ Top(th).rem > 0 THEN completed + 1 ELSE completed
              ELSE UNCHANGED <<active, completed>>
           /\ UNCHANGED <<nt, usage, mainpc, started, mon, pa, enabled, term, state, cdone, sync, win>>

\* ---- parsec_composed_taskpool_cb ----------------------------------------------------------------------------------------
CInc(th) == /\ At(th, "cb", "inc")
            /\ stack' = [stack EXCEPT ![th] = [@ EXCEPT ![Len(@)] = [Top(th) EXCEPT !.pc = "dec", !.k = completed]]]
            /\ completed' = IF Order = "cursor_after_enable" THEN completed ELSE completed + 1
            /\ UNCHANGED <<nt, usage, mainpc, started, mon, pa, enabled, term, state, cdone, active, sync, win>>
CDec(th) == /\ At(th, "cb", "dec")
            /\ stack' = [stack EXCEPT ![th] = [@ EXCEPT ![Len(@)] = [Top(th) EXCEPT !.pc = "add", !.rem = pa - 1]]]
            /\ pa' = pa - 1
            /\ IF mon = "busy" /\ pa - 1 = 0                 \* termdet_local: the compound terminates, its callback runs
               THEN mon' = "terminated" /\ cdone' = cdone + 1 /\ active' = active - 1
               ELSE UNCHANGED <<mon, cdone, active>>
            /\ UNCHANGED <<nt, usage, mainpc, started, completed, enabled, term, state, sync, win>>
CAdd(th) == /\ At(th, "cb", "add")
            /\ IF Top(th).rem > 0
               THEN Enable(th, Top(th).k + 2, "ret")
               ELSE Advance(th, COrder) /\ UNCHANGED <<enabled, active, term, sync>>
            /\ UNCHANGED <<nt, usage, mainpc, started, mon, pa, completed, state, cdone, win>>

\* ---- tasks and termination of the members ------------------------------------------------------------------------------
TaskStart(t) == /\ t \in Tasks /\ enabled[t[1]] > 0 /\ state[t] = "idle" /\ \E th \in Th : Idle(th)
                /\ state' = [state EXCEPT ![t] = "run"]
                /\ UNCHANGED <<nt, usage, mainpc, started, stack, mon, pa, completed, enabled, term, cdone, active, sync, win>>
TaskEnd(t) == /\ t \in Tasks /\ state[t] = "run"
              /\ state' = [state EXCEPT ![t] = "done"]
              /\ UNCHANGED <<nt, usage, mainpc, started, stack, mon, pa, completed, enabled, term, cdone, active, sync, win>>
MemberTerminates(th, m) ==
    /\ m <= NP /\ Idle(th) /\ enabled[m] > 0 /\ ~term[m] /\ AllDone(m)
    /\ term' = [term EXCEPT ![m] = TRUE]
    /\ stack' = [stack EXCEPT ![th] = <<Frame("cb", m, COrder[1])>>]
    /\ win' = IF \E u \in Th : \E i \in 1..Len(stack[u]) : stack[u][i].en = m THEN win \cup {m} ELSE win
    /\ UNCHANGED <<nt, usage, mainpc, started, mon, pa, completed, enabled, state, cdone, active, sync>>

AtEnd == cdone = 1 /\ mainpc = "wait" /\ \A th \in Th : stack[th] = <<>>
Finished == AtEnd /\ UNCHANGED vars
Next == \/ AddCompound \/ MainWait
        \/ \E th \in Th : SAcct(th)
        \/ \E th \in Th : SReady(th)
        \/ \E th \in Th : SAdd(th)
        \/ \E th \in Th : Ret(th)
        \/ \E th \in Th : CInc(th)
        \/ \E th \in Th : CDec(th)
        \/ \E th \in Th : CAdd(th)
        \/ \E t \in AnyTask : TaskStart(t)
        \/ \E t \in AnyTask : TaskEnd(t)
        \/ \E th \in Th : \E m \in 1..MaxMembers : MemberTerminates(th, m)
        \/ Finished
Spec == Init /\ [][Next]_vars

\* ---- refinement of Compound: cur = number of terminated members + 1 ------------------------------------------------
curBar == Cardinality({m \in 1..NP : term[m]}) + 1
Abs == INSTANCE Compound WITH cur <- curBar
Refines == Abs!Spec

OneAfterAnother == \A t \in Tasks : state[t] # "idle" => \A u \in Tasks : u[1] < t[1] => state[u] = "done"
CompletesOnceAfterLast == cdone <= 1 /\ (cdone = 1 => \A t \in Tasks : state[t] = "done")
\* every member is enabled at most once, in composition order, after its predecessor terminated
EnabledOnce == \A m \in 1..NP : enabled[m] <= 1 /\ (enabled[m] > 0 => \A j \in 1..(m - 1) : term[j])
\* the assert at the top of the callback: the taskpool that completed is the one under the cursor
CursorMatches == \A th \in Th : \A i \in 1..Len(stack[th]) :
                    LET f == stack[th][i] IN (f.f = "cb" /\ f.pc # "inc") => f.m = f.k + 1
\* the assert before enabling the successor: there is one
NextExists == \A th \in Th : \A i \in 1..Len(stack[th]) :
                    LET f == stack[th][i] IN (f.f = "cb" /\ f.pc = "add" /\ f.rem > 0) => f.k + 2 <= NP
Accounted == pa >= 0 /\ pa <= NP
ContextCount == active >= 0 /\ (AtEnd => active = 0 /\ completed = NP /\ \A m \in 1..NP : term[m])

\* the scenarios for the runs on the real code
Emit == AtEnd => PrintT(<<"VH", ToJson([nt |-> nt, usage |-> usage, sync |-> sync, win |-> win])>>)
=============================================================================
