---------------------------- MODULE EpochTrace ----------------------------
(* Trace validation for C06: recorded executions of harness/epoch/epoch_replay.c (histories of Epoch.tla replayed on
   the real parsec_context_start / add_taskpool / wait / taskpool_wait / test with tiny PTG and DTD taskpools).
   Events, consumed in stamp order (one atomic counter):
     {"e":"Start"}                       stamped after parsec_context_start returned
     {"e":"Add","tp":T,"n":N,"by":"main"|"task"|"cb","from":P}   stamped BEFORE parsec_context_add_taskpool(T)
     {"e":"TaskStart","tp":T,"k":K}      stamped inside the task body, on entry
     {"e":"TaskEnd","tp":T,"k":K}        stamped inside the task body, before it returns
     {"e":"Callback","tp":T}             stamped on entry of the completion callback of T
     {"e":"WaitEnter"} / {"e":"WaitReturn"}             around parsec_context_wait (before the call / after it returned)
     {"e":"TpWaitEnter","tp":T} / {"e":"TpWaitReturn","tp":T}   around parsec_taskpool_wait(T)
     {"e":"Test","r":R}                  parsec_context_test returned R (stamped after the call)
   Checked (the statement of C06, nothing about counters):
     WaitReturn    only when every task of every taskpool added so far (by the main thread, a task or a callback: its
                   Add event precedes) has ended and every such taskpool had its callback             [WaitSafe]
     TpWaitReturn  only when every task of that taskpool has ended                                     [TpWaitSafe]
     Callback      at most once per taskpool, after its last task; exactly once at WaitReturn          [CbOnce]
     Test = true   only when all added taskpools are complete
     every task starts once and ends once; the same rules in every epoch (the state is not reset between epochs,
     taskpool ids are fresh) *)
EXTENDS Naturals, Integers, Sequences, FiniteSets, TLC, Json, IOUtils
CONSTANTS MaxTP
VARIABLES l, ctx, epoch, ntasks, started, ended, cb, tpwaited, addEp
tvars == <<l, ctx, epoch, ntasks, started, ended, cb, tpwaited, addEp>>
TraceLog == ndJsonDeserialize(IOEnv.TRACE)
Ev == TraceLog[l]
IsEv(e) == l <= Len(TraceLog) /\ Ev.e = e /\ l' = l + 1
TPs == 1..MaxTP

Added == {t \in TPs : ntasks[t] >= 0}
AllTasksEnded(t) == ended[t] = 0..(ntasks[t] - 1)
Complete(t) == AllTasksEnded(t) /\ cb[t] = 1

TInit == /\ l = 1 /\ ctx = "idle" /\ epoch = 0
         /\ ntasks = [t \in TPs |-> -1] /\ started = [t \in TPs |-> {}] /\ ended = [t \in TPs |-> {}]
         /\ cb = [t \in TPs |-> 0] /\ tpwaited = {} /\ addEp = [t \in TPs |-> 0]
TReset == /\ IsEv("Reset") /\ ctx' = "idle" /\ epoch' = 0
          /\ ntasks' = [t \in TPs |-> -1] /\ started' = [t \in TPs |-> {}] /\ ended' = [t \in TPs |-> {}]
          /\ cb' = [t \in TPs |-> 0] /\ tpwaited' = {} /\ addEp' = [t \in TPs |-> 0]
TStart == /\ IsEv("Start") /\ ctx = "idle" /\ ctx' = "started"
          /\ UNCHANGED <<epoch, ntasks, started, ended, cb, tpwaited, addEp>>
TAdd == /\ IsEv("Add") /\ Ev.tp \in TPs /\ ntasks[Ev.tp] = -1 /\ Ev.n >= 0
        /\ Ev.by = "task" => (Ev.from \in Added /\ started[Ev.from] # ended[Ev.from])   \* a task of `from` is running
        \* a completion callback belongs to the epoch of its taskpool: it cannot still be running (and adding) after the
        \* parsec_context_wait of that epoch returned
        /\ Ev.by = "cb" => (Ev.from \in Added /\ cb[Ev.from] = 1 /\ addEp[Ev.from] = epoch)
        /\ ntasks' = [ntasks EXCEPT ![Ev.tp] = Ev.n]
        /\ addEp' = [addEp EXCEPT ![Ev.tp] = epoch]
        /\ UNCHANGED <<ctx, epoch, started, ended, cb, tpwaited>>
TTaskStart == /\ IsEv("TaskStart") /\ Ev.tp \in Added /\ Ev.k \in 0..(ntasks[Ev.tp] - 1) /\ Ev.k \notin started[Ev.tp]
              /\ cb[Ev.tp] = 0
              /\ started' = [started EXCEPT ![Ev.tp] = @ \cup {Ev.k}]
              /\ UNCHANGED <<ctx, epoch, ntasks, ended, cb, tpwaited, addEp>>
TTaskEnd == /\ IsEv("TaskEnd") /\ Ev.tp \in Added /\ Ev.k \in started[Ev.tp] /\ Ev.k \notin ended[Ev.tp]
            /\ cb[Ev.tp] = 0
            /\ ended' = [ended EXCEPT ![Ev.tp] = @ \cup {Ev.k}]
            /\ UNCHANGED <<ctx, epoch, ntasks, started, cb, tpwaited, addEp>>
\* CbOnce: exactly one callback, after the last task
TCallback == /\ IsEv("Callback") /\ Ev.tp \in Added /\ cb[Ev.tp] = 0 /\ AllTasksEnded(Ev.tp)
             /\ cb' = [cb EXCEPT ![Ev.tp] = 1]
             /\ UNCHANGED <<ctx, epoch, ntasks, started, ended, tpwaited, addEp>>
TWaitEnter == /\ IsEv("WaitEnter") /\ ctx = "started" /\ ctx' = "waiting"
              /\ UNCHANGED <<epoch, ntasks, started, ended, cb, tpwaited, addEp>>
\* WaitSafe
TWaitReturn == /\ IsEv("WaitReturn") /\ ctx = "waiting"
               /\ \A t \in Added : Complete(t)
               /\ ctx' = "idle" /\ epoch' = epoch + 1
               /\ UNCHANGED <<ntasks, started, ended, cb, tpwaited, addEp>>
TTpWaitEnter == /\ IsEv("TpWaitEnter") /\ Ev.tp \in Added
                /\ UNCHANGED <<ctx, epoch, ntasks, started, ended, cb, tpwaited, addEp>>
\* TpWaitSafe
TTpWaitReturn == /\ IsEv("TpWaitReturn") /\ Ev.tp \in Added /\ AllTasksEnded(Ev.tp)
                 /\ tpwaited' = tpwaited \cup {Ev.tp}
                 /\ UNCHANGED <<ctx, epoch, ntasks, started, ended, cb, addEp>>
TTest == /\ IsEv("Test") /\ (Ev.r # 0 => \A t \in Added : Complete(t))
         /\ UNCHANGED <<ctx, epoch, ntasks, started, ended, cb, tpwaited, addEp>>
TNext == TReset \/ TStart \/ TAdd \/ TTaskStart \/ TTaskEnd \/ TCallback \/ TWaitEnter \/ TWaitReturn
         \/ TTpWaitEnter \/ TTpWaitReturn \/ TTest
TSpec == TInit /\ [][TNext]_tvars
AcceptExit == (l > Len(TraceLog)) => (PrintT("VERIF-ACCEPTED") /\ TLCSet("exit", TRUE))
\* nothing of a taskpool happens after parsec_taskpool_wait on it returned
TpWaitSafe == \A t \in tpwaited : AllTasksEnded(t)
===========================================================================
