SPECIFICATION TSpec
CONSTANTS MaxTP = 16
INVARIANTS AcceptExit TpWaitSafe
CHECK_DEADLOCK FALSE
