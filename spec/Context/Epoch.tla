---------------------------- MODULE Epoch ----------------------------
(* Context epochs: parsec_context_start / parsec_context_add_taskpool / parsec_context_wait / parsec_taskpool_wait /
   parsec_context_test and taskpool completion callbacks (parsec/scheduling.c), property C06.

   Implementation-shaped part (named after the code):
     active            context->active_taskpools: one per unfinished taskpool plus the start token
     Start             parsec_context_start: wakes the workers, active++ (token matched by the next parsec_context_wait)
     Add(tp,..)        parsec_context_add_taskpool by the main thread: active++, startup tasks become schedulable
     AddFromTask(tp)   the same, called from a running task of tp;   AddFromCb(tp): called from tp's completion callback
     TaskStart/TaskEnd a task body of an added taskpool runs (workers run after Start; the main thread runs tasks
                       only inside a wait / test call)
     Callback(tp)      parsec_taskpool_termination_detected, first half: the user completion callback
     Retire(tp)        ... second half: active--            (CbAfterDec = TRUE swaps the halves: seeded defect)
     WaitEnter         parsec_context_wait: active-- (gives the token back), the main thread joins the workers
     WaitReturn        __parsec_context_wait leaves its loop: enabled iff active = 0 (all_tasks_done)
     TpWaitEnter/Return(tp)  parsec_taskpool_wait: returns iff the termination detector of tp says TERMINATED
     Test              parsec_context_test: returns active = 0
   DTD taskpools (kind "d", parsec/interfaces/dtd/insert_function.c):
     their termination detector is only made ready by on_enter_wait (parsec_dtd_taskpool_enter_wait), i.e. while the
     main thread is inside parsec_context_wait; WaitReturn runs on_leave_wait = parsec_dtd_taskpool_leave_wait on each
     of them: new detector, active++ (re-attached, state "rearmed"); FreeTp(tp) = parsec_taskpool_free ->
     parsec_dtd_taskpool_destructor -> parsec_taskpool_termination_detected: active-- and, when DtdCbAtFree (= the
     code), the completion callback AGAIN.  TLC shows that CbOnce fails for DTD taskpools with DtdCbAtFree = TRUE
     (finding dtd-callback-again-at-free) and holds with FALSE.
   Property part (C06), as invariants:
     WaitSafe     when parsec_context_wait has returned, every taskpool added before (by the main thread, by a task or
                  by a callback) has run all its tasks and its callback
     TpWaitSafe   when parsec_taskpool_wait(tp) has returned, all tasks of tp have ended
     CbOnce       the completion callback of a taskpool runs at most once and only after its last task
                  (exactly once at WaitSafe)
   `hist` = the user-visible actions (what the replay driver must do); printed by Emit in simulation mode. *)
EXTENDS Naturals, Sequences, FiniteSets, TLC, Json
CONSTANTS TPs,          \* taskpool ids 1..N
          MaxTasks,     \* a taskpool has 1..MaxTasks tasks
          MaxEpochs,    \* number of start..wait cycles
          MaxPerEpoch,  \* bound on the taskpools (children included) registered in one epoch
          Kinds,        \* subset of {"p", "d"}: PTG / DTD taskpools (the model treats them alike; the driver does not)
          CbAfterDec,   \* FALSE = the code; TRUE = seeded defect (active-- before the callback)
          DtdCbAtFree   \* TRUE = the code: the DTD destructor runs the completion callback once more
VARIABLES ctx,          \* "idle" | "started" | "waiting"
          main,         \* what the main thread is blocked in: <<"free", 0>> | <<"ctxwait", 0>> | <<"tpwait", tp>>
          active, epoch,
          st,           \* tp -> "new" | "reserved" | "added" | "cb" | "dec" | "term" | "rearmed" | "freed"
          left, run, cb,
          plan,         \* tp -> [n, ct, cc, kind]: tasks, child added from the first task, child added from the callback
          addEpoch,     \* tp -> epoch in which it was added
          tpwaited,     \* set of taskpools whose parsec_taskpool_wait has returned
          hist
vars == <<ctx, main, active, epoch, st, left, run, cb, plan, addEpoch, tpwaited, hist>>

None == 0
Free == <<"free", 0>>
CtxWait == <<"ctxwait", 0>>
NoPlan == [n |-> 0, ct |-> None, cc |-> None, kind |-> "p"]

Init == /\ ctx = "idle" /\ main = Free /\ active = 0 /\ epoch = 0
        /\ st = [t \in TPs |-> "new"] /\ left = [t \in TPs |-> 0] /\ run = [t \in TPs |-> 0] /\ cb = [t \in TPs |-> 0]
        /\ plan = [t \in TPs |-> NoPlan] /\ addEpoch = [t \in TPs |-> 0]
        /\ tpwaited = {} /\ hist = <<>>

Fresh == {t \in TPs : st[t] = "new"}

Start == /\ main = Free /\ ctx = "idle" /\ epoch < MaxEpochs
         /\ \A t \in TPs : st[t] # "rearmed"                    \* the driver frees DTD taskpools right after the wait
         /\ ctx' = "started" /\ active' = active + 1
         /\ hist' = Append(hist, [op |-> "start"])
         /\ UNCHANGED <<main, epoch, st, left, run, cb, plan, addEpoch, tpwaited>>

\* the main thread adds the next fresh taskpool t with n tasks of kind k; wt / wc: reserve the next fresh ids as the
\* children added from its first task / from its completion callback (children are PTG taskpools with ChildTasks tasks)
Min(S) == CHOOSE x \in S : \A y \in S : x <= y
ThisEpoch == {u \in TPs : st[u] # "new" /\ addEpoch[u] = epoch}
Add(n, k, wt, wc) ==
    /\ main = Free /\ epoch < MaxEpochs /\ Fresh # {}
    /\ n \in 1..MaxTasks /\ k \in Kinds
    /\ k = "d" => (ctx = "started" /\ ~wt /\ ~wc)     \* DTD tasks are inserted by the main thread after the start
    /\ LET t  == Min(Fresh)
           f1 == Fresh \ {t}
           ct == IF wt /\ f1 # {} THEN Min(f1) ELSE None
           f2 == f1 \ {ct}
           cc == IF wc /\ f2 # {} THEN Min(f2) ELSE None
           cn == 1 + (t % MaxTasks)
           cm == 1 + ((t + 1) % MaxTasks)
           kids == {ct, cc} \ {None}
       IN /\ Cardinality(ThisEpoch) + 1 + Cardinality(kids) <= MaxPerEpoch
          /\ (wt => ct # None) /\ (wc => cc # None)
          /\ plan' = [u \in TPs |-> IF u = t THEN [n |-> n, ct |-> ct, cc |-> cc, kind |-> k]
                                    ELSE IF u = ct THEN [n |-> cn, ct |-> None, cc |-> None, kind |-> "p"]
                                    ELSE IF u = cc THEN [n |-> cm, ct |-> None, cc |-> None, kind |-> "p"]
                                    ELSE plan[u]]
          /\ st' = [u \in TPs |-> IF u = t THEN "added" ELSE IF u \in kids THEN "reserved" ELSE st[u]]
          /\ left' = [left EXCEPT ![t] = n]
          /\ addEpoch' = [u \in TPs |-> IF u = t \/ u \in kids THEN epoch ELSE addEpoch[u]]
          /\ active' = active + 1
          /\ hist' = Append(hist, [op |-> "add", tp |-> t, n |-> n, kind |-> k, ct |-> ct, cn |-> cn, cc |-> cc, cm |-> cm])
    /\ UNCHANGED <<ctx, main, epoch, run, cb, tpwaited>>

\* who may execute tasks: the workers once started, the main thread inside a wait
CanRun == ctx # "idle"

TaskStart(t) == /\ CanRun /\ st[t] = "added" /\ left[t] > 0
                /\ left' = [left EXCEPT ![t] = @ - 1] /\ run' = [run EXCEPT ![t] = @ + 1]
                /\ UNCHANGED <<ctx, main, active, epoch, st, cb, plan, addEpoch, tpwaited, hist>>

\* the first task of t adds the child plan[t].ct while it runs
AddFromTask(t) == /\ st[t] = "added" /\ run[t] > 0 /\ plan[t].ct # None /\ st[plan[t].ct] = "reserved"
                  /\ LET c == plan[t].ct IN
                        /\ st' = [st EXCEPT ![c] = "added"] /\ left' = [left EXCEPT ![c] = plan[c].n]
                        /\ addEpoch' = [addEpoch EXCEPT ![c] = epoch] /\ active' = active + 1
                  /\ UNCHANGED <<ctx, main, epoch, run, cb, plan, tpwaited, hist>>

\* a task ends; it may not end before it added its child
TaskEnd(t) == /\ st[t] = "added" /\ run[t] > 0
              /\ (plan[t].ct # None /\ st[plan[t].ct] = "reserved") => ~(run[t] = 1 /\ left[t] = 0)
              /\ run' = [run EXCEPT ![t] = @ - 1]
              /\ UNCHANGED <<ctx, main, active, epoch, st, left, cb, plan, addEpoch, tpwaited, hist>>

\* the termination of a DTD taskpool can only be detected once on_enter_wait made its detector ready
Finished(t) == st[t] = "added" /\ left[t] = 0 /\ run[t] = 0 /\ (plan[t].kind = "d" => main = CtxWait)
\* parsec_taskpool_termination_detected: on_complete(tp) then active_taskpools--
Callback(t) == /\ IF CbAfterDec THEN st[t] = "dec" ELSE Finished(t)
               /\ cb' = [cb EXCEPT ![t] = @ + 1]
               /\ st' = [st EXCEPT ![t] = IF CbAfterDec THEN "term" ELSE "cb"]
               /\ UNCHANGED <<ctx, main, active, epoch, left, run, plan, addEpoch, tpwaited, hist>>
\* the callback of t adds the child plan[t].cc
AddFromCb(t) == /\ st[t] = (IF CbAfterDec THEN "dec" ELSE "cb") /\ (CbAfterDec \/ cb[t] = 1)
                /\ plan[t].cc # None /\ st[plan[t].cc] = "reserved"
                /\ LET c == plan[t].cc IN
                      /\ st' = [st EXCEPT ![c] = "added"] /\ left' = [left EXCEPT ![c] = plan[c].n]
                      /\ addEpoch' = [addEpoch EXCEPT ![c] = epoch] /\ active' = active + 1
                /\ UNCHANGED <<ctx, main, epoch, run, cb, plan, tpwaited, hist>>
Retire(t) == /\ IF CbAfterDec THEN Finished(t) ELSE st[t] = "cb"
             /\ (~CbAfterDec /\ plan[t].cc # None) => st[plan[t].cc] # "reserved"      \* the callback returned
             /\ active' = active - 1
             /\ st' = [st EXCEPT ![t] = IF CbAfterDec THEN "dec" ELSE "term"]
             /\ UNCHANGED <<ctx, main, epoch, left, run, cb, plan, addEpoch, tpwaited, hist>>

WaitEnter == /\ main = Free /\ ctx = "started"
             /\ main' = CtxWait /\ ctx' = "waiting" /\ active' = active - 1
             /\ hist' = Append(hist, [op |-> "wait"])
             /\ UNCHANGED <<epoch, st, left, run, cb, plan, addEpoch, tpwaited>>
Dtd == {t \in TPs : plan[t].kind = "d"}
WaitReturn == /\ main = CtxWait /\ active = 0
              /\ main' = Free /\ ctx' = "idle" /\ epoch' = epoch + 1
              \* parsec_context_leave_wait: every DTD taskpool re-arms its detector and re-attaches to the context
              /\ st' = [t \in TPs |-> IF t \in Dtd /\ st[t] = "term" THEN "rearmed" ELSE st[t]]
              /\ active' = Cardinality({t \in Dtd : st[t] = "term"})
              /\ UNCHANGED <<left, run, cb, plan, addEpoch, tpwaited, hist>>
\* parsec_taskpool_free of a DTD taskpool after the wait (FreeTp)
FreeTp(t) == /\ main = Free /\ ctx = "idle" /\ st[t] = "rearmed"
           /\ st' = [st EXCEPT ![t] = "freed"]
           /\ cb' = [cb EXCEPT ![t] = IF DtdCbAtFree THEN @ + 1 ELSE @]
           /\ active' = active - 1
           /\ UNCHANGED <<ctx, main, epoch, left, run, plan, addEpoch, tpwaited, hist>>

TpWaitEnter(t) == /\ main = Free /\ ctx = "started" /\ st[t] \in {"added", "cb", "dec", "term"} /\ t \notin tpwaited
                  /\ plan[t].kind = "p"
                  /\ addEpoch[t] = epoch                   \* taskpools of finished epochs have been freed
                  /\ main' = <<"tpwait", t>>
                  /\ hist' = Append(hist, [op |-> "tpwait", tp |-> t])
                  /\ UNCHANGED <<ctx, active, epoch, st, left, run, cb, plan, addEpoch, tpwaited>>
\* the termination detector reports TERMINATED only after termination_detected() (callback + decrement) returned
TpWaitReturn(t) == /\ main = <<"tpwait", t>> /\ st[t] = "term"
                   /\ main' = Free /\ tpwaited' = tpwaited \cup {t}
                   /\ UNCHANGED <<ctx, active, epoch, st, left, run, cb, plan, addEpoch, hist>>

Test == /\ main = Free /\ epoch < MaxEpochs /\ Len(hist) > 0 /\ hist[Len(hist)].op # "test"
        /\ hist' = Append(hist, [op |-> "test"])
        /\ UNCHANGED <<ctx, main, active, epoch, st, left, run, cb, plan, addEpoch, tpwaited>>

Next == \/ Start
        \/ \E n \in 1..MaxTasks, k \in Kinds, wt \in BOOLEAN, wc \in BOOLEAN : Add(n, k, wt, wc)
        \/ \E t \in TPs : TaskStart(t)
        \/ \E t \in TPs : AddFromTask(t)
        \/ \E t \in TPs : TaskEnd(t)
        \/ \E t \in TPs : Callback(t)
        \/ \E t \in TPs : AddFromCb(t)
        \/ \E t \in TPs : Retire(t)
        \/ WaitEnter
        \/ WaitReturn
        \/ \E t \in TPs : FreeTp(t)
        \/ \E t \in TPs : TpWaitEnter(t)
        \/ \E t \in TPs : TpWaitReturn(t)
        \/ Test
Spec == Init /\ [][Next]_vars

\* ---- the property ------------------------------------------------------------------------------------------------
Used(t) == st[t] \notin {"new", "reserved"}
AllTasksEnded(t) == left[t] = 0 /\ run[t] = 0
\* parsec_context_wait returned (epoch advanced): everything added during the finished epochs is complete
WaitSafe == \A t \in TPs : (Used(t) /\ addEpoch[t] < epoch) => (AllTasksEnded(t) /\ cb[t] >= 1)
\* nothing is left half-registered either: a reserved child of a finished taskpool was added
ChildrenAdded == \A t \in TPs : (Used(t) /\ addEpoch[t] < epoch) =>
                    /\ (plan[t].ct # None => Used(plan[t].ct))
                    /\ (plan[t].cc # None => Used(plan[t].cc))
TpWaitSafe == \A t \in tpwaited : AllTasksEnded(t)
CbOnce == \A t \in TPs : cb[t] <= 1 /\ (cb[t] = 1 => AllTasksEnded(t))
TypeOK == active \in 0..(Cardinality(TPs) + 1) /\ epoch \in 0..MaxEpochs

\* complete histories for the replay driver: every epoch closed
Emit == (epoch = MaxEpochs /\ main = Free /\ \A t \in TPs : st[t] # "rearmed") => PrintT(<<"VH", ToJson(hist)>>)
======================================================================
