---------------------------- MODULE CompoundTrace ----------------------------
(* Trace validation for C15.  One execution = one composition of NP instances of a generated PTG program run with
   different globals, or of NP map-operator taskpools (harness/compound/compound_run.c):
     {"e":"Prog","prog":{...},"pools":[[N,M,K],...]}     the program and the globals of each member
     {"e":"Layout","sizes":[[mt,nt],...]}                 member i applies an operator on mt x nt local tiles: its
                                                          instances are <<0, <<m, n>>>>, m < mt, n < nt; [0,0] = a member
                                                          with nothing to do on this process
     {"e":"Run"}
     {"e":"Start","sp":i,"c":C,"p":[..],...} / {"e":"End","sp":i,"c":C,"p":[..],...}    bodies of member i (from 0)
     {"e":"TpDone","n":k}         k-th call of the completion callback of the object returned by parsec_compose
     {"e":"Final",...}
   Demanded: a body of member i starts only when every instance of the members before i has ended (the spaces come
   from JDFSem); the completion callback is called once, when every instance of every member has ended; at the end
   it has been called. *)
EXTENDS JDFSem, Json, IOUtils
VARIABLES l, prog, pools, spaces, st, cdone, phase
vars == <<l, prog, pools, spaces, st, cdone, phase>>
TraceLog == ndJsonDeserialize(IOEnv.TRACE)
Ev == TraceLog[l]
IsEv(e) == l <= Len(TraceLog) /\ Ev.e = e /\ l' = l + 1
NoProg == [name |-> "", classes |-> <<>>]

Member(p, g) == [p EXCEPT !.globals = [N |-> g[1], M |-> g[2], K |-> g[3]]]
AllDone(s, i) == \A t \in DOMAIN s[i] : s[i][t] = "done"

TInit == l = 1 /\ prog = NoProg /\ pools = <<>> /\ spaces = <<>> /\ st = <<>> /\ cdone = 0 /\ phase = "reset"
TReset == IsEv("Reset") /\ phase' = "reset" /\ st' = <<>> /\ cdone' = 0 /\ UNCHANGED <<prog, pools, spaces>>
TProg == /\ IsEv("Prog") /\ phase = "reset"
         /\ IF Ev.prog = prog /\ Ev.pools = pools THEN UNCHANGED <<prog, pools, spaces>>
            ELSE /\ prog' = Ev.prog /\ pools' = Ev.pools
                 /\ spaces' = [i \in 1..Len(Ev.pools) |-> Space(Member(Ev.prog, Ev.pools[i]))]
         /\ phase' = "prog" /\ UNCHANGED <<st, cdone>>
TLayout == /\ IsEv("Layout") /\ phase = "reset"
           /\ prog' = NoProg /\ pools' = Ev.sizes
           /\ spaces' = [i \in 1..Len(Ev.sizes) |->
                           {<<0, <<m, n>>>> : m \in 0..(Ev.sizes[i][1] - 1), n \in 0..(Ev.sizes[i][2] - 1)}]
           /\ phase' = "prog" /\ UNCHANGED <<st, cdone>>
TRun == /\ IsEv("Run") /\ phase = "prog"
        /\ st' = [i \in 1..Len(pools) |-> [t \in spaces[i] |-> "idle"]]
        /\ cdone' = 0 /\ phase' = "run" /\ UNCHANGED <<prog, pools, spaces>>
TStart == /\ IsEv("Start") /\ phase = "run"
          /\ LET i == Ev.sp + 1 t == <<Ev.c, Ev.p>> IN
             /\ i \in 1..Len(pools) /\ t \in spaces[i] /\ st[i][t] = "idle"
             /\ \A j \in 1..(i - 1) : AllDone(st, j)                         \* one after another
             /\ st' = [st EXCEPT ![i][t] = "run"]
          /\ UNCHANGED <<prog, pools, spaces, cdone, phase>>
TEnd == /\ IsEv("End") /\ phase = "run"
        /\ LET i == Ev.sp + 1 t == <<Ev.c, Ev.p>> IN
           /\ i \in 1..Len(pools) /\ t \in spaces[i] /\ st[i][t] = "run"
           /\ st' = [st EXCEPT ![i][t] = "done"]
        /\ UNCHANGED <<prog, pools, spaces, cdone, phase>>
TTpDone == /\ IsEv("TpDone") /\ phase = "run"
           /\ cdone = 0                                                    \* exactly once
           /\ \A i \in 1..Len(pools) : AllDone(st, i)                      \* after the last one
           /\ cdone' = 1 /\ UNCHANGED <<prog, pools, spaces, st, phase>>
TFinal == /\ IsEv("Final") /\ phase = "run"
          /\ cdone = 1
          /\ phase' = "final" /\ UNCHANGED <<prog, pools, spaces, st, cdone>>
TNext == TReset \/ TProg \/ TLayout \/ TRun \/ TStart \/ TEnd \/ TTpDone \/ TFinal
TSpec == TInit /\ [][TNext]_vars
AcceptExit == (l > Len(TraceLog)) => (PrintT("VERIF-ACCEPTED") /\ TLCSet("exit", TRUE))
=============================================================================
