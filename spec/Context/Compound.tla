------------------------------ MODULE Compound ------------------------------
(* C15: taskpools combined with parsec_compose run strictly one after another and the compound completes exactly
   once, after the last one.  Abstract specification (the property) and, in CompoundImpl, the implementation-shaped
   model of compound.c that refines it.

   NP taskpools, taskpool i has NT[i] tasks.  cur = the taskpool whose tasks may run. *)
EXTENDS Integers, Sequences, FiniteSets
CONSTANTS NP, NT
VARIABLES cur, state, cdone
vars == <<cur, state, cdone>>
Tasks == {t \in (1..NP) \X (1..3) : t[2] <= NT[t[1]]}

Init == cur = 1 /\ state = [t \in Tasks |-> "idle"] /\ cdone = 0
TaskStart(t) == t[1] = cur /\ state[t] = "idle" /\ state' = [state EXCEPT ![t] = "run"] /\ UNCHANGED <<cur, cdone>>
TaskEnd(t) == state[t] = "run" /\ state' = [state EXCEPT ![t] = "done"] /\ UNCHANGED <<cur, cdone>>
PoolDone == /\ cur <= NP /\ \A t \in Tasks : t[1] = cur => state[t] = "done"
            /\ cur' = cur + 1 /\ UNCHANGED <<state, cdone>>
CompoundDone == cur = NP + 1 /\ cdone = 0 /\ cdone' = 1 /\ UNCHANGED <<cur, state>>
Finished == cdone = 1 /\ UNCHANGED vars
Next == (\E t \in Tasks : TaskStart(t) \/ TaskEnd(t)) \/ PoolDone \/ CompoundDone \/ Finished
Spec == Init /\ [][Next]_vars

\* the property
OneAfterAnother == \A t \in Tasks : state[t] # "idle" => \A u \in Tasks : u[1] < t[1] => state[u] = "done"
CompletesOnceAfterLast == cdone <= 1 /\ (cdone = 1 => \A t \in Tasks : state[t] = "done")
=============================================================================
