------------------------------ MODULE Compound ------------------------------
(* C15: taskpools combined with parsec_compose run strictly one after another and the compound completes exactly
   once, after the last one.  Abstract specification (the property); CompoundImpl is the implementation-shaped
   model of compound.c that refines it.

   The composition (nt = number of tasks of each member, 0 = a taskpool with nothing to do on this process) is chosen
   by the initial state among Layouts, so that one TLC run covers every layout.  cur = the member whose tasks may
   run. *)
EXTENDS Integers, Sequences, FiniteSets
CONSTANTS Layouts        \* set of sequences of naturals (tasks per member), each of length >= 1
VARIABLES nt, cur, state, cdone
vars == <<nt, cur, state, cdone>>
NP == Len(nt)
TasksOf(l) == {t \in (1..Len(l)) \X (1..3) : t[2] <= l[t[1]]}
Tasks == TasksOf(nt)

Init == /\ nt \in Layouts /\ cur = 1 /\ cdone = 0
        /\ state = [t \in TasksOf(nt) |-> "idle"]
TaskStart(t) == t \in Tasks /\ t[1] = cur /\ state[t] = "idle" /\ state' = [state EXCEPT ![t] = "run"] /\ UNCHANGED <<nt, cur, cdone>>
TaskEnd(t) == t \in Tasks /\ state[t] = "run" /\ state' = [state EXCEPT ![t] = "done"] /\ UNCHANGED <<nt, cur, cdone>>
PoolDone == /\ cur <= NP /\ \A t \in Tasks : t[1] = cur => state[t] = "done"
            /\ cur' = cur + 1 /\ UNCHANGED <<nt, state, cdone>>
CompoundDone == cur = NP + 1 /\ cdone = 0 /\ cdone' = 1 /\ UNCHANGED <<nt, cur, state>>
Finished == cdone = 1 /\ UNCHANGED vars
AnyTask == (1..6) \X (1..3)         \* constant superset (per-action coverage); Layouts have at most 6 members
Next == (\E t \in AnyTask : TaskStart(t)) \/ (\E t \in AnyTask : TaskEnd(t)) \/ PoolDone \/ CompoundDone \/ Finished
Spec == Init /\ [][Next]_vars

\* the property
OneAfterAnother == \A t \in Tasks : state[t] # "idle" => \A u \in Tasks : u[1] < t[1] => state[u] = "done"
CompletesOnceAfterLast == cdone <= 1 /\ (cdone = 1 => \A t \in Tasks : state[t] = "done")
=============================================================================
