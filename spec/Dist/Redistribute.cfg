SPECIFICATION Spec
CONSTANTS MaxB = 3
 MaxSize = 6
 MaxDis = 4
INVARIANTS PiecesPartitionWindow GetsizeIsOverlap ReshuffleWholeTiles PlacementIsExact
CHECK_DEADLOCK FALSE
