---------------------------- MODULE MatrixTypesTrace ----------------------------
(* Trace validation for C19.  For every datatype it builds, harness/matrixtypes/mt_replay.c logs ONE record
     {"e":"type","api":A,"uplo":"full"|"upper"|"lower","diag":0|1,"m":M,"n":N,"ld":LD,"rs":RESIZED,"sz":ELEMSIZE,
      "rc":RC,"lb":LB,"ext":EXTENT,"size":TYPESIZE,"sel":[o1,o2,...]}
   where sel are the element offsets, in the order MPI_Pack visits them, observed by packing one instance of the type
   out of a marker buffer whose element i holds the value i; lb/ext/size are bytes (MPI_Type_get_extent/size).
   The record is accepted iff sel is exactly the column-major sequence of the mathematical region (Selected), the
   type starts at the tile origin and its extent covers the tile.  With Exact = TRUE the extent must also be the
   one the model of the code predicts (model-level comparison, a mismatch there alone is a divergence).        *)
EXTENDS MatrixTypes, IOUtils
CONSTANT Exact
VARIABLE l
TraceLog == ndJsonDeserialize(IOEnv.TRACE)
Ev == TraceLog[l]
IsEv(e) == l <= Len(TraceLog) /\ Ev.e = e /\ l' = l + 1

TypeOK(ev) ==
    /\ ev.rc = 0                                                               \* the type was built
    /\ ev.sel = Selected(ev.m, ev.n, ev.ld, ev.uplo, ev.diag)                  \* exactly the region, column-major
    /\ ev.size = Len(ev.sel) * ev.sz
    /\ ev.lb = 0
    /\ (ev.rs < 0 => ev.ext >= TileSpan(ev.m, ev.n, ev.ld) * ev.sz)            \* extent covers the tile
    /\ (ev.rs >= 0 /\ ev.uplo = "full" => ev.ext = ev.rs * ev.sz)              \* explicit resize is honoured
    /\ (Exact => ev.ext = ImplExtent(ev.m, ev.n, ev.ld, ev.uplo, ev.rs) * ev.sz)

TInit == c = None /\ l = 1
TReset == IsEv("Reset") /\ c' = None
TDefine(uplo) == /\ IsEv("type") /\ Ev.uplo = uplo
                 /\ Ev.m >= 1 /\ Ev.n >= 1 /\ Ev.ld >= Ev.m /\ Ev.diag \in {0, 1} /\ Ev.sz >= 1
                 /\ TypeOK(Ev)
                 /\ c' = Case(Ev.m, Ev.n, Ev.ld, Ev.uplo, Ev.diag)
TDefineFull == TDefine("full")
TDefineUpper == TDefine("upper")
TDefineLower == TDefine("lower")
TNext == TReset \/ TDefineFull \/ TDefineUpper \/ TDefineLower
TSpec == TInit /\ [][TNext]_<<c, l>>
AcceptExit == (l > Len(TraceLog)) => (PrintT("VERIF-ACCEPTED") /\ TLCSet("exit", TRUE))
=================================================================================
