SPECIFICATION Spec
CONSTANTS MaxMT = 3
 MaxNT = 3
INVARIANTS TypeOK CanFinish ApplyCoversRegionOnce
CHECK_DEADLOCK FALSE
