SPECIFICATION Spec
CONSTANTS MaxM = 8
 MaxN = 8
 MaxPad = 3
INVARIANTS ImplSelectsRegion SelectedShape ImplExtentCovers TrianglesPartition
CHECK_DEADLOCK FALSE
