---------------------------- MODULE BlockCyclic ----------------------------
(* Property C20: the data distributions of parsec/data_dist/matrix are consistent.

   PART 1 (the property) - consistency predicates over the TABLES of one configuration: one VIEW per rank,
     view = [rank, nodes, nlt (number of local storage slots), cap (elements of local storage), nvp, tiles]
     tile = [m, n,            coordinates in the (sub)matrix
             o,               rank_of(m,n) as seen from this view's rank
             ok,              rank_of_key(data_key(m,n))                     (-1: the collection has no rank_of_key)
             key, km, kn,     data_key(m,n) and the coordinates obtained back from it
             -- only for tiles the view's rank owns (o = rank):
             slot,            storage slot of the tile (index in the local data_map)
             off, ld, r, c,   memory footprint: r x c elements, leading dimension ld, off elements from the start
             dkey,            key stored in the tile's parsec_data_t (-1: names a tile of an underlying collection)
             dself,           data_of_key(stored key) gives the tile's data back (0 = no, -1 = not applicable)
             bykey,           data_of_key(data_key(m,n)) = data_of(m,n)          (0 = no, -1 = not applicable)
             vp]              vpid_of(m,n)
   The predicates say NOTHING about which rank owns which tile: only that exactly one valid rank does, that all
   views agree, that local tiles map one-to-one onto non-overlapping storage, that keys map back to coordinates and
   that the virtual process is in range.

   PART 2 (a model) - the arithmetic of two_dim_rectangle_cyclic.c (parsec_matrix_block_cyclic_init counting loops,
   grid ranks with ip/jq offsets, twoDBC[_kcyclic]_rank_of, the data_of position, the key layout) transcribed as
   operators.  The state machine enumerates a parameter box; TLC proves that the model's tables satisfy the
   predicates for every configuration of the box (so the predicates are satisfiable by the intended algorithm and
   the algorithm is right on the box), and prints each configuration: the harness instantiates them on the real
   code, whose tables are validated against the same predicates by BlockCyclicTrace.tla.                        *)
EXTENDS Naturals, Integers, Sequences, FiniteSets, TLC, Json

\* ===================================================================================== PART 1: predicates
\* (quantification is over tile INDICES of the logged sequences: cheap for TLC, no sets of records are built)
Idx(v) == 1..Len(v.tiles)
TileId(t) == <<t.m, t.n>>
LocalIdx(v) == {i \in Idx(v) : v.tiles[i].o = v.rank}
Footprint(t) == {t.off + cc * t.ld + rr : rr \in 0..(t.r - 1), cc \in 0..(t.c - 1)}

\* every tile is listed once, inside the (sub)matrix
ViewWellFormed(v) ==
    /\ \A i, j \in Idx(v) : i < j => TileId(v.tiles[i]) # TileId(v.tiles[j])
    /\ \A i \in Idx(v) : v.tiles[i].m \in 0..(v.mt - 1) /\ v.tiles[i].n \in 0..(v.nt - 1)
\* the owner is a valid rank
OwnersValid(v) == \A i \in Idx(v) : v.tiles[i].o \in 0..(v.nodes - 1)
\* local tiles <-> storage slots: injective, inside the slots the rank allocated
SlotsInjective(v) ==
    /\ \A i \in LocalIdx(v) : v.tiles[i].slot \in 0..(v.nlt - 1)
    /\ \A i, j \in LocalIdx(v) : i < j => v.tiles[i].slot # v.tiles[j].slot
\* memory of local tiles: inside the local storage, pairwise disjoint
MemoryDisjoint(v) ==
    /\ \A i \in LocalIdx(v) : LET t == v.tiles[i] IN
           /\ t.off >= 0 /\ t.r >= 1 /\ t.c >= 1 /\ t.ld >= t.r
           /\ t.off + (t.c - 1) * t.ld + t.r <= v.cap
    /\ \A i, j \in LocalIdx(v) : i < j => Footprint(v.tiles[i]) \cap Footprint(v.tiles[j]) = {}
\* data keys <-> coordinates
KeysRoundTrip(v) ==
    /\ \A i \in Idx(v) : LET t == v.tiles[i] IN
           /\ t.km = t.m /\ t.kn = t.n                                 \* key -> coordinates gives the tile back
           /\ (t.ok = -1 \/ t.ok = t.o)                                 \* the key names the same owner
    /\ \A i, j \in Idx(v) : i < j => v.tiles[i].key # v.tiles[j].key   \* distinct tiles, distinct keys
    /\ \A i \in LocalIdx(v) : v.tiles[i].bykey # 0                     \* the key names the same data
StoredKeysRoundTrip(v) ==
    \A i \in LocalIdx(v) : LET t == v.tiles[i] IN
        /\ t.dself # 0                                                  \* the key kept in the data names that data
        /\ (t.dkey = -1 \/ t.dkey = t.key)
VpidInRange(v) == \A i \in LocalIdx(v) : v.tiles[i].vp \in 0..(v.nvp - 1)
ViewConsistent(v) == /\ ViewWellFormed(v) /\ OwnersValid(v) /\ SlotsInjective(v) /\ MemoryDisjoint(v)
                     /\ KeysRoundTrip(v) /\ StoredKeysRoundTrip(v) /\ VpidInRange(v)

\* across the views of all ranks (vs = sequence of views, one per rank, in rank order; every view lists the tiles
\* in the same order: a convention of the harness)
AllRanksPresent(vs, nodes) == Len(vs) = nodes /\ \A k \in 1..Len(vs) : vs[k].rank = k - 1 /\ vs[k].nodes = nodes
SameTiles(vs) == \A k \in 1..Len(vs) : /\ Len(vs[k].tiles) = Len(vs[1].tiles)
                                       /\ \A i \in Idx(vs[1]) : TileId(vs[k].tiles[i]) = TileId(vs[1].tiles[i])
\* ranks that claim tile i as theirs
Claimants(vs, i) == {k \in 1..Len(vs) : vs[k].tiles[i].o = vs[k].rank}
ExactlyOneOwner(vs) == \A i \in Idx(vs[1]) : Cardinality(Claimants(vs, i)) = 1
ViewsAgree(vs) == \A k \in 1..Len(vs) : \A i \in Idx(vs[1]) :
                      vs[k].tiles[i].o = vs[1].tiles[i].o /\ vs[k].tiles[i].key = vs[1].tiles[i].key
TablesConsistent(vs, nodes) == /\ AllRanksPresent(vs, nodes) /\ SameTiles(vs) /\ ExactlyOneOwner(vs) /\ ViewsAgree(vs)
                               /\ \A k \in 1..Len(vs) : ViewConsistent(vs[k])

\* ========================================================= PART 2: model of two_dim_rectangle_cyclic.c
\* configuration: P x Q grid, k-cyclicity kp,kq, grid offsets ip,jq, lmt x lnt stored tiles, submatrix of mt x nt
\* tiles starting at tile (it,jt).  Tiles are 1 element in the model (bsiz = 1).
CONSTANTS MaxP, MaxQ, MaxK, MaxLMT, MaxLNT, MaxOff
\* parsec_grid_2Dcyclic_init
RRank(c, r) == ((r \div c.Q) + (c.P - c.ip)) % c.P
CRank(c, r) == ((r % c.Q) + (c.Q - c.jq)) % c.Q
\* parsec_matrix_block_cyclic_init: "Compute the number of rows handled by the local process" (the while loop)
RECURSIVE CountLoop(_, _, _, _, _)
CountLoop(temp, lt, k, procs, acc) ==
    IF temp >= lt THEN acc
    ELSE IF temp + k < lt THEN CountLoop(temp + procs * k, lt, k, procs, acc + k)
    ELSE acc + (lt - temp)
NbElemR(c, r) == LET a == CountLoop(RRank(c, r) * c.kp, c.lmt, c.kp, c.P, 0)
                     b == CountLoop(CRank(c, r) * c.kq, c.lnt, c.kq, c.Q, 0)
                 IN IF b = 0 THEN 0 ELSE a
NbElemC(c, r) == LET a == CountLoop(RRank(c, r) * c.kp, c.lmt, c.kp, c.P, 0)
                     b == CountLoop(CRank(c, r) * c.kq, c.lnt, c.kq, c.Q, 0)
                 IN IF a = 0 THEN 0 ELSE b
NbLocalTiles(c, r) == NbElemR(c, r) * NbElemC(c, r)
\* twoDBC_kcyclic_rank_of (twoDBC_rank_of is the case kp = kq = 1)
RankOf(c, m, n) == LET gm == m + c.it
                       gn == n + c.jt
                       rr == (((gm \div c.kp) % c.P) + c.ip) % c.P
                       cr == (((gn \div c.kq) % c.Q) + c.jq) % c.Q
                   IN rr * c.Q + cr
\* twoDBC_kcyclic_data_of: local coordinates and position
LocalM(c, gm) == ((gm \div (c.kp * c.P)) * c.kp) + ((gm % (c.kp * c.P)) % c.kp)
LocalN(c, gn) == ((gn \div (c.kq * c.Q)) * c.kq) + ((gn % (c.kq * c.Q)) % c.kq)
Position(c, r, m, n) == NbElemR(c, r) * LocalN(c, n + c.jt) + LocalM(c, m + c.it)
\* tiled_matrix_data_key / parsec_matrix_block_cyclic_key2coords
DataKey(c, m, n) == (n + c.jt) * c.lmt + (m + c.it)
KeyM(c, key) == (key % c.lmt) - c.it
KeyN(c, key) == (key \div c.lmt) - c.jt
ModelTile(c, r, m, n) ==
    LET o == RankOf(c, m, n)
        key == DataKey(c, m, n)
        base == [m |-> m, n |-> n, o |-> o, ok |-> RankOf(c, KeyM(c, key), KeyN(c, key)), key |-> key,
                 km |-> KeyM(c, key), kn |-> KeyN(c, key)]
    IN IF o # r THEN base
       ELSE [m |-> m, n |-> n, o |-> o, ok |-> base.ok, key |-> key, km |-> base.km, kn |-> base.kn,
             slot |-> Position(c, r, m, n), off |-> Position(c, r, m, n), ld |-> 1, r |-> 1, c |-> 1,
             dkey |-> key, dself |-> 1, bykey |-> 1, vp |-> 0]
ModelView(c, r) == [rank |-> r, nodes |-> c.P * c.Q, mt |-> c.mt, nt |-> c.nt, nlt |-> NbLocalTiles(c, r),
                    cap |-> NbLocalTiles(c, r), nvp |-> 1,
                    tiles |-> TLCEval([k \in 1..(c.mt * c.nt) |-> ModelTile(c, r, (k - 1) % c.mt, (k - 1) \div c.mt)])]
ModelViews(c) == TLCEval([k \in 1..(c.P * c.Q) |-> ModelView(c, k - 1)])

VARIABLE cfg
NoCfg == [stage |-> "none"]
Init == cfg = NoCfg
\* parsec_grid_2Dcyclic_init: the process grid is chosen first (an intermediate state: it also lets TLC's workers
\* share the box)
ChooseGrid == /\ cfg.stage = "none"
              /\ \E P \in 1..MaxP, Q \in 1..MaxQ : \E ip \in 0..(P - 1), jq \in 0..(Q - 1) :
                    cfg' = [stage |-> "grid", P |-> P, Q |-> Q, ip |-> ip, jq |-> jq]
Config(g, kp, kq, lmt, lnt, it, jt) ==
    [stage |-> "full", P |-> g.P, Q |-> g.Q, kp |-> kp, kq |-> kq, ip |-> g.ip, jq |-> g.jq, lmt |-> lmt, lnt |-> lnt,
     it |-> it, jt |-> jt, mt |-> lmt - it, nt |-> lnt - jt]
\* parsec_matrix_block_cyclic_init with kp = kq = 1 (twoDBC_* functions) ...
InitPlain == /\ cfg.stage = "grid"
             /\ \E lmt \in 1..MaxLMT, lnt \in 1..MaxLNT, it \in 0..MaxOff, jt \in 0..MaxOff :
                   it < lmt /\ jt < lnt /\ cfg' = Config(cfg, 1, 1, lmt, lnt, it, jt)
\* ... and with k-cyclicity (twoDBC_kcyclic_* functions)
InitKCyclic == /\ cfg.stage = "grid"
               /\ \E lmt \in 1..MaxLMT, lnt \in 1..MaxLNT, kp \in 1..MaxK, kq \in 1..MaxK, it \in 0..MaxOff, jt \in 0..MaxOff :
                     /\ (kp > 1 \/ kq > 1) /\ it < lmt /\ jt < lnt
                     /\ cfg' = Config(cfg, kp, kq, lmt, lnt, it, jt)
Next == ChooseGrid \/ InitPlain \/ InitKCyclic
Spec == Init /\ [][Next]_cfg

IsCfg == cfg.stage = "full"
\* the transcribed algorithm satisfies the property on every configuration of the box
ModelConsistent == IsCfg => TablesConsistent(ModelViews(cfg), cfg.P * cfg.Q)
\* the counting loops count exactly the tiles the rank owns (whole stored matrix), slots fill the storage densely
ModelCountsExact == IsCfg => \A r \in 0..(cfg.P * cfg.Q - 1) :
    LET full == [cfg EXCEPT !.it = 0, !.jt = 0, !.mt = cfg.lmt, !.nt = cfg.lnt]
        mine == {p \in (0..(cfg.lmt - 1)) \X (0..(cfg.lnt - 1)) : RankOf(full, p[1], p[2]) = r}
    IN /\ Cardinality(mine) = NbLocalTiles(cfg, r)
       /\ {Position(full, r, p[1], p[2]) : p \in mine} = 0..(NbLocalTiles(cfg, r) - 1)
Emit == IsCfg => PrintT(<<"VH", ToJson(cfg)>>)
=============================================================================
