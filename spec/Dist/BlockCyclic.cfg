SPECIFICATION Spec
CONSTANTS MaxP = 3
 MaxQ = 3
 MaxK = 2
 MaxLMT = 5
 MaxLNT = 4
 MaxOff = 1
INVARIANTS ModelConsistent ModelCountsExact
CHECK_DEADLOCK FALSE
