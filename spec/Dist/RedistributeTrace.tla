---------------------------- MODULE RedistributeTrace ----------------------------
(* Trace validation for C21.  harness/redistribute/rd_run.c fills the source matrix with SVal(i,j), the target with
   TVal(i,j), calls the real parsec_redistribute, gathers the target matrix and logs ONE record per call:
     {"e":"redist","path":"reshuffle"|"general","rc":RC,"mbY":..,"nbY":..,"mbT":..,"nbT":..,"size_row":..,"size_col":..,
      "disi_Y":..,"disj_Y":..,"disi_T":..,"disj_T":..,"T":[[row 0],[row 1],...]}
   accepted iff the call succeeded, every element of the target window holds the corresponding source element,
   every other target element is unchanged, and the taskpool selected is the one the model of the wrapper selects. *)
EXTENDS Redistribute, IOUtils
VARIABLE l
TraceLog == ndJsonDeserialize(IOEnv.TRACE)
Ev == TraceLog[l]
IsEv(e) == l <= Len(TraceLog) /\ Ev.e = e /\ l' = l + 1

TInit == c = NoCase /\ l = 1
TReset == IsEv("Reset") /\ c' = NoCase
Window(ev) == [size_row |-> ev.size_row, size_col |-> ev.size_col, disi_Y |-> ev.disi_Y, disj_Y |-> ev.disj_Y,
               disi_T |-> ev.disi_T, disj_T |-> ev.disj_T]
ModelPath(ev) == IF UsesReshuffle(ev.mbY, ev.nbY, ev.mbT, ev.nbT, ev.disi_Y, ev.disj_Y, ev.disi_T, ev.disj_T)
                 THEN "reshuffle" ELSE "general"
\* parsec_redistribute(Y, T, size_row, size_col, disi_Y, disj_Y, disi_T, disj_T) returned
TRedistribute(path) ==
    /\ IsEv("redist") /\ Ev.path = path
    /\ Ev.rc = 0
    /\ Ev.path = ModelPath(Ev)
    /\ MatrixIsAfter(Window(Ev), Ev.T) = TRUE
    /\ c' = [mbY |-> Ev.mbY, mbT |-> Ev.mbT, size |-> Ev.size_row, disY |-> Ev.disi_Y, disT |-> Ev.disi_T, path |-> path]
TGeneral == TRedistribute("general")
TReshuffle == TRedistribute("reshuffle")
TNext == TReset \/ TGeneral \/ TReshuffle
TSpec == TInit /\ [][TNext]_<<c, l>>
AcceptExit == (l > Len(TraceLog)) => (PrintT("VERIF-ACCEPTED") /\ TLCSet("exit", TRUE))
==================================================================================
