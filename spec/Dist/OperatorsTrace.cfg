SPECIFICATION TSpec
CONSTANTS MaxMT = 1
 MaxNT = 1
INVARIANT AcceptExit
CHECK_DEADLOCK FALSE
