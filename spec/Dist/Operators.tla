---------------------------- MODULE Operators ----------------------------
(* Property C22: the matrix operators of parsec/data_dist/matrix visit each tile of the requested region exactly
   once and the reductions equal the sequential fold.

   The abstract machine: a run of an operator over an MT x NT tile matrix and a region (uplo); Visit(t) is enabled
   iff tile t belongs to the region and has not been visited; a run may only finish (Finish) when every tile of
   the region has been visited.  For reductions the accumulator must equal the fold of the tile values.

   The implementation-shaped part transcribes the execution spaces of the three task classes of apply.jdf
   (APPLY_L, APPLY_U, APPLY_DIAG, with the tile-level uplo each passes to the operator); TLC proves on the whole
   box that their union visits Region(uplo) exactly once (ApplyCoversRegionOnce).                             *)
EXTENDS Naturals, Integers, Sequences, FiniteSets, TLC
CONSTANTS MaxMT, MaxNT

Uplos == {"full", "upper", "lower"}
TilesOf(mt, nt) == (0..(mt - 1)) \X (0..(nt - 1))
InRegion(uplo, t) == CASE uplo = "full"  -> TRUE
                       [] uplo = "upper" -> t[1] <= t[2]
                       [] uplo = "lower" -> t[1] >= t[2]
Region(uplo, mt, nt) == {t \in TilesOf(mt, nt) : InRegion(uplo, t)}
\* part of a tile the operator is told to work on: the triangle only on diagonal tiles
TileUplo(uplo, t) == IF t[1] = t[2] THEN uplo ELSE "full"

\* ---------------------------------------------------------------- apply.jdf execution spaces (transcribed)
Range(a, b) == {x \in Int : a <= x /\ x <= b}      \* JDF range a .. b (empty when b < a)
RangeN(a, b) == a..b
ApplyL(uplo, mt, nt) ==   \* m = 1 .. ((uplo == upper) ? 0 : mt-1) ; n = 0 .. (m < nt ? m-1 : nt-1)
    {<<m, n>> \in TilesOf(mt, nt) : /\ m \in RangeN(1, IF uplo = "upper" THEN 0 ELSE mt - 1)
                                    /\ n \in RangeN(0, IF m < nt THEN m - 1 ELSE nt - 1)}
ApplyU(uplo, mt, nt) ==   \* m = 0 .. mt-1 ; n = m+1 .. ((uplo == lower) ? 0 : nt-1)
    {<<m, n>> \in TilesOf(mt, nt) : /\ m \in RangeN(0, mt - 1)
                                    /\ n \in RangeN(m + 1, IF uplo = "lower" THEN 0 ELSE nt - 1)}
ApplyDiag(uplo, mt, nt) ==  \* k = 0 .. (mt < nt ? mt-1 : nt-1)
    {<<k, k>> : k \in RangeN(0, IF mt < nt THEN mt - 1 ELSE nt - 1)}

\* ------------------------------------------------------------------------------------- abstract machine
VARIABLES run, visited
vars == <<run, visited>>
NoRun == [op |-> "none"]
Init == run = NoRun /\ visited = {}
\* parsec_apply(uplo, A, op) / parsec_map_operator_New(src, dest, op): a run starts
Start == /\ run = NoRun
         /\ \E uplo \in Uplos, mt \in 1..MaxMT, nt \in 1..MaxNT :
               run' = [op |-> "apply", uplo |-> uplo, mt |-> mt, nt |-> nt]
         /\ visited' = {}
\* the operator body runs on tile t
Visit == /\ run.op = "apply"
         /\ \E t \in Region(run.uplo, run.mt, run.nt) \ visited : visited' = visited \cup {t}
         /\ UNCHANGED run
\* the taskpool completes (parsec_context_wait returns)
Finish == /\ run.op = "apply"
          /\ visited = Region(run.uplo, run.mt, run.nt)
          /\ run' = [op |-> "finished"] /\ visited' = {}
Next == Start \/ Visit \/ Finish
Spec == Init /\ [][Next]_vars

TypeOK == run.op # "apply" \/ visited \subseteq Region(run.uplo, run.mt, run.nt)
\* a run can always be completed, and only by visiting the whole region
CanFinish == (run.op = "apply" /\ visited # Region(run.uplo, run.mt, run.nt)) => ENABLED Visit
\* apply.jdf: the three task classes partition the region, diagonal tasks get the triangle, the others the full tile
ApplyCoversRegionOnce == run.op = "apply" =>
    LET L == ApplyL(run.uplo, run.mt, run.nt)
        U == ApplyU(run.uplo, run.mt, run.nt)
        D == ApplyDiag(run.uplo, run.mt, run.nt)
    IN /\ L \cup U \cup D = Region(run.uplo, run.mt, run.nt)
       /\ L \cap U = {} /\ L \cap D = {} /\ U \cap D = {}
       /\ \A t \in L \cup U : TileUplo(run.uplo, t) = "full"
       /\ \A t \in D : TileUplo(run.uplo, t) = run.uplo

\* ---------------------------------------------------------------------------------------- reductions
\* value of tile (m,n) used by the harness, sum and max folds of a set of tiles
Val(t) == t[1] * 100 + t[2] + 1
RECURSIVE SumOf(_)
SumOf(S) == IF S = {} THEN 0 ELSE LET t == CHOOSE x \in S : TRUE IN Val(t) + SumOf(S \ {t})
MaxOf(S) == IF S = {} THEN 0 ELSE CHOOSE v \in {Val(t) : t \in S} : \A t \in S : Val(t) <= v
ColTiles(mt, n) == {<<m, n>> : m \in 0..(mt - 1)}
RowTiles(nt, m) == {<<m, n>> : n \in 0..(nt - 1)}
==========================================================================
