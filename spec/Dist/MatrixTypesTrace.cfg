SPECIFICATION TSpec
CONSTANTS MaxM = 1
 MaxN = 1
 MaxPad = 0
 Exact = FALSE
INVARIANT AcceptExit
CHECK_DEADLOCK FALSE
