---------------------------- MODULE Redistribute ----------------------------
(* Property C21: parsec_redistribute copies the size_row x size_col window of the source matrix Y starting at
   (disi_Y, disj_Y) to the target matrix T at (disi_T, disj_T) and leaves every other element of T unchanged.

   The property (2-D, used by RedistributeTrace.tla on the gathered target matrix):
     After(S, T0, w)[i,j] = S[i - disi_T + disi_Y, j - disj_T + disj_Y]   if (i,j) is in the target window
                          = T0[i,j]                                       otherwise
   The harness fills the matrices with position markers, so S and T0 are the operators SVal / TVal below.

   Implementation-shaped part (1-D: redistribute.jdf / redistribute_reshuffle.jdf treat rows and columns with the
   same index arithmetic, the 2-D decomposition is the product of the two 1-D ones):
     * parsec_redistribute_New selects the reshuffle taskpool iff tile sizes are equal and all four displacements
       are tile aligned (UsesReshuffle), otherwise the general one;
     * a target tile mT of the window receives, from every source tile mY that overlaps it, a piece whose length is
       computed with getsize() (redistribute_internal.h); reshuffle moves whole tiles (last one cut to the window).
   TLC proves on a parameter box that the pieces of all target tiles tile the window exactly once
   (PiecesPartitionWindow) and that getsize() gives the piece lengths (GetsizeIsOverlap).                       *)
EXTENDS Naturals, Integers, Sequences, FiniteSets, TLC, Json
CONSTANTS MaxB, MaxSize, MaxDis

\* ------------------------------------------------------------------------------------------ the property
SVal(i, j) == i * 1000 + j + 1
TVal(i, j) == 0 - (i * 1000 + j + 1)
InWindowT(w, i, j) == /\ i >= w.disi_T /\ i < w.disi_T + w.size_row
                      /\ j >= w.disj_T /\ j < w.disj_T + w.size_col
Expected(w, i, j) == IF InWindowT(w, i, j) THEN SVal(i - w.disi_T + w.disi_Y, j - w.disj_T + w.disj_Y)
                     ELSE TVal(i, j)
\* rows = the gathered target matrix as a sequence of rows (0-based coordinates -> 1-based sequences)
MatrixIsAfter(w, rows) == \A i \in 1..Len(rows) : \A j \in 1..Len(rows[i]) : rows[i][j] = Expected(w, i - 1, j - 1)

\* ---------------------------------------------------------------- what the code does (1-D index arithmetic)
\* redistribute_wrapper.c: the optimised taskpool is used iff ...
UsesReshuffle(mbY, nbY, mbT, nbT, diY, djY, diT, djT) ==
    /\ mbY = mbT /\ nbY = nbT /\ diY % mbY = 0 /\ djY % nbY = 0 /\ diT % mbT = 0 /\ djT % nbT = 0
Min2(a, b) == IF a < b THEN a ELSE b
Max2(a, b) == IF a > b THEN a ELSE b
\* redistribute_internal.h getsize(index, index_start, index_end, mb, size, dis)
GetSize(index, istart, iend, mb, size, dis) ==
    IF istart = iend THEN size
    ELSE IF index = istart THEN mb - dis
    ELSE IF index = iend THEN size + dis - (iend - istart) * mb
    ELSE mb
\* one dimension: window of `size` elements, at disY in the source (tiles of mbY) and disT in the target (tiles of mbT)
TStart(c) == c.disT \div c.mbT
TEnd(c) == (c.disT + c.size - 1) \div c.mbT
\* part of the window that falls in target tile mT, in TARGET coordinates [lo, hi]
TLo(c, mT) == Max2(mT * c.mbT, c.disT)
THi(c, mT) == Min2((mT + 1) * c.mbT - 1, c.disT + c.size - 1)
\* the same part in SOURCE coordinates, the source tiles it overlaps
ToY(c, x) == x - c.disT + c.disY
YStart(c, mT) == ToY(c, TLo(c, mT)) \div c.mbY
YEnd(c, mT) == ToY(c, THi(c, mT)) \div c.mbY
\* piece sent by source tile mY to target tile mT: source coordinates [lo, hi]
PieceLo(c, mT, mY) == Max2(mY * c.mbY, ToY(c, TLo(c, mT)))
PieceHi(c, mT, mY) == Min2((mY + 1) * c.mbY - 1, ToY(c, THi(c, mT)))
\* its length as the code computes it: getsize over the source tiles of this target tile; the segment is
\* THi-TLo+1 long and starts ToY(TLo) % mbY inside source tile YStart
PieceLen(c, mT, mY) == GetSize(mY, YStart(c, mT), YEnd(c, mT), c.mbY, THi(c, mT) - TLo(c, mT) + 1,
                               ToY(c, TLo(c, mT)) % c.mbY)
\* where Update (redistribute.jdf) writes that piece inside target tile mT, as CORE_redistribute_update computes it
\* (i_start_T / j_start_T; ghost radius R = 0): offset_row for the first piece (NW/N/NE rows), then
\* offset_row + TL_row + (m_Y - m_Y_start - 1) * mb_Y_INNER for the bar / inner / south pieces
MbTInner(c, mT) == GetSize(mT, TStart(c), TEnd(c), c.mbT, c.size, c.disT % c.mbT)
SizeiT(c, mT) == (mT - TStart(c)) * c.mbT - (c.disT % c.mbT)
CodeIStart(c, mT) == IF mT = TStart(c) THEN c.disY % c.mbY ELSE (SizeiT(c, mT) + c.disY) % c.mbY
CodeYStart(c, mT) == IF mT = TStart(c) THEN c.disY \div c.mbY ELSE (SizeiT(c, mT) + c.disY) \div c.mbY
CodeYEnd(c, mT) == IF mT = TStart(c) THEN (c.disY + MbTInner(c, mT) - 1) \div c.mbY
                   ELSE (SizeiT(c, mT) + c.disY + MbTInner(c, mT) - 1) \div c.mbY
TLRow(c, mT) == Min2(MbTInner(c, mT), c.mbY - CodeIStart(c, mT))
OffsetRow(c, mT) == IF mT = TStart(c) THEN c.disT % c.mbT ELSE 0
PlaceInT(c, mT, mY) == IF mY = CodeYStart(c, mT) THEN OffsetRow(c, mT)
                       ELSE OffsetRow(c, mT) + TLRow(c, mT) + (mY - CodeYStart(c, mT) - 1) * c.mbY
Pieces(c) == {<<mT, mY>> : mT \in TStart(c)..TEnd(c), mY \in 0..((c.disY + c.size) \div c.mbY + 1)} 
RealPieces(c) == {p \in Pieces(c) : p[2] >= YStart(c, p[1]) /\ p[2] <= YEnd(c, p[1])}
Covered(c, p) == PieceLo(c, p[1], p[2])..PieceHi(c, p[1], p[2])

VARIABLE c
NoCase == [mbY |-> 0]
Init == c = NoCase
\* parsec_redistribute_New, general taskpool (redistribute.jdf): tile sizes differ or a displacement is not aligned
NewGeneral == /\ c = NoCase
              /\ \E mbY \in 1..MaxB, mbT \in 1..MaxB, size \in 1..MaxSize, disY \in 0..MaxDis, disT \in 0..MaxDis :
                    /\ ~(mbY = mbT /\ disY % mbY = 0 /\ disT % mbT = 0)
                    /\ c' = [mbY |-> mbY, mbT |-> mbT, size |-> size, disY |-> disY, disT |-> disT, path |-> "general"]
\* parsec_redistribute_New, optimised taskpool (redistribute_reshuffle.jdf)
NewReshuffle == /\ c = NoCase
                /\ \E mb \in 1..MaxB, size \in 1..MaxSize, ty \in 0..MaxDis, tt \in 0..MaxDis :
                      c' = [mbY |-> mb, mbT |-> mb, size |-> size, disY |-> ty * mb, disT |-> tt * mb, path |-> "reshuffle"]
\* the same taskpool on the "few big target tiles gather many small source tiles" shapes (a target tile covers 4..5
\* source tiles, so it has north / >= 2 inner / south pieces; the window spans up to three target tiles)
NewGeneralWide == /\ c = NoCase
                  /\ \E mbY \in 1..2, ratio \in 4..5, size \in 1..(3 * 2 * 5), disY \in 0..MaxDis, disT \in 0..(2 * 5 - 1) :
                        /\ size <= 3 * mbY * ratio /\ disT < mbY * ratio
                        /\ c' = [mbY |-> mbY, mbT |-> mbY * ratio, size |-> size, disY |-> disY, disT |-> disT, path |-> "general"]
Next == NewGeneral \/ NewReshuffle \/ NewGeneralWide
Spec == Init /\ [][Next]_c

IsCase == c.mbY # 0
\* every element of the window is carried by exactly one piece
PiecesPartitionWindow == IsCase =>
    /\ UNION {Covered(c, p) : p \in RealPieces(c)} = c.disY..(c.disY + c.size - 1)
    /\ \A p, q \in RealPieces(c) : p # q => Covered(c, p) \cap Covered(c, q) = {}
\* getsize() is the length of the overlap
GetsizeIsOverlap == IsCase => \A p \in RealPieces(c) :
    PieceLen(c, p[1], p[2]) = PieceHi(c, p[1], p[2]) - PieceLo(c, p[1], p[2]) + 1
\* the code's own source tile range of a target tile is the geometric one, and every piece is written in the target tile
\* at the position of its first element (target coordinates of PieceLo, relative to the tile)
PlacementIsExact == (IsCase /\ c.path = "general") => \A mT \in TStart(c)..TEnd(c) :
    /\ MbTInner(c, mT) = THi(c, mT) - TLo(c, mT) + 1
    /\ CodeYStart(c, mT) = YStart(c, mT) /\ CodeYEnd(c, mT) = YEnd(c, mT)
    /\ \A mY \in YStart(c, mT)..YEnd(c, mT) :
          mT * c.mbT + PlaceInT(c, mT, mY) = PieceLo(c, mT, mY) - c.disY + c.disT
\* on the reshuffle path a target tile has exactly one source tile and pieces are whole tiles except the last
ReshuffleWholeTiles == (IsCase /\ c.path = "reshuffle") => \A p \in RealPieces(c) :
    /\ YStart(c, p[1]) = YEnd(c, p[1])
    /\ p[2] - (c.disY \div c.mbY) = p[1] - TStart(c)                 \* m_Y = m_T - m_T_START + m_Y_START
    /\ PieceLen(c, p[1], p[2]) = (IF p[1] = TEnd(c) THEN Min2(c.mbT, c.size - (TEnd(c) - TStart(c)) * c.mbT) ELSE c.mbT)
=============================================================================
