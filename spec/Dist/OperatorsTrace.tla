---------------------------- MODULE OperatorsTrace ----------------------------
(* Trace validation for C22.  harness/operators/op_run.c runs the real taskpools (parsec_apply, parsec_map_operator_New,
   parsec_reduce_col_New, parsec_reduce_row_New, parsec_reduce_new) on a block-cyclic matrix whose tile (m,n) holds the
   value Val(<<m,n>>); the operator it passes logs every invocation.  Per run (events of all ranks concatenated, the
   order between ranks is irrelevant since visits commute):
     {"e":"run","op":OP,"uplo":U,"mt":MT,"nt":NT}
     {"e":"visit","m":M,"n":N,"tu":TILE_UPLO,"sv":VALUE_SEEN_IN_THE_TILE}      one per operator invocation
     {"e":"result","calls":C,"vals":[...]}                                     reductions: the reduced values
     {"e":"finish"}                                                            the taskpool completed on every rank
   A visit must be to a not yet visited tile of the region, with the right tile-level uplo and the tile's data;
   finish is only possible once the whole region has been visited (and, for reductions, the result equals the
   sequential fold and the operator was applied once per combined pair).                                        *)
EXTENDS Operators, Json, IOUtils
VARIABLES l, got
TraceLog == ndJsonDeserialize(IOEnv.TRACE)
Ev == TraceLog[l]
IsEv(e) == l <= Len(TraceLog) /\ Ev.e = e /\ l' = l + 1
IsReduce(r) == r.op \in {"reduce_col", "reduce_row", "reduce"}

TInit == run = NoRun /\ visited = {} /\ got = FALSE /\ l = 1
TReset == IsEv("Reset") /\ run' = NoRun /\ visited' = {} /\ got' = FALSE
TStart == /\ IsEv("run") /\ run = NoRun
          /\ Ev.op \in {"apply", "map", "reduce_col", "reduce_row", "reduce"}
          /\ Ev.uplo \in Uplos /\ Ev.mt >= 1 /\ Ev.nt >= 1
          /\ (Ev.op # "apply" => Ev.uplo = "full")
          /\ run' = [op |-> Ev.op, uplo |-> Ev.uplo, mt |-> Ev.mt, nt |-> Ev.nt]
          /\ visited' = {} /\ got' = FALSE
\* the operator ran on tile (m,n)
TVisit == /\ IsEv("visit") /\ run # NoRun /\ ~IsReduce(run)
          /\ LET t == <<Ev.m, Ev.n>> IN
               /\ t \in Region(run.uplo, run.mt, run.nt) \ visited          \* in the region, not visited before
               /\ Ev.tu = TileUplo(run.uplo, t)
               /\ Ev.sv = Val(t)                                           \* it was given that tile's data
               /\ visited' = visited \cup {t}
          /\ UNCHANGED <<run, got>>
\* reductions: the values delivered to the destination
Expected(r) == CASE r.op = "reduce_col" -> [k \in 1..r.nt |-> SumOf(ColTiles(r.mt, k - 1))]
                 [] r.op = "reduce_row" -> [k \in 1..r.mt |-> SumOf(RowTiles(r.nt, k - 1))]
                 [] r.op = "reduce"     -> <<SumOf(ColTiles(r.mt, 0))>>
TResult == /\ IsEv("result") /\ run # NoRun /\ IsReduce(run) /\ ~got
           /\ Ev.vals = Expected(run)                                      \* equals the sequential fold
           /\ Ev.calls = run.mt * run.nt - Len(Expected(run))              \* every tile combined exactly once
           /\ got' = TRUE /\ UNCHANGED <<run, visited>>
TFinish == /\ IsEv("finish") /\ run # NoRun
           /\ IF IsReduce(run) THEN got ELSE visited = Region(run.uplo, run.mt, run.nt)
           /\ run' = NoRun /\ visited' = {} /\ got' = FALSE
TNext == TReset \/ TStart \/ TVisit \/ TResult \/ TFinish
TSpec == TInit /\ [][TNext]_<<run, visited, got, l>>
AcceptExit == (l > Len(TraceLog)) => (PrintT("VERIF-ACCEPTED") /\ TLCSet("exit", TRUE))
===============================================================================
