---------------------------- MODULE OperatorsTrace ----------------------------
(* Trace validation for C22.  harness/operators/op_run.c runs the real taskpools (parsec_apply, parsec_map_operator_New,
   parsec_reduce_col_New, parsec_reduce_row_New, parsec_reduce_new) on a block-cyclic matrix whose tile (m,n) holds the
   value Val(<<m,n>>); the operator it passes logs every invocation.  Per run (events of all ranks concatenated, the
   order between ranks is irrelevant since visits commute):
     {"e":"run","op":OP,"uplo":U,"mt":MT,"nt":NT}
     {"e":"visit","m":M,"n":N,"tu":TILE_UPLO,"sv":VALUE_SEEN_IN_THE_TILE}      one per operator invocation
     {"e":"counts","m":M,"n0":N0,"c":[c0,c1,..],"wd":W}   op "mapcount" only (map operator on thousands of tiles, cheap
                                                          logging): one rank invoked the operator c_j times on tile
                                                          (M, N0+j); W of these did not see the tile's data
     {"e":"result","calls":C,"vals":[...]}                                     reductions: the reduced values
     {"e":"finish"}                                                            the taskpool completed on every rank
   A visit must be to a not yet visited tile of the region, with the right tile-level uplo and the tile's data;
   finish is only possible once the whole region has been visited (and, for reductions, the result equals the
   sequential fold and the operator was applied once per combined pair).  For "mapcount" runs the per-tile numbers of
   Visit steps are accumulated over the ranks' counts records (cnt) and finish requires cnt[t] = 1 for every tile of
   the region: exactly the same decision as with one visit event per invocation.                                *)
EXTENDS Operators, Json, IOUtils
VARIABLES l, got, cnt
TraceLog == ndJsonDeserialize(IOEnv.TRACE)
Ev == TraceLog[l]
IsEv(e) == l <= Len(TraceLog) /\ Ev.e = e /\ l' = l + 1
IsReduce(r) == r.op \in {"reduce_col", "reduce_row", "reduce"}

NoCnt == <<>>
TInit == run = NoRun /\ visited = {} /\ got = FALSE /\ cnt = NoCnt /\ l = 1
TReset == IsEv("Reset") /\ run' = NoRun /\ visited' = {} /\ got' = FALSE /\ cnt' = NoCnt
TStart == /\ IsEv("run") /\ run = NoRun
          /\ Ev.op \in {"apply", "map", "mapcount", "reduce_col", "reduce_row", "reduce"}
          /\ Ev.uplo \in Uplos /\ Ev.mt >= 1 /\ Ev.nt >= 1
          /\ (Ev.op # "apply" => Ev.uplo = "full")
          /\ run' = [op |-> Ev.op, uplo |-> Ev.uplo, mt |-> Ev.mt, nt |-> Ev.nt]
          /\ visited' = {} /\ got' = FALSE
          /\ cnt' = IF Ev.op = "mapcount" THEN [t \in TilesOf(Ev.mt, Ev.nt) |-> 0] ELSE NoCnt
\* the operator ran on tile (m,n)
TVisit == /\ IsEv("visit") /\ run # NoRun /\ ~IsReduce(run) /\ run.op # "mapcount"
          /\ LET t == <<Ev.m, Ev.n>> IN
               /\ t \in Region(run.uplo, run.mt, run.nt) \ visited          \* in the region, not visited before
               /\ Ev.tu = TileUplo(run.uplo, t)
               /\ Ev.sv = Val(t)                                           \* it was given that tile's data
               /\ visited' = visited \cup {t}
          /\ UNCHANGED <<run, got, cnt>>
\* mapcount: one rank's numbers of operator invocations on the tiles (m, n0) .. (m, n0 + Len(c) - 1), all with the tile's data
ChunkOK(e, r) == /\ e.m >= 0 /\ e.m < r.mt /\ e.n0 >= 0 /\ e.n0 + Len(e.c) <= r.nt
                 /\ {j \in 1..Len(e.c) : e.c[j] < 0} = {}
                 /\ e.wd = 0
TCounts == /\ IsEv("counts") /\ run # NoRun /\ run.op = "mapcount"
           /\ (ChunkOK(Ev, run) = TRUE)
           /\ cnt' = [t \in DOMAIN cnt |-> IF t[1] = Ev.m /\ t[2] >= Ev.n0 /\ t[2] < Ev.n0 + Len(Ev.c)
                                             THEN cnt[t] + Ev.c[t[2] - Ev.n0 + 1] ELSE cnt[t]]
           /\ UNCHANGED <<run, visited, got>>
\* reductions: the values delivered to the destination
Expected(r) == CASE r.op = "reduce_col" -> [k \in 1..r.nt |-> SumOf(ColTiles(r.mt, k - 1))]
                 [] r.op = "reduce_row" -> [k \in 1..r.mt |-> SumOf(RowTiles(r.nt, k - 1))]
                 [] r.op = "reduce"     -> <<SumOf(ColTiles(r.mt, 0))>>
TResult == /\ IsEv("result") /\ run # NoRun /\ IsReduce(run) /\ ~got
           /\ Ev.vals = Expected(run)                                      \* equals the sequential fold
           /\ Ev.calls = run.mt * run.nt - Len(Expected(run))              \* every tile combined exactly once
           /\ got' = TRUE /\ UNCHANGED <<run, visited, cnt>>
TFinish == /\ IsEv("finish") /\ run # NoRun
           /\ IF IsReduce(run) THEN got
              ELSE IF run.op = "mapcount" THEN {t \in Region(run.uplo, run.mt, run.nt) : cnt[t] # 1} = {}
              ELSE visited = Region(run.uplo, run.mt, run.nt)
           /\ run' = NoRun /\ visited' = {} /\ got' = FALSE /\ cnt' = NoCnt
TNext == TReset \/ TStart \/ TVisit \/ TCounts \/ TResult \/ TFinish
TSpec == TInit /\ [][TNext]_<<run, visited, got, cnt, l>>
AcceptExit == (l > Len(TraceLog)) => (PrintT("VERIF-ACCEPTED") /\ TLCSet("exit", TRUE))
===============================================================================
