SPECIFICATION TSpec
CONSTANTS MaxB = 1
 MaxSize = 1
 MaxDis = 0
INVARIANT AcceptExit
CHECK_DEADLOCK FALSE
