---------------------------- MODULE MatrixTypes ----------------------------
(* Property C19: the datatypes built by parsec/data_dist/matrix/matrixtypes.c for an m-by-n tile with leading
   dimension ld select exactly the elements of the mathematical region, in column-major order, and their extent
   covers the tile.

   Everything is counted in ELEMENTS of the old type (the trace specification multiplies by the element size).
     uplo \in {"full","upper","lower"};  diag = 1: the region contains the diagonal, diag = 0: strict triangle
     (this is the convention of parsec_matrix_define_triangle, which inverts its argument first).
   Element (i,j) (row i, column j, 0-based) of a column-major tile lives at offset j*ld + i.

   Two descriptions are given and TLC proves them equal on the whole parameter box:
     Selected(...)  the property: the offsets of the mathematical region, in column-major order
     ImplMap(...)   the type map that the C code builds (contiguous / vector / indexed with the blocklens[] and
                    indices[] arrays computed exactly as in parsec_matrix_define_triangle)
   The state machine enumerates the box: one action per C entry point, `c` is the case just defined; the Emit
   invariant prints every case, the harness replays each on the real functions (each case is its own behaviour:
   None -> case).                                                                                          *)
EXTENDS Naturals, Integers, Sequences, FiniteSets, SequencesExt, TLC, Json
CONSTANTS MaxM, MaxN, MaxPad

Uplos == {"full", "upper", "lower"}
Min2(a, b) == IF a < b THEN a ELSE b

\* ------------------------------------------------------------------------------------------ the property
InRegion(uplo, diag, i, j) ==
    CASE uplo = "full"  -> TRUE
      [] uplo = "upper" -> IF diag = 1 THEN i <= j ELSE i < j
      [] uplo = "lower" -> IF diag = 1 THEN i >= j ELSE i > j
Region(m, n, uplo, diag) == {p \in (0..m-1) \X (0..n-1) : InRegion(uplo, diag, p[1], p[2])}
Offset(ld, p) == p[2] * ld + p[1]
\* p comes before q in column-major order
ColMajorBefore(p, q) == p[2] < q[2] \/ (p[2] = q[2] /\ p[1] < q[1])
\* the region in column-major order, as offsets
Selected(m, n, ld, uplo, diag) ==
    LET ps == SetToSortSeq(Region(m, n, uplo, diag), ColMajorBefore)
    IN [k \in 1..Len(ps) |-> Offset(ld, ps[k])]
\* smallest number of elements that contains the whole m x n tile stored with leading dimension ld
TileSpan(m, n, ld) == (n - 1) * ld + m
ExtentCovers(m, n, ld, ext) == ext >= TileSpan(m, n, ld)

\* ------------------------------------------------------------------- what the C code builds (type maps)
Block(start, len) == [k \in 1..len |-> start + k - 1]
RECURSIVE Indexed(_, _, _, _)
\* MPI_Type_indexed(count, blocklens, indices): blocks k = 1..count one after the other
Indexed(count, bl, idx, k) == IF k > count THEN <<>> ELSE Block(idx[k], bl[k]) \o Indexed(count, bl, idx, k + 1)
\* parsec_matrix_define_contiguous(nb_elem)
ContiguousMap(nb) == Block(0, nb)
\* parsec_matrix_define_rectangle(mb, nb, ld): MPI_Type_vector(nb, mb, ld) unless mb = ld
RectangleMap(m, n, ld) == IF m = ld THEN ContiguousMap(ld * n)
                          ELSE Indexed(n, [k \in 1..n |-> m], [k \in 1..n |-> (k - 1) * ld], 1)
\* parsec_matrix_define_triangle: d is the inverted diag (1 = skip the diagonal)
TriangleMap(m, n, ld, uplo, diag) ==
    LET d == IF diag = 0 THEN 1 ELSE 0
    IN IF uplo = "upper"
       THEN LET nmax == n - d                           \* columns d .. n-1, passed as blocklens+d / indices+d
            IN Indexed(nmax, [k \in 1..nmax |-> Min2((k - 1 + d) + 1 - d, m)], [k \in 1..nmax |-> (k - 1 + d) * ld], 1)
       ELSE LET nmax == IF n >= m - d THEN m - d ELSE n  \* columns 0 .. nmax-1
            IN Indexed(nmax, [k \in 1..nmax |-> m - (k - 1) - d], [k \in 1..nmax |-> (k - 1) * ld + (k - 1) + d], 1)
ImplMap(m, n, ld, uplo, diag) == IF uplo = "full" THEN RectangleMap(m, n, ld) ELSE TriangleMap(m, n, ld, uplo, diag)
\* extent the code produces (rs = the `resized` argument, < 0: none; triangles ignore it and resize to ld*n)
ImplExtent(m, n, ld, uplo, rs) ==
    IF uplo # "full" THEN ld * n
    ELSE IF rs >= 0 THEN rs
    ELSE IF m = ld THEN ld * n ELSE TileSpan(m, n, ld)

\* ------------------------------------------------------------------------------ enumeration of the box
VARIABLE c
None == [uplo |-> "none"]
Case(m, n, ld, uplo, diag) == [uplo |-> uplo, diag |-> diag, m |-> m, n |-> n, ld |-> ld]
Init == c = None
\* each case is its own behaviour  None -> case  (the guard c = None comes first so that TLC does not enumerate the box
\* again in every case state)
DefineFull  == c = None /\ \E m \in 1..MaxM, n \in 1..MaxN, pad \in 0..MaxPad : c' = Case(m, n, m + pad, "full", 1)
DefineUpper == c = None /\ \E m \in 1..MaxM, n \in 1..MaxN, pad \in 0..MaxPad, diag \in {0, 1} :
                             c' = Case(m, n, m + pad, "upper", diag)
DefineLower == c = None /\ \E m \in 1..MaxM, n \in 1..MaxN, pad \in 0..MaxPad, diag \in {0, 1} :
                             c' = Case(m, n, m + pad, "lower", diag)
Next == DefineFull \/ DefineUpper \/ DefineLower
Spec == Init /\ [][Next]_c

\* ------------------------------------------------------------------------------------------ invariants
IsSet(c0) == c0.uplo # "none"
\* the algorithm of the C code yields the mathematical region in column-major order
ImplSelectsRegion == IsSet(c) => ImplMap(c.m, c.n, c.ld, c.uplo, c.diag) = Selected(c.m, c.n, c.ld, c.uplo, c.diag)
\* column-major order is increasing offset order, one offset per element, all inside the tile
SelectedShape == IsSet(c) =>
    LET s == Selected(c.m, c.n, c.ld, c.uplo, c.diag)
    IN /\ Len(s) = Cardinality(Region(c.m, c.n, c.uplo, c.diag))
       /\ \A k \in 1..Len(s) - 1 : s[k] < s[k + 1]
       /\ \A k \in 1..Len(s) : s[k] >= 0 /\ s[k] < TileSpan(c.m, c.n, c.ld)
       /\ {s[k] : k \in 1..Len(s)} = {Offset(c.ld, p) : p \in Region(c.m, c.n, c.uplo, c.diag)}
\* without an explicit resize, the extent of the produced type covers the tile
ImplExtentCovers == IsSet(c) => ExtentCovers(c.m, c.n, c.ld, ImplExtent(c.m, c.n, c.ld, c.uplo, -1))
\* upper and lower (with the diagonal counted once) partition the full tile
TrianglesPartition == IsSet(c) =>
    /\ Region(c.m, c.n, "upper", 1) \cup Region(c.m, c.n, "lower", 0) = Region(c.m, c.n, "full", 1)
    /\ Region(c.m, c.n, "upper", 1) \cap Region(c.m, c.n, "lower", 0) = {}
Emit == IsSet(c) => PrintT(<<"VH", ToJson(c)>>)
=============================================================================
