SPECIFICATION TSpec
CONSTANTS MaxP = 1
 MaxQ = 1
 MaxK = 1
 MaxLMT = 1
 MaxLNT = 1
 MaxOff = 0
 Waive = {"storedkeys"}
INVARIANT AcceptExit
CHECK_DEADLOCK FALSE
