---------------------------- MODULE BlockCyclicTrace ----------------------------
(* Trace validation for C20.  harness/blockcyclic/bc_dump.c instantiates one configuration of a distribution once
   per rank and logs
     {"e":"config","kind":K,...,"nodes":N}      the parameters handed to the real init function
     {"e":"view","rank":r,...,"tiles":[...]}     the tables seen by rank r (r = 0, 1, .., N-1), see BlockCyclic.tla
     {"e":"end"}
   Every view must satisfy the per-view predicates when it is logged; at "end" the views of all ranks must
   agree and give every tile exactly one valid owner.  Waive is a set of predicate names NOT demanded (empty
   for the verdict; used only to classify a rejection as belonging to a known finding).                     *)
EXTENDS BlockCyclic, IOUtils
CONSTANT Waive
VARIABLES views, nodes, l
TraceLog == ndJsonDeserialize(IOEnv.TRACE)
Ev == TraceLog[l]
IsEv(e) == l <= Len(TraceLog) /\ Ev.e = e /\ l' = l + 1
Demand(name, pred) == name \in Waive \/ pred

ViewOK(v) == /\ Demand("wellformed", ViewWellFormed(v))
             /\ Demand("owners", OwnersValid(v))
             /\ Demand("slots", SlotsInjective(v))
             /\ Demand("memory", MemoryDisjoint(v))
             /\ Demand("keys", KeysRoundTrip(v))
             /\ Demand("storedkeys", StoredKeysRoundTrip(v))
             /\ Demand("vpid", VpidInRange(v))
TablesOK(vs, n) == /\ AllRanksPresent(vs, n)
                   /\ SameTiles(vs)
                   /\ Demand("oneowner", ExactlyOneOwner(vs))
                   /\ Demand("agree", ViewsAgree(vs))

TInit == views = <<>> /\ nodes = 0 /\ cfg = NoCfg /\ l = 1
TReset == IsEv("Reset") /\ views' = <<>> /\ nodes' = 0 /\ cfg' = NoCfg
\* parsec_matrix_block_cyclic_init / _sym_block_cyclic_init / _band_init / _tabular_init / parsec_vector_two_dim_cyclic_init
TConfig == /\ IsEv("config") /\ nodes = 0
           /\ Ev.nodes >= 1
           /\ nodes' = Ev.nodes /\ views' = <<>> /\ UNCHANGED cfg
\* the tables of the next rank
TView == /\ IsEv("view") /\ nodes > 0
         /\ Ev.rank = Len(views) /\ Ev.rank < nodes /\ Ev.nodes = nodes
         /\ ViewOK(Ev) = TRUE          \* (= TRUE: evaluated as an expression, not expanded as an action by TLC)
         /\ views' = Append(views, Ev) /\ UNCHANGED <<nodes, cfg>>
TEnd == /\ IsEv("end") /\ nodes > 0
        /\ TablesOK(views, nodes) = TRUE
        /\ nodes' = 0 /\ views' = <<>> /\ UNCHANGED cfg
TNext == TReset \/ TConfig \/ TView \/ TEnd
TSpec == TInit /\ [][TNext]_<<views, nodes, cfg, l>>
AcceptExit == (l > Len(TraceLog)) => (PrintT("VERIF-ACCEPTED") /\ TLCSet("exit", TRUE))
=================================================================================
